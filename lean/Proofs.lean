-- Helper lemmas used by the property theorems.
import Proofs.EarlyStop
import Proofs.SkyEstimate
