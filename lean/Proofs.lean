-- Helper lemmas used by the property theorems.
import Proofs.EarlyStop
import Proofs.SkyEstimate
import Proofs.RealScalar
import Proofs.Names
import Proofs.ProbReal
import Proofs.RenderReal
import Proofs.RenderLinear
import Proofs.RenderDC
import Proofs.RenderTab
import Proofs.RenderConv
