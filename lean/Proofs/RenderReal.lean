/-
Real-number reading of the render model: list/range sums as `Finset` sums,
complex pairs as Mathlib's `ℂ`.
-/
import Proofs.ProbReal
import PysersicModel.Render.Tab
import Mathlib.Algebra.BigOperators.Group.Finset.Basic
import Mathlib.Algebra.BigOperators.Ring.Finset
import Mathlib.Analysis.SpecialFunctions.Trigonometric.Basic
import Mathlib.Analysis.Complex.Trigonometric
import Mathlib.Tactic.Ring
import Mathlib.Tactic.FieldSimp
import Mathlib.Tactic.Linarith
import Mathlib.Tactic.Positivity

namespace Pysersic.Render
open Pysersic Pysersic.Prob Real

theorem sumList_real (l : List ℝ) : sumList l = l.sum := by
  induction l with
  | nil => simp [sumList]
  | cons a t ih => simp [sumList, ih]

theorem sumN_real (n : ℕ) (f : ℕ → ℝ) : sumN n f = ∑ i ∈ Finset.range n, f i := by
  unfold sumN
  rw [sumList_real]
  induction n with
  | zero => simp
  | succ k ih => rw [List.range_succ, List.map_append, List.sum_append, ih, Finset.sum_range_succ]; simp

/-- pairs as complex numbers -/
def Cx.toC (z : Cx ℝ) : ℂ := ⟨z.re, z.im⟩

@[simp] theorem Cx.toC_re (z : Cx ℝ) : z.toC.re = z.re := rfl
@[simp] theorem Cx.toC_im (z : Cx ℝ) : z.toC.im = z.im := rfl

theorem Cx.ext' {a b : Cx ℝ} (h1 : a.re = b.re) (h2 : a.im = b.im) : a = b := by
  cases a; cases b; simp_all

theorem Cx.toC_inj {a b : Cx ℝ} (h : a.toC = b.toC) : a = b := by
  apply Cx.ext'
  · simpa using congrArg Complex.re h
  · simpa using congrArg Complex.im h

@[simp] theorem Cx.toC_zero : (Cx.zero : Cx ℝ).toC = 0 := by
  apply Complex.ext <;> simp [Cx.zero]

@[simp] theorem Cx.toC_add (a b : Cx ℝ) : (Cx.add a b).toC = a.toC + b.toC := by
  apply Complex.ext <;> simp [Cx.add]

@[simp] theorem Cx.toC_mul (a b : Cx ℝ) : (Cx.mul a b).toC = a.toC * b.toC := by
  apply Complex.ext <;> simp [Cx.mul]

@[simp] theorem Cx.toC_smul (k : ℝ) (a : Cx ℝ) : (Cx.smul k a).toC = (k : ℂ) * a.toC := by
  apply Complex.ext <;> simp [Cx.smul]

theorem Cx.toC_cis (φ : ℝ) : (Cx.cis φ).toC = Complex.exp (φ * Complex.I) := by
  apply Complex.ext
  · simp [Cx.cis, Complex.exp_ofReal_mul_I_re]
  · simp [Cx.cis, Complex.exp_ofReal_mul_I_im]

theorem Cx.toC_expc (a φ : ℝ) : (Cx.expc a φ).toC = Complex.exp (a + φ * Complex.I) := by
  rw [Complex.exp_add, ← Cx.toC_cis]
  apply Complex.ext
  · simp [Cx.expc, Cx.cis, Complex.exp_ofReal_re, Complex.exp_ofReal_im]
  · simp [Cx.expc, Cx.cis, Complex.exp_ofReal_re, Complex.exp_ofReal_im]

theorem sumCx_toC (l : List (Cx ℝ)) : (sumCx l).toC = (l.map Cx.toC).sum := by
  induction l with
  | nil => simp [sumCx]
  | cons a t ih => simp [sumCx, ih]

theorem sumNCx_toC (n : ℕ) (f : ℕ → Cx ℝ) : (sumNCx n f).toC = ∑ i ∈ Finset.range n, (f i).toC := by
  unfold sumNCx
  rw [sumCx_toC]
  induction n with
  | zero => simp
  | succ k ih =>
    rw [List.range_succ, List.map_append, List.map_append, List.sum_append, ih, Finset.sum_range_succ]
    simp

/-- the real part of a pair read through `toC` -/
theorem Cx.re_eq (z : Cx ℝ) : z.re = z.toC.re := rfl

@[simp] theorem rotAngle_real (θ : ℝ) : rotAngle θ = θ + π / 2 := by simp [rotAngle]

theorem cos_rot (θ : ℝ) : Real.cos (θ + π / 2) = -Real.sin θ := Real.cos_add_pi_div_two θ
theorem sin_rot (θ : ℝ) : Real.sin (θ + π / 2) = Real.cos θ := Real.sin_add_pi_div_two θ

end Pysersic.Render
