/-
The scalar instance at `ℝ`: the generic model definitions, instantiated here,
are what the property theorems are about.
-/
import PysersicModel.Scalar
import Mathlib.Analysis.SpecialFunctions.Gamma.Basic
import Mathlib.Analysis.SpecialFunctions.Pow.Real
import Mathlib.Analysis.SpecialFunctions.Trigonometric.Basic
import Mathlib.Analysis.SpecialFunctions.Log.Basic
import Mathlib.Analysis.SpecialFunctions.Sqrt
import Mathlib.Analysis.SpecialFunctions.Complex.Arg
import Mathlib.MeasureTheory.Integral.Bochner.Basic
import Mathlib.MeasureTheory.Measure.Lebesgue.Basic

namespace Pysersic

/-- standard normal CDF, as the integral of the density -/
noncomputable def Phi (x : ℝ) : ℝ :=
  ∫ t in Set.Iic x, Real.exp (-t ^ 2 / 2) / Real.sqrt (2 * Real.pi)

noncomputable instance : Transc ℝ where
  exp := Real.exp
  log := Real.log
  sqrt := Real.sqrt
  sin := Real.sin
  cos := Real.cos
  rpow := fun x y => x ^ y
  lgamma := fun x => Real.log (Real.Gamma x)
  ncdf := Phi
  floor := fun x => (⌊x⌋ : ℝ)
  atan2 := fun y x => Complex.arg ⟨x, y⟩
  pi := Real.pi

@[simp] theorem Transc.exp_real (x : ℝ) : Transc.exp x = Real.exp x := rfl
@[simp] theorem Transc.log_real (x : ℝ) : Transc.log x = Real.log x := rfl
@[simp] theorem Transc.sqrt_real (x : ℝ) : Transc.sqrt x = Real.sqrt x := rfl
@[simp] theorem Transc.sin_real (x : ℝ) : Transc.sin x = Real.sin x := rfl
@[simp] theorem Transc.cos_real (x : ℝ) : Transc.cos x = Real.cos x := rfl
@[simp] theorem Transc.rpow_real (x y : ℝ) : Transc.rpow x y = x ^ y := rfl
@[simp] theorem Transc.lgamma_real (x : ℝ) : Transc.lgamma x = Real.log (Real.Gamma x) := rfl
@[simp] theorem Transc.ncdf_real (x : ℝ) : Transc.ncdf x = Phi x := rfl
@[simp] theorem Transc.floor_real (x : ℝ) : Transc.floor x = (⌊x⌋ : ℝ) := rfl
@[simp] theorem Transc.pi_real : (Transc.pi : ℝ) = Real.pi := rfl

@[simp] theorem dec_real (p q : ℕ) : (dec p q : ℝ) = (p : ℝ) / (q : ℝ) := rfl

theorem Q.to_real (q : Q) : (q.to : ℝ) = (q.num : ℝ) / (q.den : ℝ) := by
  unfold Q.to
  cases h : q.num with
  | ofNat n => simp
  | negSucc n =>
    simp only [Int.cast_negSucc]
    push_cast
    ring

end Pysersic
