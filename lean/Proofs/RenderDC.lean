/-
The zero-frequency (DC) theorem of the synthesis model: the sum of all pixels of
`irfft2(G)` is the real part of `G(0,0)` — every other term of the synthesis sum
is a complete sum over roots of unity and vanishes.  Hence total flux is fixed by
the zero-frequency term alone, whatever the source position (aliasing wraps
light around the frame but conserves it).
-/
import Proofs.RenderLinear
import Mathlib.Analysis.SpecialFunctions.Complex.Log
import Mathlib.Algebra.Ring.GeomSum

namespace Pysersic.Render
open Pysersic Pysersic.Prob Real

/-- `exp(2πi·k/N)` -/
noncomputable def rootE (N : ℕ) (k : ℕ) : ℂ := Complex.exp ((2 * π * k / N : ℝ) * Complex.I)

theorem rootE_mul (N a b : ℕ) : rootE N (a * b) = rootE N a ^ b := by
  unfold rootE
  rw [← Complex.exp_nat_mul]
  congr 1
  push_cast
  ring

theorem rootE_add (N a b : ℕ) : rootE N (a + b) = rootE N a * rootE N b := by
  unfold rootE
  rw [← Complex.exp_add]
  congr 1
  push_cast
  ring

theorem rootE_pow_N (N v : ℕ) (hN : 0 < N) : rootE N v ^ N = 1 := by
  unfold rootE
  rw [← Complex.exp_nat_mul]
  have hNr : (N : ℂ) ≠ 0 := by exact_mod_cast hN.ne'
  have : (N : ℂ) * (((2 * π * v / N : ℝ) : ℂ) * Complex.I) = (v : ℂ) * (2 * π * Complex.I) := by
    push_cast
    field_simp
  rw [this]
  exact Complex.exp_nat_mul_two_pi_mul_I v

theorem rootE_ne_one (N v : ℕ) (hv0 : 0 < v) (hvN : v < N) : rootE N v ≠ 1 := by
  unfold rootE
  intro h
  rw [Complex.exp_eq_one_iff] at h
  obtain ⟨n, hn⟩ := h
  have hN : (0 : ℝ) < N := by exact_mod_cast (lt_trans hv0 hvN)
  have hpi : (2 * π : ℝ) ≠ 0 := by positivity
  -- compare imaginary parts: 2π v / N = n · 2π
  have him := congrArg Complex.im hn
  simp only [Complex.mul_im, Complex.ofReal_re, Complex.I_im, Complex.ofReal_im, Complex.I_re, mul_one, mul_zero,
    add_zero] at him
  have him2 : (2 * π * v / N : ℝ) = n * (2 * π) := by
    simpa [Complex.mul_im, Complex.mul_re] using him
  have hv : (v : ℝ) = n * N := by
    field_simp at him2
    nlinarith [him2]
  have hvz : (v : ℤ) = n * N := by exact_mod_cast hv
  have hnpos : 0 < n := by
    by_contra hneg
    push_neg at hneg
    have : (v : ℤ) ≤ 0 := by rw [hvz]; exact mul_nonpos_of_nonpos_of_nonneg hneg (by positivity)
    omega
  have : (N : ℤ) ≤ v := by rw [hvz]; nlinarith
  omega

/-- complete sum over the N-th roots of unity -/
theorem sum_rootE (N v : ℕ) (hN : 0 < N) (hvN : v < N) :
    ∑ r ∈ Finset.range N, rootE N (v * r) = if v = 0 then (N : ℂ) else 0 := by
  by_cases hv : v = 0
  · subst hv; simp [rootE]
  · simp only [hv, if_false, rootE_mul]
    have hne := rootE_ne_one N v (Nat.pos_of_ne_zero hv) hvN
    have h := geom_sum_mul (rootE N v) N
    rw [rootE_pow_N N v hN, sub_self] at h
    exact (mul_eq_zero.mp h).resolve_right (sub_ne_zero.mpr hne)

theorem Cx.cis_toC_ang (N k : ℕ) : (Cx.cis (ang N k : ℝ)).toC = rootE N k := by
  rw [Cx.toC_cis]
  unfold rootE ang
  simp

/-- double sum of the synthesis kernel over the whole frame -/
theorem sum_kernel (N v u : ℕ) (hN : 0 < N) (hv : v < N) (hu : u < N) :
    ∑ r ∈ Finset.range N, ∑ c ∈ Finset.range N, rootE N (v * r + u * c)
      = if v = 0 ∧ u = 0 then (N : ℂ) * N else 0 := by
  simp only [rootE_add]
  have : ∀ r, ∑ c ∈ Finset.range N, rootE N (v * r) * rootE N (u * c)
      = rootE N (v * r) * ∑ c ∈ Finset.range N, rootE N (u * c) := by
    intro r; rw [Finset.mul_sum]
  simp only [this, ← Finset.sum_mul, sum_rootE N v hN hv, sum_rootE N u hN hu]
  by_cases h1 : v = 0 <;> by_cases h2 : u = 0 <;> simp [h1, h2]

/-- total of an image over the N×N frame -/
noncomputable def imgSum (N : ℕ) (A : Img ℝ) : ℝ := ∑ r ∈ Finset.range N, ∑ c ∈ Finset.range N, A r c

theorem imgSum_iadd (N : ℕ) (A B : Img ℝ) : imgSum N (iadd A B) = imgSum N A + imgSum N B := by
  simp only [imgSum, iadd, Finset.sum_add_distrib]

theorem imgSum_ismul (N : ℕ) (k : ℝ) (A : Img ℝ) : imgSum N (ismul k A) = k * imgSum N A := by
  simp only [imgSum, ismul, Finset.mul_sum]

/-- one frequency summed over the whole frame -/
theorem sum_term (N v u : ℕ) (hN : 0 < N) (hv : v < N) (hu : u < N) (g : ℂ) (w : ℝ) :
    ∑ r ∈ Finset.range N, ∑ c ∈ Finset.range N, w * (g * rootE N (v * r + u * c)).re
      = if v = 0 ∧ u = 0 then w * g.re * ((N : ℝ) * N) else 0 := by
  have h1 : ∀ r, ∑ c ∈ Finset.range N, w * (g * rootE N (v * r + u * c)).re
      = w * (g * ∑ c ∈ Finset.range N, rootE N (v * r + u * c)).re := by
    intro r
    rw [Finset.mul_sum, Complex.re_sum, Finset.mul_sum]
  simp only [h1]
  have h2 : ∑ r ∈ Finset.range N, w * (g * ∑ c ∈ Finset.range N, rootE N (v * r + u * c)).re
      = w * (g * ∑ r ∈ Finset.range N, ∑ c ∈ Finset.range N, rootE N (v * r + u * c)).re := by
    rw [Finset.mul_sum, Complex.re_sum, Finset.mul_sum]
  rw [h2, sum_kernel N v u hN hv hu]
  by_cases h : v = 0 ∧ u = 0
  · simp only [h, and_self, if_true]
    have : (g * ((N : ℂ) * N)).re = g.re * ((N : ℝ) * N) := by
      rw [show ((N : ℂ) * N) = (((N : ℝ) * N : ℝ) : ℂ) by push_cast; ring, Complex.re_mul_ofReal]
    rw [this]; ring
  · simp [h]

/-- **DC theorem**: the pixels of `irfft2(G)` sum to `Re G(0,0)` -/
theorem synth_dc (N : ℕ) (hN : 0 < N) (G : FImg ℝ) : imgSum N (synth N G) = (G 0 0).re := by
  have hNr : (N : ℝ) ≠ 0 := by exact_mod_cast hN.ne'
  have hW : ∀ u ∈ Finset.range (halfW N), u < N := by
    intro u hu
    rw [Finset.mem_range, halfW] at hu
    omega
  simp only [imgSum, synth, sumN_real]
  -- rewrite every term through ℂ
  have step : ∀ r c : ℕ,
      (∑ u ∈ Finset.range (halfW N), synthW N u *
          ∑ v ∈ Finset.range N, (Cx.mul (G v u) (Cx.cis (ang N (v * r + u * c)))).re)
      = ∑ u ∈ Finset.range (halfW N), ∑ v ∈ Finset.range N,
          synthW N u * ((G v u).toC * rootE N (v * r + u * c)).re := by
    intro r c
    apply Finset.sum_congr rfl; intro u _
    rw [Finset.mul_sum]
    apply Finset.sum_congr rfl; intro v _
    rw [Cx.re_eq, Cx.toC_mul, Cx.cis_toC_ang]
  simp only [step, ← Finset.sum_div]
  -- exchange the sums: frequencies outside, pixels inside
  have e1 : ∀ r : ℕ,
      ∑ c ∈ Finset.range N, ∑ u ∈ Finset.range (halfW N), ∑ v ∈ Finset.range N,
          synthW N u * ((G v u).toC * rootE N (v * r + u * c)).re
      = ∑ u ∈ Finset.range (halfW N), ∑ v ∈ Finset.range N, ∑ c ∈ Finset.range N,
          synthW N u * ((G v u).toC * rootE N (v * r + u * c)).re := by
    intro r
    rw [Finset.sum_comm]
    apply Finset.sum_congr rfl; intro u _
    rw [Finset.sum_comm]
  have e2 :
      ∑ r ∈ Finset.range N, ∑ u ∈ Finset.range (halfW N), ∑ v ∈ Finset.range N, ∑ c ∈ Finset.range N,
          synthW N u * ((G v u).toC * rootE N (v * r + u * c)).re
      = ∑ u ∈ Finset.range (halfW N), ∑ v ∈ Finset.range N, ∑ r ∈ Finset.range N, ∑ c ∈ Finset.range N,
          synthW N u * ((G v u).toC * rootE N (v * r + u * c)).re := by
    rw [Finset.sum_comm]
    apply Finset.sum_congr rfl; intro u _
    rw [Finset.sum_comm]
  simp only [e1]
  rw [e2]
  have e3 : ∑ u ∈ Finset.range (halfW N), ∑ v ∈ Finset.range N, ∑ r ∈ Finset.range N, ∑ c ∈ Finset.range N,
          synthW N u * ((G v u).toC * rootE N (v * r + u * c)).re
      = ∑ u ∈ Finset.range (halfW N), ∑ v ∈ Finset.range N,
          (if v = 0 ∧ u = 0 then synthW N u * (G v u).toC.re * ((N : ℝ) * N) else 0) := by
    apply Finset.sum_congr rfl; intro u hu
    apply Finset.sum_congr rfl; intro v hv
    exact sum_term N v u hN (Finset.mem_range.mp hv) (hW u hu) _ _
  rw [e3]
  rw [Finset.sum_eq_single 0]
  · rw [Finset.sum_eq_single 0]
    · simp only [and_self, if_true, synthW, one_real, Cx.toC_re]
      field_simp
    · intro v _ hv; simp [hv]
    · intro h; exfalso; apply h; rw [Finset.mem_range]; exact hN
  · intro u _ hu
    apply Finset.sum_eq_zero; intro v _
    simp [hu]
  · intro h; exfalso; apply h; rw [Finset.mem_range, halfW]; omega

end Pysersic.Render
