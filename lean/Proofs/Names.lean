/-
Lemmas about Python substring tests on names built from underscore-separated
segments.  The key fact (`hasSub_joinU`): a pattern that contains no underscore
occurs in `seg₁_seg₂_…_segₖ` iff it occurs in one of the segments — it cannot
straddle an underscore.
-/
import PysersicModel.IO.Names
import Mathlib.Tactic.Cases
import Mathlib.Tactic.Tauto

namespace Pysersic.Names

theorem hasSub_nil (pat : Str) : hasSub pat [] = pat.isEmpty := rfl

theorem hasSub_cons (pat : Str) (c : Char) (t : Str) :
    hasSub pat (c :: t) = (pat.isPrefixOf (c :: t) || hasSub pat t) := rfl

/-- a prefix that avoids `'_'` of `a ++ '_' :: b` is a prefix of `a` -/
theorem isPrefixOf_append_us (pat a b : Str) (h : '_' ∉ pat) :
    pat.isPrefixOf (a ++ '_' :: b) = pat.isPrefixOf a := by
  induction pat generalizing a with
  | nil => simp
  | cons p ps ih =>
    have hp : p ≠ '_' := fun e => h (by simp [e])
    have hps : '_' ∉ ps := fun e => h (by simp [e])
    cases a with
    | nil => simp [List.isPrefixOf, hp]
    | cons x xs =>
      simp only [List.cons_append, List.isPrefixOf]
      rw [ih xs hps]

/-- `hasSub` over a concatenation at an underscore, for underscore-free patterns -/
theorem hasSub_append_us (pat a b : Str) (h : '_' ∉ pat) (hne : pat ≠ []) :
    hasSub pat (a ++ '_' :: b) = (hasSub pat a || hasSub pat b) := by
  induction a with
  | nil =>
    obtain ⟨p, ps, rfl⟩ := List.exists_cons_of_ne_nil hne
    have hp : p ≠ '_' := fun e => h (by simp [e])
    simp [hasSub, List.isPrefixOf, hp]
  | cons x xs ih =>
    simp only [List.cons_append, hasSub_cons]
    rw [ih]
    have := isPrefixOf_append_us pat (x :: xs) b h
    simp only [List.cons_append] at this
    rw [this, Bool.or_assoc]

/-- **no straddling**: an underscore-free, non-empty pattern occurs in the joined
name iff it occurs in one of the segments -/
theorem hasSub_joinU (pat : Str) (h : '_' ∉ pat) (hne : pat ≠ []) :
    ∀ segs : List Str, hasSub pat (joinU segs) = segs.any (hasSub pat)
  | [] => by
    obtain ⟨p, ps, rfl⟩ := List.exists_cons_of_ne_nil hne
    simp [joinU, hasSub]
  | [s] => by simp [joinU]
  | s :: t :: rest => by
    have ih := hasSub_joinU pat h hne (t :: rest)
    simp only [joinU] at ih ⊢
    rw [hasSub_append_us pat s _ h hne, ih]
    simp

/-- if `pat` occurs in `s` then so does every substring of `pat` -/
theorem isPrefixOf_of_isPrefixOf_append (p q s : Str) (h : (p ++ q).isPrefixOf s = true) :
    p.isPrefixOf s = true := by
  induction p generalizing s with
  | nil => simp
  | cons a as ih =>
    cases s with
    | nil => simp [List.isPrefixOf] at h
    | cons b bs =>
      simp only [List.cons_append, List.isPrefixOf, Bool.and_eq_true] at h ⊢
      exact ⟨h.1, ih bs h.2⟩

theorem hasSub_of_hasSub_append_right (p q s : Str) (h : hasSub (p ++ q) s = true) :
    hasSub p s = true := by
  induction s with
  | nil =>
    simp only [hasSub, List.isEmpty_iff] at h ⊢
    simp at h; exact h.1
  | cons c t ih =>
    simp only [hasSub_cons, Bool.or_eq_true] at h ⊢
    rcases h with h | h
    · exact Or.inl (isPrefixOf_of_isPrefixOf_append p q _ h)
    · exact Or.inr (ih h)

/-- drop one leading pattern character: if `c :: p` occurs then `p` occurs -/
theorem hasSub_of_hasSub_cons (c : Char) (p s : Str) (h : hasSub (c :: p) s = true) :
    hasSub p s = true := by
  induction s with
  | nil => simp [hasSub] at h
  | cons x t ih =>
    simp only [hasSub_cons, Bool.or_eq_true] at h
    rcases h with h | h
    · -- (c :: p) prefix of x :: t  ⇒ p prefix of t ⇒ p occurs in t
      simp only [List.isPrefixOf, Bool.and_eq_true] at h
      have : hasSub p t = true := by
        cases t with
        | nil =>
          cases p with
          | nil => rfl
          | cons _ _ => simp [List.isPrefixOf] at h
        | cons y ys => simp only [hasSub_cons, Bool.or_eq_true]; exact Or.inl h.2
      simp only [hasSub_cons, Bool.or_eq_true]; exact Or.inr this
    · simp only [hasSub_cons, Bool.or_eq_true]; exact Or.inr (ih h)

theorem hasSub_of_hasSub_append_left (p q s : Str) (h : hasSub (p ++ q) s = true) :
    hasSub q s = true := by
  induction p with
  | nil => simpa using h
  | cons c p ih => exact ih (hasSub_of_hasSub_cons c _ s h)

/-- a suffix occurs -/
theorem hasSub_append_self_right (pre pat : Str) : hasSub pat (pre ++ pat) = true := by
  induction pre with
  | nil =>
    cases pat with
    | nil => rfl
    | cons c t => simp [hasSub_cons]
  | cons x xs ih => simp only [List.cons_append, hasSub_cons, ih, Bool.or_true]

/-- occurrence is preserved by extending the string on the right -/
theorem isPrefixOf_append_right (pat s post : Str) (h : pat.isPrefixOf s = true) :
    pat.isPrefixOf (s ++ post) = true := by
  induction pat generalizing s with
  | nil => simp
  | cons p ps ih =>
    cases s with
    | nil => simp [List.isPrefixOf] at h
    | cons x xs =>
      simp only [List.cons_append, List.isPrefixOf, Bool.and_eq_true] at h ⊢
      exact ⟨h.1, ih xs h.2⟩

theorem hasSub_append_right (pat s post : Str) (h : hasSub pat s = true) :
    hasSub pat (s ++ post) = true := by
  induction s with
  | nil =>
    simp only [hasSub, List.isEmpty_iff] at h
    subst h
    cases post <;> simp [hasSub]
  | cons x xs ih =>
    simp only [List.cons_append, hasSub_cons, Bool.or_eq_true] at h ⊢
    rcases h with h | h
    · left
      have := isPrefixOf_append_right pat (x :: xs) post h
      simpa using this
    · exact Or.inr (ih h)

theorem hasSub_append_left (pat pre s : Str) (h : hasSub pat s = true) :
    hasSub pat (pre ++ s) = true := by
  induction pre with
  | nil => simpa using h
  | cons x xs ih => simp only [List.cons_append, hasSub_cons, ih, Bool.or_true]

theorem joinU_cons_cons (a b : Str) (r : List Str) : joinU (a :: b :: r) = a ++ '_' :: joinU (b :: r) := rfl

/-- joining two non-empty segment lists puts one underscore between them -/
theorem joinU_append (l r : List Str) (hl : l ≠ []) (hr : r ≠ []) :
    joinU (l ++ r) = joinU l ++ '_' :: joinU r := by
  induction l with
  | nil => exact absurd rfl hl
  | cons a t ih =>
    cases t with
    | nil =>
      obtain ⟨b, r', rfl⟩ := List.exists_cons_of_ne_nil hr
      simp [joinU]
    | cons b t' =>
      have := ih (by simp)
      simp only [List.cons_append] at this ⊢
      rw [joinU_cons_cons, this, joinU_cons_cons]
      simp

theorem splitU_ne_nil (s : Str) : splitU s ≠ [] := by
  cases s with
  | nil => simp [splitU]
  | cons c t =>
    simp only [splitU]
    split
    · simp
    · split <;> simp

end Pysersic.Names
