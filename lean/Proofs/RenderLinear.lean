/-
Linearity of the scene assembly over ℝ: `rfft2`, `synth` (irfft2), `conv_img`,
`conv_fft` and `combine_scene` are additive and homogeneous in the rendered
triple, for every image size and PSF transform.
-/
import Proofs.RenderReal

namespace Pysersic.Render
open Pysersic Pysersic.Prob Real

/-- scalar multiples of images / triples -/
def ismul (k : ℝ) (A : Img ℝ) : Img ℝ := fun r c => k * A r c
def fsmul (k : ℝ) (A : FImg ℝ) : FImg ℝ := fun v u => Cx.smul k (A v u)
def Triple.smul (k : ℝ) (t : Triple ℝ) : Triple ℝ := ⟨fsmul k t.F, ismul k t.int, ismul k t.obs⟩

theorem Cx.add_re (a b : Cx ℝ) : (Cx.add a b).re = a.re + b.re := rfl
theorem Cx.add_im (a b : Cx ℝ) : (Cx.add a b).im = a.im + b.im := rfl
theorem Cx.mul_re (a b : Cx ℝ) : (Cx.mul a b).re = a.re * b.re - a.im * b.im := rfl
theorem Cx.mul_im (a b : Cx ℝ) : (Cx.mul a b).im = a.re * b.im + a.im * b.re := rfl
theorem Cx.smul_re (k : ℝ) (a : Cx ℝ) : (Cx.smul k a).re = k * a.re := rfl
theorem Cx.smul_im (k : ℝ) (a : Cx ℝ) : (Cx.smul k a).im = k * a.im := rfl
theorem Cx.zero_re : (Cx.zero : Cx ℝ).re = 0 := by simp [Cx.zero]
theorem Cx.zero_im : (Cx.zero : Cx ℝ).im = 0 := by simp [Cx.zero]

theorem Cx.mul_add_left (a b c : Cx ℝ) : Cx.mul (Cx.add a b) c = Cx.add (Cx.mul a c) (Cx.mul b c) := by
  apply Cx.ext' <;> simp only [Cx.mul_re, Cx.mul_im, Cx.add_re, Cx.add_im] <;> ring

theorem Cx.mul_smul_left (k : ℝ) (a c : Cx ℝ) : Cx.mul (Cx.smul k a) c = Cx.smul k (Cx.mul a c) := by
  apply Cx.ext' <;> simp only [Cx.mul_re, Cx.mul_im, Cx.smul_re, Cx.smul_im] <;> ring

theorem Cx.zero_mul (c : Cx ℝ) : Cx.mul Cx.zero c = Cx.zero := by
  apply Cx.ext' <;> simp [Cx.mul_re, Cx.mul_im, Cx.zero]

theorem sumNCx_re (n : ℕ) (f : ℕ → Cx ℝ) : (sumNCx n f).re = ∑ i ∈ Finset.range n, (f i).re := by
  have := congrArg Complex.re (sumNCx_toC n f)
  simpa using this

theorem sumNCx_im (n : ℕ) (f : ℕ → Cx ℝ) : (sumNCx n f).im = ∑ i ∈ Finset.range n, (f i).im := by
  have := congrArg Complex.im (sumNCx_toC n f)
  simpa using this

/-! ### fmul -/

theorem fmul_add (A B P : FImg ℝ) : fmul (fadd A B) P = fadd (fmul A P) (fmul B P) := by
  funext v u; simp [fmul, fadd, Cx.mul_add_left]

theorem fmul_smul (k : ℝ) (A P : FImg ℝ) : fmul (fsmul k A) P = fsmul k (fmul A P) := by
  funext v u; simp [fmul, fsmul, Cx.mul_smul_left]

theorem fmul_zero (P : FImg ℝ) : fmul fzero P = fzero := by
  funext v u; simp [fmul, fzero, Cx.zero_mul]

/-! ### synth (irfft2) -/

theorem synth_add (N : ℕ) (A B : FImg ℝ) : synth N (fadd A B) = iadd (synth N A) (synth N B) := by
  funext r c
  simp only [synth, iadd, sumN_real, fadd, Cx.mul_add_left, Cx.add_re]
  rw [← add_div]
  congr 1
  rw [← Finset.sum_add_distrib]
  apply Finset.sum_congr rfl
  intro u _
  rw [Finset.sum_add_distrib, mul_add]

theorem synth_smul (N : ℕ) (k : ℝ) (A : FImg ℝ) : synth N (fsmul k A) = ismul k (synth N A) := by
  funext r c
  simp only [synth, ismul, sumN_real, fsmul, Cx.mul_smul_left, Cx.smul_re]
  rw [← mul_div_assoc]
  congr 1
  rw [Finset.mul_sum]
  apply Finset.sum_congr rfl
  intro u _
  rw [← Finset.mul_sum]
  ring

theorem synth_zero (N : ℕ) : synth N (fzero : FImg ℝ) = izero := by
  funext r c
  simp [synth, izero, sumN_real, fzero, Cx.zero_mul, Cx.zero_re]

/-! ### rfft2 -/

theorem rfft2_add (N h w : ℕ) (A B : Img ℝ) : rfft2 N h w (iadd A B) = fadd (rfft2 N h w A) (rfft2 N h w B) := by
  funext v u
  apply Cx.ext'
  · simp only [rfft2, fadd, Cx.add_re, sumNCx_re, iadd, Cx.smul_re]
    rw [← Finset.sum_add_distrib]
    apply Finset.sum_congr rfl; intro r _
    rw [← Finset.sum_add_distrib]
    apply Finset.sum_congr rfl; intro c _
    ring
  · simp only [rfft2, fadd, Cx.add_im, sumNCx_im, iadd, Cx.smul_im]
    rw [← Finset.sum_add_distrib]
    apply Finset.sum_congr rfl; intro r _
    rw [← Finset.sum_add_distrib]
    apply Finset.sum_congr rfl; intro c _
    ring

theorem rfft2_smul (N h w : ℕ) (k : ℝ) (A : Img ℝ) : rfft2 N h w (ismul k A) = fsmul k (rfft2 N h w A) := by
  funext v u
  apply Cx.ext'
  · simp only [rfft2, fsmul, sumNCx_re, ismul, Cx.smul_re]
    rw [Finset.mul_sum]
    apply Finset.sum_congr rfl; intro r _
    rw [Finset.mul_sum]
    apply Finset.sum_congr rfl; intro c _
    ring
  · simp only [rfft2, fsmul, sumNCx_im, ismul, Cx.smul_im]
    rw [Finset.mul_sum]
    apply Finset.sum_congr rfl; intro r _
    rw [Finset.mul_sum]
    apply Finset.sum_congr rfl; intro c _
    ring

theorem rfft2_zero (N h w : ℕ) : rfft2 N h w (izero : Img ℝ) = fzero := by
  funext v u
  apply Cx.ext'
  · simp [rfft2, fzero, sumNCx_re, izero, Cx.smul_re, Cx.zero_re]
  · simp [rfft2, fzero, sumNCx_im, izero, Cx.smul_im, Cx.zero_im]

/-! ### image algebra -/

theorem iadd_assoc4 (a b c d : Img ℝ) : iadd (iadd a b) (iadd c d) = iadd (iadd a c) (iadd b d) := by
  funext r c'; simp [iadd]; ring

theorem ismul_iadd (k : ℝ) (a b : Img ℝ) : ismul k (iadd a b) = iadd (ismul k a) (ismul k b) := by
  funext r c; simp [ismul, iadd]; ring

theorem iadd_izero (a : Img ℝ) : iadd a izero = a := by funext r c; simp [iadd, izero]
theorem izero_iadd (a : Img ℝ) : iadd izero a = a := by funext r c; simp [iadd, izero]

/-! ### conv and combine_scene -/

theorem convImg_add (N : ℕ) (P : FImg ℝ) (a b : Img ℝ) :
    convImg N P (iadd a b) = iadd (convImg N P a) (convImg N P b) := by
  simp [convImg, rfft2_add, fmul_add, synth_add]

theorem convImg_smul (N : ℕ) (P : FImg ℝ) (k : ℝ) (a : Img ℝ) :
    convImg N P (ismul k a) = ismul k (convImg N P a) := by
  simp [convImg, rfft2_smul, fmul_smul, synth_smul]

theorem convImg_zero (N : ℕ) (P : FImg ℝ) : convImg N P izero = izero := by
  simp [convImg, rfft2_zero, fmul_zero, synth_zero]

theorem convFft_add (N : ℕ) (P A B : FImg ℝ) : convFft N P (fadd A B) = iadd (convFft N P A) (convFft N P B) := by
  simp [convFft, fmul_add, synth_add]

theorem convFft_smul (N : ℕ) (P : FImg ℝ) (k : ℝ) (A : FImg ℝ) : convFft N P (fsmul k A) = ismul k (convFft N P A) := by
  simp [convFft, fmul_smul, synth_smul]

theorem convFft_zero (N : ℕ) (P : FImg ℝ) : convFft N P fzero = izero := by
  simp [convFft, fmul_zero, synth_zero]

/-- `combine_scene` is additive -/
theorem combineScene_add (N : ℕ) (P : FImg ℝ) (s t : Triple ℝ) :
    combineScene N P (Triple.add s t) = iadd (combineScene N P s) (combineScene N P t) := by
  simp only [combineScene, Triple.add, convFft_add, convImg_add]
  funext r c
  simp only [iadd]
  ring

/-- `combine_scene` is homogeneous -/
theorem combineScene_smul (N : ℕ) (P : FImg ℝ) (k : ℝ) (t : Triple ℝ) :
    combineScene N P (Triple.smul k t) = ismul k (combineScene N P t) := by
  simp only [combineScene, Triple.smul, convFft_smul, convImg_smul, ismul_iadd]

theorem combineScene_zero (N : ℕ) (P : FImg ℝ) : combineScene N P Triple.zero = izero := by
  simp [combineScene, Triple.zero, convFft_zero, convImg_zero, iadd_izero]

end Pysersic.Render
