/-
The translated source of `train_numpyro_svi_early_stop` (Gen/EarlyStopProg.lean, regenerated from /repo on every run)
computes exactly what the hand-written model `EarlyStop.run` computes — for every loss history and configuration.
Core Lean only.
-/
import PysersicModel.Gen.EarlyStopProg

set_option linter.unusedSimpArgs false

namespace Pysersic.Proofs.GenEarlyStop
open Pysersic.EarlyStop Pysersic.Imp Pysersic.Gen.EarlyStopProg

/-- the part of the program state that later computation or the result can depend on -/
structure View where
  best : Nat
  cur : Nat
  bar : Loss
  recd : List Loss
  calls : Nat
  bs : Bool
  bl : Bool
  trace : List (Nat × Nat)
  init : Nat
  lr : Nat
  r : Nat

def view (s : St) : View :=
  ⟨s.best_state, s.svi_state, s.best_loss, s.losses, s.calls, s.bound_svi_state, s.bound_losses, s.trace, s.init_state,
   s.lr_cur, s.r⟩

/-- everything one pass through the body of the inner loop reads or writes that matters afterwards -/
structure Core where
  best : Nat
  cur : Nat
  bar : Loss
  recd : List Loss
  calls : Nat
  bs : Bool
  bl : Bool
  trace : List (Nat × Nat)
  init : Nat
  wait : Nat
  lr : Nat
  r : Nat

def core (s : St) : Core :=
  ⟨s.best_state, s.svi_state, s.best_loss, s.losses, s.calls, s.bound_svi_state, s.bound_losses, s.trace, s.init_state,
   s.wait_counter, s.lr_cur, s.r⟩

/-- one pass through the body of `for j in t:` — the three branches of the source's `if / elif / else` -/
theorem body_j_step (script : Nat → Loss) (P : Params) (s : St) :
    (body_j script P s).2 = (!(script s.calls).lt s.best_loss && decide (s.wait_counter ≥ P.patience)) ∧
    core (body_j script P s).1 =
      if (script s.calls).lt s.best_loss then
        ⟨s.calls + 1, s.calls + 1, script s.calls, s.losses ++ [script s.calls], s.calls + 1, true, s.bound_losses,
         s.trace ++ [(s.lr_cur, s.svi_state)], s.init_state, 0, s.lr_cur, s.r⟩
      else if s.wait_counter ≥ P.patience then
        ⟨s.best_state, s.calls + 1, s.best_loss, s.losses, s.calls + 1, true, s.bound_losses,
         s.trace ++ [(s.lr_cur, s.svi_state)], s.init_state, s.wait_counter, s.lr_cur, s.r⟩
      else
        ⟨s.best_state, s.calls + 1, s.best_loss, s.losses ++ [script s.calls], s.calls + 1, true, s.bound_losses,
         s.trace ++ [(s.lr_cur, s.svi_state)], s.init_state, s.wait_counter + 1, s.lr_cur, s.r⟩ := by
  by_cases h1 : (script s.calls).lt s.best_loss = true
  · simp [body_j, seq, Imp.ite, update, assign, brk, skip, core, h1]
  · by_cases h2 : s.wait_counter ≥ P.patience
    · simp [body_j, seq, Imp.ite, update, assign, brk, skip, core, h1, h2]
    · simp [body_j, seq, Imp.ite, update, assign, brk, skip, core, h1, h2]

/-- what is left of the state after the inner loop, as far as later computation or the result can depend on it -/
def viewOf (c : Core) (n : Nat) (e : RoundEnd) : View :=
  ⟨e.best, e.cur, e.bar, c.recd ++ e.recorded, c.calls + e.steps.length, c.bs || decide (0 < n), c.bl,
   c.trace ++ e.steps.map (fun st => (st.round, st.inState)), c.init, c.lr, c.r⟩

def innerOf (script : Nat → Loss) (P : Params) (n : Nat) (c : Core) : RoundEnd :=
  inner script P.patience c.lr n c.cur c.best c.bar c.wait c.calls

/-- the inner loop of the translated source computes `EarlyStop.inner` -/
theorem inner_sim (script : Nat → Loss) (P : Params) (n i : Nat) (s : St) :
    view (forRange (fun v s => { s with j := v }) (body_j script P) i n s) =
      viewOf (core s) n (innerOf script P n (core s)) := by
  induction n generalizing i s with
  | zero => simp [forRange, inner, innerOf, core, view, viewOf]
  | succ n ih =>
    have hs := body_j_step script P { s with j := i }
    dsimp only at hs
    obtain ⟨hb, hc⟩ := hs
    simp only [forRange]
    by_cases h1 : (script s.calls).lt s.best_loss = true
    · simp only [h1, if_true, Bool.not_true, Bool.false_and] at hb hc
      rw [hb]
      simp only [Bool.false_eq_true, if_false]
      rw [ih, hc]
      simp [viewOf, innerOf, inner, core, h1, Nat.add_assoc, Nat.add_comm 1]
    · have h1' : (script s.calls).lt s.best_loss = false := by simpa using h1
      by_cases h2 : s.wait_counter ≥ P.patience
      · simp only [h1', Bool.false_eq_true, if_false, h2, if_true, Bool.not_false, decide_true, Bool.and_self] at hb hc
        rw [hb]
        simp only [if_true]
        have : view (body_j script P { s with j := i }).1 =
            ⟨s.best_state, s.calls + 1, s.best_loss, s.losses, s.calls + 1, true, s.bound_losses,
             s.trace ++ [(s.lr_cur, s.svi_state)], s.init_state, s.lr_cur, s.r⟩ := by
          simp only [core, Core.mk.injEq] at hc
          simp [view, hc]
        simp [this, viewOf, innerOf, inner, core, h1', h2]
      · simp only [h1', Bool.false_eq_true, if_false, h2, Bool.not_false, decide_false, Bool.and_false] at hb hc
        rw [hb]
        simp only [Bool.false_eq_true, if_false]
        rw [ih, hc]
        simp [viewOf, innerOf, inner, core, h1', h2, Nat.add_assoc, Nat.add_comm 1]

/-- what one round does to the view -/
def stepView (v : View) (rc : RoundRec) : View :=
  ⟨rc.out.best, rc.out.cur, rc.out.bar, rc.out.recorded, v.calls + rc.out.steps.length, true, true,
   v.trace ++ rc.out.steps.map (fun st => (st.round, st.inState)), v.init, rc.idx, rc.idx⟩

/-- the record `EarlyStop.rounds` makes of round `k` started from the state `s` -/
def recOf (script : Nat → Loss) (P : Params) (k : Nat) (s : St) : RoundRec :=
  let bar0 := if k > 0 then Loss.pinf else s.best_loss
  ⟨k, s.best_state, bar0, s.calls, inner script P.patience k P.max_train s.best_state s.best_state bar0 0 s.calls⟩

/-- `inner_sim`, field by field (the form in which it rewrites whatever state the round's preamble leaves) -/
theorem inner_sim_proj (script : Nat → Loss) (P : Params) (n i : Nat) (s : St) :
    let t := forRange (fun v s => { s with j := v }) (body_j script P) i n s
    let w := viewOf (core s) n (innerOf script P n (core s))
    t.best_state = w.best ∧ t.svi_state = w.cur ∧ t.best_loss = w.bar ∧ t.losses = w.recd ∧ t.calls = w.calls ∧
      t.bound_svi_state = w.bs ∧ t.bound_losses = w.bl ∧ t.trace = w.trace ∧ t.init_state = w.init ∧
      t.lr_cur = w.lr ∧ t.r = w.r := by
  intro t w
  have h : view t = w := inner_sim script P n i s
  rw [← h]
  exact ⟨rfl, rfl, rfl, rfl, rfl, rfl, rfl, rfl, rfl, rfl, rfl⟩

/-- one pass through the body of `for r in range(num_round):` -/
theorem body_r_step (script : Nat → Loss) (P : Params) (k : Nat) (s : St) :
    (body_r script P { s with r := k }).2 = false ∧
    view (body_r script P { s with r := k }).1 = stepView (view s) (recOf script P k s) := by
  have i1 := fun n i s => (inner_sim_proj script P n i s).1
  have i2 := fun n i s => (inner_sim_proj script P n i s).2.1
  have i3 := fun n i s => (inner_sim_proj script P n i s).2.2.1
  have i4 := fun n i s => (inner_sim_proj script P n i s).2.2.2.1
  have i5 := fun n i s => (inner_sim_proj script P n i s).2.2.2.2.1
  have i6 := fun n i s => (inner_sim_proj script P n i s).2.2.2.2.2.1
  have i7 := fun n i s => (inner_sim_proj script P n i s).2.2.2.2.2.2.1
  have i8 := fun n i s => (inner_sim_proj script P n i s).2.2.2.2.2.2.2.1
  have i9 := fun n i s => (inner_sim_proj script P n i s).2.2.2.2.2.2.2.2.1
  have i10 := fun n i s => (inner_sim_proj script P n i s).2.2.2.2.2.2.2.2.2.1
  have i11 := fun n i s => (inner_sim_proj script P n i s).2.2.2.2.2.2.2.2.2.2
  by_cases hk : k > 0
  · simp [body_r, seq, assign, Imp.ite, loop, skip, brk, update, hk, view, stepView, recOf, viewOf, innerOf, core,
      i1, i2, i3, i4, i5, i6, i7, i8, i9, i10, i11]
  · have hk0 : k = 0 := by omega
    subst hk0
    simp [body_r, seq, assign, Imp.ite, loop, skip, brk, update, view, stepView, recOf, viewOf, innerOf, core,
      i1, i2, i3, i4, i5, i6, i7, i8, i9, i10, i11]

def cfgOf (P : Params) : Cfg := ⟨P.num_round, P.max_train, P.patience⟩

/-- the outer loop of the translated source runs `EarlyStop.rounds` -/
theorem rounds_sim (script : Nat → Loss) (P : Params) (m k : Nat) (s : St) :
    view (forRange (fun v s => { s with r := v }) (body_r script P) k m s) =
      (rounds script (cfgOf P) k m s.best_state s.best_loss s.calls).foldl stepView (view s) := by
  induction m generalizing k s with
  | zero => simp [forRange, rounds]
  | succ m ih =>
    obtain ⟨hb, hv⟩ := body_r_step script P k s
    simp only [forRange, hb, Bool.false_eq_true, if_false, rounds, List.foldl_cons]
    rw [ih]
    have hv' := hv
    simp only [view, stepView, recOf, View.mk.injEq] at hv'
    obtain ⟨h1, _, h3, _, h5, _⟩ := hv'
    rw [h1, h3, h5, hv]
    simp [recOf, cfgOf, view]

/-- folding `stepView` over the records: the calls and the trace accumulate, everything else is the last round's -/
theorem foldl_stepView (recs : List RoundRec) (v : View) :
    (recs.foldl stepView v).calls = v.calls + (recs.map fun rc => rc.out.steps.length).sum ∧
    (recs.foldl stepView v).trace = v.trace ++ recs.flatMap (fun rc => rc.out.steps.map fun st => (st.round, st.inState)) ∧
    match recs.getLast? with
    | none => recs.foldl stepView v = v
    | some rc => (recs.foldl stepView v).best = rc.out.best ∧ (recs.foldl stepView v).cur = rc.out.cur ∧
        (recs.foldl stepView v).recd = rc.out.recorded ∧ (recs.foldl stepView v).bs = true ∧
        (recs.foldl stepView v).bl = true := by
  induction recs generalizing v with
  | nil => simp
  | cons a l ih =>
    obtain ⟨hc, ht, hl⟩ := ih (stepView v a)
    refine ⟨?_, ?_, ?_⟩
    · rw [List.foldl_cons, hc]
      simp [stepView, Nat.add_assoc]
    · rw [List.foldl_cons, ht]
      simp [stepView]
    · rw [List.getLast?_cons, List.foldl_cons]
      cases hq : l.getLast? with
      | none =>
        have : l = [] := by simpa using hq
        subst this
        simp [stepView]
      | some rc =>
        rw [hq] at hl
        simpa using hl

/-- `rounds_sim`, field by field (the form in which it rewrites the returned expression) -/
theorem rounds_sim_proj (script : Nat → Loss) (P : Params) (m k : Nat) (s : St) :
    let t := forRange (fun v s => { s with r := v }) (body_r script P) k m s
    let w := (rounds script (cfgOf P) k m s.best_state s.best_loss s.calls).foldl stepView (view s)
    t.best_state = w.best ∧ t.svi_state = w.cur ∧ t.losses = w.recd ∧ t.calls = w.calls ∧
      t.bound_svi_state = w.bs ∧ t.bound_losses = w.bl ∧ t.trace = w.trace := by
  intro t w
  have h : view t = w := rounds_sim script P m k s
  rw [← h]
  exact ⟨rfl, rfl, rfl, rfl, rfl, rfl, rfl⟩

/-- `foldl_stepView` as unconditional equations -/
theorem foldl_fields (recs : List RoundRec) (v : View) :
    (recs.foldl stepView v).best = (recs.getLast?.map (·.out.best)).getD v.best ∧
    (recs.foldl stepView v).cur = (recs.getLast?.map (·.out.cur)).getD v.cur ∧
    (recs.foldl stepView v).recd = (recs.getLast?.map (·.out.recorded)).getD v.recd ∧
    (recs.foldl stepView v).bs = (v.bs || recs.getLast?.isSome) ∧
    (recs.foldl stepView v).bl = (v.bl || recs.getLast?.isSome) := by
  obtain ⟨_, _, fl⟩ := foldl_stepView recs v
  cases hq : recs.getLast? with
  | none => rw [hq] at fl; simp [fl]
  | some rc => rw [hq] at fl; simp [fl]

/-- **the translated source computes the model**: for every loss history and every configuration, the program read
from `train_numpyro_svi_early_stop` returns exactly what `EarlyStop.run` returns (`none` = NameError) -/
theorem gen_run_eq (script : Nat → Loss) (P : Params) :
    Gen.EarlyStopProg.run script P = EarlyStop.run script (cfgOf P) := by
  have r1 := fun m k s => (rounds_sim_proj script P m k s).1
  have r2 := fun m k s => (rounds_sim_proj script P m k s).2.1
  have r3 := fun m k s => (rounds_sim_proj script P m k s).2.2.1
  have r4 := fun m k s => (rounds_sim_proj script P m k s).2.2.2.1
  have r5 := fun m k s => (rounds_sim_proj script P m k s).2.2.2.2.1
  have r6 := fun m k s => (rounds_sim_proj script P m k s).2.2.2.2.2.1
  have f1 := fun recs v => (foldl_fields recs v).1
  have f2 := fun recs v => (foldl_fields recs v).2.1
  have f3 := fun recs v => (foldl_fields recs v).2.2.1
  have f4 := fun recs v => (foldl_fields recs v).2.2.2.1
  have f5 := fun recs v => (foldl_fields recs v).2.2.2.2
  have f6 := fun recs v => (foldl_stepView recs v).1
  have hnr : (cfgOf P).numRound = P.num_round := rfl
  by_cases hn : script 0 = Loss.nan
  · simp only [Gen.EarlyStopProg.run, prog, seq, update, assign, Imp.ite, skip, loop, hn, r1, r2, r3, r4, r5, r6,
      f1, f2, f3, f4, f5, f6, view, EarlyStop.run, allRounds, totalCalls, hnr, firstBar, Nat.sub_zero, beq_self_eq_true,
      if_true, Bool.false_eq_true, if_false]
    generalize rounds script (cfgOf P) 0 P.num_round 1 Loss.pinf 1 = recs
    cases recs.getLast? <;> simp [Nat.add_comm]
  · have hn' : (script 0 == Loss.nan) = false := by simpa using hn
    have hfb : firstBar (script 0) = script 0 := by cases h : script 0 <;> simp_all [firstBar]
    simp only [Gen.EarlyStopProg.run, prog, seq, update, assign, Imp.ite, skip, loop, hn', r1, r2, r3, r4, r5, r6,
      f1, f2, f3, f4, f5, f6, view, EarlyStop.run, allRounds, totalCalls, hnr, hfb, Nat.sub_zero,
      Bool.false_eq_true, if_false]
    generalize rounds script (cfgOf P) 0 P.num_round 1 (script 0) 1 = recs
    cases recs.getLast? <;> simp [Nat.add_comm]

/-- … and makes the same `update_func` calls in the same order: call 0 on the initial state with the initial learning
rate, then, round by round, every step of the model's trace with its learning-rate exponent and input state -/
theorem gen_calls_eq (script : Nat → Loss) (P : Params) :
    Gen.EarlyStopProg.calls script P =
      (0, 0) :: (allRounds script (cfgOf P)).flatMap (fun rc => rc.out.steps.map fun st => (st.round, st.inState)) := by
  have r7 := fun m k s => (rounds_sim_proj script P m k s).2.2.2.2.2.2
  have f7 := fun recs v => (foldl_stepView recs v).2.1
  have hnr : (cfgOf P).numRound = P.num_round := rfl
  by_cases hn : script 0 = Loss.nan
  · simp only [Gen.EarlyStopProg.calls, prog, seq, update, assign, Imp.ite, skip, loop, hn, r7, f7, view, allRounds, hnr,
      firstBar, Nat.sub_zero, beq_self_eq_true, if_true, Bool.false_eq_true, if_false]
    simp
  · have hn' : (script 0 == Loss.nan) = false := by simpa using hn
    have hfb : firstBar (script 0) = script 0 := by cases h : script 0 <;> simp_all [firstBar]
    simp only [Gen.EarlyStopProg.calls, prog, seq, update, assign, Imp.ite, skip, loop, hn', r7, f7, view, allRounds, hnr,
      hfb, Nat.sub_zero, Bool.false_eq_true, if_false]
    simp

end Pysersic.Proofs.GenEarlyStop
