/-
Specification vocabulary and helper lemmas for C14 (early-stopping optimiser).
Core Lean only.
-/
import PysersicModel.Opt.EarlyStop

namespace Pysersic.EarlyStop

/-! ### `<` on losses -/

theorem Loss.lt_irrefl (a : Loss) : a.lt a = false := by
  cases a <;> simp [Loss.lt]

theorem Loss.lt_trans {a b c : Loss} (h₁ : a.lt b = true) (h₂ : b.lt c = true) :
    a.lt c = true := by
  cases a <;> cases b <;> cases c <;> simp_all [Loss.lt] <;> omega

theorem Loss.ne_nan_of_lt_left {a b : Loss} (h : a.lt b = true) : a ≠ .nan := by
  cases a <;> simp_all [Loss.lt]

theorem Loss.ne_nan_of_lt_right {a b : Loss} (h : a.lt b = true) : b ≠ .nan := by
  cases a <;> cases b <;> simp_all [Loss.lt]

theorem Loss.nan_lt (b : Loss) : Loss.nan.lt b = false := by
  cases b <;> simp [Loss.lt]

theorem Loss.lt_nan (a : Loss) : a.lt .nan = false := by
  cases a <;> simp [Loss.lt]

/-- `l < bar`, `¬ x < bar`, `x` not NaN  ⇒  `l < x` (the comparable losses are totally ordered). -/
theorem Loss.lt_of_lt_of_not_lt {l bar x : Loss} (h₁ : l.lt bar = true)
    (h₂ : x.lt bar = false) (h₃ : x ≠ .nan) : l.lt x = true := by
  cases l <;> cases bar <;> cases x <;> simp_all [Loss.lt] <;> omega

/-- `¬ x < bar` and `l < bar` ⇒ `¬ x < l`. -/
theorem Loss.not_lt_of_not_lt_of_lt {l bar x : Loss} (h₁ : l.lt bar = true)
    (h₂ : x.lt bar = false) : x.lt l = false := by
  cases l <;> cases bar <;> cases x <;> simp_all [Loss.lt] <;> omega

/-! ### Specification vocabulary (all defined head-first on the chronological trace) -/

/-- every call takes the state the previous call returned, the first one takes `s` -/
def Chained : Nat → List Step → Prop
  | _, [] => True
  | s, st :: rest => st.inState = s ∧ Chained st.outState rest

/-- the state returned by the last call (or `s` if there was none) -/
def lastOut : Nat → List Step → Nat
  | s, [] => s
  | _, st :: rest => lastOut st.outState rest

/-- the steps consume `script c, script (c+1), …`, return states `c+1, c+2, …`
and all use exponent `r` -/
def Scripted (script : Nat → Loss) (r : Nat) : Nat → List Step → Prop
  | _, [] => True
  | c, st :: rest =>
    st.loss = script c ∧ st.outState = c + 1 ∧ st.round = r ∧ Scripted script r (c + 1) rest

/-- `barBefore` is the running strict minimum started at `b`, and a step is adopted
exactly when its loss is `<` that bar -/
def BarChain : Loss → List Step → Prop
  | _, [] => True
  | b, st :: rest =>
    st.barBefore = b ∧ st.adopted = st.loss.lt b ∧
      BarChain (if st.adopted then st.loss else b) rest

/-- reference: first strict running minimum of the losses below `bar`, with the
state that attained it (`b` if none did) -/
def firstMin : Nat → Loss → List Step → Nat × Loss
  | b, bar, [] => (b, bar)
  | b, bar, st :: rest =>
    if st.loss.lt bar then firstMin st.outState st.loss rest else firstMin b bar rest

/-- scanning a round with `run` = number of consecutive non-improving steps seen
so far: a non-improving step either is the round's last step or leaves the run
at most `p` long.  Hence the (p+1)-th consecutive non-improving step, if it
occurs, ends the round. -/
def PatienceOK (p : Nat) : Nat → List Step → Prop
  | _, [] => True
  | run, st :: rest =>
    if st.adopted then PatienceOK p 0 rest
    else rest = [] ∨ (run + 1 ≤ p ∧ PatienceOK p (run + 1) rest)

/-- only the last step of a round can be the breaking one -/
def BrokeOnlyLast : List Step → Prop
  | [] => True
  | st :: rest => (st.broke = true → rest = []) ∧ BrokeOnlyLast rest

/-! ### Facts about `inner`, each by induction on the iterations left -/

section inner
variable (script : Nat → Loss) (p r : Nat)

theorem inner_steps_length (fuel cur best : Nat) (bar : Loss) (wait calls : Nat) :
    (inner script p r fuel cur best bar wait calls).steps.length ≤ fuel := by
  induction fuel generalizing cur best bar wait calls with
  | zero => simp [inner]
  | succ n ih =>
    simp only [inner]
    split
    · simp; exact ih ..
    · split
      · simp
      · simp; exact ih ..

theorem inner_chained (fuel cur best : Nat) (bar : Loss) (wait calls : Nat) :
    Chained cur (inner script p r fuel cur best bar wait calls).steps := by
  induction fuel generalizing cur best bar wait calls with
  | zero => simp [inner, Chained]
  | succ n ih =>
    simp only [inner]
    split
    · exact ⟨rfl, ih ..⟩
    · split
      · simp [Chained]
      · exact ⟨rfl, ih ..⟩

theorem inner_cur (fuel cur best : Nat) (bar : Loss) (wait calls : Nat) :
    (inner script p r fuel cur best bar wait calls).cur
      = lastOut cur (inner script p r fuel cur best bar wait calls).steps := by
  induction fuel generalizing cur best bar wait calls with
  | zero => simp [inner, lastOut]
  | succ n ih =>
    simp only [inner]
    split
    · simp [lastOut]; exact ih ..
    · split
      · simp [lastOut]
      · simp [lastOut]; exact ih ..

theorem inner_scripted (fuel cur best : Nat) (bar : Loss) (wait calls : Nat) :
    Scripted script r calls (inner script p r fuel cur best bar wait calls).steps := by
  induction fuel generalizing cur best bar wait calls with
  | zero => simp [inner, Scripted]
  | succ n ih =>
    simp only [inner]
    split
    · exact ⟨rfl, rfl, rfl, ih ..⟩
    · split
      · simp [Scripted]
      · exact ⟨rfl, rfl, rfl, ih ..⟩

theorem inner_barChain (fuel cur best : Nat) (bar : Loss) (wait calls : Nat) :
    BarChain bar (inner script p r fuel cur best bar wait calls).steps := by
  induction fuel generalizing cur best bar wait calls with
  | zero => simp [inner, BarChain]
  | succ n ih =>
    simp only [inner]
    split
    · rename_i h
      exact ⟨rfl, by simp [h], by simpa using ih ..⟩
    · rename_i h
      split
      · simp [BarChain, h]
      · exact ⟨rfl, by simp [h], by simpa using ih ..⟩

theorem inner_firstMin (fuel cur best : Nat) (bar : Loss) (wait calls : Nat) :
    ((inner script p r fuel cur best bar wait calls).best,
      (inner script p r fuel cur best bar wait calls).bar)
      = firstMin best bar (inner script p r fuel cur best bar wait calls).steps := by
  induction fuel generalizing cur best bar wait calls with
  | zero => simp [inner, firstMin]
  | succ n ih =>
    simp only [inner]
    split
    · rename_i h
      simp [firstMin, h]; simpa using ih ..
    · rename_i h
      split
      · simp [firstMin, h]
      · simp [firstMin, h]; simpa using ih ..

theorem inner_patienceOK (fuel cur best : Nat) (bar : Loss) (wait calls : Nat) :
    PatienceOK p wait (inner script p r fuel cur best bar wait calls).steps := by
  induction fuel generalizing cur best bar wait calls with
  | zero => simp [inner, PatienceOK]
  | succ n ih =>
    simp only [inner]
    split
    · simp [PatienceOK]; exact ih ..
    · split
      · simp [PatienceOK]
      · rename_i h
        simp only [PatienceOK]
        simp only [Bool.false_eq_true, ↓reduceIte]
        exact Or.inr ⟨by omega, ih ..⟩

theorem inner_brokeOnlyLast (fuel cur best : Nat) (bar : Loss) (wait calls : Nat) :
    BrokeOnlyLast (inner script p r fuel cur best bar wait calls).steps := by
  induction fuel generalizing cur best bar wait calls with
  | zero => simp [inner, BrokeOnlyLast]
  | succ n ih =>
    simp only [inner]
    split
    · exact ⟨by simp, ih ..⟩
    · split
      · simp [BrokeOnlyLast]
      · exact ⟨by simp, ih ..⟩

theorem inner_recorded (fuel cur best : Nat) (bar : Loss) (wait calls : Nat) :
    (inner script p r fuel cur best bar wait calls).recorded
      = ((inner script p r fuel cur best bar wait calls).steps.filter
          (fun st => !st.broke)).map (·.loss) := by
  induction fuel generalizing cur best bar wait calls with
  | zero => simp [inner]
  | succ n ih =>
    simp only [inner]
    split
    · simp; exact ih ..
    · split
      · simp
      · simp; exact ih ..

/-- a break happens only with `wait_counter ≥ patience` non-improving steps before it:
the breaking step is itself non-improving -/
theorem inner_broke_not_adopted (fuel cur best : Nat) (bar : Loss) (wait calls : Nat) :
    ∀ st ∈ (inner script p r fuel cur best bar wait calls).steps,
      st.broke = true → st.adopted = false := by
  induction fuel generalizing cur best bar wait calls with
  | zero => simp [inner]
  | succ n ih =>
    simp only [inner]
    split
    · intro st hst
      simp at hst
      rcases hst with rfl | hst
      · simp
      · exact ih _ _ _ _ _ st hst
    · split
      · simp
      · intro st hst
        simp at hst
        rcases hst with rfl | hst
        · simp
        · exact ih _ _ _ _ _ st hst

end inner

/-! ### The declarative reading of `firstMin` -/

/-- `firstMin` returns the *first* state attaining the *lowest* loss among the
steps whose loss is below the initial bar; if no loss is below the bar it returns
the starting state. -/
theorem firstMin_spec (b : Nat) (bar : Loss) (steps : List Step) :
    ((firstMin b bar steps) = (b, bar) ∧ ∀ st ∈ steps, st.loss.lt bar = false) ∨
    (∃ pre st post, steps = pre ++ st :: post ∧
        firstMin b bar steps = (st.outState, st.loss) ∧
        st.loss.lt bar = true ∧
        (∀ x ∈ pre, x.loss = .nan ∨ st.loss.lt x.loss = true) ∧
        (∀ x ∈ post, x.loss.lt st.loss = false)) := by
  induction steps generalizing b bar with
  | nil => left; simp [firstMin]
  | cons s rest ih =>
    by_cases h : s.loss.lt bar = true
    · -- s improves on the bar
      simp only [firstMin, h, ↓reduceIte]
      rcases ih s.outState s.loss with ⟨heq, hall⟩ | ⟨pre, st, post, hsplit, heq, hlt, hpre, hpost⟩
      · right
        refine ⟨[], s, rest, by simp, heq, h, by simp, hall⟩
      · right
        refine ⟨s :: pre, st, post, by simp [hsplit], heq, Loss.lt_trans hlt h, ?_, hpost⟩
        intro x hx
        simp at hx
        rcases hx with rfl | hx
        · exact Or.inr hlt
        · exact hpre x hx
    · -- s does not improve
      have h' : s.loss.lt bar = false := by simpa using h
      simp only [firstMin, h', Bool.false_eq_true, ↓reduceIte]
      rcases ih b bar with ⟨heq, hall⟩ | ⟨pre, st, post, hsplit, heq, hlt, hpre, hpost⟩
      · left
        refine ⟨heq, ?_⟩
        intro x hx
        simp at hx
        rcases hx with rfl | hx
        · exact h'
        · exact hall x hx
      · right
        refine ⟨s :: pre, st, post, by simp [hsplit], heq, hlt, ?_, hpost⟩
        intro x hx
        simp at hx
        rcases hx with rfl | hx
        · by_cases hn : x.loss = .nan
          · exact Or.inl hn
          · exact Or.inr (Loss.lt_of_lt_of_not_lt hlt h' hn)
        · exact hpre x hx

/-! ### Window reading of `PatienceOK` -/

theorem PatienceOK.window_aux (p : Nat) :
    ∀ (steps : List Step) (run : Nat), run ≤ p → PatienceOK p run steps →
      ∀ (w b : List Step), steps = w ++ b → b ≠ [] → p + 1 ≤ w.length + run →
        ∃ st ∈ w, st.adopted = true := by
  intro steps
  induction steps with
  | nil =>
    intro run _ _ w b h hb _
    have : b = [] := (List.append_eq_nil_iff.mp h.symm).2
    exact absurd this hb
  | cons s rest ih =>
    intro run hrun hok w b h hb hlen
    cases w with
    | nil => simp at hlen; omega
    | cons w0 ws =>
      simp at h
      obtain ⟨rfl, hrest⟩ := h
      by_cases ha : s.adopted = true
      · exact ⟨s, by simp, ha⟩
      · simp only [PatienceOK, ha, Bool.false_eq_true, ↓reduceIte] at hok
        rcases hok with hnil | ⟨hle, hok'⟩
        · subst hrest
          simp at hnil
          exact absurd hnil.2 hb
        · simp at hlen
          obtain ⟨st, hst, hst'⟩ := ih (run + 1) hle hok' ws b hrest hb (by omega)
          exact ⟨st, by simp [hst], hst'⟩

theorem PatienceOK.drop_prefix (p : Nat) :
    ∀ (a rest : List Step) (run : Nat), run ≤ p → rest ≠ [] → PatienceOK p run (a ++ rest) →
      ∃ run', run' ≤ p ∧ PatienceOK p run' rest := by
  intro a
  induction a with
  | nil => intro rest run hrun _ h; exact ⟨run, hrun, by simpa using h⟩
  | cons s a' ih =>
    intro rest run hrun hne h
    simp only [List.cons_append, PatienceOK] at h
    split at h
    · exact ih rest 0 (Nat.zero_le _) hne h
    · rcases h with hnil | ⟨hle, h'⟩
      · simp at hnil; exact absurd hnil.2 hne
      · exact ih rest (run + 1) hle hne h'

/-- Declarative reading of the scan: in a round that passes it, every window of
`p + 1` consecutive steps that is followed by at least one more step contains an
improving step — i.e. the round never continues past `p + 1` consecutive
non-improving losses. -/
theorem PatienceOK.window (p : Nat) (steps : List Step) (h : PatienceOK p 0 steps) :
    ∀ (a w b : List Step), steps = a ++ w ++ b → b ≠ [] → w.length = p + 1 →
      ∃ st ∈ w, st.adopted = true := by
  intro a w b hs hb hw
  have hne : w ++ b ≠ [] := by simp [hb]
  rw [List.append_assoc] at hs
  subst hs
  obtain ⟨run', hr, hok⟩ := PatienceOK.drop_prefix p a (w ++ b) 0 (Nat.zero_le _) hne h
  exact PatienceOK.window_aux p (w ++ b) run' hr hok w b rfl hb (by omega)

end Pysersic.EarlyStop

namespace Pysersic.EarlyStop

/-! ### Facts about the round loop -/

/-- a recorded round is exactly the inner loop run from the recorded start values -/
def RecOK (script : Nat → Loss) (cfg : Cfg) (rc : RoundRec) : Prop :=
  rc.out = inner script cfg.patience rc.idx cfg.maxTrain rc.start rc.start rc.bar0 0 rc.firstCall

/-- rounds are numbered consecutively from `r`; each starts from the previous
round's best state, at the next unused call index, and every round after round 0
starts with `best_loss = +inf` -/
def Linked : Nat → Nat → Nat → List RoundRec → Prop
  | _, _, _, [] => True
  | r, s, c, rc :: rest =>
    rc.idx = r ∧ rc.start = s ∧ rc.firstCall = c ∧ (0 < r → rc.bar0 = Loss.pinf) ∧
      Linked (r + 1) rc.out.best (c + rc.out.steps.length) rest

section rounds
variable (script : Nat → Loss) (cfg : Cfg)

theorem rounds_length (k r best : Nat) (bar : Loss) (calls : Nat) :
    (rounds script cfg r k best bar calls).length = k := by
  induction k generalizing r best bar calls with
  | zero => simp [rounds]
  | succ n ih => simp [rounds, ih]

theorem rounds_recOK (k r best : Nat) (bar : Loss) (calls : Nat) :
    ∀ rc ∈ rounds script cfg r k best bar calls, RecOK script cfg rc := by
  induction k generalizing r best bar calls with
  | zero => simp [rounds]
  | succ n ih =>
    intro rc hrc
    simp only [rounds, List.mem_cons] at hrc
    rcases hrc with rfl | hrc
    · simp [RecOK]
    · exact ih _ _ _ _ rc hrc

theorem rounds_linked (k r best : Nat) (bar : Loss) (calls : Nat) :
    Linked r best calls (rounds script cfg r k best bar calls) := by
  induction k generalizing r best bar calls with
  | zero => simp [rounds, Linked]
  | succ n ih =>
    simp only [rounds, Linked]
    refine ⟨trivial, trivial, trivial, ?_, ih ..⟩
    intro h
    simp [h]

theorem rounds_head_bar0 (k best : Nat) (bar : Loss) (calls : Nat) :
    ∀ rc, (rounds script cfg 0 k best bar calls).head? = some rc → rc.bar0 = bar := by
  cases k with
  | zero => simp [rounds]
  | succ n => simp [rounds]

/-- rounds numbered `r ≥ 1` all start from `+inf` -/
theorem rounds_bar0_pinf (k r best : Nat) (bar : Loss) (calls : Nat) (hr : 0 < r) :
    ∀ rc ∈ rounds script cfg r k best bar calls, rc.bar0 = Loss.pinf := by
  induction k generalizing r best bar calls with
  | zero => simp [rounds]
  | succ n ih =>
    intro rc hrc
    simp only [rounds, List.mem_cons] at hrc
    rcases hrc with rfl | hrc
    · simp [hr]
    · exact ih (r + 1) _ _ _ (by omega) rc hrc

theorem rounds_idx_ge (k r best : Nat) (bar : Loss) (calls : Nat) :
    ∀ rc ∈ rounds script cfg r k best bar calls, r ≤ rc.idx ∧ rc.idx < r + k := by
  induction k generalizing r best bar calls with
  | zero => simp [rounds]
  | succ n ih =>
    intro rc hrc
    simp only [rounds, List.mem_cons] at hrc
    rcases hrc with rfl | hrc
    · simp
    · have := ih (r + 1) _ _ _ rc hrc
      omega

theorem rounds_getLast_idx (k r best : Nat) (bar : Loss) (calls : Nat) :
    ∀ rc, (rounds script cfg r k best bar calls).getLast? = some rc → rc.idx + 1 = r + k := by
  induction k generalizing r best bar calls with
  | zero => simp [rounds]
  | succ n ih =>
    intro rc h
    cases n with
    | zero =>
      simp [rounds] at h
      subst h
      simp
    | succ m =>
      rw [rounds, rounds, List.getLast?_cons_cons, ← rounds] at h
      have := ih (r + 1) _ _ _ rc h
      omega

/-- unfolding of `run` -/
theorem run_eq_some {res : Result} (h : run script cfg = some res) :
    ∃ rc, (allRounds script cfg).getLast? = some rc ∧
      res = ⟨rc.out.best, rc.out.cur, rc.out.recorded, totalCalls (allRounds script cfg)⟩ := by
  unfold run at h
  simp only at h
  cases hl : (allRounds script cfg).getLast? with
  | none => simp [hl] at h
  | some rc =>
    simp only [hl, Option.some.injEq] at h
    exact ⟨rc, rfl, h.symm⟩

theorem sum_steps_le (recs : List RoundRec) (m : Nat)
    (h : ∀ rc ∈ recs, rc.out.steps.length ≤ m) :
    (recs.map fun rc => rc.out.steps.length).sum ≤ recs.length * m := by
  induction recs with
  | nil => simp
  | cons rc rest ih =>
    simp only [List.map_cons, List.sum_cons, List.length_cons]
    have h1 := h rc (by simp)
    have h2 := ih (fun x hx => h x (by simp [hx]))
    rw [Nat.add_mul]
    omega

end rounds

/-- from the bar chain: adoption is exactly "loss < best_loss at that moment" -/
theorem BarChain.adopted_iff : ∀ (b : Loss) (steps : List Step), BarChain b steps →
    ∀ st ∈ steps, st.adopted = st.loss.lt st.barBefore := by
  intro b steps
  induction steps generalizing b with
  | nil => simp
  | cons s rest ih =>
    intro h st hst
    obtain ⟨hb, ha, hrest⟩ := h
    simp at hst
    rcases hst with rfl | hst
    · rw [hb]; exact ha
    · exact ih _ hrest st hst

end Pysersic.EarlyStop
