/-
The tabulated scene assembly the driver executes (`Render.sceneArr`) is, entry by entry,
the scene assembly the theorems are about (`Render.combineScene`) — for every scalar type.
Tabulating an image and reading it back is the identity.
-/
import PysersicModel.Render.Tab

namespace Pysersic.Render
open Pysersic
open Pysersic.Prob (two one zero half sq)

section
variable {α : Type} [Add α] [Sub α] [Mul α] [Div α] [Neg α] [NatCast α] [Transc α]

theorem idx_lt {h w r c : Nat} (hr : r < h) (hc : c < w) : r * w + c < h * w := by
  have : (r + 1) * w ≤ h * w := Nat.mul_le_mul_right w hr
  rw [Nat.add_mul, Nat.one_mul] at this
  omega

theorem idx_div {w r c : Nat} (hc : c < w) : (r * w + c) / w = r := by
  have hw : 0 < w := by omega
  rw [Nat.mul_comm, Nat.mul_add_div hw, Nat.div_eq_of_lt hc, Nat.add_zero]

theorem idx_mod {w r c : Nat} (hc : c < w) : (r * w + c) % w = c := by
  rw [Nat.mul_comm, Nat.mul_add_mod, Nat.mod_eq_of_lt hc]

/-- reading back a tabulated image gives the image -/
theorem tabI_get (h w : Nat) (f : Img α) : (tabI h w f).get = f := by
  funext r c
  show (if r < h ∧ c < w then
      (if hh : r * w + c < (Array.ofFn (n := h * w) fun i => f (i.val / w) (i.val % w)).size
        then (Array.ofFn (n := h * w) fun i => f (i.val / w) (i.val % w))[r * w + c] else f r c)
    else f r c) = f r c
  by_cases hrc : r < h ∧ c < w
  · rw [if_pos hrc]
    by_cases hi : r * w + c < (Array.ofFn (n := h * w) fun i => f (i.val / w) (i.val % w)).size
    · rw [dif_pos hi, Array.getElem_ofFn]
      simp only [idx_div hrc.2, idx_mod hrc.2]
    · rw [dif_neg hi]
  · rw [if_neg hrc]

/-- reading back a tabulated half-plane transform gives the transform -/
theorem tabF_get (h w : Nat) (f : FImg α) : (tabF h w f).get = f := by
  funext v u
  show (if v < h ∧ u < w then
      (if hh : v * w + u < (Array.ofFn (n := h * w) fun i => (f (i.val / w) (i.val % w)).re).size ∧
          v * w + u < (Array.ofFn (n := h * w) fun i => (f (i.val / w) (i.val % w)).im).size
        then (⟨(Array.ofFn (n := h * w) fun i => (f (i.val / w) (i.val % w)).re)[v * w + u],
               (Array.ofFn (n := h * w) fun i => (f (i.val / w) (i.val % w)).im)[v * w + u]⟩ : Cx α)
        else f v u)
    else f v u) = f v u
  by_cases hvu : v < h ∧ u < w
  · rw [if_pos hvu]
    by_cases hi : v * w + u < (Array.ofFn (n := h * w) fun i => (f (i.val / w) (i.val % w)).re).size ∧
        v * w + u < (Array.ofFn (n := h * w) fun i => (f (i.val / w) (i.val % w)).im).size
    · rw [dif_pos hi, Array.getElem_ofFn, Array.getElem_ofFn]
      simp only [idx_div hvu.2, idx_mod hvu.2]
    · rw [dif_neg hi]
  · rw [if_neg hvu]

/-- **the array the driver computes is the image the theorems speak about** -/
theorem sceneArr_eq (N : Nat) (P : FImg α) (t : Triple α) :
    sceneArr N P t = Array.ofFn (n := N * N) fun i => combineScene N P t (i.val / N) (i.val % N) := by
  simp only [sceneArr, tabF_get, tabI_get, combineScene, convFft, convImg, iadd]

/-- entry `r·N + c` of the array is pixel (r, c) -/
theorem sceneArr_getElem (N : Nat) (P : FImg α) (t : Triple α) (r c : Nat) (hr : r < N) (hc : c < N) :
    (sceneArr N P t)[r * N + c]? = some (combineScene N P t r c) := by
  rw [sceneArr_eq]
  have hi : r * N + c < N * N := idx_lt hr hc
  rw [Array.getElem?_eq_getElem (by simpa using hi), Array.getElem_ofFn]
  simp only [idx_div hc, idx_mod hc]

end
end Pysersic.Render
