/-
The scene plumbing of `BaseRenderer` as TRANSLATED from pysersic/rendering.py (Gen/Scene.lean, regenerated on every run)
is the model's: the composite profiles build the dictionaries the model's `profileOf` describes and add the planes slot by
slot, `render_for_model` accumulates the catalogue's triples, `combine_scene` is `combineScene`.
-/
import PysersicModel.Gen.Scene
import Proofs.RenderLinear

set_option linter.unusedSectionVars false
set_option linter.unusedSimpArgs false

namespace Pysersic.Proofs.GenScene
open Pysersic Pysersic.Render Pysersic.Gen.Scene
open Pysersic.Prob (two one zero half sq)

section
variable {α : Type} [Add α] [Sub α] [Mul α] [Div α] [Neg α] [NatCast α] [Transc α] [Max α]

/-- how the three renderer classes read the dictionary they are handed (`params["xc"]`, …) -/
def sersicCb (R : Renderer α) (q : PDict α) : Triple α :=
  R.sersic ⟨q.get "xc", q.get "yc", q.get "flux", q.get "r_eff", q.get "n", q.get "ellip", q.get "theta"⟩

def pointCb (R : Renderer α) (q : PDict α) : Triple α :=
  R.pointsource (q.get "xc") (q.get "yc") (q.get "flux")

/-! ### dictionaries -/

theorem get_cons (d : PDict α) (k k' : String) (v : α) :
    PDict.get ((k, v) :: d) k' = if k == k' then v else d.get k' := by
  unfold PDict.get
  simp only [List.find?]
  by_cases h : (k == k') = true <;> simp [h]

theorem get_set (d : PDict α) (k k' : String) (v : α) :
    (d.set k v).get k' = if k == k' then v else d.get k' := get_cons d k k' v

theorem get_erase_ne (d : PDict α) (k k' : String) (h : (k == k') = false) : (d.erase k).get k' = d.get k' := by
  induction d with
  | nil => rfl
  | cons a d ih =>
    obtain ⟨ka, va⟩ := a
    unfold PDict.erase at ih ⊢
    by_cases h1 : (ka == k) = true
    · have hk : ka = k := by simpa using h1
      subst hk
      simp only [List.filter, beq_self_eq_true, Bool.not_true]
      rw [ih, get_cons]
      simp [h]
    · have h1' : (ka == k) = false := by simpa using h1
      simp only [List.filter, h1', Bool.not_false]
      rw [get_cons, get_cons, ih]

/-! ### the composite profiles -/

theorem gen_exp_eq (R : Renderer α) (d : PDict α) :
    render_exp (sersicCb R) d = R.profileOf .exp d := by
  simp [render_exp, sersicCb, Renderer.profileOf, sersicOf, get_set, one]

theorem gen_dev_eq (R : Renderer α) (d : PDict α) :
    render_dev (sersicCb R) d = R.profileOf .dev d := by
  simp [render_dev, sersicCb, Renderer.profileOf, sersicOf, get_set]

theorem gen_doublesersic_eq (R : Renderer α) (d : PDict α) :
    render_doublesersic (sersicCb R) d = R.profileOf .doublesersic d := by
  simp [render_doublesersic, sersicCb, Renderer.profileOf, sersicOf, get_cons, Triple.add, one]

theorem gen_sersic_exp_eq (R : Renderer α) (d : PDict α) :
    render_sersic_exp (sersicCb R) (render_exp (sersicCb R)) d = R.profileOf .sersicExp d := by
  simp [render_sersic_exp, render_exp, sersicCb, Renderer.profileOf, sersicOf, get_cons, get_set, Triple.add, one]

theorem gen_sersic_pointsource_eq (R : Renderer α) (d : PDict α) :
    render_sersic_pointsource (sersicCb R) (pointCb R) d = R.profileOf .sersicPointsource d := by
  simp [render_sersic_pointsource, sersicCb, pointCb, Renderer.profileOf, sersicOf, get_cons, get_set, get_erase_ne,
    Triple.add, one]

/-- `combine_scene` -/
theorem gen_combine_eq (N : Nat) (P : FImg α) (t : Triple α) : combine_scene N P t = combineScene N P t := rfl

end

/-! ### `render_for_model` (over ℝ: the accumulation is re-associated) -/

theorem fadd_assoc' (a b c : FImg ℝ) : fadd (fadd a b) c = fadd a (fadd b c) := by
  funext v u; simp [fadd, Cx.add, add_assoc]

theorem iadd_assoc' (a b c : Img ℝ) : iadd (iadd a b) c = iadd a (iadd b c) := by
  funext r c'; simp [iadd, add_assoc]

theorem fadd_fzero' (a : FImg ℝ) : fadd a fzero = a := by
  funext v u; simp [fadd, fzero, Cx.add, Cx.zero, zero]

theorem fzero_fadd' (a : FImg ℝ) : fadd fzero a = a := by
  funext v u; simp [fadd, fzero, Cx.add, Cx.zero, zero]

theorem Triple.add_assoc' (a b c : Triple ℝ) : Triple.add (Triple.add a b) c = Triple.add a (Triple.add b c) := by
  simp [Triple.add, fadd_assoc', iadd_assoc']

theorem Triple.add_zero' (a : Triple ℝ) : Triple.add a Triple.zero = a := by
  cases a; simp [Triple.add, Triple.zero, fadd_fzero', iadd_izero]

theorem Triple.zero_add' (a : Triple ℝ) : Triple.add Triple.zero a = a := by
  cases a; simp [Triple.add, Triple.zero, fzero_fadd', izero_iadd]

/-- one pass of the loop adds the source's triple, slot by slot, to the running totals -/
theorem step_toTriple (profile : String → PDict ℝ → Triple ℝ) (paramsOf : String → List String) (d : PDict ℝ) (suffix : String)
    (acc : Acc ℝ) (j : Nat) (t : String) :
    (render_for_model_step profile paramsOf d suffix acc j t).toTriple
      = Triple.add acc.toTriple (profile t (sourceDict (paramsOf t) d j suffix)) := by
  simp [render_for_model_step, Acc.toTriple, Triple.add, sourceDict]

theorem loop_toTriple (R : Renderer ℝ) (paramsOf : String → List String) (d : PDict ℝ) (suffix : String)
    (ts : List String) (j : Nat) (acc : Acc ℝ) :
    (render_for_model_loop R.profile paramsOf d suffix j ts acc).toTriple
      = Triple.add acc.toTriple (R.catalogueTriple paramsOf d suffix j ts) := by
  induction ts generalizing j acc with
  | nil => simp [render_for_model_loop, Renderer.catalogueTriple, Triple.add_zero']
  | cons t ts ih =>
    rw [render_for_model_loop, ih, step_toTriple, Triple.add_assoc']
    rfl

/-- **`render_for_model` as written in the source hands `combine_scene` the sum of the catalogue's triples** -/
theorem gen_for_model_eq (R : Renderer ℝ) (paramsOf : String → List String) (d : PDict ℝ) (types : List String) (suffix : String) :
    render_for_model_triple R.profile paramsOf d types suffix = R.catalogueTriple paramsOf d suffix 0 types := by
  rw [render_for_model_triple, loop_toTriple]
  exact Triple.zero_add' _

/-- hence the image it returns is the model's `renderForModel` -/
theorem gen_render_for_model_image (R : Renderer ℝ) (paramsOf : String → List String) (d : PDict ℝ) (types : List String) (suffix : String) :
    combine_scene R.N R.P (render_for_model_triple R.profile paramsOf d types suffix) = R.renderForModel paramsOf d types suffix := by
  rw [gen_for_model_eq]; rfl

end Pysersic.Proofs.GenScene
