/-
Helper lemmas for C17: what `borderIdx` contains.
-/
import PysersicModel.IO.SkyEstimate
import Mathlib.Data.List.Nodup
import Mathlib.Data.List.ProdSigma
import Mathlib.Tactic.Ring
import Mathlib.Tactic.Linarith

namespace Pysersic.SkyEstimate

theorem block_eq_product (rows cols : List Nat) : block rows cols = rows ×ˢ cols := rfl

theorem mem_block {rows cols : List Nat} {i j : Nat} :
    (i, j) ∈ block rows cols ↔ i ∈ rows ∧ j ∈ cols := by
  rw [block_eq_product]; exact List.pair_mem_product

theorem nodup_block {rows cols : List Nat} (h₁ : rows.Nodup) (h₂ : cols.Nodup) :
    (block rows cols).Nodup := by
  rw [block_eq_product]; exact h₁.product h₂

theorem length_block (rows cols : List Nat) :
    (block rows cols).length = rows.length * cols.length := by
  rw [block_eq_product]; exact List.length_product _ _

/-! the four slices, for a border width `n = k + 1` that fits twice into the axis -/

theorem slice_all (len : Nat) : pySlice len none none = List.range' 0 len := by
  simp [pySlice, normBound]

theorem slice_head (len k : Nat) (h : k + 1 ≤ len) :
    pySlice len none (some ((k + 1 : Nat) : Int)) = List.range' 0 (k + 1) := by
  simp only [pySlice, normBound]
  congr 1
  omega

theorem slice_tail (len k : Nat) (_h : k + 1 ≤ len) :
    pySlice len (some (-((k + 1 : Nat) : Int))) none = List.range' (len - (k + 1)) (k + 1) := by
  have : (-((k + 1 : Nat) : Int)) = Int.negSucc k := by simp [Int.negSucc_eq]
  simp only [pySlice, this, normBound]
  congr 1
  omega

theorem slice_mid (len k : Nat) (h : 2 * (k + 1) ≤ len) :
    pySlice len (some ((k + 1 : Nat) : Int)) (some (-((k + 1 : Nat) : Int)))
      = List.range' (k + 1) (len - 2 * (k + 1)) := by
  have h2 : (-((k + 1 : Nat) : Int)) = Int.negSucc k := by simp [Int.negSucc_eq]
  simp only [pySlice, h2, normBound]
  have : min (k + 1) len = k + 1 := by omega
  rw [this]
  congr 1
  omega

/-- `borderIdx` written with explicit ranges -/
theorem borderIdx_eq (H W k : Nat) (hH : 2 * (k + 1) ≤ H) (hW : 2 * (k + 1) ≤ W) :
    borderIdx H W (k + 1) =
      block (List.range' 0 (k + 1)) (List.range' 0 W) ++
      block (List.range' (H - (k + 1)) (k + 1)) (List.range' 0 W) ++
      block (List.range' (k + 1) (H - 2 * (k + 1))) (List.range' 0 (k + 1)) ++
      block (List.range' (k + 1) (H - 2 * (k + 1))) (List.range' (W - (k + 1)) (k + 1)) := by
  unfold borderIdx
  simp only
  rw [slice_all, slice_head H k (by omega), slice_tail H k (by omega), slice_mid H k hH,
    slice_head W k (by omega), slice_tail W k (by omega)]

end Pysersic.SkyEstimate
