/-
The convolution theorem for the code-level DFT pipeline: with π in the phase ramps and an
odd stamp (2h+1)×(2h+1), `conv_img` — rfft2, multiplication by PSF_fft, irfft2 with the
half-plane weights — is circular convolution with the stamp centred on its geometric
centre (h, h), rows and columns not exchanged:

  conv_img(I)(r, c) = Σ_{i,j} PSF[i,j] · I[(r + h − i) mod N, (c + h − j) mod N].

In particular (1×1 unit stamp) irfft2 ∘ rfft2 is the identity on real images.
-/
import Proofs.RenderDC
import Mathlib.Algebra.BigOperators.Intervals
import Mathlib.Data.Nat.ModEq

namespace Pysersic.Render
open Pysersic Pysersic.Prob Real

/-! ### complete sums over roots of unity, for arbitrary multipliers -/

theorem rootE_mul' (N a b : ℕ) : rootE N (a * b) = rootE N b ^ a := by
  rw [Nat.mul_comm, rootE_mul]

theorem rootE_eq_one_iff (N m : ℕ) (hN : 0 < N) : rootE N m = 1 ↔ N ∣ m := by
  unfold rootE
  have hNr : (N : ℝ) ≠ 0 := by exact_mod_cast hN.ne'
  constructor
  · intro h
    rw [Complex.exp_eq_one_iff] at h
    obtain ⟨n, hn⟩ := h
    have him := congrArg Complex.im hn
    have him2 : (2 * π * m / N : ℝ) = n * (2 * π) := by
      simpa [Complex.mul_im, Complex.mul_re] using him
    have hpi : (2 * π : ℝ) ≠ 0 := by positivity
    have hm : (m : ℝ) = n * N := by
      field_simp at him2
      nlinarith [him2]
    have hmz : (m : ℤ) = n * N := by exact_mod_cast hm
    have : (N : ℤ) ∣ (m : ℤ) := ⟨n, by rw [hmz]; ring⟩
    exact_mod_cast this
  · rintro ⟨q, rfl⟩
    have hq : (2 * π * ((N * q : ℕ) : ℝ) / N : ℝ) = 2 * π * q := by
      push_cast
      field_simp
    have : (((2 * π * ((N * q : ℕ) : ℝ) / N : ℝ)) : ℂ) * Complex.I = (q : ℂ) * (2 * π * Complex.I) := by
      rw [hq]; push_cast; ring
    rw [this]
    exact Complex.exp_nat_mul_two_pi_mul_I q

/-- Σ_{v<N} e^{2πi·v·m/N} = N if N ∣ m, else 0 -/
theorem sum_rootE_gen (N m : ℕ) (hN : 0 < N) :
    ∑ v ∈ Finset.range N, rootE N (v * m) = if N ∣ m then (N : ℂ) else 0 := by
  simp only [rootE_mul']
  by_cases h : N ∣ m
  · simp [h, (rootE_eq_one_iff N m hN).mpr h]
  · simp only [h, if_false]
    have hne : rootE N m ≠ 1 := fun e => h ((rootE_eq_one_iff N m hN).mp e)
    have hgeo := geom_sum_mul (rootE N m) N
    rw [rootE_pow_N N m hN, sub_self] at hgeo
    exact (mul_eq_zero.mp hgeo).resolve_right (sub_ne_zero.mpr hne)

/-! ### the half-plane weights recover the full sum for a symmetric summand -/

/-- if g(N − u) = g(u), the c2r weights (1 for u = 0 and the Nyquist column, 2 otherwise) over
u ≤ N/2 reproduce the sum over all N columns -/
theorem half_plane_sum (N : ℕ) (hN : 0 < N) (g : ℕ → ℝ) (hsym : ∀ u, 0 < u → u < N → g (N - u) = g u) :
    ∑ u ∈ Finset.range (halfW N), synthW N u * g u = ∑ u ∈ Finset.range N, g u := by
  -- split the full sum at u = 0, the lower half, (the Nyquist column) and the reflected upper half
  obtain ⟨m, hm | hm⟩ : ∃ m, N = 2 * m ∨ N = 2 * m + 1 := ⟨N / 2, by omega⟩
  · -- even: N = 2m, m ≥ 1
    subst hm
    have hm1 : 1 ≤ m := by omega
    have hW : halfW (2 * m) = m + 1 := by simp [halfW]
    rw [hW]
    -- left: u = 0 weight 1, 1 ≤ u < m weight 2, u = m weight 1
    have hL : ∑ u ∈ Finset.range (m + 1), synthW (2 * m) u * g u = g 0 + 2 * ∑ u ∈ Finset.Ico 1 m, g u + g m := by
      rw [Finset.sum_range_succ, Finset.range_eq_Ico, Finset.sum_eq_sum_Ico_succ_bot (by omega : 0 < m)]
      have hmid : ∀ u ∈ Finset.Ico (0 + 1) m, synthW (2 * m) u * g u = 2 * g u := by
        intro u hu
        rw [Finset.mem_Ico] at hu
        have h1 : u ≠ 0 := by omega
        have h2 : ¬ 2 * u = 2 * m := by omega
        simp [synthW, h1, h2, two_real]
      rw [Finset.sum_congr rfl hmid, ← Finset.mul_sum]
      have hm0 : m ≠ 0 := by omega
      simp [synthW, one_real, two_real, hm0]
    -- right: split range (2m) = {0} ∪ [1, m) ∪ {m} ∪ (m, 2m)
    have hR : ∑ u ∈ Finset.range (2 * m), g u = g 0 + ∑ u ∈ Finset.Ico 1 m, g u + g m + ∑ u ∈ Finset.Ico (m + 1) (2 * m), g u := by
      rw [Finset.range_eq_Ico, Finset.sum_eq_sum_Ico_succ_bot (by omega : 0 < 2 * m),
        ← Finset.sum_Ico_consecutive g (by omega : 0 + 1 ≤ m) (by omega : m ≤ 2 * m),
        Finset.sum_eq_sum_Ico_succ_bot (by omega : m < 2 * m)]
      ring
    -- the upper part reflected onto [1, m)
    have hrefl : ∑ u ∈ Finset.Ico (m + 1) (2 * m), g u = ∑ u ∈ Finset.Ico 1 m, g u := by
      have := Finset.sum_Ico_reflect g 1 (m := m) (n := 2 * m) (by omega)
      -- ∑ j in Ico 1 m, g (2m − j) = ∑ j in Ico (2m + 1 − m) (2m + 1 − 1), g j
      rw [show 2 * m + 1 - m = m + 1 by omega, show 2 * m + 1 - 1 = 2 * m by omega] at this
      rw [← this]
      apply Finset.sum_congr rfl
      intro u hu
      rw [Finset.mem_Ico] at hu
      exact hsym u (by omega) (by omega)
    rw [hL, hR, hrefl]
    ring
  · -- odd: N = 2m + 1
    subst hm
    have hW : halfW (2 * m + 1) = m + 1 := by simp [halfW]; omega
    rw [hW]
    have hL : ∑ u ∈ Finset.range (m + 1), synthW (2 * m + 1) u * g u = g 0 + 2 * ∑ u ∈ Finset.Ico 1 (m + 1), g u := by
      rw [Finset.range_eq_Ico, Finset.sum_eq_sum_Ico_succ_bot (by omega : 0 < m + 1)]
      have hmid : ∀ u ∈ Finset.Ico (0 + 1) (m + 1), synthW (2 * m + 1) u * g u = 2 * g u := by
        intro u hu
        rw [Finset.mem_Ico] at hu
        have h1 : u ≠ 0 := by omega
        have h2 : ¬ 2 * u = 2 * m + 1 := by omega
        simp [synthW, h1, h2, two_real]
      rw [Finset.sum_congr rfl hmid, ← Finset.mul_sum]
      simp [synthW, one_real]
    have hR : ∑ u ∈ Finset.range (2 * m + 1), g u = g 0 + ∑ u ∈ Finset.Ico 1 (m + 1), g u + ∑ u ∈ Finset.Ico (m + 1) (2 * m + 1), g u := by
      rw [Finset.range_eq_Ico, Finset.sum_eq_sum_Ico_succ_bot (by omega : 0 < 2 * m + 1),
        ← Finset.sum_Ico_consecutive g (by omega : 0 + 1 ≤ m + 1) (by omega : m + 1 ≤ 2 * m + 1)]
      ring
    have hrefl : ∑ u ∈ Finset.Ico (m + 1) (2 * m + 1), g u = ∑ u ∈ Finset.Ico 1 (m + 1), g u := by
      have := Finset.sum_Ico_reflect g 1 (m := m + 1) (n := 2 * m + 1) (by omega)
      rw [show 2 * m + 1 + 1 - (m + 1) = m + 1 by omega, show 2 * m + 1 + 1 - 1 = 2 * m + 1 by omega] at this
      rw [← this]
      apply Finset.sum_congr rfl
      intro u hu
      rw [Finset.mem_Ico] at hu
      exact hsym u (by omega) (by omega)
    rw [hL, hR, hrefl]
    ring


/-! ### conjugates and ramps as roots of unity -/

theorem rootE_mul_eq_one (N a b : ℕ) (hN : 0 < N) (h : N ∣ a + b) : rootE N a * rootE N b = 1 := by
  rw [← rootE_add]; exact (rootE_eq_one_iff N (a + b) hN).mpr h

theorem rootE_conj (N k : ℕ) : (starRingEnd ℂ) (rootE N k) = Complex.exp (-((2 * π * k / N : ℝ) * Complex.I)) := by
  unfold rootE
  rw [← Complex.exp_conj, map_mul, Complex.conj_I, Complex.conj_ofReal]
  congr 1
  ring

/-- e^{−2πik/N} = e^{2πi(N−1)k/N} -/
theorem rootE_conj_eq (N k : ℕ) (hN : 0 < N) : (starRingEnd ℂ) (rootE N k) = rootE N ((N - 1) * k) := by
  have h1 : rootE N k * rootE N ((N - 1) * k) = 1 := by
    apply rootE_mul_eq_one N _ _ hN
    refine ⟨k, ?_⟩
    have : k + (N - 1) * k = (1 + (N - 1)) * k := by ring
    rw [this, show 1 + (N - 1) = N by omega]
  have h2 : rootE N k * (starRingEnd ℂ) (rootE N k) = 1 := by
    rw [rootE_conj]
    unfold rootE
    rw [← Complex.exp_add]
    simp
  have hne : rootE N k ≠ 0 := by unfold rootE; exact Complex.exp_ne_zero _
  exact mul_left_cancel₀ hne (h2.trans h1.symm)

theorem cis_neg_toC (N k : ℕ) (hN : 0 < N) : (Cx.cis (-(ang N k : ℝ))).toC = rootE N ((N - 1) * k) := by
  rw [← rootE_conj_eq N k hN, rootE_conj, Cx.toC_cis]
  unfold ang
  congr 1
  simp

/-- the transform of an h×w real array as a sum of roots of unity -/
theorem rfft2_toC (N h w : ℕ) (hN : 0 < N) (img : Img ℝ) (v u : ℕ) :
    (rfft2 N h w img v u).toC
      = ∑ r ∈ Finset.range h, ∑ c ∈ Finset.range w, (img r c : ℂ) * rootE N ((N - 1) * (v * r + u * c)) := by
  simp only [rfft2, sumNCx_toC, Cx.toC_smul, cis_neg_toC N _ hN]

/-- the column ramp of an odd (2h+1)-stamp with π is e^{2πi·h·u/N} -/
theorem rampX_toC (N h u : ℕ) :
    (Cx.cis (two * (RampConst.pi.val : ℝ) * (((2 * h + 1 : ℕ) : ℝ) / two - half) * rfreq N u)).toC = rootE N (h * u) := by
  rw [Cx.toC_cis]
  unfold rootE
  congr 2
  simp only [RampConst.val, two_real, half_real, Transc.pi_real, rfreq]
  push_cast
  ring

/-- the row ramp: the negative frequencies of `fftfreq` differ by whole turns -/
theorem rampY_toC (N h v : ℕ) (hN : 0 < N) (hv : v < N) :
    (Cx.cis (two * (RampConst.pi.val : ℝ) * (((2 * h + 1 : ℕ) : ℝ) / two - half) * ffreq N v)).toC = rootE N (h * v) := by
  have hNr : (N : ℝ) ≠ 0 := by exact_mod_cast hN.ne'
  rw [Cx.toC_cis]
  simp only [RampConst.val, two_real, half_real, Transc.pi_real, ffreq]
  split
  · unfold rootE
    congr 2
    push_cast
    ring
  · -- e^{−2πi·h·(N−v)/N} = e^{2πi·h·v/N}·e^{−2πi·h}
    have hvN : ((N - v : ℕ) : ℝ) = (N : ℝ) - v := by rw [Nat.cast_sub hv.le]
    have : (2 * π * (((2 * h + 1 : ℕ) : ℝ) / 2 - 1 / 2) * -(((N - v : ℕ) : ℝ) / N) : ℝ)
        = (2 * π * ((h * v : ℕ) : ℝ) / N : ℝ) - h * (2 * π) := by
      rw [hvN]; push_cast; field_simp; ring
    rw [this]
    unfold rootE
    push_cast
    rw [sub_mul, Complex.exp_sub]
    have h1 : Complex.exp ((h : ℂ) * (2 * (π : ℂ)) * Complex.I) = 1 := by
      rw [show (h : ℂ) * (2 * (π : ℂ)) * Complex.I = (h : ℂ) * (2 * π * Complex.I) by ring]
      exact Complex.exp_nat_mul_two_pi_mul_I h
    rw [h1, div_one]


/-! ### one frequency of conv_img as a sum over (image pixel, stamp pixel) pairs -/

/-- reordering four nested sums: stamp indices outside ↔ image indices outside -/
theorem sum_reorder (s t : Finset ℕ) (f : ℕ → ℕ → ℕ → ℕ → ℂ) :
    ∑ i ∈ t, ∑ j ∈ t, ∑ a ∈ s, ∑ b ∈ s, f a b i j = ∑ a ∈ s, ∑ b ∈ s, ∑ i ∈ t, ∑ j ∈ t, f a b i j := by
  calc ∑ i ∈ t, ∑ j ∈ t, ∑ a ∈ s, ∑ b ∈ s, f a b i j
      = ∑ i ∈ t, ∑ a ∈ s, ∑ j ∈ t, ∑ b ∈ s, f a b i j := Finset.sum_congr rfl fun i _ => Finset.sum_comm
    _ = ∑ a ∈ s, ∑ i ∈ t, ∑ j ∈ t, ∑ b ∈ s, f a b i j := Finset.sum_comm
    _ = ∑ a ∈ s, ∑ i ∈ t, ∑ b ∈ s, ∑ j ∈ t, f a b i j :=
        Finset.sum_congr rfl fun a _ => Finset.sum_congr rfl fun i _ => Finset.sum_comm
    _ = ∑ a ∈ s, ∑ b ∈ s, ∑ i ∈ t, ∑ j ∈ t, f a b i j := Finset.sum_congr rfl fun a _ => Finset.sum_comm

/-- exponent attached to rows: r + h + (N−1)(r′ + i)  (≡ r + h − r′ − i mod N) -/
def expA (N h r r' i : ℕ) : ℕ := r + h + (N - 1) * (r' + i)

/-- the product F̂(v,u)·P̂(v,u)·e^{2πi(vr+uc)/N} expanded over image pixels (r′, c′) and stamp pixels (i, j) -/
theorem conv_term (N h r c v u : ℕ) (hN : 0 < N) (hv : v < N) (img psf : Img ℝ) :
    (Cx.mul (fmul (rfft2 N N N img) (psfFft .pi .pi N (2 * h + 1) (2 * h + 1) psf) v u) (Cx.cis (ang N (v * r + u * c)))).toC
      = ∑ r' ∈ Finset.range N, ∑ c' ∈ Finset.range N, ∑ i ∈ Finset.range (2 * h + 1), ∑ j ∈ Finset.range (2 * h + 1),
          ((img r' c' * psf i j : ℝ) : ℂ) * (rootE N (v * expA N h r r' i) * rootE N (u * expA N h c c' j)) := by
  simp only [fmul, psfFft, Cx.toC_mul, rfft2_toC N _ _ hN, rampX_toC, rampY_toC N h v hN hv, Cx.cis_toC_ang]
  -- distribute the products of sums
  simp only [Finset.sum_mul, Finset.mul_sum]
  refine (sum_reorder (Finset.range N) (Finset.range (2 * h + 1)) (fun r' c' i j =>
    (img r' c' : ℂ) * rootE N ((N - 1) * (v * r' + u * c')) *
      ((psf i j : ℂ) * rootE N ((N - 1) * (v * i + u * j)) * rootE N (h * u) * rootE N (h * v)) * rootE N (v * r + u * c))).trans ?_
  apply Finset.sum_congr rfl; intro r' _
  apply Finset.sum_congr rfl; intro c' _
  apply Finset.sum_congr rfl; intro i _
  apply Finset.sum_congr rfl; intro j _
  -- merge all roots of unity into one and compare exponents
  have key : rootE N ((N - 1) * (v * r' + u * c')) * (rootE N ((N - 1) * (v * i + u * j)) * rootE N (h * u) * rootE N (h * v))
      * rootE N (v * r + u * c) = rootE N (v * expA N h r r' i) * rootE N (u * expA N h c c' j) := by
    simp only [← rootE_add]
    congr 1
    simp only [expA]
    ring
  push_cast
  calc (img r' c' : ℂ) * rootE N ((N - 1) * (v * r' + u * c')) *
          ((psf i j : ℂ) * rootE N ((N - 1) * (v * i + u * j)) * rootE N (h * u) * rootE N (h * v)) * rootE N (v * r + u * c)
      = (img r' c' : ℂ) * (psf i j : ℂ) * (rootE N ((N - 1) * (v * r' + u * c')) * (rootE N ((N - 1) * (v * i + u * j)) * rootE N (h * u) * rootE N (h * v))
          * rootE N (v * r + u * c)) := by ring
    _ = (img r' c' : ℂ) * (psf i j : ℂ) * (rootE N (v * expA N h r r' i) * rootE N (u * expA N h c c' j)) := by rw [key]

/-! ### summing over the frequencies -/

theorem rootE_congr (N a b k : ℕ) (hN : 0 < N) (ha : N ∣ a + k) (hb : N ∣ b + k) : rootE N a = rootE N b := by
  have h1 := rootE_mul_eq_one N a k hN ha
  have h2 := rootE_mul_eq_one N b k hN hb
  have hne : rootE N k ≠ 0 := by unfold rootE; exact Complex.exp_ne_zero _
  exact mul_right_cancel₀ hne (h1.trans h2.symm)

/-- Re e^{2πi(N−u)B/N} = Re e^{2πiuB/N} -/
theorem rootE_reflect_re (N u B : ℕ) (hN : 0 < N) (hu : u < N) : (rootE N ((N - u) * B)).re = (rootE N (u * B)).re := by
  have h : rootE N ((N - u) * B) = (starRingEnd ℂ) (rootE N (u * B)) := by
    rw [rootE_conj_eq N _ hN]
    apply rootE_congr N _ _ (u * B) hN
    · refine ⟨B, ?_⟩
      have : (N - u) * B + u * B = (N - u + u) * B := by ring
      rw [this, Nat.sub_add_cancel hu.le]
    · refine ⟨u * B, ?_⟩
      have : (N - 1) * (u * B) + u * B = (N - 1 + 1) * (u * B) := by ring
      rw [this, Nat.sub_add_cancel hN]
  rw [h, Complex.conj_re]

/-- divisibility of the row exponent singles out one image row -/
theorem expA_dvd_iff (N h r r' i : ℕ) (hN : 0 < N) (hr' : r' < N) :
    N ∣ expA N h r r' i ↔ r' = (r + h + (N - 1) * i) % N := by
  set K := r + h + (N - 1) * i with hK
  have hexp : expA N h r r' i = K + (N - 1) * r' := by simp only [expA, hK]; ring
  rw [hexp]
  have hcast : ((K + (N - 1) * r' : ℕ) : ℤ) = (K : ℤ) - r' + N * r' := by
    push_cast [Nat.cast_sub hN]; ring
  rw [← Int.natCast_dvd_natCast, hcast]
  have h1 : ((N : ℤ) ∣ (K : ℤ) - r' + N * r') ↔ ((N : ℤ) ∣ (K : ℤ) - r') :=
    (Int.dvd_add_left (dvd_mul_right (N : ℤ) r'))
  rw [h1]
  constructor
  · intro hd
    have hm : (r' : ℕ) ≡ K [MOD N] := (Nat.modEq_iff_dvd).mpr hd
    have := hm
    unfold Nat.ModEq at this
    rw [Nat.mod_eq_of_lt hr'] at this
    exact this
  · intro he
    have hm : (r' : ℕ) ≡ K [MOD N] := by
      unfold Nat.ModEq
      rw [Nat.mod_eq_of_lt hr', he]
    exact (Nat.modEq_iff_dvd).mp hm

/-- collapsing a sum with a divisibility indicator -/
theorem sum_indicator (N h r i : ℕ) (hN : 0 < N) (X : ℕ → ℝ) :
    ∑ r' ∈ Finset.range N, (if N ∣ expA N h r r' i then X r' else 0) = X ((r + h + (N - 1) * i) % N) := by
  have hlt : (r + h + (N - 1) * i) % N < N := Nat.mod_lt _ hN
  rw [Finset.sum_eq_single ((r + h + (N - 1) * i) % N)]
  · rw [if_pos ((expA_dvd_iff N h r _ i hN hlt).mpr rfl)]
  · intro b hb hne
    rw [if_neg (fun hd => hne ((expA_dvd_iff N h r b i hN (Finset.mem_range.mp hb)).mp hd))]
  · intro hnot; exact absurd (Finset.mem_range.mpr hlt) hnot

/-- **the convolution theorem for the code-level pipeline**: with π in the ramps and an odd stamp
(2h+1)×(2h+1), `conv_img` is circular convolution with the stamp centred on (h, h), orientation preserved:
pixel (r, c) receives Σ PSF[i,j]·I[(r + h − i) mod N, (c + h − j) mod N] -/
theorem convImg_circular (N h r c : ℕ) (hN : 0 < N) (img psf : Img ℝ) :
    convImg N (psfFft .pi .pi N (2 * h + 1) (2 * h + 1) psf) img r c
      = ∑ i ∈ Finset.range (2 * h + 1), ∑ j ∈ Finset.range (2 * h + 1),
          psf i j * img ((r + h + (N - 1) * i) % N) ((c + h + (N - 1) * j) % N) := by
  have hNr : (N : ℝ) ≠ 0 := by exact_mod_cast hN.ne'
  have hW : ∀ u ∈ Finset.range (halfW N), u < N := by
    intro u hu; rw [Finset.mem_range, halfW] at hu; omega
  set S := Finset.range (2 * h + 1) with hS
  -- G u : the v-summed real part at column u
  let G : ℕ → ℝ := fun u =>
    ∑ r' ∈ Finset.range N, ∑ c' ∈ Finset.range N, ∑ i ∈ S, ∑ j ∈ S,
      (img r' c' * psf i j) * ((if N ∣ expA N h r r' i then (N : ℝ) else 0) * (rootE N (u * expA N h c c' j)).re)
  have hG : ∀ u, u < N → ∑ v ∈ Finset.range N,
      (Cx.mul (fmul (rfft2 N N N img) (psfFft .pi .pi N (2 * h + 1) (2 * h + 1) psf) v u) (Cx.cis (ang N (v * r + u * c)))).re = G u := by
    intro u _
    have h1 : ∀ v ∈ Finset.range N,
        (Cx.mul (fmul (rfft2 N N N img) (psfFft .pi .pi N (2 * h + 1) (2 * h + 1) psf) v u) (Cx.cis (ang N (v * r + u * c)))).re
        = (∑ r' ∈ Finset.range N, ∑ c' ∈ Finset.range N, ∑ i ∈ S, ∑ j ∈ S,
            ((img r' c' * psf i j : ℝ) : ℂ) * (rootE N (v * expA N h r r' i) * rootE N (u * expA N h c c' j))).re := by
      intro v hv
      rw [Cx.re_eq, conv_term N h r c v u hN (Finset.mem_range.mp hv)]
    rw [Finset.sum_congr rfl h1, ← Complex.re_sum]
    -- bring the v-sum inside
    have h2 : ∑ v ∈ Finset.range N, ∑ r' ∈ Finset.range N, ∑ c' ∈ Finset.range N, ∑ i ∈ S, ∑ j ∈ S,
          ((img r' c' * psf i j : ℝ) : ℂ) * (rootE N (v * expA N h r r' i) * rootE N (u * expA N h c c' j))
        = ∑ r' ∈ Finset.range N, ∑ c' ∈ Finset.range N, ∑ i ∈ S, ∑ j ∈ S,
          ((img r' c' * psf i j : ℝ) : ℂ) * ((if N ∣ expA N h r r' i then (N : ℂ) else 0) * rootE N (u * expA N h c c' j)) := by
      rw [Finset.sum_comm]
      apply Finset.sum_congr rfl; intro r' _
      rw [Finset.sum_comm]
      apply Finset.sum_congr rfl; intro c' _
      rw [Finset.sum_comm]
      apply Finset.sum_congr rfl; intro i _
      rw [Finset.sum_comm]
      apply Finset.sum_congr rfl; intro j _
      rw [← Finset.mul_sum, ← Finset.sum_mul, sum_rootE_gen N _ hN]
    rw [h2]
    simp only [Complex.re_sum, G]
    apply Finset.sum_congr rfl; intro r' _
    apply Finset.sum_congr rfl; intro c' _
    apply Finset.sum_congr rfl; intro i _
    apply Finset.sum_congr rfl; intro j _
    rw [Complex.re_ofReal_mul]
    congr 1
    split_ifs
    · rw [show ((N : ℂ)) = ((N : ℝ) : ℂ) by push_cast; rfl, Complex.re_ofReal_mul]
    · simp
  -- G is symmetric under u ↦ N − u
  have hsym : ∀ u, 0 < u → u < N → G (N - u) = G u := by
    intro u _ hu
    simp only [G]
    apply Finset.sum_congr rfl; intro r' _
    apply Finset.sum_congr rfl; intro c' _
    apply Finset.sum_congr rfl; intro i _
    apply Finset.sum_congr rfl; intro j _
    rw [rootE_reflect_re N u _ hN hu]
  -- the full sum over u
  have hfull : ∑ u ∈ Finset.range N, G u
      = ∑ r' ∈ Finset.range N, ∑ c' ∈ Finset.range N, ∑ i ∈ S, ∑ j ∈ S,
          (img r' c' * psf i j) * ((if N ∣ expA N h r r' i then (N : ℝ) else 0) * (if N ∣ expA N h c c' j then (N : ℝ) else 0)) := by
    simp only [G]
    rw [Finset.sum_comm]
    apply Finset.sum_congr rfl; intro r' _
    rw [Finset.sum_comm]
    apply Finset.sum_congr rfl; intro c' _
    rw [Finset.sum_comm]
    apply Finset.sum_congr rfl; intro i _
    rw [Finset.sum_comm]
    apply Finset.sum_congr rfl; intro j _
    rw [← Finset.mul_sum, ← Finset.mul_sum, ← Complex.re_sum, sum_rootE_gen N _ hN]
    split_ifs <;> simp
  -- assemble
  simp only [convImg, synth, sumN_real]
  rw [Finset.sum_congr rfl (fun u hu => by rw [hG u (hW u hu)]), half_plane_sum N hN G hsym, hfull]
  -- collapse the indicators
  have hcollapse : ∑ r' ∈ Finset.range N, ∑ c' ∈ Finset.range N, ∑ i ∈ S, ∑ j ∈ S,
        (img r' c' * psf i j) * ((if N ∣ expA N h r r' i then (N : ℝ) else 0) * (if N ∣ expA N h c c' j then (N : ℝ) else 0))
      = (N : ℝ) * N * ∑ i ∈ S, ∑ j ∈ S, psf i j * img ((r + h + (N - 1) * i) % N) ((c + h + (N - 1) * j) % N) := by
    have e1 : ∀ r' c' i j, (img r' c' * psf i j) * ((if N ∣ expA N h r r' i then (N : ℝ) else 0) * (if N ∣ expA N h c c' j then (N : ℝ) else 0))
        = (if N ∣ expA N h r r' i then (if N ∣ expA N h c c' j then (N : ℝ) * N * (psf i j * img r' c') else 0) else 0) := by
      intro r' c' i j; split_ifs <;> ring
    simp only [e1]
    -- move the stamp sums outside, collapse c′ then r′
    have e2 : ∀ r', ∑ c' ∈ Finset.range N, ∑ i ∈ S, ∑ j ∈ S,
          (if N ∣ expA N h r r' i then (if N ∣ expA N h c c' j then (N : ℝ) * N * (psf i j * img r' c') else 0) else 0)
        = ∑ i ∈ S, ∑ j ∈ S, (if N ∣ expA N h r r' i then (N : ℝ) * N * (psf i j * img r' ((c + h + (N - 1) * j) % N)) else 0) := by
      intro r'
      rw [Finset.sum_comm]
      apply Finset.sum_congr rfl; intro i _
      rw [Finset.sum_comm]
      apply Finset.sum_congr rfl; intro j _
      split_ifs with hd
      · exact sum_indicator N h c j hN (fun c' => (N : ℝ) * N * (psf i j * img r' c'))
      · simp
    simp only [e2]
    rw [Finset.sum_comm, Finset.mul_sum]
    apply Finset.sum_congr rfl; intro i _
    rw [Finset.sum_comm, Finset.mul_sum]
    apply Finset.sum_congr rfl; intro j _
    rw [sum_indicator N h r i hN (fun r' => (N : ℝ) * N * (psf i j * img r' ((c + h + (N - 1) * j) % N)))]
  rw [hcollapse]
  field_simp

/-- **irfft2 ∘ rfft2 is the identity on real N×N images** (1×1 unit stamp) -/
theorem synth_rfft2_inverse (N r c : ℕ) (hN : 0 < N) (hr : r < N) (hc : c < N) (img : Img ℝ) :
    convImg N (psfFft .pi .pi N 1 1 (fun _ _ => (1 : ℝ))) img r c = img r c := by
  have := convImg_circular N 0 r c hN img (fun _ _ => (1 : ℝ))
  simp only [Nat.mul_zero, Nat.zero_add, Finset.range_one, Finset.sum_singleton, Nat.add_zero, one_mul,
    Nat.mod_eq_of_lt hr, Nat.mod_eq_of_lt hc] at this
  exact this

end Pysersic.Render
