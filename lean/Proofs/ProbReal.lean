/-
Real-number reading of the generic probability definitions.
-/
import Proofs.RealScalar
import PysersicModel.Prob.Loss
import Mathlib.Analysis.SpecialFunctions.Log.Basic
import Mathlib.Analysis.SpecialFunctions.Sqrt
import Mathlib.Tactic.FieldSimp
import Mathlib.Tactic.Ring
import Mathlib.Tactic.Positivity
import Mathlib.Tactic.Linarith

namespace Pysersic.Prob
open Pysersic Real

@[simp] theorem two_real : (two : ℝ) = 2 := by simp [two]
@[simp] theorem one_real : (one : ℝ) = 1 := by simp [one]
@[simp] theorem zero_real : (zero : ℝ) = 0 := by simp [zero]
@[simp] theorem half_real : (half : ℝ) = 1 / 2 := by simp [half]
@[simp] theorem sq_real (x : ℝ) : sq x = x ^ 2 := by simp [sq, pow_two]

/-- the Gaussian log-density in textbook form -/
theorem normalLogPdf_real (loc scale x : ℝ) (hs : 0 < scale) :
    normalLogPdf loc scale x
      = -(x - loc) ^ 2 / (2 * scale ^ 2) - Real.log scale - Real.log (2 * π) / 2 := by
  unfold normalLogPdf
  simp only [half_real, sq_real, two_real, Transc.log_real, Transc.sqrt_real, Transc.pi_real]
  have h2pi : (0 : ℝ) < 2 * π := by positivity
  rw [Real.log_mul (by positivity) hs.ne', Real.log_sqrt h2pi.le, div_pow]
  field_simp
  ring

/-- `exp` of the Gaussian log-density is the Gaussian density -/
theorem exp_normalLogPdf (loc scale x : ℝ) (hs : 0 < scale) :
    Real.exp (normalLogPdf loc scale x)
      = Real.exp (-(x - loc) ^ 2 / (2 * scale ^ 2)) / (Real.sqrt (2 * π) * scale) := by
  unfold normalLogPdf
  simp only [half_real, sq_real, two_real, Transc.log_real, Transc.sqrt_real, Transc.pi_real]
  have hpos : 0 < Real.sqrt (2 * π) * scale := by positivity
  rw [Real.exp_sub, Real.exp_log hpos, div_pow]
  congr 2
  field_simp

theorem sumList_real (l : List ℝ) : sumList l = l.sum := by
  induction l with
  | nil => simp [sumList]
  | cons a t ih => simp [sumList] at ih ⊢; rw [ih]

end Pysersic.Prob
