/- `translated kernel = model kernel` over ℝ, for every argument (see Proofs/GenK/Basic.lean). -/
import Proofs.GenK.Basic

namespace Pysersic.GenProofs
open Pysersic Pysersic.Prob Pysersic.Render Real

/-- what `TiltedPlaneSkyPrior.sample` returns for the sampled values (back, x_sl, y_sl) is the model's plane,
with both pivots taken from the first array dimension, as the source does -/
theorem gen_tilted_sample_eq (rows : ℕ) (X Y back xsl ysl : ℝ) :
    Gen.K.tilted_plane_sky_sample X Y back xsl ysl (rows : ℝ) (rows : ℝ)
      = Prob.tiltedPlane rows X Y ⟨back, xsl, ysl⟩ := by
  simp only [Gen.K.tilted_plane_sky_sample, Prob.tiltedPlane]
  unfold_scalars <;> close_ring

end Pysersic.GenProofs
