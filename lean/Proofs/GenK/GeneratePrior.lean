/- The translated prior program is the model's `generatePrior`, for every profile type and every guess. -/
import Proofs.GenK.Basic

namespace Pysersic.GenProofs
open Pysersic Pysersic.Prob Pysersic.Render Real

/-- `SourceProperties.generate_prior(profile_type)` as the source spells it — every setter call, in order, under
the source's own tests on the profile-type string — installs exactly the list the model's `generatePrior` gives
with the regenerated constants, for each of the seven profile types and all guesses. -/
theorem gen_generate_prior_eq (t : PType) (g : Guesses ℝ) :
    Gen.K.generate_prior (profile_type := t.pyName) (flux_guess := g.flux) (flux_guess_err := g.fluxErr)
        (r_eff_guess := g.rEff) (r_eff_guess_err := g.rEffErr) (xc_guess := g.xc) (yc_guess := g.yc)
      = generatePrior Gen.priorConsts t g := by
  cases t <;>
    simp [Gen.K.generate_prior, generatePrior, PType.pyName, Names.hasSub, Gen.priorConsts, Q.to_real,
      gaussianPrior, uniformPrior, truncGaussianPrior, dec_real] <;>
    norm_num

end Pysersic.GenProofs
