/- `translated kernel = model kernel` over ℝ, for every argument (see Proofs/GenK/Basic.lean). -/
import Proofs.GenK.Basic

namespace Pysersic.GenProofs
open Pysersic Pysersic.Prob Pysersic.Render Real

/-- the argument of `factor` in `pseudo_huber_loss`, at the default δ, is the model's pseudo-Huber term -/
theorem gen_huber_eq (nu : Prob.Nuis ℝ) (mr m d r : ℝ) :
    Gen.K.pseudo_huber_loss_factor m d r (Gen.lossConsts.delta.to : ℝ)
      = Prob.lossPixel Gen.lossConsts .pseudoHuber nu mr ⟨m, d, r, true⟩ := by
  have hd : Gen.lossConsts.huberDeltaSq = true := by decide
  simp only [Gen.K.pseudo_huber_loss_factor, Prob.lossPixel, hd, if_true]
  unfold_scalars <;> close_ring

end Pysersic.GenProofs
