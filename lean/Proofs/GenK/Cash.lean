/- `translated kernel = model kernel` over ℝ, for every argument (see Proofs/GenK/Basic.lean). -/
import Proofs.GenK.Basic

namespace Pysersic.GenProofs
open Pysersic Pysersic.Prob Pysersic.Render Real

/-- the argument of `factor` in `cash_loss` is the model's Cash term -/
theorem gen_cash_eq (nu : Prob.Nuis ℝ) (mr m d r : ℝ) :
    Gen.K.cash_loss_factor m d = Prob.lossPixel Gen.lossConsts .cash nu mr ⟨m, d, r, true⟩ := by
  simp only [Gen.K.cash_loss_factor, Prob.lossPixel]
  unfold_scalars <;> close_ring

end Pysersic.GenProofs
