/-
Common part of the `translated kernel = model kernel` obligations: the regenerated `b_n`
constants over ℝ, the lemma about the guarded evaluation at the source centre, and the two
closing tactics.  One module per kernel imports this, so that a change to one kernel of the
source touches one obligation only.
-/
import Proofs.RenderReal
import PysersicModel.Gen.Kernels
import PysersicModel.Gen.Consts
import PysersicModel.Prob.Sky
import PysersicModel.Prob.Loss
import PysersicModel.Prob.MultiBand
import Mathlib.Tactic.Ring
import Mathlib.Tactic.FieldSimp
import Mathlib.Tactic.Linarith
import Mathlib.Tactic.Positivity
import Mathlib.Tactic.NormNum

namespace Pysersic.GenProofs
open Pysersic Pysersic.Prob Pysersic.Render Real

theorem bn2d_real (n : ℝ) : bnOf Gen.bn2d n = (19992 / 10000 : ℝ) * n - 3271 / 10000 := by
  simp only [bnOf, Gen.bn2d, Q.to_real]; norm_num

theorem bn1d_real (n : ℝ) : bnOf Gen.bn1d n = (19992 / 10000 : ℝ) * n - 3271 / 10000 := by
  simp only [bnOf, Gen.bn1d, Q.to_real]; norm_num

/-- the guarded evaluation at the source centre does not change the value: for `z² ≥ 0` and
`n ≠ 0`, `where(z²>0, sqrt(where(z²>0, z², 1)) ** (1/n), 0) = sqrt(z²) ** (1/n)` -/
theorem centre_guard (zsq n : ℝ) (h : 0 ≤ zsq) (hn : n ≠ 0) :
    (if 0 < zsq then √(if 0 < zsq then zsq else 1) ^ (1 / n) else 0) = √zsq ^ (1 / n) := by
  by_cases hpos : 0 < zsq
  · simp only [hpos, if_true]
  · have h0 : zsq = 0 := le_antisymm (not_lt.mp hpos) h
    simp only [h0, lt_self_iff_false, if_false, Real.sqrt_zero, Real.zero_rpow (one_div_ne_zero hn)]

/-- simp set unfolding the scalar vocabulary at ℝ -/
macro "unfold_scalars" : tactic => `(tactic|
  simp only [rotAngle, two, one, zero, half, Prob.sq, dec_real, bn2d_real, bn1d_real,
    Cx.ofReal, Cx.I, Cx.neg, Cx.sub, Cx.mul, Cx.add, Cx.smul, Cx.exp, Cx.expc, Cx.cis, Cx.divr,
    Transc.exp_real, Transc.log_real, Transc.sqrt_real, Transc.sin_real, Transc.cos_real, Transc.rpow_real,
    Transc.lgamma_real, Transc.pi_real, Nat.cast_ofNat, Nat.cast_one, Nat.cast_zero, decide_eq_true_eq])

/-- closes an equation of real expressions that agree up to commutative-ring rewriting inside and outside
function arguments, and up to `exp 0 = 1` -/
macro "close_ring" : tactic => `(tactic|
  first
    | rfl
    | (ring_nf; done)
    | (ring_nf; simp only [Real.exp_zero, mul_one, one_mul]; done)
    | (ring_nf; simp only [Real.exp_zero, mul_one, one_mul]; ring_nf; done))

end Pysersic.GenProofs
