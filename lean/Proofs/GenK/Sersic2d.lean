/- `translated kernel = model kernel` over ℝ, for every argument (see Proofs/GenK/Basic.lean). -/
import Proofs.GenK.Basic

namespace Pysersic.GenProofs
open Pysersic Pysersic.Prob Pysersic.Render Real

/-- `render_sersic_2d` as the source spells it (including the guarded evaluation at the
centre) is the model's `sersic2d`, for every non-zero Sersic index. -/
theorem gen_sersic2d_eq (X Y xc yc flux r_eff n ellip theta : ℝ) (hn : n ≠ 0) :
    Gen.K.render_sersic_2d X Y xc yc flux r_eff n ellip theta
      = sersic2d Gen.bn2d X Y ⟨xc, yc, flux, r_eff, n, ellip, theta⟩ := by
  simp only [Gen.K.render_sersic_2d, sersic2d]
  unfold_scalars
  rw [centre_guard _ _ (add_nonneg (mul_self_nonneg _) (mul_self_nonneg _)) hn] <;> close_ring

end Pysersic.GenProofs
