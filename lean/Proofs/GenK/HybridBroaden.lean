/- `translated kernel = model kernel` over ℝ, for every argument (see Proofs/GenK/Basic.lean). -/
import Proofs.GenK.Basic

namespace Pysersic.GenProofs
open Pysersic Pysersic.Prob Pysersic.Render Real

/-- the two local variables `sigmas_obs`, `q_obs` of `HybridRenderer.render_sersic_hybrid` are the model's `broaden`
(width and axis ratio of a real-space component after adding the PSF's width in quadrature), for every component -/
theorem gen_hybrid_broaden_eq (xc yc flux r_eff n ellip theta amp sigma sigPsf : ℝ) :
    Gen.K.hybrid_broaden xc yc flux r_eff n ellip theta amp sigma sigPsf
      = ((broaden sigPsf ⟨amp, sigma, 1 - ellip⟩).sigma, (broaden sigPsf ⟨amp, sigma, 1 - ellip⟩).q) := by
  simp only [Gen.K.hybrid_broaden, broaden]
  first
    | (unfold_scalars; done)
    | (unfold_scalars
       refine Prod.ext ?_ ?_ <;> (first | rfl | (congr 1; ring_nf; done) | (ring_nf; done) | (congr 1; congr 1 <;> ring_nf; done)))

end Pysersic.GenProofs
