/- `translated kernel = model kernel` over ℝ, for every argument (see Proofs/GenK/Basic.lean). -/
import Proofs.GenK.Basic

namespace Pysersic.GenProofs
open Pysersic Pysersic.Prob Pysersic.Render Real

/-- `render_pointsource_fourier` is the model's `pointFourier` -/
theorem gen_point_fourier_eq (FX FY xc yc flux : ℝ) :
    Gen.K.render_pointsource_fourier FX FY xc yc flux = pointFourier FX FY xc yc flux := by
  simp only [Gen.K.render_pointsource_fourier, pointFourier]
  unfold_scalars
  apply Cx.ext' <;> close_ring

end Pysersic.GenProofs
