/- `translated kernel = model kernel` over ℝ, for every argument (see Proofs/GenK/Basic.lean). -/
import Proofs.GenK.Basic

namespace Pysersic.GenProofs
open Pysersic Pysersic.Prob Pysersic.Render Real

/-- the summand of `render_gaussian_fourier` is the model's `gaussFourierTerm` -/
theorem gen_gauss_fourier_eq (FX FY amp sigma xc yc theta q : ℝ) :
    Gen.K.render_gaussian_fourier_term FX FY amp sigma xc yc theta q
      = gaussFourierTerm FX FY xc yc theta ⟨amp, sigma, q⟩ := by
  simp only [Gen.K.render_gaussian_fourier_term, gaussFourierTerm]
  unfold_scalars
  apply Cx.ext' <;> close_ring

/-- the source returns the sum of these summands over the component axis -/
theorem repo_gauss_fourier_reduce : Gen.K.reduceOf.lookup "render_gaussian_fourier_term" = some "sum_axis0" := by decide

end Pysersic.GenProofs
