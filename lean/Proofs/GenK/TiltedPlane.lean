/- `translated kernel = model kernel` over ℝ, for every argument (see Proofs/GenK/Basic.lean). -/
import Proofs.GenK.Basic

namespace Pysersic.GenProofs
open Pysersic Pysersic.Prob Pysersic.Render Real

/-- `render_tilted_plane_sky` with both midpoints taken from the first array dimension, as the source does -/
theorem gen_tilted_plane_eq (rows : ℕ) (X Y back xsl ysl : ℝ) :
    Gen.K.render_tilted_plane_sky X Y back xsl ysl (rows : ℝ) (rows : ℝ)
      = Prob.tiltedPlane rows X Y ⟨back, xsl, ysl⟩ := by
  simp only [Gen.K.render_tilted_plane_sky, Prob.tiltedPlane]
  unfold_scalars <;> close_ring

end Pysersic.GenProofs
