/- `translated kernel = model kernel` over ℝ, for every argument (see Proofs/GenK/Basic.lean). -/
import Proofs.GenK.Basic

namespace Pysersic.GenProofs
open Pysersic Pysersic.Prob Pysersic.Render Real

/-- `sersic1D` on a complex radius: its real part is the model's `sersic1DRe` -/
theorem gen_sersic1d_cx_eq (r : Cx ℝ) (flux re n : ℝ) :
    (Gen.K.sersic1D_cx r flux re n).re = sersic1DRe Gen.bn1d r flux re n := by
  simp only [Gen.K.sersic1D_cx, sersic1DRe]
  unfold_scalars <;> close_ring

end Pysersic.GenProofs
