/- `translated kernel = model kernel` over ℝ, for every argument (see Proofs/GenK/Basic.lean). -/
import Proofs.GenK.Basic

namespace Pysersic.GenProofs
open Pysersic Pysersic.Prob Pysersic.Render Real

/-- the summand of `render_gaussian_pixel` is the model's `gaussPixelTerm` -/
theorem gen_gauss_pixel_eq (X Y amp sigma xc yc theta q : ℝ) :
    Gen.K.render_gaussian_pixel_term X Y amp sigma xc yc theta q
      = gaussPixelTerm X Y xc yc theta ⟨amp, sigma, q⟩ := by
  simp only [Gen.K.render_gaussian_pixel_term, gaussPixelTerm]
  unfold_scalars <;> close_ring

/-- the source returns the sum of these summands over the component axis -/
theorem repo_gauss_pixel_reduce : Gen.K.reduceOf.lookup "render_gaussian_pixel_term" = some "sum_axis0" := by decide

end Pysersic.GenProofs
