/- `translated kernel = model kernel` over ℝ, for every argument (see Proofs/GenK/Basic.lean). -/
import Proofs.GenK.Basic

namespace Pysersic.GenProofs
open Pysersic Pysersic.Prob Pysersic.Render Real

/-- `restrict_func` is the model's logistic link -/
theorem gen_restrict_eq (x hi low : ℝ) : Gen.K.restrict_func x hi low = MultiBand.restrict x hi low := by
  simp only [Gen.K.restrict_func, MultiBand.restrict, MultiBand.logistic]
  unfold_scalars <;> close_ring

end Pysersic.GenProofs
