/- The translated loss programs are the model's losses: per-pixel term, latent sites, site structure. -/
import Proofs.GenK.Basic

namespace Pysersic.GenProofs
open Pysersic Pysersic.Prob Pysersic.Render Real



/-- unfolds the model's per-pixel loss and the regenerated constants over ℝ -/
macro "unfold_loss" : tactic => `(tactic|
  simp only [lossPixel, sysScatter, contamFrac, studentScale, Gen.lossConsts, Q.to_real, if_true,
    Dist.logProb, normalLogPdf, studentTLogPdf, logAddExp])

theorem gen_loss_gaussian_eq (nu : Nuis ℝ) (mr m d r : ℝ) :
    Gen.K.gaussian_loss_pixel m d r = lossPixel Gen.lossConsts .gaussian nu mr ⟨m, d, r, true⟩ := by
  simp only [Gen.K.gaussian_loss_pixel]; unfold_loss

theorem gen_loss_cash_eq (nu : Nuis ℝ) (mr m d r : ℝ) :
    Gen.K.cash_loss_pixel m d r = lossPixel Gen.lossConsts .cash nu mr ⟨m, d, r, true⟩ := by
  simp only [Gen.K.cash_loss_pixel]; unfold_loss; unfold_scalars <;> close_ring

theorem gen_loss_w_frac_eq (nu : Nuis ℝ) (mr m d r : ℝ) :
    Gen.K.gaussian_loss_w_frac_pixel m d r nu.frac = lossPixel Gen.lossConsts .gaussianWFrac nu mr ⟨m, d, r, true⟩ := by
  simp only [Gen.K.gaussian_loss_w_frac_pixel]; unfold_loss; unfold_scalars <;> close_ring

theorem gen_loss_w_sys_eq (nu : Nuis ℝ) (mr m d r : ℝ) :
    Gen.K.gaussian_loss_w_sys_pixel m d r (mean_rms_good := mr) (sys_scatter_base := nu.sysBase)
      = lossPixel Gen.lossConsts .gaussianWSys nu mr ⟨m, d, r, true⟩ := by
  simp only [Gen.K.gaussian_loss_w_sys_pixel]; unfold_loss; unfold_scalars <;> close_ring

/-- `student_t_loss` (whose body fixes ν = 5 whatever is passed) -/
theorem gen_loss_student_t_eq (nu : Nuis ℝ) (mr m d r nuArg : ℝ) :
    Gen.K.student_t_loss_pixel m d r nuArg = lossPixel Gen.lossConsts .studentT nu mr ⟨m, d, r, true⟩ := by
  simp only [Gen.K.student_t_loss_pixel]; unfold_loss; unfold_scalars <;> norm_num

theorem gen_loss_student_t_free_sys_eq (nu : Nuis ℝ) (mr m d r : ℝ) :
    Gen.K.student_t_loss_free_sys_pixel m d r (nu := (Gen.lossConsts.nuSys.to : ℝ)) (mean_rms_good := mr) (sys_scatter_base := nu.sysBase)
      = lossPixel Gen.lossConsts .studentTFreeSys nu mr ⟨m, d, r, true⟩ := by
  simp only [Gen.K.student_t_loss_free_sys_pixel]; unfold_loss; unfold_scalars <;> norm_num

theorem gen_loss_huber_eq (nu : Nuis ℝ) (mr m d r : ℝ) :
    Gen.K.pseudo_huber_loss_pixel m d r (delta := (Gen.lossConsts.delta.to : ℝ)) = lossPixel Gen.lossConsts .pseudoHuber nu mr ⟨m, d, r, true⟩ := by
  simp only [Gen.K.pseudo_huber_loss_pixel]; unfold_loss; unfold_scalars <;> close_ring

theorem gen_loss_mixture_eq (nu : Nuis ℝ) (mr m d r : ℝ) :
    Gen.K.gaussian_mixture_pixel m d r (c := (Gen.lossConsts.c.to : ℝ)) (contam_frac_base := nu.contamBase)
      = lossPixel Gen.lossConsts .mixture nu mr ⟨m, d, r, true⟩ := by
  simp only [Gen.K.gaussian_mixture_pixel]; unfold_loss; unfold_scalars <;> norm_num

theorem gen_loss_mixture_w_sys_eq (nu : Nuis ℝ) (mr m d r : ℝ) :
    Gen.K.gaussian_mixture_w_sys_pixel m d r (c := (Gen.lossConsts.c.to : ℝ)) (mean_rms_good := mr) (contam_frac_base := nu.contamBase)
        (sys_scatter_base := nu.sysBase)
      = lossPixel Gen.lossConsts .mixtureWSys nu mr ⟨m, d, r, true⟩ := by
  simp only [Gen.K.gaussian_mixture_w_sys_pixel]; unfold_loss; unfold_scalars <;> norm_num

theorem gen_loss_mixture_w_frac_eq (nu : Nuis ℝ) (mr m d r : ℝ) :
    Gen.K.gaussian_mixture_w_frac_pixel m d r (c := (Gen.lossConsts.c.to : ℝ)) (contam_frac_base := nu.contamBase) (sig_frac := nu.sigFrac)
      = lossPixel Gen.lossConsts .mixtureWFrac nu mr ⟨m, d, r, true⟩ := by
  simp only [Gen.K.gaussian_mixture_w_frac_pixel]; unfold_loss; unfold_scalars <;> norm_num

/-! ### latent sites -/

macro "unfold_sites" : tactic => `(tactic|
  (simp [nuisanceSites, Gen.lossConsts, Q.to_real, zero, one, two, dec_real] <;> norm_num))

theorem gen_sites_gaussian : (Gen.K.gaussian_loss_sites : List (String × Prob.Dist ℝ)) = nuisanceSites Gen.lossConsts .gaussian := by
  simp [Gen.K.gaussian_loss_sites, nuisanceSites]
theorem gen_sites_cash : (Gen.K.cash_loss_sites : List (String × Prob.Dist ℝ)) = nuisanceSites Gen.lossConsts .cash := by
  simp [Gen.K.cash_loss_sites, nuisanceSites]
theorem gen_sites_student_t : (Gen.K.student_t_loss_sites : List (String × Prob.Dist ℝ)) = nuisanceSites Gen.lossConsts .studentT := by
  simp [Gen.K.student_t_loss_sites, nuisanceSites]
theorem gen_sites_huber : (Gen.K.pseudo_huber_loss_sites : List (String × Prob.Dist ℝ)) = nuisanceSites Gen.lossConsts .pseudoHuber := by
  simp [Gen.K.pseudo_huber_loss_sites, nuisanceSites]
theorem gen_sites_w_frac : (Gen.K.gaussian_loss_w_frac_sites : List (String × Prob.Dist ℝ)) = nuisanceSites Gen.lossConsts .gaussianWFrac := by
  simp only [Gen.K.gaussian_loss_w_frac_sites]; unfold_sites
theorem gen_sites_w_sys : (Gen.K.gaussian_loss_w_sys_sites : List (String × Prob.Dist ℝ)) = nuisanceSites Gen.lossConsts .gaussianWSys := by
  simp only [Gen.K.gaussian_loss_w_sys_sites]; unfold_sites
theorem gen_sites_student_t_free_sys :
    (Gen.K.student_t_loss_free_sys_sites : List (String × Prob.Dist ℝ)) = nuisanceSites Gen.lossConsts .studentTFreeSys := by
  simp only [Gen.K.student_t_loss_free_sys_sites]; unfold_sites
theorem gen_sites_mixture : (Gen.K.gaussian_mixture_sites : List (String × Prob.Dist ℝ)) = nuisanceSites Gen.lossConsts .mixture := by
  simp only [Gen.K.gaussian_mixture_sites]; unfold_sites
theorem gen_sites_mixture_w_sys :
    (Gen.K.gaussian_mixture_w_sys_sites : List (String × Prob.Dist ℝ)) = nuisanceSites Gen.lossConsts .mixtureWSys := by
  simp only [Gen.K.gaussian_mixture_w_sys_sites]; unfold_sites
theorem gen_sites_mixture_w_frac :
    (Gen.K.gaussian_mixture_w_frac_sites : List (String × Prob.Dist ℝ)) = nuisanceSites Gen.lossConsts .mixtureWFrac := by
  simp only [Gen.K.gaussian_mixture_w_frac_sites]; unfold_sites

/-! ### site structure -/

/-- every loss has exactly one likelihood site, under `handlers.mask(mask=mask)`; the ten functions are the model's ten kinds,
in the same order -/
theorem gen_loss_meta :
    Gen.K.lossMeta.map (fun r => (r.1, r.2.2.2.1)) = LossKind.all.map (fun k => (k.pyName, true)) := by decide

/-- the observed site is called `Loss`; the two factor losses name their site after the function -/
theorem gen_loss_site_names :
    Gen.K.lossMeta.map (fun r => (r.2.1, r.2.2.1)) =
      LossKind.all.map (fun k => if k = .cash ∨ k = .pseudoHuber then (k.pyName, "factor") else ("Loss", "observed")) := by decide

end Pysersic.GenProofs
