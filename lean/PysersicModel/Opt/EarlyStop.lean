/-
Model of `train_numpyro_svi_early_stop` (pysersic/pysersic.py:592-672).

The SVI object is abstracted to what the routine can observe of it: every call
of `update_func(state, svi_class, lr)` returns a fresh state and a loss.  The
k-th call (k = 0,1,2,…, counted globally) returns loss `script k` and a state
whose identity is `k+1`; the state returned by `svi_class.init` has identity 0.

The loop variables of the Python code (`svi_state`, `best_state`, `best_loss`,
`wait_counter`) are the arguments of `inner`; in addition the model emits the
trace of the round, one `Step` per `update_func` call, on which the property
theorems are stated.

Import-free (core Lean only) so the same definitions run in the compiled driver.
-/
namespace Pysersic.EarlyStop

/-- IEEE-like loss values as far as `<` can tell them apart. -/
inductive Loss where
  | nan
  | ninf
  | fin (v : Int)
  | pinf
deriving DecidableEq, Repr, Inhabited

/-- IEEE `<`: false whenever a NaN is involved. -/
def Loss.lt : Loss → Loss → Bool
  | .nan, _ => false
  | _, .nan => false
  | .ninf, .ninf => false
  | .ninf, _ => true
  | _, .ninf => false
  | .fin a, .fin b => decide (a < b)
  | .fin _, .pinf => true
  | .pinf, _ => false

/-- IEEE `<=`: false whenever a NaN is involved (the source uses `<` only; the translator needs the others to be
able to express what an edited source says) -/
def Loss.le (a b : Loss) : Bool := a.lt b || (a == b && a != .nan)

structure Cfg where
  numRound : Nat
  maxTrain : Nat
  patience : Nat
deriving Repr

/-- One call of `update_func` inside a round. -/
structure Step where
  round : Nat      -- exponent r: the call used learning rate lr_init * frac_lr_decrease ^ r
  inState : Nat    -- identity of the state passed in
  outState : Nat   -- identity of the state returned ( = global call index + 1 )
  loss : Loss
  barBefore : Loss -- `best_loss` when the comparison was made
  adopted : Bool   -- the `if loss < best_loss` branch was taken
  broke : Bool     -- the `elif wait_counter >= patience: break` branch was taken
deriving Repr

/-- What a round leaves behind. -/
structure RoundEnd where
  steps : List Step       -- chronological
  best : Nat              -- best_state
  bar : Loss              -- best_loss
  cur : Nat               -- svi_state
  recorded : List Loss    -- `losses`, chronological
deriving Repr

/-- The `for j in t:` loop.  Arguments: iterations left, `svi_state`,
`best_state`, `best_loss`, `wait_counter`, number of `update_func` calls made so far. -/
def inner (script : Nat → Loss) (patience r : Nat) :
    Nat → Nat → Nat → Loss → Nat → Nat → RoundEnd
  | 0, cur, best, bar, _, _ => ⟨[], best, bar, cur, []⟩
  | fuel + 1, cur, best, bar, wait, calls =>
    let loss := script calls
    let out := calls + 1
    if loss.lt bar then
      let e := inner script patience r fuel out out loss 0 (calls + 1)
      { e with steps := ⟨r, cur, out, loss, bar, true, false⟩ :: e.steps,
               recorded := loss :: e.recorded }
    else if wait ≥ patience then
      ⟨[⟨r, cur, out, loss, bar, false, true⟩], best, bar, out, []⟩
    else
      let e := inner script patience r fuel out best bar (wait + 1) (calls + 1)
      { e with steps := ⟨r, cur, out, loss, bar, false, false⟩ :: e.steps,
               recorded := loss :: e.recorded }

/-- A completed round together with the values it started from. -/
structure RoundRec where
  idx : Nat          -- r
  start : Nat        -- `svi_state = copy(best_state)` at the top of the round
  bar0 : Loss        -- `best_loss` at the top of the round
  firstCall : Nat    -- global index of the round's first `update_func` call
  out : RoundEnd
deriving Repr

/-- `for r in range(num_round)`: rounds `r, r+1, …, r+k-1`, given the carried
`best_state`, `best_loss` and call count. -/
def rounds (script : Nat → Loss) (cfg : Cfg) : Nat → Nat → Nat → Loss → Nat → List RoundRec
  | _, 0, _, _, _ => []
  | r, k + 1, best, bar, calls =>
    let bar0 := if r > 0 then Loss.pinf else bar
    let e := inner script cfg.patience r cfg.maxTrain best best bar0 0 calls
    ⟨r, best, bar0, calls, e⟩ :: rounds script cfg (r + 1) k e.best e.bar (calls + e.steps.length)

/-- `best_loss` after the unconditional first step
`best_state, best_loss = update_func(init_state, svi_class, lr_init)`:
a NaN loss is replaced by `+inf` (pysersic.py, `if jnp.isnan(best_loss)`). -/
def firstBar (l : Loss) : Loss :=
  match l with
  | .nan => .pinf
  | l => l

/-- All rounds, after the unconditional first step
(call 0: state 0 ↦ state 1 with loss `script 0`). -/
def allRounds (script : Nat → Loss) (cfg : Cfg) : List RoundRec :=
  rounds script cfg 0 cfg.numRound 1 (firstBar (script 0)) 1

structure Result where
  best : Nat            -- state whose parameters are returned
  last : Nat            -- `svi_state` returned as second component
  losses : List Loss    -- third component, chronological
  calls : Nat           -- total number of `update_func` calls
deriving Repr, DecidableEq

def totalCalls (recs : List RoundRec) : Nat :=
  1 + (recs.map fun rc => rc.out.steps.length).sum

/-- `none` models the `NameError` Python raises for `num_round = 0`
(`svi_state`/`losses` are never bound). -/
def run (script : Nat → Loss) (cfg : Cfg) : Option Result :=
  let recs := allRounds script cfg
  match recs.getLast? with
  | none => none
  | some rc => some ⟨rc.out.best, rc.out.cur, rc.out.recorded, totalCalls recs⟩

end Pysersic.EarlyStop
