/-
Post-processing of `BaseFitter.find_MAP` / `FitMulti.find_MAP` (pysersic/pysersic.py):
which sites of the conditioned trace end up in the returned dictionary (the
if / elif / elif chain over the site names, translated from the source into
`NameTest`s) and how the multi-source result is regrouped per source.

Import-free.
-/
import PysersicModel.IO.Results
import PysersicModel.Prob.Fitter

namespace Pysersic.MapDict
open Pysersic Pysersic.Results Pysersic.Names

inductive MapFate where
  | skipped      -- `continue`
  | rawImage     -- stored as is (`np.asarray`)
  | rounded      -- stored rounded to 5 decimals
  | dropped      -- falls through every branch
deriving Repr, DecidableEq

/-- the if / elif / elif chain of the purge loop -/
def mapFate (skipT modelT keepT : NameTest) (key : Str) : MapFate :=
  if skipT.eval key then .skipped
  else if modelT.eval key then .rawImage
  else if keepT.eval key then .rounded
  else .dropped

def kept (skipT modelT keepT : NameTest) (key : String) : Bool :=
  match mapFate skipT modelT keepT key.toList with
  | .rawImage | .rounded => true
  | _ => false

/-- keys of the dictionary `BaseFitter.find_MAP(purge_extra=True)` returns, in trace order -/
def purgeKeys (skipT modelT keepT : NameTest) (sites : List String) : List String :=
  sites.filter (kept skipT modelT keepT)

/-- names of every site of a single/multi fitter model whose prior defines `params` -/
def siteNames (K : Prob.LossConstsQ) (params : List String) (loss : Prob.LossKind) (suffix : String) (returnModel : Bool) : List String :=
  (Prob.fitterSites (α := Float) K (params.map fun p => (p, Prob.Dist.normal 0.0 1.0)) loss suffix returnModel).map Prod.fst

/-- `FitMulti.find_MAP`: `source_i` ↦ the parameters of source i popped from the raw dictionary
under `p_i`; everything left over stays at top level -/
def regroup (paramsOf : String → List String) (types : List String) (raw : List String) :
    List (String × List String) × List String :=
  let groups := (types.zipIdx).map fun (ti : String × Nat) =>
    ("source_" ++ ToString.toString ti.2, (paramsOf ti.1).filter fun p => raw.contains (p ++ "_" ++ ToString.toString ti.2))
  let taken := (types.zipIdx).flatMap fun (ti : String × Nat) => (paramsOf ti.1).map fun p => p ++ "_" ++ ToString.toString ti.2
  (groups, raw.filter fun k => !taken.contains k)

end Pysersic.MapDict
