/-
The three renderers of pysersic/rendering.py for square N×N images:
`PixelRenderer` (point-sampled Sersic, overwritten inside the central box by the
Gauss–Legendre sub-sampled value; point source by bilinear interpolation of the
PSF), `FourierRenderer` (Gaussian mixture in Fourier space) and `HybridRenderer`
(the `num_pixel_render` widest components in real space, PSF-broadened), the
composite profiles, `render_for_model`, `render_source` and the parameter-name
handling around them.

External data enter as parameters: Gauss–Legendre nodes/weights (numpy
`leggauss`), the normalised mixture amplitudes `A_k(n)` (interpax cubic
interpolation of the tabulated decomposition, or the direct decomposition).

Import-free.
-/
import PysersicModel.Render.Decomp
import PysersicModel.IO.Names

namespace Pysersic.Render
open Pysersic
open Pysersic.Prob (two one zero half sq)

section
variable {α : Type} [Add α] [Sub α] [Mul α] [Div α] [Neg α] [NatCast α] [Transc α]

/-! ### pixel renderer -/

/-- Python's `round` on the half-integer h/2: to the nearest integer, ties to the even one -/
def roundHalfEven (h : Int) : Int :=
  if h % 2 = 0 then h / 2 else (if ((h - 1) / 2) % 2 = 0 then (h - 1) / 2 else (h - 1) / 2 + 1)

/-- the oversampled box `[N/2 − os, N/2 + os)` (rows and columns); Python slice
semantics for `os ≤ N/2` -/
def boxLo (N os : Nat) : Nat := N / 2 - os
def boxHi (N os : Nat) : Nat := min (N / 2 + os) N
def inBox (N os r c : Nat) : Bool :=
  boxLo N os ≤ r && r < boxHi N os && boxLo N os ≤ c && c < boxHi N os

/-- Gauss–Legendre rule on [−½, ½]: nodes `dx/2`, weights `w/2` -/
structure GL (α : Type) where
  nodes : List α
  weights : List α

/-- sub-sampled value of one pixel: `Σ_i Σ_j w_i w_j · sersic2d(X + dx_j, Y + dx_i)` -/
def osPixel (bc : BnC) (gl : GL α) (X Y : α) (p : SersicP α) : α :=
  sumList ((gl.nodes.zip gl.weights).map fun (di, wi) =>
    sumList ((gl.nodes.zip gl.weights).map fun (dj, wj) =>
      sersic2d bc (X + dj) (Y + di) p * (wj * wi)))

/-- `PixelRenderer.render_int_sersic` -/
def renderIntSersic (bc : BnC) (N os : Nat) (gl : GL α) (p : SersicP α) : Img α := fun r c =>
  if inBox N os r c then osPixel bc gl (c : α) (r : α) p
  else sersic2d bc (c : α) (r : α) p

section
variable [Max α]
/-- linear-interpolation weight `max(0, 1 − |t|)` -/
def hat (t : α) : α := max zero (one - max t (-t))

/-- `map_coordinates(img, [A, B], order=1, mode='constant')`: zero outside the stamp -/
def bilinear (s0 s1 : Nat) (img : Img α) (A B : α) : α :=
  sumN s0 fun i => sumN s1 fun j => img i j * (hat (A - (i : α)) * hat (B - (j : α)))

/-- how `PixelRenderer.render_pointsource` addresses the PSF stamp (extracted
from the source): which image axis indexes the stamp's rows, and the centre offset -/
structure PsConv where
  /-- `true`: stamp rows are addressed by the image row (Y); `false`: by the column (X) -/
  rowsByY : Bool
  /-- twice the offset subtracted from the source position: `s` for `s/2`, `s − 1` for `(s−1)/2` -/
  centreIsGeometric : Bool
deriving Repr, DecidableEq

/-- `PixelRenderer.render_pointsource` -/
def pixelPointSource (k : PsConv) (s0 s1 : Nat) (psf : Img α) (xc yc flux : α) : Img α := fun r c =>
  let o0 : α := if k.centreIsGeometric then ((s0 : α) - one) / two else (s0 : α) / two
  let o1 : α := if k.centreIsGeometric then ((s1 : α) - one) / two else (s1 : α) / two
  let fpsf : Img α := fun i j => psf i j * flux
  if k.rowsByY then bilinear s0 s1 fpsf ((r : α) - (yc - o0)) ((c : α) - (xc - o1))
  else bilinear s0 s1 fpsf ((c : α) - (xc - o0)) ((r : α) - (yc - o1))
end

/-! ### Gaussian-mixture renderers -/

/-- where the mixture amplitudes come from: the interpolated table (external
function `A(n)` of normalised amplitudes) or the direct decomposition at the
given precision -/
inductive AmpSrc (α : Type) where
  | interp (A : α → List α)
  | direct (P : Nat)

/-- the amplitude half of `get_amps_sigmas` -/
def ampsFor (bc : BnC) (cfg : MogCfg α) (src : AmpSrc α) (p : SersicP α) : List α :=
  match src with
  | .interp A => (A p.n).map (· * p.flux)
  | .direct P => directAmps bc P cfg p.flux p.rEff p.n

/-- `get_amps_sigmas` + `q = 1 − ellip`: the Gaussian components of a Sersic source -/
def mogComps (cfg : MogCfg α) (amps : List α) (p : SersicP α) : List (GComp α) :=
  (List.range cfg.nSigma).map fun k =>
    ⟨amps.getD k zero, sigmaAt cfg p.rEff k, one - p.ellip⟩

/-- `FourierRenderer.render_sersic`: all components in Fourier space -/
def fourierSersicF (N : Nat) (comps : List (GComp α)) (p : SersicP α) : FImg α := fun v u =>
  gaussFourier (rfreq N u) (ffreq N v) p.xc p.yc p.theta comps

def pointF (N : Nat) (xc yc flux : α) : FImg α := fun v u =>
  pointFourier (rfreq N u) (ffreq N v) xc yc flux

/-- `sig_psf_approx`: mean of the two second-moment widths about the stamp's array centre -/
def sigPsfApprox (s0 s1 : Nat) (psf : Img α) : α :=
  let tot := sumN s0 fun i => sumN s1 fun j => psf i j
  let mx : α := ((s1 : α) - one) / two
  let my : α := ((s0 : α) - one) / two
  let sx := Transc.sqrt ((sumN s0 fun i => sumN s1 fun j => psf i j * sq ((j : α) - mx)) / tot)
  let sy := Transc.sqrt ((sumN s0 fun i => sumN s1 fun j => psf i j * sq ((i : α) - my)) / tot)
  half * (sx + sy)

/-- PSF-broadened width and axis ratio of a real-space component -/
def broaden (sigPsf : α) (g : GComp α) : GComp α :=
  let so := Transc.sqrt (g.sigma * g.sigma + sigPsf * sigPsf)
  ⟨g.amp, so, Transc.sqrt ((g.q * g.q * (g.sigma * g.sigma) + sigPsf * sigPsf) / (so * so))⟩

/-- hybrid split: the first `nσ − npr` components stay in Fourier space … -/
def fourierPart (npr : Nat) (comps : List (GComp α)) : List (GComp α) := comps.take (comps.length - npr)
/-- … the last `npr` are drawn in real space, broadened -/
def realPart (npr : Nat) (sigPsf : α) (comps : List (GComp α)) : List (GComp α) :=
  (comps.drop (comps.length - npr)).map (broaden sigPsf)

/-! ### renderers as values -/

inductive RKind where
  | pixel | fourier | hybrid
deriving Repr, DecidableEq

/-- everything a constructed renderer holds -/
structure Renderer (α : Type) where
  kind : RKind
  N : Nat
  s0 : Nat
  s1 : Nat
  psf : Img α
  bc : BnC
  /-- the `b_n` coefficients of `sersic1D` (used by the direct decomposition) -/
  bc1 : BnC
  rampX : RampConst
  rampY : RampConst
  -- pixel
  os : Nat
  gl : GL α
  psConv : PsConv
  -- fourier / hybrid
  cfg : MogCfg α
  /-- interpolated table (external) or direct decomposition -/
  ampSrc : AmpSrc α
  npr : Nat

variable [Max α]

def Renderer.P (R : Renderer α) : FImg α := psfFft R.rampX R.rampY R.N R.s0 R.s1 R.psf

/-- `render_sersic` of the three classes -/
def Renderer.sersic (R : Renderer α) (p : SersicP α) : Triple α :=
  match R.kind with
  | .pixel => ⟨fzero, renderIntSersic R.bc R.N R.os R.gl p, izero⟩
  | .fourier => ⟨fourierSersicF R.N (mogComps R.cfg (ampsFor R.bc1 R.cfg R.ampSrc p) p) p, izero, izero⟩
  | .hybrid =>
    let comps := mogComps R.cfg (ampsFor R.bc1 R.cfg R.ampSrc p) p
    let sp := sigPsfApprox R.s0 R.s1 R.psf
    ⟨fourierSersicF R.N (fourierPart R.npr comps) p, izero,
     fun r c => gaussPixel (c : α) (r : α) p.xc p.yc p.theta (realPart R.npr sp comps)⟩

/-- `render_pointsource` of the three classes -/
def Renderer.pointsource (R : Renderer α) (xc yc flux : α) : Triple α :=
  match R.kind with
  | .pixel => ⟨fzero, izero, pixelPointSource R.psConv R.s0 R.s1 R.psf xc yc flux⟩
  | _ => ⟨pointF R.N xc yc flux, izero, izero⟩

/-- parameter dictionaries: Python `dict[str, float]` -/
abbrev PDict (α : Type) := List (String × α)

def PDict.get (d : PDict α) (k : String) : α :=
  match d.find? (fun kv => kv.1 == k) with
  | some kv => kv.2
  | none => zero

def PDict.has (d : PDict α) (k : String) : Bool := d.any (fun kv => kv.1 == k)

/-- `d[k] = v` / `dict(d, k=v)`: the new entry shadows any older one (`get` takes the first match) -/
def PDict.set (d : PDict α) (k : String) (v : α) : PDict α := (k, v) :: d

/-- `d.pop(k)` as far as the remaining dictionary is concerned -/
def PDict.erase (d : PDict α) (k : String) : PDict α := d.filter fun kv => !(kv.1 == k)

def sersicOf (d : PDict α) (flux rEff n ellip : α) : SersicP α :=
  ⟨d.get "xc", d.get "yc", flux, rEff, n, ellip, d.get "theta"⟩

/-- the seven profile types -/
inductive PType where
  | sersic | doublesersic | sersicExp | sersicPointsource | pointsource | exp | dev
deriving Repr, DecidableEq

def PType.all : List PType :=
  [.sersic, .doublesersic, .sersicExp, .sersicPointsource, .pointsource, .exp, .dev]

def PType.pyName : PType → String
  | .sersic => "sersic" | .doublesersic => "doublesersic" | .sersicExp => "sersic_exp"
  | .sersicPointsource => "sersic_pointsource" | .pointsource => "pointsource" | .exp => "exp" | .dev => "dev"

def parsePType (s : String) : Option PType := PType.all.find? fun t => t.pyName == s

/-- `render_<type>(params)` -/
def Renderer.profileOf (R : Renderer α) (t : PType) (d : PDict α) : Triple α :=
  match t with
  | .sersic => R.sersic (sersicOf d (d.get "flux") (d.get "r_eff") (d.get "n") (d.get "ellip"))
  | .exp => R.sersic (sersicOf d (d.get "flux") (d.get "r_eff") one (d.get "ellip"))
  | .dev => R.sersic (sersicOf d (d.get "flux") (d.get "r_eff") ((4 : Nat) : α) (d.get "ellip"))
  | .pointsource => R.pointsource (d.get "xc") (d.get "yc") (d.get "flux")
  | .doublesersic =>
    Triple.add
      (R.sersic (sersicOf d (d.get "flux" * d.get "f_1") (d.get "r_eff_1") (d.get "n_1") (d.get "ellip_1")))
      (R.sersic (sersicOf d (d.get "flux" * (one - d.get "f_1")) (d.get "r_eff_2") (d.get "n_2") (d.get "ellip_2")))
  | .sersicExp =>
    Triple.add
      (R.sersic (sersicOf d (d.get "flux" * d.get "f_1") (d.get "r_eff_1") (d.get "n") (d.get "ellip_1")))
      (R.sersic (sersicOf d (d.get "flux" * (one - d.get "f_1")) (d.get "r_eff_2") one (d.get "ellip_2")))
  | .sersicPointsource =>
    Triple.add
      (R.sersic (sersicOf d ((one - d.get "f_ps") * d.get "flux") (d.get "r_eff") (d.get "n") (d.get "ellip")))
      (R.pointsource (d.get "xc") (d.get "yc") (d.get "f_ps" * d.get "flux"))

/-- `profile_func_dict[profile_type](params)`; unknown type names are rejected upstream -/
def Renderer.profile (R : Renderer α) (ptype : String) (d : PDict α) : Triple α :=
  match parsePType ptype with
  | some t => R.profileOf t d
  | none => Triple.zero

/-- `k.replace(suffix, "")` on dictionary keys -/
def stripSuffix (suffix : String) (d : PDict α) : PDict α :=
  d.map fun kv => (Names.toString (Names.pyReplace kv.1.toList suffix.toList []), kv.2)

/-- the triple `render_source` hands to `combine_scene` -/
def Renderer.sourceTriple (R : Renderer α) (d : PDict α) (ptype suffix : String) : Triple α :=
  R.profile ptype (stripSuffix suffix d)

/-- `render_source` -/
def Renderer.renderSource (R : Renderer α) (d : PDict α) (ptype suffix : String) : Img α :=
  combineScene R.N R.P (R.sourceTriple d ptype suffix)

/-- the keys `render_for_model` reads for source `j` -/
def sourceDict (params : List String) (d : PDict α) (j : Nat) (suffix : String) : PDict α :=
  params.map fun p => (p, d.get (p ++ "_" ++ toString j ++ suffix))

/-- sum of the triples of a catalogue, source `j` having type `types[j]` -/
def Renderer.catalogueTriple (R : Renderer α) (paramsOf : String → List String) (d : PDict α)
    (suffix : String) : Nat → List String → Triple α
  | _, [] => Triple.zero
  | j, t :: ts =>
    Triple.add (R.profile t (sourceDict (paramsOf t) d j suffix))
      (R.catalogueTriple paramsOf d suffix (j + 1) ts)

/-- `render_for_model` -/
def Renderer.renderForModel (R : Renderer α) (paramsOf : String → List String) (d : PDict α)
    (types : List String) (suffix : String) : Img α :=
  combineScene R.N R.P (R.catalogueTriple paramsOf d suffix 0 types)

end
end Pysersic.Render
