/-
Scalar kernels of pysersic/rendering.py, written once, generic in the scalar
type: the analytic Sersic profile (`render_sersic_2d`), one Gaussian component in
real space (`render_gaussian_pixel`) and in Fourier space
(`render_gaussian_fourier`), the Fourier point source
(`render_pointsource_fourier`), the radial profile `sersic1D`, and complex
numbers as pairs.  Mirrors the source expression by expression; the `b_n`
coefficients are parameters regenerated from the source.

Import-free.
-/
import PysersicModel.Prob.Dist

namespace Pysersic.Render
open Pysersic
open Pysersic.Prob (two one zero half sq)

/-- complex numbers as pairs -/
structure Cx (α : Type) where
  re : α
  im : α

section
variable {α : Type} [Add α] [Sub α] [Mul α] [Div α] [Neg α] [NatCast α] [Transc α]

namespace Cx
def zero : Cx α := ⟨Prob.zero, Prob.zero⟩
def add (a b : Cx α) : Cx α := ⟨a.re + b.re, a.im + b.im⟩
def mul (a b : Cx α) : Cx α := ⟨a.re * b.re - a.im * b.im, a.re * b.im + a.im * b.re⟩
def smul (k : α) (a : Cx α) : Cx α := ⟨k * a.re, k * a.im⟩
/-- `exp(i·φ)` -/
def cis (phi : α) : Cx α := ⟨Transc.cos phi, Transc.sin phi⟩
/-- `exp(a + i·φ)` -/
def expc (a phi : α) : Cx α := ⟨Transc.exp a * Transc.cos phi, Transc.exp a * Transc.sin phi⟩
end Cx

/-- the two coefficients of `bn = A*n - B` as written in the source -/
structure BnC where
  a : Q
  b : Q
deriving Repr, DecidableEq

def bnOf (c : BnC) (n : α) : α := (c.a.to : α) * n - (c.b.to : α)

/-- parameters of one Sersic component -/
structure SersicP (α : Type) where
  xc : α
  yc : α
  flux : α
  rEff : α
  n : α
  ellip : α
  theta : α

/-- `theta + pi/2` -/
def rotAngle (theta : α) : α := theta + Transc.pi / two

/-- `render_sersic_2d` at one evaluation point (X = column coordinate, Y = row coordinate) -/
def sersic2d (c : BnC) (X Y : α) (p : SersicP α) : α :=
  let bn := bnOf c p.n
  let a := p.rEff
  let b := (one - p.ellip) * p.rEff
  let th := rotAngle p.theta
  let ct := Transc.cos th
  let st := Transc.sin th
  let xmaj := (X - p.xc) * ct + (Y - p.yc) * st
  let xmin := -(X - p.xc) * st + (Y - p.yc) * ct
  let amplitude :=
    p.flux * Transc.rpow bn (two * p.n)
      / (Transc.exp (bn + Transc.lgamma (two * p.n)) * (p.rEff * p.rEff) * Transc.pi * two * p.n)
  let z := Transc.sqrt (sq (xmaj / a) + sq (xmin / b))
  amplitude * Transc.exp (-bn * (Transc.rpow z (one / p.n) - one)) / (one - p.ellip)

/-- one Gaussian component (amplitude, width, axis ratio) -/
structure GComp (α : Type) where
  amp : α
  sigma : α
  q : α

/-- one term of `render_gaussian_pixel` -/
def gaussPixelTerm (X Y xc yc theta : α) (g : GComp α) : α :=
  let xb := X - xc
  let yb := Y - yc
  let th := rotAngle theta
  let xi := xb * Transc.cos th + yb * Transc.sin th
  let yi := -(xb * Transc.sin th) + yb * Transc.cos th
  let inExp := -(xi * xi + yi * yi / (g.q * g.q)) / (two * g.sigma * g.sigma)
  g.amp / (two * Transc.pi * g.sigma * g.sigma * g.q) * Transc.exp inExp

/-- one term of `render_gaussian_fourier` at frequency (FX, FY) -/
def gaussFourierTerm (FX FY xc yc theta : α) (g : GComp α) : Cx α :=
  let th := rotAngle theta
  let ui := FX * Transc.cos th + FY * Transc.sin th
  let vi := -(FX * Transc.sin th) + FY * Transc.cos th
  let a := -(ui * ui + vi * vi * g.q * g.q) * (two * Transc.pi * Transc.pi * g.sigma * g.sigma)
  let phi := -(two * Transc.pi * FX * xc) - two * Transc.pi * FY * yc
  Cx.smul g.amp (Cx.expc a phi)

/-- `render_pointsource_fourier` at frequency (FX, FY) -/
def pointFourier (FX FY xc yc flux : α) : Cx α :=
  let phi := -(two * Transc.pi * FX * xc) - two * Transc.pi * FY * yc
  Cx.smul flux (Cx.cis phi)

/-- sums over component lists -/
def sumList : List α → α
  | [] => zero
  | x :: t => x + sumList t

def sumCx : List (Cx α) → Cx α
  | [] => Cx.zero
  | x :: t => Cx.add x (sumCx t)

def gaussPixel (X Y xc yc theta : α) (gs : List (GComp α)) : α :=
  sumList (gs.map (gaussPixelTerm X Y xc yc theta))

def gaussFourier (FX FY xc yc theta : α) (gs : List (GComp α)) : Cx α :=
  sumCx (gs.map (gaussFourierTerm FX FY xc yc theta))

end
end Pysersic.Render
