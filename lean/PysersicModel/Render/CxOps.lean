/-
The remaining complex operations (pairs `Cx α`) that the translated kernels use:
embedding of reals, the imaginary unit, negation, subtraction, division by a real
(`Cx.exp`, `Cx.powr` are in `Render/Decomp.lean`).  Import-free apart from the model.
-/
import PysersicModel.Render.Decomp

namespace Pysersic.Render
open Pysersic

section
variable {α : Type} [Add α] [Sub α] [Mul α] [Div α] [Neg α] [NatCast α] [Transc α]

namespace Cx
/-- a real number as a complex number -/
def ofReal (x : α) : Cx α := ⟨x, Prob.zero⟩
/-- the imaginary unit (`1j`) -/
def I : Cx α := ⟨Prob.zero, Prob.one⟩
def neg (a : Cx α) : Cx α := ⟨-a.re, -a.im⟩
def sub (a b : Cx α) : Cx α := ⟨a.re - b.re, a.im - b.im⟩
/-- a complex number divided by a real one -/
def divr (a : Cx α) (x : α) : Cx α := ⟨a.re / x, a.im / x⟩
end Cx

end
end Pysersic.Render
