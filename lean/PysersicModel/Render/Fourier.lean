/-
Discrete Fourier pipeline of `BaseRenderer` for square N×N images:
frequency grids (`rfftfreq` along columns, `fftfreq` along rows), the real
forward transform (`rfft2`, zero-padded), the re-centred PSF transform
`PSF_fft` with its phase ramps, the real inverse transform (`irfft2`, c2r:
weights 1 for the DC and Nyquist columns, 2 otherwise; the imaginary parts of
those two columns are dropped), `conv_img`, `conv_fft` and `combine_scene`.

Images are functions `row → col → α`; half-plane Fourier images are functions
`v → u → Cx α` with `v < N` (rows, `fftfreq`) and `u ≤ N/2` (columns, `rfftfreq`).

Import-free.
-/
import PysersicModel.Render.Kernels

namespace Pysersic.Render
open Pysersic
open Pysersic.Prob (two one zero half sq)

section
variable {α : Type} [Add α] [Sub α] [Mul α] [Div α] [Neg α] [NatCast α] [Transc α]

/-- `Σ_{i<n} f i` -/
def sumN (n : Nat) (f : Nat → α) : α := sumList ((List.range n).map f)

def sumNCx (n : Nat) (f : Nat → Cx α) : Cx α := sumCx ((List.range n).map f)

abbrev Img (α : Type) := Nat → Nat → α
abbrev FImg (α : Type) := Nat → Nat → Cx α

/-- `jnp.fft.rfftfreq(N)[u]` -/
def rfreq (N u : Nat) : α := (u : α) / (N : α)

/-- `jnp.fft.fftfreq(N)[v]` -/
def ffreq (N v : Nat) : α :=
  if v ≤ (N - 1) / 2 then (v : α) / (N : α) else -(((N - v : Nat) : α) / (N : α))

/-- number of columns of the half-plane transform -/
def halfW (N : Nat) : Nat := N / 2 + 1

/-- angle `2π·k/N` for integers k (product of indices) -/
def ang (N k : Nat) : α := two * Transc.pi * (k : α) / (N : α)

/-- `rfft2(img, s=(N,N))` of an `h×w` array (zero-padded): `Σ img[r,c]·e^{-2πi(v r + u c)/N}` -/
def rfft2 (N h w : Nat) (img : Img α) : FImg α := fun v u =>
  sumNCx h fun r => sumNCx w fun c =>
    Cx.smul (img r c) (Cx.cis (-(ang N (v * r + u * c))))

/-- the constant used for π in the PSF phase ramps, as written in the source -/
inductive RampConst where
  | pi
  | literal (q : Q)
deriving Repr, DecidableEq

def RampConst.val : RampConst → α
  | .pi => Transc.pi
  | .literal q => q.to

/-- `PSF_fft` for an `s0×s1` stamp: zero-padded transform times the two phase ramps
`exp(+i·2·ρ·(s/2 − 0.5)·F)` (ρ = the source's constant for π) -/
def psfFft (ρx ρy : RampConst) (N s0 s1 : Nat) (psf : Img α) : FImg α := fun v u =>
  let cx : α := (s0 : α) / two - half
  let cy : α := (s1 : α) / two - half
  let rampX := Cx.cis (two * ρx.val * cx * rfreq N u)
  let rampY := Cx.cis (two * ρy.val * cy * ffreq N v)
  Cx.mul (Cx.mul (rfft2 N s0 s1 psf v u) rampX) rampY

/-- c2r weight of column `u` -/
def synthW (N u : Nat) : α :=
  if u = 0 then one else if 2 * u = N then one else two

/-- `irfft2(G, s=(N,N))[r,c]` -/
def synth (N : Nat) (G : FImg α) : Img α := fun r c =>
  sumN (halfW N) (fun u =>
    synthW N u * sumN N (fun v => (Cx.mul (G v u) (Cx.cis (ang N (v * r + u * c)))).re))
  / ((N : α) * (N : α))

def fmul (A B : FImg α) : FImg α := fun v u => Cx.mul (A v u) (B v u)
def fadd (A B : FImg α) : FImg α := fun v u => Cx.add (A v u) (B v u)
def iadd (A B : Img α) : Img α := fun r c => A r c + B r c
def izero : Img α := fun _ _ => zero
def fzero : FImg α := fun _ _ => Cx.zero

/-- `conv_img` -/
def convImg (N : Nat) (P : FImg α) (img : Img α) : Img α := synth N (fmul (rfft2 N N N img) P)
/-- `conv_fft` -/
def convFft (N : Nat) (P : FImg α) (F : FImg α) : Img α := synth N (fmul F P)

/-- a rendered component: Fourier-space part, intrinsic real-space part (to be
convolved), observed real-space part (already PSF-broadened) -/
structure Triple (α : Type) where
  F : FImg α
  int : Img α
  obs : Img α

def Triple.zero : Triple α := ⟨fzero, izero, izero⟩
def Triple.add (a b : Triple α) : Triple α := ⟨fadd a.F b.F, iadd a.int b.int, iadd a.obs b.obs⟩

/-- `combine_scene` -/
def combineScene (N : Nat) (P : FImg α) (t : Triple α) : Img α :=
  iadd (iadd (convFft N P t.F) (convImg N P t.int)) t.obs

end
end Pysersic.Render
