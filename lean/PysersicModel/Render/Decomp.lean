/-
The direct Gaussian decomposition of a Sersic profile (Shajib 2019) as coded in
pysersic/rendering.py: `sersic1D` on complex radii, `calculate_etas_betas`,
`sersic_gauss_decomp`.  Complex arithmetic on pairs; generic in the scalar.

Import-free.
-/
import PysersicModel.Render.Fourier

namespace Pysersic.Render
open Pysersic
open Pysersic.Prob (two one zero half sq)

section
variable {α : Type} [Add α] [Sub α] [Mul α] [Div α] [Neg α] [NatCast α] [Transc α]

/-- `jnp.logspace(log10(lo), log10(hi), num)[k]` -/
def logspaceAt (lo hi : α) (num k : Nat) : α :=
  let l10 : α := Transc.log ((10 : Nat) : α)
  let a := Transc.log lo / l10
  let b := Transc.log hi / l10
  let step := if num ≤ 1 then zero else (b - a) / ((num - 1 : Nat) : α)
  Transc.rpow ((10 : Nat) : α) (a + (k : α) * step)

/-- decomposition controls of `FourierRenderer` -/
structure MogCfg (α : Type) where
  fracStart : α
  fracEnd : α
  nSigma : Nat

/-- width of component `k`: `r_eff · logspace(frac_start, frac_end)` -/
def sigmaAt (cfg : MogCfg α) (rEff : α) (k : Nat) : α :=
  logspaceAt (rEff * cfg.fracStart) (rEff * cfg.fracEnd) cfg.nSigma k

def Cx.abs (z : Cx α) : α := Transc.sqrt (z.re * z.re + z.im * z.im)
def Cx.arg (z : Cx α) : α := Transc.atan2 z.im z.re
/-- principal `z ** p` for real `p` -/
def Cx.powr (z : Cx α) (p : α) : Cx α :=
  let m := Transc.rpow (Cx.abs z) p
  let a := p * Cx.arg z
  ⟨m * Transc.cos a, m * Transc.sin a⟩
def Cx.exp (z : Cx α) : Cx α := Cx.expc z.re z.im

/-- binomial coefficient (scipy `comb`) -/
def choose : Nat → Nat → Nat
  | _, 0 => 1
  | 0, _ + 1 => 0
  | n + 1, k + 1 => choose n k + choose n (k + 1)

/-- `2**P` as a scalar -/
def pow2 (P : Nat) : α := ((2 ^ P : Nat) : α)

/-- the `epsilons` of `calculate_etas_betas` (index k = 0 … 2P) -/
def epsilonAt (P k : Nat) : α :=
  if k = 0 then half
  else if k ≤ P then one
  else
    -- eps[2P − j] = eps[2P − j + 1] + C(P, j)/2^P for j = 1 … P−1, eps[2P] = 1/2^P
    let j := 2 * P - k
    sumN (j + 1) fun i => ((choose P i : Nat) : α) / pow2 P

/-- `etas[k]` -/
def etaAt (P k : Nat) : α :=
  let sgn : α := if k % 2 = 0 then one else -one
  sgn * epsilonAt P k * Transc.rpow ((10 : Nat) : α) ((P : α) / ((3 : Nat) : α)) * two
    * Transc.sqrt (two * Transc.pi)

/-- `betas[k] = sqrt(2 P ln10 / 3 + 2πi k)` -/
def betaAt (P k : Nat) : Cx α :=
  let z : Cx α := ⟨two * (P : α) * Transc.log ((10 : Nat) : α) / ((3 : Nat) : α), two * Transc.pi * (k : α)⟩
  Cx.powr z half

/-- `sersic1D(r, flux, re, n).real` for complex `r` -/
def sersic1DRe (bc : BnC) (r : Cx α) (flux re n : α) : α :=
  let bn := bnOf bc n
  let ie := flux / (re * re * two * Transc.pi * n * Transc.exp (bn + Transc.lgamma (two * n)))
              * Transc.rpow bn (two * n)
  let w := Cx.powr ⟨r.re / re, r.im / re⟩ (one / n)
  let e := Cx.exp ⟨-bn * (w.re - one), -bn * w.im⟩
  ie * e.re

/-- `sersic_gauss_decomp(flux, re, n, etas, betas, σ_start, σ_end, n_comp)[0][k]` -/
def decompAmp (bc : BnC) (P : Nat) (flux re n sStart sEnd : α) (nComp k : Nat) : α :=
  let sig := logspaceAt sStart sEnd nComp k
  let f := sumN (2 * P + 1) fun j =>
    let b : Cx α := betaAt P j
    etaAt P j * sersic1DRe bc ⟨sig * b.re, sig * b.im⟩ flux re n
  let del := (Transc.log sEnd - Transc.log sStart) / ((nComp - 1 : Nat) : α)
  let del := Transc.sqrt (del * del)
  let a := f * del / Transc.sqrt (two * Transc.pi)
  let a := if k = 0 ∨ k + 1 = nComp then a * half else a
  a * two * Transc.pi * sig * sig

/-- the direct branch of `get_amps_sigmas`: amplitudes for the renderer's σ grid -/
def directAmps (bc : BnC) (P : Nat) (cfg : MogCfg α) (flux rEff n : α) : List α :=
  (List.range cfg.nSigma).map fun k =>
    decompAmp bc P flux rEff n (cfg.fracStart * rEff) (cfg.fracEnd * rEff) cfg.nSigma k

/-- one row of the table `amps_n_ax` built in `FourierRenderer.__init__` -/
def tableRow (bc : BnC) (P : Nat) (cfg : MogCfg α) (n : α) : List α :=
  (List.range cfg.nSigma).map fun k =>
    decompAmp bc P one one n cfg.fracStart cfg.fracEnd cfg.nSigma k

end
end Pysersic.Render
