/-
Tabulated evaluation of the scene assembly.  `combineScene` is a composition of
image-valued functions; evaluated naively each output pixel would recompute every
intermediate transform.  `sceneArr` computes the same image with every
intermediate image stored in an array first.  `Proofs/RenderTab.lean` proves
`sceneArr` equal, entry by entry, to `combineScene`; the compiled driver runs
`sceneArr`.

Import-free.
-/
import PysersicModel.Render.Renderers

namespace Pysersic.Render
open Pysersic
open Pysersic.Prob (two one zero half sq)

section
variable {α : Type} [Add α] [Sub α] [Mul α] [Div α] [Neg α] [NatCast α] [Transc α]

/-- an `h×w` image stored row-major, with the function it tabulates as fall-back -/
structure TImg (α : Type) where
  h : Nat
  w : Nat
  arr : Array α
  orig : Img α

def TImg.get (t : TImg α) : Img α := fun r c =>
  if r < t.h ∧ c < t.w then
    if h : r * t.w + c < t.arr.size then t.arr[r * t.w + c] else t.orig r c
  else t.orig r c

def tabI (h w : Nat) (f : Img α) : TImg α :=
  ⟨h, w, Array.ofFn (n := h * w) fun i => f (i.val / w) (i.val % w), f⟩

structure TF (α : Type) where
  h : Nat
  w : Nat
  re : Array α
  im : Array α
  orig : FImg α

def TF.get (t : TF α) : FImg α := fun v u =>
  if v < t.h ∧ u < t.w then
    if h : v * t.w + u < t.re.size ∧ v * t.w + u < t.im.size then ⟨t.re[v * t.w + u], t.im[v * t.w + u]⟩
    else t.orig v u
  else t.orig v u

def tabF (h w : Nat) (f : FImg α) : TF α :=
  ⟨h, w, Array.ofFn (n := h * w) fun i => (f (i.val / w) (i.val % w)).re,
   Array.ofFn (n := h * w) fun i => (f (i.val / w) (i.val % w)).im, f⟩

/-- `combine_scene` with tabulated intermediates; entry `r*N + c` is pixel (r, c) -/
def sceneArr (N : Nat) (P : FImg α) (t : Triple α) : Array α :=
  let W := halfW N
  let Pa := tabF N W P
  let Fa := tabF N W t.F
  let G1 := tabF N W (fmul Fa.get Pa.get)
  let ia := tabI N N t.int
  let Fi := tabF N W (rfft2 N N N ia.get)
  let G2 := tabF N W (fmul Fi.get Pa.get)
  let oa := tabI N N t.obs
  Array.ofFn (n := N * N) fun i =>
    synth N G1.get (i.val / N) (i.val % N) + synth N G2.get (i.val / N) (i.val % N)
      + oa.get (i.val / N) (i.val % N)

variable [Max α]

/-- `render_source` as an array -/
def Renderer.renderSourceArr (R : Renderer α) (d : PDict α) (ptype suffix : String) : Array α :=
  sceneArr R.N R.P (R.sourceTriple d ptype suffix)

/-- `render_for_model` as an array -/
def Renderer.renderForModelArr (R : Renderer α) (paramsOf : String → List String) (d : PDict α)
    (types : List String) (suffix : String) : Array α :=
  sceneArr R.N R.P (R.catalogueTriple paramsOf d suffix 0 types)

end
end Pysersic.Render
