/-
A minimal shallow embedding of the imperative fragment of Python that `tools/translate_prog.py` emits:
statements are state transformers that may signal `break`; `for … in range(…)` is bounded iteration.
The state type is a structure generated from the function's local variables.

Import-free.
-/
namespace Pysersic.Imp

/-- a statement: new state, and whether a `break` is propagating -/
abbrev Stmt (σ : Type) := σ → σ × Bool

variable {σ : Type}

def skip : Stmt σ := fun s => (s, false)

/-- `break` -/
def brk : Stmt σ := fun s => (s, true)

/-- an assignment (or any other straight-line effect on the state) -/
def assign (f : σ → σ) : Stmt σ := fun s => (f s, false)

/-- `a; b` — `b` is skipped when `a` breaks -/
def seq (a b : Stmt σ) : Stmt σ := fun s =>
  let r := a s
  if r.2 then (r.1, true) else b r.1

/-- `if c: t else: e` -/
def ite (c : σ → Bool) (t e : Stmt σ) : Stmt σ := fun s => if c s then t s else e s

/-- `for v in range(lo, lo + n): body` from iteration `i` with `n` iterations left; `setv` binds the loop
variable; a `break` in the body ends the loop -/
def forRange (setv : Nat → σ → σ) (body : Stmt σ) : Nat → Nat → σ → σ
  | _, 0, s => s
  | i, n + 1, s =>
    let r := body (setv i s)
    if r.2 then r.1 else forRange setv body (i + 1) n r.1

/-- the loop as a statement (the `break` is consumed by the loop) -/
def loop (setv : Nat → σ → σ) (body : Stmt σ) (lo n : Nat) : Stmt σ :=
  fun s => (forRange setv body lo n s, false)

end Pysersic.Imp
