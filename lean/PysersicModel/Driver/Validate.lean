import PysersicModel.IO.Validate
import PysersicModel.Gen.Consts

namespace Pysersic.Driver
open Pysersic.Validate

def showOutcome : Outcome → String
  | .ok => "ok" | .shapeMatchError => "ShapeMatchError" | .valueError => "ValueError"
  | .kernelError => "KernelError" | .typeError => "TypeError" | .assertionError => "AssertionError"

def parseRenderer : String → Option Renderer
  | "pixel" => some .pixel | "fourier" => some .fourier | "hybrid" => some .hybrid | _ => none

/-- `ci R d0 d1 r0 r1 p0 p1 m0 m1 neg` (mask shape `- -` for no mask) -/
def checkInput (args : List String) : String :=
  match args with
  | [r, d0, d1, r0, r1, p0, p1, m0, m1, neg] =>
    match parseRenderer r, [d0, d1, r0, r1, p0, p1].mapM String.toNat? with
    | some R, some [d0, d1, r0, r1, p0, p1] =>
      let m : Option Shape := match m0.toNat?, m1.toNat? with
        | some a, some b => some (a, b)
        | _, _ => none
      showOutcome (fitterInit Gen.validateFacts R (d0, d1) (r0, r1) (p0, p1) m (neg == "1"))
    | _, _ => "bad-op ci-args"
  | _ => "bad-op ci-arity"

/-- `ri R d0 d1 p0 p1` : renderer constructor alone -/
def rendererInitCmd (args : List String) : String :=
  match args with
  | [r, d0, d1, p0, p1] =>
    match parseRenderer r, [d0, d1, p0, p1].mapM String.toNat? with
    | some R, some [d0, d1, p0, p1] => showOutcome (rendererInit Gen.validateFacts R (d0, d1) (p0, p1))
    | _, _ => "bad-op ri-args"
  | _ => "bad-op ri-arity"

/-- `pm n - ` or `pm n 0 1 1 0 …` (user mask non-zero flags) → stored mask bits -/
def parseMaskCmd (args : List String) : String :=
  match args with
  | n :: rest =>
    match n.toNat? with
    | some n =>
      let user : Option (List Bool) := if rest == ["-"] then none else some (rest.map (· != "0"))
      String.join ((parseMask n user).map fun b => if b then "1" else "0")
    | none => "bad-op pm-args"
  | _ => "bad-op pm-arity"

/-- `pt <profile_type> <sky_type>` (tokens with spaces are not supported; `~` stands for the empty string) -/
def priorTypeCmd (args : List String) : String :=
  match args with
  | [p, s] =>
    let un := fun (x : String) => if x == "~" then "" else x
    showOutcome (priorInit Gen.profileTypesPriors Gen.skyTypes (un p) (un s))
  | _ => "bad-op pt-arity"

end Pysersic.Driver
