import PysersicModel.Render.Tab
import PysersicModel.Gen.Consts
import PysersicModel.Driver.Util

/-!
Driver commands of the render layer.

`render KIND N S0 S1 <psf> OS NUMOS <nodes> <weights> FS FE NSIG NPR SRC P NTAB (<n> <amps NSIG>)*
        MODE SUFFIX NTYPES <type>* NPARAMS (<name> <value>)*`
  → the N·N pixels of `render_source` (MODE = single, one type) or `render_for_model` (MODE = multi).
`triple …same arguments…` → the three slots before `combine_scene`: F (re im pairs, N·(N/2+1)), int, obs.
`psffft N S0 S1 <psf>` → PSF_fft (re im pairs).
`conv N S0 S1 <psf> <img N·N>` → conv_img.
`decomp P FS FE NSIG <n>` → one row of the amplitude table;  `decompd P FS FE NSIG flux reff n` → direct amplitudes.
`sigpsf S0 S1 <psf>` → sig_psf_approx.
-/

namespace Pysersic.Driver
open Pysersic Pysersic.Render

abbrev Pr := StateT (List String) Option

def tok : Pr String := do
  match (← get) with
  | [] => failure
  | t :: r => set r; pure t

def natP : Pr Nat := do
  let t ← tok
  match t.toNat? with
  | some n => pure n
  | none => failure

def fltP : Pr Float := do
  let t ← tok
  match parseF t with
  | some x => pure x
  | none => failure

def manyP {β : Type} (n : Nat) (p : Pr β) : Pr (List β) :=
  match n with
  | 0 => pure []
  | k + 1 => do
    let x ← p
    let xs ← manyP k p
    pure (x :: xs)

def imgOfList (w : Nat) (l : List Float) : Img Float :=
  let a := l.toArray
  fun r c => a.getD (r * w + c) 0.0

structure Scene where
  R : Renderer Float
  multi : Bool
  suffix : String
  types : List String
  dict : PDict Float

def lookupAmps (tabs : List (Float × List Float)) (n : Float) : List Float :=
  match tabs.find? (fun t => t.1.toBits == n.toBits) with
  | some t => t.2
  | none => []

def sceneP : Pr Scene := do
  let kindS ← tok
  let kind ← match kindS with
    | "pixel" => pure RKind.pixel
    | "fourier" => pure RKind.fourier
    | "hybrid" => pure RKind.hybrid
    | _ => failure
  let N ← natP
  let s0 ← natP
  let s1 ← natP
  let psf ← manyP (s0 * s1) fltP
  let os ← natP
  let numOs ← natP
  let nodes ← manyP numOs fltP
  let weights ← manyP numOs fltP
  let fs ← fltP
  let fe ← fltP
  let nsig ← natP
  let npr ← natP
  let srcS ← tok
  let prec ← natP
  let ntab ← natP
  let tabs ← manyP ntab (do
    let n ← fltP
    let a ← manyP nsig fltP
    pure (n, a))
  let src : AmpSrc Float ← match srcS with
    | "interp" => pure (AmpSrc.interp (lookupAmps tabs))
    | "direct" => pure (AmpSrc.direct prec)
    | _ => failure
  let modeS ← tok
  let sfx ← tok
  let ntypes ← natP
  let types ← manyP ntypes tok
  let nparams ← natP
  let dict ← manyP nparams (do
    let k ← tok
    let v ← fltP
    pure (k, v))
  let R : Renderer Float :=
    { kind := kind, N := N, s0 := s0, s1 := s1, psf := imgOfList s1 psf, bc := Gen.bn2d, bc1 := Gen.bn1d,
      rampX := Gen.rampX, rampY := Gen.rampY, os := os, gl := ⟨nodes, weights⟩, psConv := Gen.psConv,
      cfg := ⟨fs, fe, nsig⟩, ampSrc := src, npr := npr }
  pure ⟨R, modeS == "multi", if sfx == "-" then "" else sfx, types, dict⟩

def paramsOfRender (t : String) : List String :=
  match Gen.profileParamsRender.find? (fun kv => kv.1 == t) with
  | some kv => kv.2
  | none => []

def Scene.triple (s : Scene) : Triple Float :=
  if s.multi then s.R.catalogueTriple paramsOfRender s.dict s.suffix 0 s.types
  else s.R.sourceTriple s.dict (s.types.headD "") s.suffix

def showArr (a : Array Float) : String := " ".intercalate (a.toList.map showF)

def renderCmd (args : List String) : String :=
  match sceneP.run args with
  | some (s, []) => showArr (sceneArr s.R.N s.R.P s.triple)
  | some (_, _) => "bad-op render-trailing"
  | none => "bad-op render-args"

def showFImg (N : Nat) (G : FImg Float) : String :=
  let t := tabF N (halfW N) G
  " ".intercalate ((List.range (N * halfW N)).map fun i =>
    showF (t.re.getD i 0.0) ++ " " ++ showF (t.im.getD i 0.0))

def showImg (N : Nat) (f : Img Float) : String := showArr (tabI N N f).arr

def tripleCmd (args : List String) : String :=
  match sceneP.run args with
  | some (s, []) =>
    let t := s.triple
    s!"F= {showFImg s.R.N t.F} int= {showImg s.R.N t.int} obs= {showImg s.R.N t.obs}"
  | _ => "bad-op triple-args"

def psfFftCmd (args : List String) : String :=
  let p : Pr String := do
    let N ← natP
    let s0 ← natP
    let s1 ← natP
    let psf ← manyP (s0 * s1) fltP
    pure (showFImg N (psfFft Gen.rampX Gen.rampY N s0 s1 (imgOfList s1 psf)))
  match p.run args with
  | some (s, []) => s
  | _ => "bad-op psffft-args"

def convCmd (args : List String) : String :=
  let p : Pr String := do
    let N ← natP
    let s0 ← natP
    let s1 ← natP
    let psf ← manyP (s0 * s1) fltP
    let img ← manyP (N * N) fltP
    let P := psfFft Gen.rampX Gen.rampY N s0 s1 (imgOfList s1 psf)
    pure (showArr (sceneArr N P ⟨fzero, imgOfList N img, izero⟩))
  match p.run args with
  | some (s, []) => s
  | _ => "bad-op conv-args"

def decompCmd (direct : Bool) (args : List String) : String :=
  let p : Pr String := do
    let prec ← natP
    let fs ← fltP
    let fe ← fltP
    let nsig ← natP
    if direct then
      let flux ← fltP
      let re ← fltP
      let n ← fltP
      pure (showFs (directAmps Gen.bn1d prec ⟨fs, fe, nsig⟩ flux re n))
    else
      let n ← fltP
      pure (showFs (tableRow Gen.bn1d prec ⟨fs, fe, nsig⟩ n))
  match p.run args with
  | some (s, []) => s
  | _ => "bad-op decomp-args"

def sigPsfCmd (args : List String) : String :=
  let p : Pr String := do
    let s0 ← natP
    let s1 ← natP
    let psf ← manyP (s0 * s1) fltP
    pure (showF (sigPsfApprox s0 s1 (imgOfList s1 psf)))
  match p.run args with
  | some (s, []) => s
  | _ => "bad-op sigpsf-args"

end Pysersic.Driver
