/- Hex-float I/O: floats cross the process boundary as 16 hex digits of their IEEE-754 bits. -/
namespace Pysersic.Driver

def hexDigit? (c : Char) : Option Nat :=
  if '0' ≤ c ∧ c ≤ '9' then some (c.toNat - '0'.toNat)
  else if 'a' ≤ c ∧ c ≤ 'f' then some (c.toNat - 'a'.toNat + 10)
  else if 'A' ≤ c ∧ c ≤ 'F' then some (c.toNat - 'A'.toNat + 10)
  else none

def parseHexNat (s : String) : Option Nat :=
  s.toList.foldlM (fun acc c => (hexDigit? c).map (acc * 16 + ·)) 0

def parseF (s : String) : Option Float :=
  if s.length ≠ 16 then none else (parseHexNat s).map fun n => Float.ofBits n.toUInt64

def hexChar (n : Nat) : Char :=
  if n < 10 then Char.ofNat ('0'.toNat + n) else Char.ofNat ('a'.toNat + n - 10)

def showF (x : Float) : String :=
  let n := x.toBits.toNat
  String.ofList ((List.range 16).map fun i => hexChar ((n >>> (4 * (15 - i))) % 16))

def parseFs (l : List String) : Option (List Float) := l.mapM parseF
def showFs (l : List Float) : String := " ".intercalate (l.map showF)

end Pysersic.Driver
