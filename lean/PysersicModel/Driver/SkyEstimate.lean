import PysersicModel.IO.SkyEstimate

namespace Pysersic.Driver
open Pysersic.SkyEstimate

/-- `sky H W n m1 m2 …` where each `m` is a masked flat index `i*W+j`.
Reply: `count=<c> used=[flat indices in gathering order]`. -/
def skyEstimate (args : List String) : String :=
  match args with
  | h :: w :: n :: ms =>
    match h.toNat?, w.toNat?, n.toNat?, ms.mapM String.toNat? with
    | some H, some W, some n, some ms =>
      let marr := Id.run do
        let mut a := Array.replicate (H * W) false
        for m in ms do
          if m < a.size then a := a.set! m true
        return a
      let mask : Nat → Nat → Bool := fun i j => marr.getD (i * W + j) false
      let used := usedIdx H W n mask
      let s := " ".intercalate (used.map fun p => toString (p.1 * W + p.2))
      s!"count={used.length} used=[{s}]"
    | _, _, _, _ => "bad-op sky-args"
  | _ => "bad-op sky-arity"

end Pysersic.Driver
