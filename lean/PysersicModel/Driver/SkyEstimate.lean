import PysersicModel.IO.SkyEstimate
import PysersicModel.Gen.Consts

namespace Pysersic.Driver
open Pysersic.SkyEstimate

/-- `sky H W n m1 m2 …` where each `m` is a masked flat index `i*W+j`.
Reply: `count=<c> used=[flat indices in gathering order]`. -/
def skyEstimate (args : List String) : String :=
  match args with
  | h :: w :: n :: ms =>
    match h.toNat?, w.toNat?, n.toNat?, ms.mapM String.toNat? with
    | some H, some W, some n, some ms =>
      let marr := Id.run do
        let mut a := Array.replicate (H * W) false
        for m in ms do
          if m < a.size then a := a.set! m true
        return a
      let mask : Nat → Nat → Bool := fun i j => marr.getD (i * W + j) false
      let used := usedIdx H W n mask
      let s := " ".intercalate (used.map fun p => toString (p.1 * W + p.2))
      s!"count={used.length} used=[{s}]"
    | _, _, _, _ => "bad-op sky-args"
  | _ => "bad-op sky-arity"

/-- a mask token: `none` (no mask object), `-` (a mask object with nothing masked) or `i,j,k` (masked flat indices) -/
def parseMaskTok (H W : Nat) (t : String) : Option (Option (Nat → Nat → Bool)) :=
  if t == "none" then some none
  else
    let toks := if t == "-" then [] else t.splitOn ","
    match toks.mapM String.toNat? with
    | some ms =>
      let marr := Id.run do
        let mut a := Array.replicate (H * W) false
        for m in ms do
          if m < a.size then a := a.set! m true
        return a
      some (some fun i j => marr.getD (i * W + j) false)
    | none => none

/-- `sky2 H W n <own> <arg>`: the image's own mask (numpy masked array) and the separately passed mask; the slices, the
rule that combines the two masks and whether the gathering keeps masks are the ones read from the source (`Gen`).
Reply as for `sky`. -/
def skyEstimate2 (args : List String) : String :=
  match args with
  | [h, w, n, own, arg] =>
    match h.toNat?, w.toNat?, n.toNat? with
    | some H, some W, some n =>
      match parseMaskTok H W own, parseMaskTok H W arg with
      | some own, some arg =>
        let eff := effMask Gen.skyMaskRule H W own arg
        let mask : Nat → Nat → Bool := if Gen.skyGatherKeepsMask then eff else fun _ _ => false
        let used := (borderIdxOf Gen.skySlices H W n).filter fun p => !mask p.1 p.2
        let s := " ".intercalate (used.map fun p => toString (p.1 * W + p.2))
        s!"count={used.length} used=[{s}]"
      | _, _ => "bad-op sky2-mask"
    | _, _, _ => "bad-op sky2-args"
  | _ => "bad-op sky2-arity"

end Pysersic.Driver
