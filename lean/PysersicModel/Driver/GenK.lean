/- `genk <kernel> <hex floats…>`: a translated kernel (Gen/Kernels.lean) evaluated at Float. -/
import PysersicModel.Gen.Kernels
import PysersicModel.Driver.Util

namespace Pysersic.Driver

def genkCmd (args : List String) : String :=
  match args with
  | name :: rest =>
    match parseFs rest with
    | some xs =>
      match Gen.K.evalF name xs.toArray with
      | some out => showFs out
      | none => "bad-op genk " ++ name
    | none => "bad-float"
  | _ => "bad-op genk"

end Pysersic.Driver
