/- `genk <kernel> <hex floats…>`: a translated kernel (Gen/Kernels.lean) evaluated at Float.
   `genprog <program> <switch string> <hex floats…>`: a translated prior program → prior entries. -/
import PysersicModel.Gen.Kernels
import PysersicModel.Driver.Util
import PysersicModel.Driver.Prob

namespace Pysersic.Driver

def genkCmd (args : List String) : String :=
  match args with
  | name :: rest =>
    match parseFs rest with
    | some xs =>
      match Gen.K.evalF name xs.toArray with
      | some out => showFs out
      | none => "bad-op genk " ++ name
    | none => "bad-float"
  | _ => "bad-op genk"

def genprogCmd (args : List String) : String :=
  match args with
  | name :: sw :: rest =>
    match parseFs rest with
    | some xs =>
      match Gen.K.evalProgF name sw xs.toArray with
      | some out => showEntries out
      | none => "bad-op genprog " ++ name
    | none => "bad-float"
  | _ => "bad-op genprog"

end Pysersic.Driver
