import PysersicModel.Opt.MapDict
import PysersicModel.Gen.Consts
import PysersicModel.Driver.Prob

/-!
`mapkeys NSITES name*` → for every site name `name:fate` (skipped | raw | rounded | dropped).
`regroup NTYPES type* NRAW key*` → `source_0=p,q,… source_1=… | rest=k,…`
-/
namespace Pysersic.Driver
open Pysersic Pysersic.MapDict

def mapKeysCmd (args : List String) : String :=
  run (do
    let n ← natP
    let names ← manyP n tok
    pure (" ".intercalate (names.map fun k =>
      k ++ ":" ++ (match mapFate Gen.mapSkipTest Gen.mapModelTest Gen.mapKeepTest k.toList with
        | .skipped => "skipped" | .rawImage => "raw" | .rounded => "rounded" | .dropped => "dropped")))) args "mapkeys-args"

def regroupCmd (args : List String) : String :=
  run (do
    let nt ← natP
    let types ← manyP nt tok
    let nr ← natP
    let raw ← manyP nr tok
    let paramsOf : String → List String := fun t =>
      match Gen.profileParamsPriors.find? (fun kv => kv.1 == t) with
      | some kv => kv.2
      | none => []
    let (groups, rest) := regroup paramsOf types raw
    pure (" ".intercalate (groups.map fun g => g.1 ++ "=" ++ ",".intercalate g.2) ++ " | rest=" ++ ",".intercalate rest)) args "regroup-args"

end Pysersic.Driver
