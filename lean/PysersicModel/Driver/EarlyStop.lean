import PysersicModel.Opt.EarlyStop
import PysersicModel.Gen.EarlyStopProg

namespace Pysersic.Driver
open Pysersic.EarlyStop

def parseLoss (s : String) : Option Loss :=
  match s with
  | "nan" => some .nan
  | "inf" => some .pinf
  | "-inf" => some .ninf
  | _ => (s.toInt?).map Loss.fin

def showLoss : Loss → String
  | .nan => "nan"
  | .pinf => "inf"
  | .ninf => "-inf"
  | .fin v => toString v

/-- `es numRound maxTrain patience l0 l1 …` — losses beyond the supplied list
are reported as an overrun rather than invented. -/
def earlyStop (args : List String) : String :=
  match args with
  | nr :: mt :: pa :: ls =>
    match nr.toNat?, mt.toNat?, pa.toNat?, ls.mapM parseLoss with
    | some nr, some mt, some pa, some ls =>
      let arr := ls.toArray
      let script : Nat → Loss := fun k => arr.getD k .nan
      let cfg : Cfg := ⟨nr, mt, pa⟩
      match run script cfg with
      | none => "error NameError"
      | some r =>
        if r.calls > arr.size then s!"overrun calls={r.calls}"
        else
          let recs := allRounds script cfg
          let calls := (0, 0) :: (recs.flatMap fun rc => rc.out.steps.map fun st => (st.round, st.inState))
          let callStr := " ".intercalate (calls.map fun (a, b) => s!"{a}:{b}")
          let lossStr := " ".intercalate (r.losses.map showLoss)
          s!"ok best={r.best} last={r.last} calls={r.calls} losses=[{lossStr}] trace=[{callStr}]"
    | _, _, _, _ => "bad-op es-args"
  | _ => "bad-op es-arity"

/-- `esgen …`: the same request answered by the program TRANSLATED from the source (`Gen.EarlyStopProg`), same reply format -/
def earlyStopGen (args : List String) : String :=
  match args with
  | nr :: mt :: pa :: ls =>
    match nr.toNat?, mt.toNat?, pa.toNat?, ls.mapM parseLoss with
    | some nr, some mt, some pa, some ls =>
      let arr := ls.toArray
      let script : Nat → Loss := fun k => arr.getD k .nan
      let P : Gen.EarlyStopProg.Params := ⟨nr, mt, pa⟩
      match Gen.EarlyStopProg.run script P with
      | none => "error NameError"
      | some r =>
        if r.calls > arr.size then s!"overrun calls={r.calls}"
        else
          let callStr := " ".intercalate ((Gen.EarlyStopProg.calls script P).map fun (a, b) => s!"{a}:{b}")
          let lossStr := " ".intercalate (r.losses.map showLoss)
          s!"ok best={r.best} last={r.last} calls={r.calls} losses=[{lossStr}] trace=[{callStr}]"
    | _, _, _, _ => "bad-op es-args"
  | _ => "bad-op es-arity"

end Pysersic.Driver
