import PysersicModel.IO.Results
import PysersicModel.Gen.Consts
import PysersicModel.Driver.Util

namespace Pysersic.Driver
open Pysersic.Results

/-- `rs purge save name` → fate of the variable -/
def resultsFate (args : List String) : String :=
  match args with
  | [purge, save, name] =>
    let f := fate Gen.wrapTest Gen.dropTest Gen.modelTest (purge == "1") (save == "1") name.toList
    let b := fun (x : Bool) => if x then "1" else "0"
    s!"wrapped={b f.wrapped} dropped={b f.dropped} model={b f.asModel}"
  | _ => "bad-op rs-arity"

/-- `wrap x1 x2 …` (hex floats) → wrapped values -/
def wrapCmd (args : List String) : String :=
  match parseFs args with
  | some xs => showFs (xs.map fun x => (wrap x : Float))
  | none => "bad-op wrap-args"

end Pysersic.Driver
