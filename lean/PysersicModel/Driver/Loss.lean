import PysersicModel.Prob.Loss
import PysersicModel.Gen.Consts
import PysersicModel.Driver.Util

namespace Pysersic.Driver
open Pysersic.Prob

def parseLossKind (s : String) : Option LossKind :=
  LossKind.all.find? fun k => k.pyName == s

def parsePixels : List String → Option (List (Pix Float))
  | [] => some []
  | m :: d :: r :: g :: rest => do
    let m ← parseF m
    let d ← parseF d
    let r ← parseF r
    let ps ← parsePixels rest
    some (⟨m, d, r, g == "1"⟩ :: ps)
  | _ => none

/-- `loss <pyname> frac sysBase contamBase sigFrac  (m d r good)*`
reply: `terms=<per-pixel log-prob …> nuis=<name=logp …> det=<name=value …> site=<name>:<factor|sample>` -/
def lossCmdK (K : LossConstsQ) (args : List String) : String :=
  match args with
  | kind :: f :: s :: c :: g :: rest =>
    match parseLossKind kind, parseFs [f, s, c, g], parsePixels rest with
    | some k, some [f, s, c, g], some pixels =>
      let nu : Nuis Float := ⟨f, s, c, g⟩
      let terms := lossTerms K k nu pixels
      let v : String → Float := fun n =>
        if n == "frac_rms_increase" then nu.frac else if n == "sys_rms_base" then nu.sysBase
        else if n == "outlier_frac_base" then nu.contamBase else nu.sigFrac
      let nuis := (nuisanceSites (α := Float) K k).map fun (n, d) => s!"{n}={showF (d.logProb (v n))}"
      let det := (deterministicSites k).map fun n =>
        let val : Float := if n == "sys_rms" then sysScatter nu (meanRms K pixels) else contamFrac K nu
        s!"{n}={showF val}"
      let (sn, isF) := likelihoodSite k
      s!"terms={showFs terms} nuis={" ".intercalate nuis} det={" ".intercalate det} site={sn}:{if isF then "factor" else "sample"}"
    | _, _, _ => "bad-op loss-args"
  | _ => "bad-op loss-arity"

def lossCmd (args : List String) : String := lossCmdK Gen.lossConsts args

/-- `lossopt <cNum> <cDen> <deltaNum> <deltaDen> <loss args…>`: the same with the keyword arguments `c` (mixtures) and
`delta` (pseudo-Huber) given by the caller instead of taken from the source defaults -/
def lossOptCmd (args : List String) : String :=
  match args with
  | cn :: cd :: dn :: dd :: rest =>
    match cn.toInt?, cd.toNat?, dn.toInt?, dd.toNat? with
    | some cn, some cd, some dn, some dd =>
      if cd == 0 || dd == 0 then "bad-op lossopt-den" else
      lossCmdK { Gen.lossConsts with c := ⟨cn, cd⟩, delta := ⟨dn, dd⟩ } rest
    | _, _, _, _ => "bad-op lossopt-args"
  | _ => "bad-op lossopt-arity"

end Pysersic.Driver
