import PysersicModel.Prob.MultiBand
import PysersicModel.Gen.Consts
import PysersicModel.Driver.Prob

/-!
`mbsites LINK NB band* NL linked* NC const* NU unlinked* NS sky* LOSS RETURNMODEL` → `name:kind …`
`polylink NCOEFF coeff* w HASRANGE lo hi mean scale` → value
`mbrange name` → `none` | `<key> <lo> <hi>` (hex floats)
`relabel OLD NEW name` → new key (OLD/NEW `-` for empty)
`dot N row* weights*` → value
-/
namespace Pysersic.Driver
open Pysersic Pysersic.MultiBand Pysersic.Prob

def listP : Pr (List String) := do
  let n ← natP
  manyP n tok

def mbSitesCmd (args : List String) : String :=
  run (do
    let linkS ← tok
    let link ← match linkS with
      | "poly" => pure LinkKind.poly
      | "bspline" => pure LinkKind.bspline
      | _ => failure
    let bands ← listP
    let linked ← listP
    let const ← listP
    let unlinked ← listP
    let sky ← listP
    let loss ← match parseLossKind (← tok) with
      | some k => pure k
      | none => failure
    let rm ← tok
    let ss := sites Gen.lossConsts ⟨link, bands, linked, const, unlinked, sky, loss, rm == "1"⟩
    pure (" ".intercalate (ss.map fun s =>
      s.1 ++ ":" ++ (match s.2 with | .latent => "latent" | .deterministic => "deterministic" | .observed => "observed")))) args "mbsites-args"

def polyLinkCmd (args : List String) : String :=
  run (do
    let n ← natP
    let cs ← manyP n fltP
    let w ← fltP
    let hasR ← tok
    let lo ← fltP
    let hi ← fltP
    let mean ← fltP
    let scale ← fltP
    pure (showF (polyLink cs w (if hasR == "1" then some (lo, hi) else none) mean scale))) args "polylink-args"

def mbRangeCmd (args : List String) : String :=
  run (do
    let name ← tok
    match defaultRule Gen.mbRangeRules name with
    | none => pure "none"
    | some r =>
      let b : Float × Float := r.bounds
      pure s!"{r.key} {showF b.1} {showF b.2}") args "mbrange-args"

def relabelCmd (args : List String) : String :=
  run (do
    let o ← suffixP
    let n ← suffixP
    let s ← tok
    pure (nameChange o n s)) args "relabel-args"

def dotCmd (args : List String) : String :=
  run (do
    let n ← natP
    let row ← manyP n fltP
    let ws ← manyP n fltP
    pure (showF (dot row ws))) args "dot-args"

end Pysersic.Driver
