import PysersicModel.Prob.Fitter
import PysersicModel.Driver.Loss
import PysersicModel.Gen.Consts
import PysersicModel.Driver.Render

/-!
Driver commands of the probabilistic layer.

`skyimg TYPE N back xsl ysl` → N·N sky values (row-major).
`skysites TYPE guess err` → prior entries of the sky parameters.
`helper gaussian loc scale x` | `helper uniform low high x` | `helper trunc loc scale LOW HIGH x` (LOW/HIGH hex or `-`)
   → `logp=<log_prob(x)> base=<base log_prob((x-loc)/scale)> value=<loc + scale·((x-loc)/scale)> entry=<…>`
`genprior PTYPE SKY SUFFIX flux fluxErr rEff rEffErr theta xc yc sky skyErr` → prior entries.
`multiprior SKY SUFFIX skyGuess skyErr NROWS (PTYPE FLUXPOS flux r x y theta)*` → prior entries.

A prior entry is `name|family|loc|scale|low|high` (hex floats; `-` for an absent bound; bounds are those of the unit-scale base).
-/

namespace Pysersic.Driver
open Pysersic Pysersic.Prob Pysersic.Render

def optF (o : Option Float) : String := match o with | some x => showF x | none => "-"

def showEntry (name : String) (d : Dist Float) : String :=
  match d with
  | .affine (.normal _ _) loc scale => s!"{name}|normal|{showF loc}|{showF scale}|-|-"
  | .affine (.uniform _ _) loc scale => s!"{name}|uniform|{showF loc}|{showF scale}|-|-"
  | .affine (.truncNormal _ _ lo hi) loc scale => s!"{name}|truncnormal|{showF loc}|{showF scale}|{optF lo}|{optF hi}"
  | _ => s!"{name}|other|-|-|-|-"

def showEntries (l : List (String × Dist Float)) : String := " ".intercalate (l.map fun kv => showEntry kv.1 kv.2)

def optFltP : Pr (Option Float) := do
  let t ← tok
  if t == "-" then pure none else
    match parseF t with
    | some x => pure (some x)
    | none => failure

def run (p : Pr String) (args : List String) (err : String) : String :=
  match p.run args with
  | some (s, []) => s
  | _ => "bad-op " ++ err

def skyTypeP : Pr SkyType := do
  match parseSkyType (← tok) with
  | some t => pure t
  | none => failure

def ptypeP : Pr PType := do
  match parsePType (← tok) with
  | some t => pure t
  | none => failure

def suffixP : Pr String := do
  let t ← tok
  pure (if t == "-" then "" else t)

def skyImgCmd (args : List String) : String :=
  run (do
    let t ← skyTypeP
    let N ← natP
    let b ← fltP
    let xs ← fltP
    let ys ← fltP
    pure (showFs ((List.range (N * N)).map fun i => skyAt t N (Float.ofNat (i % N)) (Float.ofNat (i / N)) ⟨b, xs, ys⟩))) args "skyimg-args"

def skySitesCmd (args : List String) : String :=
  run (do
    let t ← skyTypeP
    let g ← fltP
    let e ← fltP
    pure (showEntries (skySites t Gen.priorConsts.slopeFactor g e))) args "skysites-args"

def helperCmd (args : List String) : String :=
  run (do
    let kind ← tok
    let d : Dist Float ← match kind with
      | "gaussian" => do
        let l ← fltP
        let s ← fltP
        pure (gaussianPrior l s)
      | "uniform" => do
        let l ← fltP
        let h ← fltP
        pure (uniformPrior l h)
      | "trunc" => do
        let l ← fltP
        let s ← fltP
        let lo ← optFltP
        let hi ← optFltP
        pure (truncGaussianPrior l s lo hi)
      | _ => failure
    let x ← fltP
    let z : Float := match d with
      | .affine _ loc scale => (x - loc) / scale
      | _ => x
    let lp := match helperLogProb Gen.priorSupportMasked d x with
      | some v => showF v
      | none => "-inf"
    pure s!"logp={lp} inside={if d.inSupport x then 1 else 0} base={showF (d.baseOf.logProb z)} value={showF (d.fromBase z)} entry={showEntry "p" d}") args "helper-args"

def guessesP : Pr (Guesses Float) := do
  let flux ← fltP
  let fluxErr ← fltP
  let rEff ← fltP
  let rEffErr ← fltP
  let theta ← fltP
  let xc ← fltP
  let yc ← fltP
  let sky ← fltP
  let skyErr ← fltP
  pure ⟨flux, fluxErr, rEff, rEffErr, theta, xc, yc, sky, skyErr⟩

def genPriorCmd (args : List String) : String :=
  run (do
    let t ← ptypeP
    let sky ← skyTypeP
    let sfx ← suffixP
    let g ← guessesP
    pure (showEntries (sourcePrior Gen.priorConsts t sky sfx g))) args "genprior-args"

def multiPriorCmd (args : List String) : String :=
  run (do
    let sky ← skyTypeP
    let sfx ← suffixP
    let sg ← fltP
    let se ← fltP
    let n ← natP
    let rows ← manyP n (do
      let t ← ptypeP
      let pos ← tok
      let flux ← fltP
      let r ← fltP
      let x ← fltP
      let y ← fltP
      let th ← fltP
      pure (⟨t, pos == "1", flux, r, x, y, th⟩ : CatRow Float))
    pure (showEntries (multiPrior Gen.priorConsts sfx sky sg se rows))) args "multiprior-args"

/-- parse an entry description: `name family loc scale LOW HIGH` -/
def entryP : Pr (String × Dist Float) := do
  let name ← tok
  let fam ← tok
  let loc ← fltP
  let sc ← fltP
  let lo ← optFltP
  let hi ← optFltP
  let base : Dist Float ← match fam with
    | "normal" => pure (Dist.normal 0.0 1.0)
    | "uniform" => pure (Dist.uniform 0.0 1.0)
    | "truncnormal" => pure (Dist.truncNormal 0.0 1.0 lo hi)
    | _ => failure
  pure (name, Dist.affine base loc sc)

/-- `sites LOSS SUFFIX RETURNMODEL NENT (entry)*` → every site of the fitter model as `name:kind` -/
def sitesCmd (args : List String) : String :=
  run (do
    let lossS ← tok
    let loss ← match parseLossKind lossS with
      | some k => pure k
      | none => failure
    let sfx ← suffixP
    let rm ← tok
    let n ← natP
    let ents ← manyP n entryP
    let ss := fitterSites (α := Float) Gen.lossConsts ents loss sfx (rm == "1")
    pure (" ".intercalate (ss.map fun s =>
      s.1 ++ ":" ++ (match s.2 with | .latent => "latent" | .deterministic => "deterministic" | .observed => "observed")))) args "sites-args"

/-- `baselp NENT (entry z)*` → per entry: base log-density at z and the exposed value -/
def baseLpCmd (args : List String) : String :=
  run (do
    let n ← natP
    let rows ← manyP n (do
      let e ← entryP
      let z ← fltP
      pure s!"{e.1}={showF (e.2.baseOf.logProb z)}:{showF (e.2.fromBase z)}")
    pure (" ".intercalate rows)) args "baselp-args"

end Pysersic.Driver
