/-
Scalar abstraction: every numeric model definition is written once, generic in
the scalar type `α`, and used twice — proved about at `α = ℝ` (instance in
`Proofs/RealScalar.lean`) and executed at `α = Float` (instance below) in the
compiled driver.  Import-free.
-/
namespace Pysersic

/-- Transcendental operations the pysersic formulas use. -/
class Transc (α : Type) where
  exp : α → α
  log : α → α
  sqrt : α → α
  sin : α → α
  cos : α → α
  /-- real power `x ^ y` -/
  rpow : α → α → α
  /-- `log Γ(x)` -/
  lgamma : α → α
  /-- standard normal CDF Φ -/
  ncdf : α → α
  /-- largest integer ≤ x, as a scalar -/
  floor : α → α
  /-- `atan2 y x`: the argument of the complex number x + iy, in (−π, π] -/
  atan2 : α → α → α
  pi : α

/-- Exact decimal/rational constant extracted from the source (num / den). -/
structure Q where
  num : Int
  den : Nat
deriving DecidableEq, Repr, Inhabited

section
variable {α : Type} [NatCast α] [Neg α] [Div α]

/-- Embed an exact rational constant. IEEE division of two exactly representable
integers is correctly rounded, so at `Float` this is the double nearest to the
decimal literal, i.e. what Python reads. -/
def Q.to (q : Q) : α :=
  match q.num with
  | Int.ofNat n => (n : α) / (q.den : α)
  | Int.negSucc n => -(((n + 1 : Nat) : α) / (q.den : α))

/-- `dec p q = p / q` for natural `p q` (decimal literals in model code). -/
def dec (p q : Nat) : α := (p : α) / (q : α)
end

instance : NatCast Float := ⟨Float.ofNat⟩

namespace FloatImpl

/-- Lanczos approximation (g = 7, n = 9) of log Γ for x > 0; |rel err| ~ 1e-15. -/
def lanczosCoef : Array Float := #[
  0.99999999999980993, 676.5203681218851, -1259.1392167224028,
  771.32342877765313, -176.61502916214059, 12.507343278686905,
  -0.13857109526572012, 9.9843695780195716e-6, 1.5056327351493116e-7]

def pi : Float := 3.141592653589793

partial def lgamma (x : Float) : Float :=
  if x < 0.5 then
    -- reflection
    Float.log (pi / Float.abs (Float.sin (pi * x))) - lgamma (1.0 - x)
  else
    let x := x - 1.0
    let t := x + 7.5
    let a := Id.run do
      let mut a := lanczosCoef[0]!
      for i in [1:9] do
        a := a + lanczosCoef[i]! / (x + i.toFloat)
      return a
    0.5 * Float.log (2.0 * pi) + (x + 0.5) * Float.log t - t + Float.log a

/-- erfc via W. J. Cody-style rational approximations is overkill here; use the
complementary error function from a continued fraction / series split.
Accuracy ~1e-15 relative for |x| ≤ 6, adequate for the correspondence tolerances. -/
partial def erfcPos (x : Float) : Float :=
  -- x ≥ 0
  if x < 2.5 then
    -- erf series: erf x = 2/sqrt(pi) * sum_{n} (-1)^n x^(2n+1) / (n! (2n+1))
    let s := Id.run do
      let mut term := x
      let mut sum := x
      let mut n := 0
      while n < 200 do
        n := n + 1
        term := -term * x * x / n.toFloat
        let add := term / (2.0 * n.toFloat + 1.0)
        sum := sum + add
        if Float.abs add < 1e-17 * Float.abs sum then break
      return sum
    1.0 - 2.0 / Float.sqrt pi * s
  else
    -- continued fraction (Lentz) for erfc x = exp(-x²)/sqrt(pi) * 1/(x+ 1/2/(x+ 1/(x+ 3/2/(x+ ...))))
    let cf := Id.run do
      let mut f := x
      let mut k := 60
      while k > 0 do
        f := x + (k.toFloat / 2.0) / f
        k := k - 1
      return f
    Float.exp (-x * x) / Float.sqrt pi / cf

def erfc (x : Float) : Float := if x ≥ 0 then erfcPos x else 2.0 - erfcPos (-x)

def ncdf (x : Float) : Float := 0.5 * erfc (-x / Float.sqrt 2.0)

end FloatImpl

instance : Transc Float where
  exp := Float.exp
  log := Float.log
  sqrt := Float.sqrt
  sin := Float.sin
  cos := Float.cos
  rpow := Float.pow
  lgamma := FloatImpl.lgamma
  ncdf := FloatImpl.ncdf
  floor := Float.floor
  atan2 := Float.atan2
  pi := FloatImpl.pi

end Pysersic
