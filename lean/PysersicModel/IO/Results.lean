/-
Model of `PySersicResults._parse_injested_data` (pysersic/results.py): which
posterior variables are wrapped modulo π, which are dropped, which is kept as
the model image.  The name tests are boolean combinations of Python
`'lit' in var`; they are *translated* from the source into `NameTest` values
(`Gen.wrapTest`, `Gen.dropTest`, `Gen.modelTest`).

Import-free.
-/
import PysersicModel.IO.Names
import PysersicModel.Scalar

namespace Pysersic.Results
open Pysersic.Names

/-- boolean combination of substring tests on a variable name -/
inductive NameTest where
  | has (lit : String)
  | eq (lit : String)
  | not (t : NameTest)
  | and (a b : NameTest)
  | or (a b : NameTest)
  | const (b : Bool)
deriving Repr

def NameTest.eval : NameTest → Str → Bool
  | .has lit, s => hasSub lit.toList s
  | .eq lit, s => decide (s = lit.toList)
  | .not t, s => !t.eval s
  | .and a b, s => a.eval s && b.eval s
  | .or a b, s => a.eval s || b.eval s
  | .const b, _ => b

/-- what happens to one posterior variable -/
structure Fate where
  wrapped : Bool     -- values replaced by `remainder(x + π, π)`
  dropped : Bool     -- removed from the posterior
  asModel : Bool     -- stored in `self.models`
deriving DecidableEq, Repr

def fate (wrapT dropT modelT : NameTest) (purge saveModel : Bool) (name : Str) : Fate :=
  { wrapped := wrapT.eval name
    dropped := purge && (dropT.eval name || modelT.eval name)
    asModel := purge && saveModel && modelT.eval name }

section
variable {α : Type} [Add α] [Sub α] [Mul α] [Div α] [Transc α]

/-- `np.remainder(a, b) = a - b * floor(a / b)` -/
def remainder (a b : α) : α := a - b * Transc.floor (a / b)

/-- the wrap applied to angle variables: `np.remainder(x + π, π)` -/
def wrap (x : α) : α := remainder (x + Transc.pi) Transc.pi
end

end Pysersic.Results
