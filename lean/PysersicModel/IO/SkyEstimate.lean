/-
Model of `estimate_sky` (pysersic/priors.py): which pixels the automatic sky
estimate gathers.  Python slice semantics are modelled exactly; the statistic
(median, biweight scale) is an arbitrary function of the gathered values.

Import-free.
-/
namespace Pysersic.SkyEstimate

/-- Normalise one slice bound as CPython does for step 1: `none` ↦ default,
negative values count from the end, everything is clamped to `[0, len]`. -/
def normBound (len : Nat) (dflt : Nat) : Option Int → Nat
  | none => dflt
  | some (Int.ofNat k) => min k len
  | some (Int.negSucc k) => len - (k + 1)      -- -(k+1) ↦ max(len-(k+1), 0)

/-- indices selected by `a[lo:hi]` on an axis of length `len` -/
def pySlice (len : Nat) (lo hi : Option Int) : List Nat :=
  let s := normBound len 0 lo
  let e := normBound len len hi
  List.range' s (e - s)

/-- rows × cols in C (row-major) order, as `ndarray.ravel()` yields them -/
def block (rows cols : List Nat) : List (Nat × Nat) :=
  rows.flatMap fun i => cols.map fun j => (i, j)

/-- The four slices of `estimate_sky`, in the order they are concatenated:
`image[:n, :]`, `image[-n:, :]`, `image[n:-n, :n]`, `image[n:-n, -n:]`. -/
def borderIdx (H W n : Nat) : List (Nat × Nat) :=
  let nI : Int := n
  let all := pySlice W none none
  block (pySlice H none (some nI)) all ++
  block (pySlice H (some (-nI)) none) all ++
  block (pySlice H (some nI) (some (-nI))) (pySlice W none (some nI)) ++
  block (pySlice H (some nI) (some (-nI))) (pySlice W (some (-nI)) none)

/-- one slice bound as the source writes it: absent, `n_pix_sample`, `-n_pix_sample` -/
inductive SB where
  | none | pos | neg
deriving DecidableEq, Repr

def SB.toBound (n : Nat) : SB → Option Int
  | .none => Option.none
  | .pos => some (n : Int)
  | .neg => some (-(n : Int))

/-- the gathered positions for an arbitrary list of `image[a:b, c:d]` slices, concatenated in order
(`Gen.skySlices` is this list as read from the source) -/
def borderIdxOf (sl : List (SB × SB × SB × SB)) (H W n : Nat) : List (Nat × Nat) :=
  sl.flatMap fun s =>
    block (pySlice H (s.1.toBound n) (s.2.1.toBound n)) (pySlice W (s.2.2.1.toBound n) (s.2.2.2.toBound n))

/-- how `estimate_sky` treats a separately passed mask when the image may be a masked array itself -/
inductive MaskRule where
  | combine               -- `if mask is not None: image = masked_array(image, mask)` (numpy keeps the image's own mask)
  | argIfImageUnmasked    -- `if not np.ma.is_masked(image) and mask is not None` (no masked pixel in the image)
  | argIfNotMaskedArray   -- `if not isMaskedArray(image) and mask is not None`
deriving DecidableEq, Repr

def anyMasked (H W : Nat) (m : Nat → Nat → Bool) : Bool :=
  (List.range H).any fun i => (List.range W).any fun j => m i j

def maskOf (m : Option (Nat → Nat → Bool)) : Nat → Nat → Bool :=
  fun i j => match m with | some f => f i j | none => false

/-- the mask in force when the pixels are gathered: `own` is the mask the image carries as a numpy masked array
(`none` for a plain array), `arg` the separately passed one -/
def effMask (rule : MaskRule) (H W : Nat) (own arg : Option (Nat → Nat → Bool)) : Nat → Nat → Bool :=
  match arg with
  | none => maskOf own
  | some a =>
    let both := fun i j => maskOf own i j || a i j
    match rule with
    | .combine => both
    | .argIfImageUnmasked => if anyMasked H W (maskOf own) then maskOf own else both
    | .argIfNotMaskedArray => if own.isSome then maskOf own else a

/-- positions whose values reach the statistics: border positions that are not masked -/
def usedIdx (H W n : Nat) (mask : Nat → Nat → Bool) : List (Nat × Nat) :=
  (borderIdx H W n).filter fun p => !mask p.1 p.2

/-- the values handed to median / biweight scale -/
def gather {α : Type} (H W n : Nat) (img : Nat → Nat → α) (mask : Nat → Nat → Bool) : List α :=
  (usedIdx H W n mask).map fun p => img p.1 p.2

/-- `estimate_sky` with the statistics abstracted: (median, scatter, count) -/
def estimate {α β γ : Type} (med : List α → β) (scat : List α → γ)
    (H W n : Nat) (img : Nat → Nat → α) (mask : Nat → Nat → Bool) : β × γ × Nat :=
  let g := gather H W n img mask
  (med g, scat g, g.length)

end Pysersic.SkyEstimate
