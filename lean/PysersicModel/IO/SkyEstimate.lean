/-
Model of `estimate_sky` (pysersic/priors.py): which pixels the automatic sky
estimate gathers.  Python slice semantics are modelled exactly; the statistic
(median, biweight scale) is an arbitrary function of the gathered values.

Import-free.
-/
namespace Pysersic.SkyEstimate

/-- Normalise one slice bound as CPython does for step 1: `none` ↦ default,
negative values count from the end, everything is clamped to `[0, len]`. -/
def normBound (len : Nat) (dflt : Nat) : Option Int → Nat
  | none => dflt
  | some (Int.ofNat k) => min k len
  | some (Int.negSucc k) => len - (k + 1)      -- -(k+1) ↦ max(len-(k+1), 0)

/-- indices selected by `a[lo:hi]` on an axis of length `len` -/
def pySlice (len : Nat) (lo hi : Option Int) : List Nat :=
  let s := normBound len 0 lo
  let e := normBound len len hi
  List.range' s (e - s)

/-- rows × cols in C (row-major) order, as `ndarray.ravel()` yields them -/
def block (rows cols : List Nat) : List (Nat × Nat) :=
  rows.flatMap fun i => cols.map fun j => (i, j)

/-- The four slices of `estimate_sky`, in the order they are concatenated:
`image[:n, :]`, `image[-n:, :]`, `image[n:-n, :n]`, `image[n:-n, -n:]`. -/
def borderIdx (H W n : Nat) : List (Nat × Nat) :=
  let nI : Int := n
  let all := pySlice W none none
  block (pySlice H none (some nI)) all ++
  block (pySlice H (some (-nI)) none) all ++
  block (pySlice H (some nI) (some (-nI))) (pySlice W none (some nI)) ++
  block (pySlice H (some nI) (some (-nI))) (pySlice W (some (-nI)) none)

/-- positions whose values reach the statistics: border positions that are not masked -/
def usedIdx (H W n : Nat) (mask : Nat → Nat → Bool) : List (Nat × Nat) :=
  (borderIdx H W n).filter fun p => !mask p.1 p.2

/-- the values handed to median / biweight scale -/
def gather {α : Type} (H W n : Nat) (img : Nat → Nat → α) (mask : Nat → Nat → Bool) : List α :=
  (usedIdx H W n mask).map fun p => img p.1 p.2

/-- `estimate_sky` with the statistics abstracted: (median, scatter, count) -/
def estimate {α β γ : Type} (med : List α → β) (scat : List α → γ)
    (H W n : Nat) (img : Nat → Nat → α) (mask : Nat → Nat → Bool) : β × γ × Nat :=
  let g := gather H W n img mask
  (med g, scat g, g.length)

end Pysersic.SkyEstimate
