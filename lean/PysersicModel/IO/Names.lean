/-
Python string operations on parameter / site names, as total functions on
`List Char` so that theorems can quantify over all strings.

Import-free.
-/
namespace Pysersic.Names

abbrev Str := List Char

/-- Python `pat in s` -/
def hasSub (pat : Str) : Str → Bool
  | [] => pat.isEmpty
  | c :: t => pat.isPrefixOf (c :: t) || hasSub pat t

/-- split on underscores (like `s.split('_')`; never returns the empty list) -/
def splitU : Str → List Str
  | [] => [[]]
  | c :: t =>
    if c = '_' then [] :: splitU t
    else match splitU t with
      | [] => [[c]]
      | h :: r => (c :: h) :: r

/-- `'_'.join(segs)` -/
def joinU : List Str → Str
  | [] => []
  | [s] => s
  | s :: rest => s ++ '_' :: joinU rest

/-- Python `s.replace(old, new)` for non-empty `old` (left-to-right, non-overlapping).
`fuel` bounds the recursion by the length of `s`. -/
def replaceAux (old new : Str) : Nat → Str → Str
  | 0, s => s
  | _, [] => []
  | fuel + 1, c :: t =>
    if old.isPrefixOf (c :: t) then new ++ replaceAux old new fuel ((c :: t).drop old.length)
    else c :: replaceAux old new fuel t

/-- Python `s.replace(old, new)`; for `old = ""` Python inserts `new` before every
character and at the end. -/
def pyReplace (s old new : Str) : Str :=
  if old.isEmpty then new ++ s.flatMap (fun c => c :: new) else replaceAux old new s.length s

def ofString (s : String) : Str := s.toList
def toString (s : Str) : String := String.ofList s

end Pysersic.Names
