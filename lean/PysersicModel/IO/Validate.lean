/-
Model of input validation at fitter / renderer construction
(`BaseFitter.__init__`, `parse_mask`, `check_input_data` in pysersic/pysersic.py,
`BaseRenderer.__init__` / `HybridRenderer.__init__` in pysersic/rendering.py,
the type assertions in pysersic/priors.py).

Structural facts about the source that decide the outcome (how the PSF-size test
compares shapes; whether the hybrid renderer's PSF grid only fits square stamps)
are parameters (`Facts`), regenerated from /repo into `Gen.validateFacts`.

Import-free.
-/
namespace Pysersic.Validate

abbrev Shape := Nat × Nat

/-- how `image_shape < psf_shape` is evaluated -/
inductive CmpKind where
  | tuple        -- Python tuple comparison (lexicographic), then jnp.all/any of one bool
  | elementwise  -- any(i < p for i, p in zip(image_shape, psf_shape))
deriving DecidableEq, Repr

def shapeLt (k : CmpKind) (img psf : Shape) : Bool :=
  match k with
  | .tuple => decide (img.1 < psf.1) || (img.1 == psf.1 && decide (img.2 < psf.2))
  | .elementwise => decide (img.1 < psf.1) || decide (img.2 < psf.2)

structure Facts where
  fitterCmp : CmpKind          -- check_input_data
  rendererCmp : CmpKind        -- BaseRenderer.__init__
  hybridSquareOnly : Bool      -- HybridRenderer builds its PSF grid with the axes swapped
deriving DecidableEq, Repr

inductive Renderer where
  | pixel | fourier | hybrid
deriving DecidableEq, Repr

inductive Outcome where
  | ok | shapeMatchError | valueError | kernelError | typeError | assertionError
deriving DecidableEq, Repr

/-- `check_input_data(data, rms, psf, mask)`; `mshape` is the shape of the parsed mask -/
def checkInputData (F : Facts) (d r p m : Shape) (negRms : Bool) : Outcome :=
  if d ≠ r then .shapeMatchError
  else if negRms then .valueError
  else if shapeLt F.fitterCmp d p then .kernelError
  else if m ≠ d then .shapeMatchError
  else .ok

/-- two shapes broadcast together (numpy rule, 2-D) -/
def broadcastable (a b : Shape) : Bool :=
  (a.1 == b.1 || a.1 == 1 || b.1 == 1) && (a.2 == b.2 || a.2 == 1 || b.2 == 1)

/-- renderer constructor -/
def rendererInit (F : Facts) (R : Renderer) (d p : Shape) : Outcome :=
  if shapeLt F.rendererCmp d p then .kernelError
  else if R = .hybrid && F.hybridSquareOnly && !broadcastable p (p.2, p.1) then .typeError
  else .ok

/-- `BaseFitter.__init__`: a missing mask is parsed to an all-good mask of the data's shape -/
def fitterInit (F : Facts) (R : Renderer) (d r p : Shape) (m : Option Shape) (negRms : Bool) : Outcome :=
  match checkInputData F d r p (m.getD d) negRms with
  | .ok => rendererInit F R d p
  | e => e

/-- `parse_mask`: stored mask is `True` where the pixel is *used*;
`userNonzero[i]` says whether the user's mask value at pixel `i` is non-zero. -/
def parseMask (n : Nat) : Option (List Bool) → List Bool
  | none => List.replicate n true
  | some userNonzero => userNonzero.map (!·)

/-- what `parse_mask` stores when no mask is given -/
inductive MaskDefault where
  | allUsed        -- `ones_like(data).astype(bool)`
  | dataNonzero    -- `asarray(data).astype(bool)`: pixels whose datum is exactly 0 would be dropped
deriving DecidableEq, Repr

/-- how `parse_mask` decides from a user's mask value (an integer here: labels, flags) whether the pixel is used -/
inductive MaskGiven where
  | zeroUsed              -- `logical_not(mask.astype(float))`: used iff the value is 0
  | oneMinusNonzeroUsed   -- `(1 − mask.astype(float)).astype(bool)`: used iff the value is not 1
deriving DecidableEq, Repr

def MaskGiven.used : MaskGiven → Int → Bool
  | .zeroUsed, v => v == 0
  | .oneMinusNonzeroUsed, v => (1 - v) != 0

def MaskDefault.used : MaskDefault → Int → Bool
  | .allUsed, _ => true
  | .dataNonzero, datum => datum != 0

/-- prior construction refuses unknown profile / sky types -/
def priorInit (profileTypes skyTypes : List String) (ptype stype : String) : Outcome :=
  if !skyTypes.contains stype then .assertionError
  else if !profileTypes.contains ptype then .assertionError
  else .ok

end Pysersic.Validate
