/-
Log-densities of the numpyro distributions pysersic uses, written as numpyro
evaluates them (no support masking: `validate_args` is off), generic in the
scalar type.

Import-free.
-/
import PysersicModel.Scalar

namespace Pysersic.Prob
open Pysersic

section
variable {α : Type} [Add α] [Sub α] [Mul α] [Div α] [Neg α] [NatCast α] [Transc α]

@[inline] def two : α := ((2 : Nat) : α)
@[inline] def one : α := ((1 : Nat) : α)
@[inline] def zero : α := ((0 : Nat) : α)
@[inline] def half : α := one / two
@[inline] def sq (x : α) : α := x * x

/-- `dist.Normal(loc, scale).log_prob(x)` -/
def normalLogPdf (loc scale x : α) : α :=
  -(half * sq ((x - loc) / scale)) - Transc.log (Transc.sqrt (two * Transc.pi) * scale)

/-- `dist.StudentT(df, loc, scale).log_prob(x)` -/
def studentTLogPdf (df loc scale x : α) : α :=
  let y := (x - loc) / scale
  let z := Transc.log scale + half * Transc.log df + half * Transc.log Transc.pi
            + Transc.lgamma (half * df) - Transc.lgamma (half * (df + one))
  let res := -(half * (df + one)) * Transc.log (one + sq y / df) - z
  res

/-- `log(exp a + exp b)` -/
def logAddExp (a b : α) : α := Transc.log (Transc.exp a + Transc.exp b)

/-- the distributions that occur in pysersic priors and losses -/
inductive Dist (α : Type) where
  | normal (loc scale : α)
  | uniform (low high : α)
  /-- `dist.TruncatedNormal(loc, scale, low=…, high=…)`; a missing bound is `none` -/
  | truncNormal (loc scale : α) (low high : Option α)
  | studentT (df loc scale : α)
  /-- `MixtureSameFamily(Categorical([1-w, w]), Normal([loc, loc], [s1, s2]))` -/
  | mix2Normal (w loc s1 s2 : α)
  /-- `TransformedDistribution(base, AffineTransform(loc, scale))` -/
  | affine (base : Dist α) (loc scale : α)

/-- normalising mass of the truncated standard-normal family: Φ((hi-μ)/σ) − Φ((lo-μ)/σ) -/
def truncMass (loc scale : α) (low high : Option α) : α :=
  let hi := match high with
    | some h => Transc.ncdf ((h - loc) / scale)
    | none => one
  let lo := match low with
    | some l => Transc.ncdf ((l - loc) / scale)
    | none => zero
  hi - lo

/-- `d.log_prob(x)` as numpyro computes it (finite outside the support) -/
def Dist.logProb : Dist α → α → α
  | .normal loc scale, x => normalLogPdf loc scale x
  | .uniform low high, _ => -Transc.log (high - low)
  | .truncNormal loc scale low high, x =>
      normalLogPdf loc scale x - Transc.log (truncMass loc scale low high)
  | .studentT df loc scale, x => studentTLogPdf df loc scale x
  | .mix2Normal w loc s1 s2, x =>
      logAddExp (Transc.log (one - w) + normalLogPdf loc s1 x) (Transc.log w + normalLogPdf loc s2 x)
  | .affine base loc scale, x => base.logProb ((x - loc) / scale) - Transc.log scale

end

end Pysersic.Prob
