/-
Sky background model of pysersic/priors.py: `NoSkyPrior`, `FlatSkyPrior`,
`TiltedPlaneSkyPrior` (their `sample` methods and the priors `update_prior`
installs) and the stand-alone `render_tilted_plane_sky`.

Both pivots of the plane are `X.shape[0]/2` and `Y.shape[0]/2`, i.e. half the
number of rows of the coordinate grids (N/2 for the square images the package
supports).  The slope-prior width factor is regenerated from the source.

Import-free.
-/
import PysersicModel.Prob.Dist

namespace Pysersic.Prob
open Pysersic

inductive SkyType where
  | none | flat | tilted
deriving Repr, DecidableEq

def SkyType.all : List SkyType := [.none, .flat, .tilted]

def SkyType.pyName : SkyType → String
  | .none => "none" | .flat => "flat" | .tilted => "tilted-plane"

def parseSkyType (s : String) : Option SkyType := SkyType.all.find? fun t => t.pyName == s

/-- names of the sky parameters, in sampling order -/
def SkyType.params : SkyType → List String
  | .none => []
  | .flat => ["sky_back"]
  | .tilted => ["sky_back", "sky_x_sl", "sky_y_sl"]

section
variable {α : Type} [Add α] [Sub α] [Mul α] [Div α] [Neg α] [NatCast α] [Transc α]

structure SkyVals (α : Type) where
  back : α
  xsl : α
  ysl : α

/-- `render_tilted_plane_sky(X, Y, back, x_sl, y_sl)` at one pixel; `rows = X.shape[0]` -/
def tiltedPlane (rows : Nat) (X Y : α) (v : SkyVals α) : α :=
  let mid : α := (rows : α) / two
  v.back + (X - mid) * v.xsl + (Y - mid) * v.ysl

/-- what `prior.sample_sky(X, Y)` adds at pixel (X = column, Y = row) -/
def skyAt (t : SkyType) (rows : Nat) (X Y : α) (v : SkyVals α) : α :=
  match t with
  | .none => zero
  | .flat => v.back
  | .tilted => tiltedPlane rows X Y v

/-- `update_prior(name, mu, sigma)`: a unit normal pushed through `AffineTransform(mu, sigma)` -/
def skyPriorOf (mu sigma : α) : Dist α := .affine (.normal zero one) mu sigma

/-- the sky priors installed by the three classes for (sky_guess, sky_guess_err);
`slopeFactor` is the constant multiplying `sky_guess_err` for the two slopes -/
def skySites (t : SkyType) (slopeFactor : Q) (guess err : α) : List (String × Dist α) :=
  match t with
  | .none => []
  | .flat => [("sky_back", skyPriorOf guess err)]
  | .tilted =>
    [("sky_back", skyPriorOf guess err),
     ("sky_x_sl", skyPriorOf zero ((slopeFactor.to : α) * err)),
     ("sky_y_sl", skyPriorOf zero ((slopeFactor.to : α) * err))]

end
end Pysersic.Prob
