/-
The probabilistic models `FitSingle.build_model` and `FitMulti.build_model` of
pysersic/pysersic.py: which image is handed to the loss (rendered sources plus the
sampled sky, the sky added after — outside — the PSF convolution), which sites
exist, and the joint log-density as the sum of the prior terms of the
(reparameterised) latents, the loss's own nuisance priors and the masked
per-pixel likelihood terms.

Import-free.
-/
import PysersicModel.Prob.Prior
import PysersicModel.Prob.Loss
import PysersicModel.Render.Tab

namespace Pysersic.Prob
open Pysersic
open Pysersic.Render (Renderer PDict Img iadd PType)

section
variable {α : Type} [Add α] [Sub α] [Mul α] [Div α] [Neg α] [NatCast α] [Transc α] [Max α]

/-- the sampled sky values, read under `name ++ suffix` -/
def skyValsOf (d : PDict α) (suffix : String) : SkyVals α :=
  ⟨d.get ("sky_back" ++ suffix), d.get ("sky_x_sl" ++ suffix), d.get ("sky_y_sl" ++ suffix)⟩

/-- the sky image `prior.sample_sky(renderer.X, renderer.Y)` (X = column, Y = row) -/
def skyImg (t : SkyType) (N : Nat) (v : SkyVals α) : Img α := fun r c => skyAt t N (c : α) (r : α) v

/-- `FitSingle`: `obs = render_source(params, profile_type, suffix) + sky` -/
def singleModelImage (R : Renderer α) (ptype suffix : String) (sky : SkyType) (d : PDict α) : Img α :=
  iadd (R.renderSource d ptype suffix) (skyImg sky R.N (skyValsOf d suffix))

/-- `FitMulti`: `obs = render_for_model(source_variables, catalog types, suffix) + sky`; the multi-source
prior builds its sky prior without the suffix -/
def multiModelImage (R : Renderer α) (paramsOf : String → List String) (types : List String) (suffix : String)
    (sky : SkyType) (d : PDict α) : Img α :=
  iadd (R.renderForModel paramsOf d types suffix) (skyImg sky R.N (skyValsOf d ""))

/-- the pixels handed to the loss: model value, datum, rms (replaced by 1 at masked pixels, as the
fitter does), good-pixel flag — row-major -/
def lossPixels (N : Nat) (model data rms : Img α) (good : Nat → Nat → Bool) : List (Pix α) :=
  (List.range (N * N)).map fun i =>
    let r := i / N
    let c := i % N
    ⟨model r c, data r c, if good r c then rms r c else one, good r c⟩

/-- joint log-density of a fitter's model at base values `z` of the prior latents and nuisance
values `nu`: Σ prior terms (unit-scale bases) + the loss's nuisance priors + masked likelihood -/
def logJoint (K : LossConstsQ) (entries : List (String × Dist α)) (loss : LossKind) (z : String → α) (nu : Nuis α)
    (pixels : List (Pix α)) : α :=
  logPriorBase entries z + nuisanceLogPrior K loss nu + lossLogLik K loss nu pixels

/-- the user-facing parameter dictionary the renderer receives: `name ↦ loc + scale·base` -/
def exposedDict (entries : List (String × Dist α)) (z : String → α) : PDict α :=
  entries.map fun kv => (kv.1, kv.2.fromBase (z kv.1))

/-- every site of the single/multi fitter model (name, kind): prior latents and their exposed
deterministic values, the recorded model image, the loss's nuisance and deterministic sites and
its likelihood site -/
def fitterSites (K : LossConstsQ) (entries : List (String × Dist α)) (loss : LossKind) (suffix : String) (returnModel : Bool) :
    List (String × SiteKind) :=
  priorSites entries
    ++ (if returnModel then [("model" ++ suffix, SiteKind.deterministic)] else [])
    ++ ((nuisanceSites (α := α) K loss).map fun kv => (kv.1 ++ suffix, SiteKind.latent))
    ++ ((deterministicSites loss).map fun n => (n ++ suffix, SiteKind.deterministic))
    ++ [((likelihoodSite loss).1 ++ suffix, SiteKind.observed)]

end
end Pysersic.Prob
