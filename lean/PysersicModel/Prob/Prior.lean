/-
Prior machinery of pysersic/priors.py: the three prior-setting helpers
(`set_gaussian_prior`, `set_uniform_prior`, `set_truncated_gaussian_prior`), the
guesses `SourceProperties` derives through its setters, `generate_prior` for the
seven profile types, `PySersicMultiPrior`'s per-source loop, and the numpyro
sites a reparameterised prior creates.

All numeric constants of `generate_prior` are parameters regenerated from the
source (`Gen.priorConsts`).

Import-free.
-/
import PysersicModel.Prob.Sky
import PysersicModel.Render.Renderers

namespace Pysersic.Prob
open Pysersic
open Pysersic.Render (PType)

section
variable {α : Type} [Add α] [Sub α] [Mul α] [Div α] [Neg α] [NatCast α] [Transc α]

/-! ### the helpers -/

/-- `set_gaussian_prior(name, loc, scale)` -/
def gaussianPrior (loc scale : α) : Dist α := .affine (.normal zero one) loc scale

/-- `set_uniform_prior(name, low, high)` -/
def uniformPrior (low high : α) : Dist α := .affine (.uniform zero one) low (high - low)

/-- `set_truncated_gaussian_prior(name, loc, scale, low, high)`: bounds rescaled to the unit normal -/
def truncGaussianPrior (loc scale : α) (low high : Option α) : Dist α :=
  .affine (.truncNormal zero one (low.map fun l => (l - loc) / scale) (high.map fun h => (h - loc) / scale)) loc scale

/-- the value exposed under the parameter's name for a base value `z` (TransformReparam) -/
def Dist.fromBase : Dist α → α → α
  | .affine _ loc scale, z => loc + scale * z
  | _, z => z

/-- the base distribution inference sees -/
def Dist.baseOf : Dist α → Dist α
  | .affine b _ _ => b
  | d => d

/-- membership in the support of the unit-scale base (numpyro constraints: closed interval,
strict one-sided bounds) -/
def Dist.baseInSupport [LE α] [LT α] [DecidableLE α] [DecidableLT α] : Dist α → α → Bool
  | .uniform lo hi, z => decide (lo ≤ z) && decide (z ≤ hi)
  | .truncNormal _ _ (some lo) (some hi), z => decide (lo ≤ z) && decide (z ≤ hi)
  | .truncNormal _ _ (some lo) none, z => decide (lo < z)
  | .truncNormal _ _ none (some hi), z => decide (z < hi)
  | _, _ => true

/-- membership in the support of a helper-built prior, in the parameter's own units -/
def Dist.inSupport [LE α] [LT α] [DecidableLE α] [DecidableLT α] : Dist α → α → Bool
  | .affine b loc scale, x => b.baseInSupport ((x - loc) / scale)
  | d, x => d.baseInSupport x

/-- `prior.dist_dict[name].log_prob(x)`: `none` stands for −∞.  `masked` is the structural fact
(regenerated from the source) that the helpers give the affine transform the base support as its
domain and switch argument validation on, so that numpyro masks values outside the support -/
def helperLogProb [LE α] [LT α] [DecidableLE α] [DecidableLT α] (masked : Bool) (d : Dist α) (x : α) : Option α :=
  if masked && !d.inSupport x then none else some (d.logProb x)

/-! ### guesses -/

/-- what `SourceProperties` holds after its setters ran -/
structure Guesses (α : Type) where
  flux : α
  fluxErr : α
  rEff : α
  rEffErr : α
  theta : α
  xc : α
  yc : α
  sky : α
  skyErr : α

/-- numeric constants of `generate_prior` / the setters, as exact rationals -/
structure PriorConsts where
  posSigma : Q        -- σ of the xc, yc priors
  rEffLow : Q         -- lower truncation of every r_eff prior
  ellipLow : Q
  ellipHigh : Q
  thetaLow : Q
  thetaHighPi : Q     -- upper bound of theta as a multiple of π
  nLow : Q
  nHigh : Q
  fracLow : Q
  fracHigh : Q
  splitFactor : Q     -- r_eff_1 = r/1.5, r_eff_2 = r·1.5
  n1Loc : Q           -- truncated normals of the composite indices
  n1Scale : Q
  n2Loc : Q
  n2Scale : Q
  errFactor : Q       -- flux / r_eff errors: factor · √guess
  slopeFactor : Q     -- sky slope prior width = factor · sky_guess_err
deriving Repr

variable (K : PriorConsts)

/-- `set_flux_guess(f)`, `set_r_eff_guess(r)`, `set_position_guess`, `set_theta_guess`, `set_sky_guess`
as `PySersicMultiPrior` calls them (no explicit errors) — needs a decision on the sign of the flux -/
def guessesOf (fluxPos : Bool) (flux r x y theta sky skyErr : α) : Guesses α :=
  { flux := if fluxPos then flux else zero
    fluxErr := (K.errFactor.to : α) * Transc.sqrt (if fluxPos then flux else -flux)
    rEff := r
    rEffErr := (K.errFactor.to : α) * Transc.sqrt r
    theta := theta, xc := x, yc := y, sky := sky, skyErr := skyErr }

/-- `generate_prior(profile_type)`: (parameter name, distribution), without suffix and sky -/
def generatePrior (t : PType) (g : Guesses α) : List (String × Dist α) :=
  let common : List (String × Dist α) :=
    [("flux", gaussianPrior g.flux g.fluxErr),
     ("xc", gaussianPrior g.xc (K.posSigma.to)),
     ("yc", gaussianPrior g.yc (K.posSigma.to))]
  let ell := uniformPrior (K.ellipLow.to : α) (K.ellipHigh.to)
  let th := uniformPrior (K.thetaLow.to : α) ((K.thetaHighPi.to : α) * Transc.pi)
  let single : List (String × Dist α) :=
    [("r_eff", truncGaussianPrior g.rEff g.rEffErr (some (K.rEffLow.to)) none), ("ellip", ell), ("theta", th)]
  let nU : String × Dist α := ("n", uniformPrior (K.nLow.to : α) (K.nHigh.to))
  let comp : List (String × Dist α) :=
    [("f_1", uniformPrior (K.fracLow.to : α) (K.fracHigh.to)), ("theta", th),
     ("r_eff_1", truncGaussianPrior (g.rEff / (K.splitFactor.to)) (Transc.sqrt (g.rEff / (K.splitFactor.to)))
        (some (K.rEffLow.to)) none),
     ("r_eff_2", truncGaussianPrior (g.rEff * (K.splitFactor.to)) (Transc.sqrt (g.rEff * (K.splitFactor.to)))
        (some (K.rEffLow.to)) none),
     ("ellip_1", ell), ("ellip_2", ell)]
  let nT (name : String) (loc sc : Q) : String × Dist α :=
    (name, truncGaussianPrior (loc.to : α) (sc.to) (some (K.nLow.to)) (some (K.nHigh.to)))
  match t with
  | .pointsource => common
  | .exp | .dev => common ++ single
  | .sersic => common ++ single ++ [nU]
  | .sersicPointsource => common ++ single ++ [nU, ("f_ps", uniformPrior (K.fracLow.to : α) (K.fracHigh.to))]
  | .doublesersic => common ++ comp ++ [nT "n_1" K.n1Loc K.n1Scale, nT "n_2" K.n2Loc K.n2Scale]
  | .sersicExp => common ++ comp ++ [nT "n" K.n1Loc K.n1Scale]

/-- a complete single-source prior: source parameters with the suffix, then the sky parameters with the suffix -/
def sourcePrior (t : PType) (sky : SkyType) (suffix : String) (g : Guesses α) : List (String × Dist α) :=
  ((generatePrior K t g).map fun kv => (kv.1 ++ suffix, kv.2))
    ++ ((skySites sky K.slopeFactor g.sky g.skyErr).map fun kv => (kv.1 ++ suffix, kv.2))

/-- one catalogue row -/
structure CatRow (α : Type) where
  ptype : PType
  fluxPos : Bool
  flux : α
  r : α
  x : α
  y : α
  theta : α     -- 0 when the catalogue has no theta column

/-- `PySersicMultiPrior`: source `i` gets the suffix `_i ++ suffix`; the sky prior is built by the
base class *without* the suffix -/
def multiPriorFrom (suffix : String) (sky : SkyType) (skyGuess skyErr : α) : Nat → List (CatRow α) → List (String × Dist α)
  | _, [] => (skySites sky K.slopeFactor skyGuess skyErr)
  | i, row :: rest =>
    ((generatePrior K row.ptype (guessesOf K row.fluxPos row.flux row.r row.x row.y row.theta zero zero)).map
        fun kv => (kv.1 ++ "_" ++ toString i ++ suffix, kv.2))
      ++ multiPriorFrom suffix sky skyGuess skyErr (i + 1) rest

def multiPrior (suffix : String) (sky : SkyType) (skyGuess skyErr : α) (cat : List (CatRow α)) : List (String × Dist α) :=
  multiPriorFrom K suffix sky skyGuess skyErr 0 cat

/-! ### sites -/

inductive SiteKind where
  | latent | deterministic | observed
deriving Repr, DecidableEq

/-- the sites `numpyro.handlers.reparam(TransformReparam)` makes of one prior entry: a latent
`name_base` drawn from the base distribution and a deterministic `name = loc + scale·base` -/
def priorSites (entries : List (String × Dist α)) : List (String × SiteKind) :=
  entries.flatMap fun kv => [(kv.1 ++ "_base", SiteKind.latent), (kv.1, SiteKind.deterministic)]

/-- log prior of a reparameterised prior at base values `z` (by name) -/
def logPriorBase (entries : List (String × Dist α)) (z : String → α) : α :=
  Render.sumList (entries.map fun kv => kv.2.baseOf.logProb (z kv.1))

/-- log prior of the plain (un-reparameterised) model at the user-facing values -/
def logPriorPlain (entries : List (String × Dist α)) (x : String → α) : α :=
  Render.sumList (entries.map fun kv => kv.2.logProb (x kv.1))

end
end Pysersic.Prob
