/-
Model of the ten loss functions of pysersic/loss.py.  Each contributes, for
every *unmasked* pixel, a log-density term that depends on the model value,
the datum, the rms and the loss's nuisance parameters; masked pixels contribute
nothing (`handlers.mask`).  Constants and two structural facts (the pseudo-Huber
prefactor; over which pixels `mean(rms)` runs) are parameters regenerated from
the source (`Gen.lossConsts`).

Import-free.
-/
import PysersicModel.Prob.Dist

namespace Pysersic.Prob
open Pysersic

inductive LossKind where
  | gaussian | cash | gaussianWFrac | gaussianWSys | studentT | studentTFreeSys
  | pseudoHuber | mixture | mixtureWSys | mixtureWFrac
deriving DecidableEq, Repr

def LossKind.all : List LossKind :=
  [.gaussian, .cash, .gaussianWFrac, .gaussianWSys, .studentT, .studentTFreeSys,
   .pseudoHuber, .mixture, .mixtureWSys, .mixtureWFrac]

/-- name of the Python function -/
def LossKind.pyName : LossKind → String
  | .gaussian => "gaussian_loss" | .cash => "cash_loss" | .gaussianWFrac => "gaussian_loss_w_frac"
  | .gaussianWSys => "gaussian_loss_w_sys" | .studentT => "student_t_loss"
  | .studentTFreeSys => "student_t_loss_free_sys" | .pseudoHuber => "pseudo_huber_loss"
  | .mixture => "gaussian_mixture" | .mixtureWSys => "gaussian_mixture_w_sys"
  | .mixtureWFrac => "gaussian_mixture_w_frac"

/-- constants of loss.py as exact rationals + structural facts -/
structure LossConstsQ where
  nu : Q                 -- Student-t degrees of freedom (student_t_loss)
  nuSys : Q              -- … of student_t_loss_free_sys
  delta : Q              -- pseudo-Huber δ
  huberDeltaSq : Bool    -- is the δ² prefactor present
  c : Q                  -- outlier component width factor
  fracLow : Q
  fracHigh : Q
  contamHigh : Q
  contamScale : Q        -- outlier_frac = contamScale * base
  sigFracLow : Q
  sigFracHigh : Q
  sigFracScale : Q
  sysMeanOverGood : Bool -- `mean(rms)` restricted to unmasked pixels
deriving Repr

section
variable {α : Type} [Add α] [Sub α] [Mul α] [Div α] [Neg α] [NatCast α] [Transc α]

/-- values of the nuisance latents a loss may use (unused ones are ignored) -/
structure Nuis (α : Type) where
  frac : α        -- frac_rms_increase
  sysBase : α     -- sys_rms_base
  contamBase : α  -- outlier_frac_base
  sigFrac : α     -- rms_frac

structure Pix (α : Type) where
  m : α      -- model value
  d : α      -- datum
  r : α      -- rms
  good : Bool  -- pixel is used (stored mask is True)

/-- `jnp.sqrt((nu-2.)/2.)` -/
def studentScale (nu : Q) : α := Transc.sqrt (((nu.to : α) - two) / two)

variable (K : LossConstsQ)

/-- `sys_scatter = sys_rms_base * mean(rms)` -/
def sysScatter (nu : Nuis α) (meanRms : α) : α := nu.sysBase * meanRms

/-- `outlier_frac = outlier_frac_base * 0.05` -/
def contamFrac (nu : Nuis α) : α := nu.contamBase * (K.contamScale.to : α)

/-- log-density contribution of one unmasked pixel -/
def lossPixel (k : LossKind) (nu : Nuis α) (meanRms : α) (p : Pix α) : α :=
  let sys := sysScatter nu meanRms
  let quad := Transc.sqrt (sq p.r + sq sys)
  match k with
  | .gaussian => normalLogPdf p.m p.r p.d
  | .cash => -(p.m - p.d * Transc.log p.m)
  | .gaussianWFrac => normalLogPdf p.m ((one + nu.frac) * p.r) p.d
  | .gaussianWSys => normalLogPdf p.m quad p.d
  | .studentT => studentTLogPdf (K.nu.to : α) p.m (studentScale K.nu * p.r) p.d
  | .studentTFreeSys => studentTLogPdf (K.nuSys.to : α) p.m (studentScale K.nuSys * quad) p.d
  | .pseudoHuber =>
      let res := (p.d - p.m) / p.r
      let core := Transc.sqrt (one + sq (res / (K.delta.to : α))) - one
      if K.huberDeltaSq then -(sq (K.delta.to : α) * core) else -core
  | .mixture =>
      (Dist.mix2Normal (contamFrac K nu) p.m p.r ((K.c.to : α) * p.r)).logProb p.d
  | .mixtureWSys =>
      (Dist.mix2Normal (contamFrac K nu) p.m quad ((K.c.to : α) * quad)).logProb p.d
  | .mixtureWFrac =>
      (Dist.mix2Normal (contamFrac K nu) p.m ((one + nu.sigFrac) * p.r) ((K.c.to : α) * p.r)).logProb p.d

def sumList (l : List α) : α := l.foldr (· + ·) zero

/-- `jnp.mean(rms)` (over all pixels, or over the unmasked ones, as the source says) -/
def meanRms (pixels : List (Pix α)) : α :=
  let sel := if K.sysMeanOverGood then pixels.filter (·.good) else pixels
  sumList (sel.map (·.r)) / ((sel.length : Nat) : α)

/-- per-pixel terms as numpyro's trace reports them after masking: masked pixels give 0 -/
def lossTerms (k : LossKind) (nu : Nuis α) (pixels : List (Pix α)) : List α :=
  let mr := meanRms K pixels
  pixels.map fun p => if p.good then lossPixel K k nu mr p else zero

/-- the loss's contribution to the joint log-density -/
def lossLogLik (k : LossKind) (nu : Nuis α) (pixels : List (Pix α)) : α :=
  sumList (lossTerms K k nu pixels)

/-- latent nuisance sites (name without suffix, prior) -/
def nuisanceSites (k : LossKind) : List (String × Dist α) :=
  let frac : String × Dist α :=
    ("frac_rms_increase", .truncNormal zero one (some (K.fracLow.to)) (some (K.fracHigh.to)))
  let sys : String × Dist α := ("sys_rms_base", .truncNormal zero one (some zero) none)
  let contam : String × Dist α :=
    ("outlier_frac_base", .truncNormal zero one (some zero) (some (K.contamHigh.to)))
  let sig : String × Dist α :=
    ("rms_frac", .truncNormal zero (K.sigFracScale.to) (some (K.sigFracLow.to)) (some (K.sigFracHigh.to)))
  match k with
  | .gaussian | .cash | .studentT | .pseudoHuber => []
  | .gaussianWFrac => [frac]
  | .gaussianWSys | .studentTFreeSys => [sys]
  | .mixture => [contam]
  | .mixtureWSys => [contam, sys]
  | .mixtureWFrac => [contam, sig]

/-- log prior of the nuisance latents -/
def nuisanceLogPrior (k : LossKind) (nu : Nuis α) : α :=
  let v : String → α := fun n =>
    if n == "frac_rms_increase" then nu.frac else if n == "sys_rms_base" then nu.sysBase
    else if n == "outlier_frac_base" then nu.contamBase else nu.sigFrac
  sumList ((nuisanceSites K k).map fun (n, d) => d.logProb (v n))

end

/-- deterministic sites a loss records (name without suffix) -/
def deterministicSites : LossKind → List String
  | .gaussianWSys | .studentTFreeSys => ["sys_rms"]
  | .mixture | .mixtureWFrac => ["outlier_frac"]
  | .mixtureWSys => ["outlier_frac", "sys_rms"]
  | _ => []

/-- name (without suffix) and kind of the likelihood site -/
def likelihoodSite : LossKind → String × Bool   -- (name, isFactor)
  | .cash => ("cash_loss", true)
  | .pseudoHuber => ("pseudo_huber_loss", true)
  | _ => ("Loss", false)

end Pysersic.Prob
