/-
Multi-band machinery of pysersic/multiband.py and `update_prior_suffix`
(priors.py): relabelling of prior keys with the band name, the default physical
ranges chosen by substring rules, the polynomial and B-spline link functions with
the logistic range restriction, and the sites of the joint model.

Import-free.
-/
import PysersicModel.Prob.Fitter

namespace Pysersic.MultiBand
open Pysersic Pysersic.Names Pysersic.Prob

/-- `name_change` of `update_prior_suffix`: append when the old suffix is empty, else `str.replace` -/
def nameChange (old new s : String) : String :=
  if old.isEmpty then s ++ new else Names.toString (pyReplace s.toList old.toList new.toList)

/-- one `if '<key>' in param: range = [lo, hi]` rule; `hiPi` marks an upper bound given as a multiple of π -/
structure RangeRule where
  key : String
  lo : Q
  hi : Q
  hiPi : Bool
deriving Repr, DecidableEq

/-- the rules are applied in source order, each overwriting the previous match -/
def defaultRule (rules : List RangeRule) (name : String) : Option RangeRule :=
  (rules.filter fun r => hasSub r.key.toList name.toList).getLast?

section
variable {α : Type} [Add α] [Sub α] [Mul α] [Div α] [Neg α] [NatCast α] [Transc α]

def RangeRule.bounds (r : RangeRule) : α × α :=
  ((r.lo.to : α), if r.hiPi then (r.hi.to : α) * Transc.pi else (r.hi.to : α))

/-- `jax.lax.logistic` -/
def logistic (x : α) : α := one / (one + Transc.exp (-x))

/-- `restrict_func(x, hi, low)` -/
def restrict (x hi low : α) : α := logistic x * (hi - low) + low

/-- `jnp.polyval(coeffs, x)` (highest power first, Horner) -/
def polyval (coeffs : List α) (x : α) : α := coeffs.foldl (fun acc c => acc * x + c) zero

/-- value of a polynomially linked parameter at normalised wavelength `w` -/
def polyLink (coeffs : List α) (w : α) (range : Option (α × α)) (mean scale : α) : α :=
  match range with
  | some (lo, hi) => restrict (polyval coeffs w) hi lo
  | none => polyval coeffs w * scale + mean

/-- one row of the spline design matrix applied to the weights -/
def dot : List α → List α → α
  | a :: as, b :: bs => a * b + dot as bs
  | _, _ => zero

/-- `(wv − mean(wavelengths)) / (max − min)` -/
def normWv (av range wv : α) : α := (wv - av) / range

end

/-! ### sites of the joint model -/

inductive LinkKind where
  | poly | bspline
deriving Repr, DecidableEq

/-- configuration of a multi-band fit, names only -/
structure Cfg where
  link : LinkKind
  bands : List String
  linked : List String
  const : List String
  unlinked : List String
  skyParams : List String          -- sky parameter names of the per-band priors (without band)
  loss : Prob.LossKind
  returnModel : Bool


/-- every site of `BaseMultiBandFitter.build_model` (name, kind), in trace order -/
def sites (K : Prob.LossConstsQ) (c : Cfg) : List (String × SiteKind) :=
  (c.linked.flatMap fun p =>
      (match c.link with
        | .poly => [(p ++ "_poly_coeff", SiteKind.latent), (p ++ "_at_wv", SiteKind.deterministic)]
        | .bspline => [("bspl_w_" ++ p ++ "_base", SiteKind.latent), ("bspl_w_" ++ p, SiteKind.deterministic),
                       (p ++ "_at_wv", SiteKind.deterministic)])
        ++ c.bands.map fun b => (p ++ "_" ++ b, SiteKind.deterministic))
  ++ (c.const.flatMap fun p => [(p ++ "_base", SiteKind.latent), (p, SiteKind.deterministic)])
  ++ (c.bands.flatMap fun b =>
      (c.unlinked.flatMap fun p => [(p ++ "_" ++ b ++ "_base", SiteKind.latent), (p ++ "_" ++ b, SiteKind.deterministic)])
        ++ (c.skyParams.map fun s => (s ++ "_" ++ b, SiteKind.latent))
        ++ ((Prob.nuisanceSites (α := Float) K c.loss).map fun kv => (kv.1 ++ "_" ++ b, SiteKind.latent))
        ++ ((Prob.deterministicSites c.loss).map fun n => (n ++ "_" ++ b, SiteKind.deterministic))
        ++ [((Prob.likelihoodSite c.loss).1 ++ "_" ++ b, SiteKind.observed)])
  ++ (if c.returnModel then [("model", SiteKind.deterministic)] else [])

end Pysersic.MultiBand
