-- Root of the executable model library. Nothing here may import Mathlib:
-- the compiled driver (Main.lean) links against these modules.
import PysersicModel.Scalar
import PysersicModel.Gen.Consts
import PysersicModel.Opt.EarlyStop
import PysersicModel.Imp
import PysersicModel.Gen.EarlyStopProg
import PysersicModel.IO.SkyEstimate
import PysersicModel.IO.Validate
import PysersicModel.IO.Names
import PysersicModel.IO.Results
import PysersicModel.Prob.Dist
import PysersicModel.Prob.Loss
import PysersicModel.Render.Kernels
import PysersicModel.Render.Fourier
import PysersicModel.Render.Decomp
import PysersicModel.Render.Renderers
import PysersicModel.Render.Tab
import PysersicModel.Prob.Sky
import PysersicModel.Prob.Prior
import PysersicModel.Prob.Fitter
import PysersicModel.Opt.MapDict
import PysersicModel.Prob.MultiBand
import PysersicModel.Render.CxOps
import PysersicModel.Gen.Kernels
import PysersicModel.Gen.Scene
