-- Property theorems, one module per property id.
import Props.C14
import Props.C17
import Props.C18
import Props.C19
import Props.C07
import Props.C06
import Props.C08
import Props.C09
import Props.C03
import Props.C01
import Props.C20
import Props.C16
import Props.C11
import Props.C12
import Props.C05
import Props.C13
import Props.C15
