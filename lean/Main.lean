/-
Line-protocol driver: one request per input line, one reply per output line.
The harness (Python, calling the real pysersic in-process) sends the same
inputs to this program and to the implementation and compares the replies.
-/
import PysersicModel
import PysersicModel.Driver.EarlyStop
import PysersicModel.Driver.SkyEstimate
import PysersicModel.Driver.Validate
import PysersicModel.Driver.Results
import PysersicModel.Driver.Loss
import PysersicModel.Driver.Render
import PysersicModel.Driver.Prob
import PysersicModel.Driver.MapDict
import PysersicModel.Driver.MultiBand
import PysersicModel.Driver.GenK

open Pysersic

def dispatch (line : String) : String :=
  let toks := (line.trimAscii.toString.splitOn " ").filter (· ≠ "")
  match toks with
  | [] => "bad-op empty"
  | cmd :: args =>
    match cmd with
    | "ping" => "pong"
    | "es" => Driver.earlyStop args
    | "esgen" => Driver.earlyStopGen args
    | "sky" => Driver.skyEstimate args
    | "sky2" => Driver.skyEstimate2 args
    | "ci" => Driver.checkInput args
    | "ri" => Driver.rendererInitCmd args
    | "pm" => Driver.parseMaskCmd args
    | "pt" => Driver.priorTypeCmd args
    | "rs" => Driver.resultsFate args
    | "wrap" => Driver.wrapCmd args
    | "loss" => Driver.lossCmd args
    | "lossopt" => Driver.lossOptCmd args
    | "render" => Driver.renderCmd args
    | "triple" => Driver.tripleCmd args
    | "psffft" => Driver.psfFftCmd args
    | "conv" => Driver.convCmd args
    | "decomp" => Driver.decompCmd false args
    | "decompd" => Driver.decompCmd true args
    | "sigpsf" => Driver.sigPsfCmd args
    | "skyimg" => Driver.skyImgCmd args
    | "skysites" => Driver.skySitesCmd args
    | "helper" => Driver.helperCmd args
    | "genprior" => Driver.genPriorCmd args
    | "multiprior" => Driver.multiPriorCmd args
    | "sites" => Driver.sitesCmd args
    | "baselp" => Driver.baseLpCmd args
    | "mapkeys" => Driver.mapKeysCmd args
    | "regroup" => Driver.regroupCmd args
    | "mbsites" => Driver.mbSitesCmd args
    | "polylink" => Driver.polyLinkCmd args
    | "mbrange" => Driver.mbRangeCmd args
    | "relabel" => Driver.relabelCmd args
    | "dot" => Driver.dotCmd args
    | "genk" => Driver.genkCmd args
    | "genprog" => Driver.genprogCmd args
    | _ => "bad-op " ++ cmd

partial def loop (h : IO.FS.Stream) (out : IO.FS.Stream) : IO Unit := do
  let line ← h.getLine
  if line.isEmpty then
    out.flush
    return ()
  out.putStrLn (dispatch line)
  loop h out

def main : IO Unit := do
  let stdin ← IO.getStdin
  let stdout ← IO.getStdout
  loop stdin stdout
