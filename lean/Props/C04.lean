/-
C04 — The pixel, Fourier and hybrid renderers agree with each other and with the truth.

Proved (ℝ), reducing the seven-parameter agreement claim:
* the analytic profile factorises as flux/(r_eff²·(1−ellip)) · S_n(z) and the Gaussian
  mixture (amps = flux·A_k(n), σ_k = r_eff·s_k, q = 1−ellip) as
  flux/(r_eff²·(1−ellip)) · M_n(z) with the *same* elliptical radius z — so the relative
  error of the decomposition is a function of (n, z) only, for every centre, angle,
  ellipticity, flux and radius;
* each real-space component of the hybrid renderer is the intrinsic elliptical Gaussian
  broadened to covariance R·diag(σ²+σ_p², q²σ²+σ_p²)·Rᵀ (C02.hybrid_broadening): hybrid
  and Fourier differ only by PSF non-Gaussianity, aliasing and truncation of those
  components; with num_pixel_render = 0 they are identical (C20);
* the flux scales of the two paths: total of the mixture = flux·ΣA_k (C01).

Not proved: every quantitative bound (12 % / 10 %, 18 % / 15 %, 2 % / 2 %, 6e-3, 1e-3) —
observed against an independent float64 reference (exact b_n, sub-pixel integration,
spatial convolution) with the property's tolerances.
-/
import Props.C02
import Props.C20

namespace Pysersic.Props.C04
open Pysersic Pysersic.Prob Pysersic.Render Real

/-- shape function of the analytic profile: depends on (n, z) only -/
noncomputable def sersicShape (c : BnC) (n z : ℝ) : ℝ :=
  bnOf c n ^ (2 * n) / (Real.exp (bnOf c n + Real.log (Real.Gamma (2 * n))) * π * 2 * n) * Real.exp (-(bnOf c n) * (z ^ (1 / n) - 1))

/-- **the analytic profile = flux/(r_eff²(1−ellip)) × a function of (n, z)** -/
theorem sersic_factor (c : BnC) (X Y : ℝ) (p : SersicP ℝ) (hr : p.rEff ≠ 0) (he : 1 - p.ellip ≠ 0) :
    sersic2d c X Y p = p.flux / (p.rEff ^ 2 * (1 - p.ellip)) * sersicShape c p.n (C02.zOf X Y p) := by
  rw [C02.sersic2d_of_z]
  simp only [C01.sersicOfZ, sersicShape]
  field_simp

/-- shape function of the Gaussian mixture with normalised amplitudes A_k and relative widths s_k -/
noncomputable def mixtureShape (As ss : List ℝ) (z : ℝ) : ℝ :=
  ((As.zip ss).map fun (As : ℝ × ℝ) => As.1 / (2 * π * As.2 ^ 2) * Real.exp (-z ^ 2 / (2 * As.2 ^ 2))).sum

/-- the mixture's components for parameters p: amp_k = A_k·flux, σ_k = r_eff·s_k, q = 1 − ellip -/
def mixtureComps (As ss : List ℝ) (p : SersicP ℝ) : List (GComp ℝ) :=
  (As.zip ss).map fun (As : ℝ × ℝ) => ⟨As.1 * p.flux, p.rEff * As.2, 1 - p.ellip⟩

/-- **the Gaussian mixture = flux/(r_eff²(1−ellip)) × a function of (n, z) with the same z** -/
theorem mixture_factor (X Y : ℝ) (As ss : List ℝ) (p : SersicP ℝ) (hr : p.rEff ≠ 0) (he : 1 - p.ellip ≠ 0)
    (hs : ∀ s ∈ ss, s ≠ 0) :
    gaussPixel X Y p.xc p.yc p.theta (mixtureComps As ss p)
      = p.flux / (p.rEff ^ 2 * (1 - p.ellip)) * mixtureShape As ss (C02.zOf X Y p) := by
  simp only [gaussPixel, mixtureComps, mixtureShape, List.map_map, Render.sumList_real]
  rw [← List.sum_map_mul_left]
  congr 1
  apply List.map_congr_left
  intro As hAs
  have hs' : As.2 ≠ 0 := hs As.2 (List.of_mem_zip hAs).2
  simp only [Function.comp]
  rw [C02.gaussPixelTerm_of_z X Y As.2 (As.1 * p.flux) p hr hs' he]
  field_simp

/-- **hence the ratio mixture / analytic profile depends on (n, z) only** (wherever the profile is non-zero) -/
theorem ratio_depends_on_n_z (c : BnC) (X Y : ℝ) (As ss : List ℝ) (p : SersicP ℝ) (hr : p.rEff ≠ 0) (he : 1 - p.ellip ≠ 0)
    (hs : ∀ s ∈ ss, s ≠ 0) (hf : p.flux ≠ 0) (hS : sersicShape c p.n (C02.zOf X Y p) ≠ 0) :
    gaussPixel X Y p.xc p.yc p.theta (mixtureComps As ss p) / sersic2d c X Y p
      = mixtureShape As ss (C02.zOf X Y p) / sersicShape c p.n (C02.zOf X Y p) := by
  rw [mixture_factor X Y As ss p hr he hs, sersic_factor c X Y p hr he]
  have h1 : p.flux / (p.rEff ^ 2 * (1 - p.ellip)) ≠ 0 := by positivity
  rw [mul_div_mul_left _ _ h1]

/-- the model's component list is of that form: amplitudes A_k·flux on the grid σ_k = r_eff·s_k -/
theorem mogComps_form (cfg : MogCfg ℝ) (A : List ℝ) (p : SersicP ℝ) (k : ℕ) (hk : k < cfg.nSigma) :
    (mogComps cfg (A.map (· * p.flux)) p)[k]? =
      some ⟨(A.map (· * p.flux)).getD k 0, sigmaAt cfg p.rEff k, 1 - p.ellip⟩ := by
  simp [mogComps, hk, zero_real, one_real]

/-- with no real-space components the hybrid and Fourier renderers are identical (from C20) -/
theorem hybrid_zero_eq_fourier (R : Renderer ℝ) (p : SersicP ℝ) (hk : R.kind = .hybrid) (h0 : R.npr = 0) :
    R.sersic p = ({ R with kind := .fourier } : Renderer ℝ).sersic p :=
  C20.hybrid_zero_eq_fourier R p hk h0

end Pysersic.Props.C04
