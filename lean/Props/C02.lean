/-
C02 — Profile parameters mean what the API says (centre, r_eff, ellip, theta).

Proved (ℝ) about the three evaluation paths of the code-level model:
* the analytic profile is a function of the elliptical radius z alone,
  I = sersicOfZ(z) (C01), strictly decreasing in z; z = 0 exactly at
  (X, Y) = (xc, yc) with X the column and Y the row: the isophotes are nested
  ellipses centred on (xc, yc);
* walking t·r_eff from the centre along u(θ) = (−sin θ, cos θ) — the +y image axis
  rotated towards −x by θ — reaches z = |t|, walking t·(1−ellip)·r_eff along the
  perpendicular reaches z = |t|: r_eff is the semi-major axis of the z = 1 isophote,
  1 − ellip the axis ratio, θ the position angle of the major axis measured from +y
  towards −x; u(θ + π) = −u(θ): the angle is defined modulo π;
* the real-space Gaussian components use the same centre, rotation and axis ratio:
  each is a function of the same z (with σ = r_eff·s), so the pixel path and the
  Gaussian-mixture path share one convention; the Fourier-space components use the
  same rotation of the frequency vector and the phase −2π(fx·xc + fy·yc);
* PSF broadening of the hybrid renderer: σ_obs² = σ² + σ_p², (q_obs·σ_obs)² = q²σ² + σ_p².

Not proved: that z = 1 encloses half of the light (b_n is an approximation;
regularised incomplete gamma P(2n, b_n) = 0.494…0.500), and all moment-based
measurements on discretised, PSF-convolved images: observed by the oracle against an
independent float64 reference renderer with the property's tolerances.
-/
import Props.C01

namespace Pysersic.Props.C02
open Pysersic Pysersic.Prob Pysersic.Render Real

/-- elliptical radius of the pixel-path profile -/
noncomputable def zOf (X Y : ℝ) (p : SersicP ℝ) : ℝ :=
  Real.sqrt (Prob.sq (((X - p.xc) * Real.cos (rotAngle p.theta) + (Y - p.yc) * Real.sin (rotAngle p.theta)) / p.rEff)
    + Prob.sq ((-(X - p.xc) * Real.sin (rotAngle p.theta) + (Y - p.yc) * Real.cos (rotAngle p.theta)) / ((1 - p.ellip) * p.rEff)))

/-- the profile depends on position only through z -/
theorem sersic2d_of_z (c : BnC) (X Y : ℝ) (p : SersicP ℝ) : sersic2d c X Y p = C01.sersicOfZ c p (zOf X Y p) :=
  C01.sersic2d_eq_sersicOfZ c X Y p

/-- the surface brightness decreases strictly with z (positive flux, b_n > 0, n > 0, ellip < 1) -/
theorem sersicOfZ_strictAnti (c : BnC) (p : SersicP ℝ) (hf : 0 < p.flux) (hn : 0 < p.n) (hb : 0 < bnOf c p.n) (hr : 0 < p.rEff)
    (he : p.ellip < 1) {z1 z2 : ℝ} (h1 : 0 ≤ z1) (h12 : z1 < z2) :
    C01.sersicOfZ c p z2 < C01.sersicOfZ c p z1 := by
  simp only [C01.sersicOfZ]
  have hpow : z1 ^ (1 / p.n) < z2 ^ (1 / p.n) := Real.rpow_lt_rpow h1 h12 (by positivity)
  have hexp : Real.exp (-bnOf c p.n * (z2 ^ (1 / p.n) - 1)) < Real.exp (-bnOf c p.n * (z1 ^ (1 / p.n) - 1)) := by
    apply Real.exp_lt_exp.mpr
    nlinarith
  have hA : 0 < p.flux * bnOf c p.n ^ (2 * p.n)
      / (Real.exp (bnOf c p.n + Real.log (Real.Gamma (2 * p.n))) * (p.rEff * p.rEff) * π * 2 * p.n) := by
    have := Real.rpow_pos_of_pos hb (2 * p.n)
    positivity
  have hq : 0 < 1 - p.ellip := by linarith
  apply div_lt_div_of_pos_right _ hq
  exact mul_lt_mul_of_pos_left hexp hA

theorem rot_cos (θ : ℝ) : Real.cos (rotAngle θ) = -Real.sin θ := by simp [cos_rot]
theorem rot_sin (θ : ℝ) : Real.sin (rotAngle θ) = Real.cos θ := by simp [sin_rot]

/-- **major axis**: t·r_eff along u(θ) = (−sin θ, cos θ) from the centre reaches z = |t| -/
theorem z_on_major_axis (p : SersicP ℝ) (t : ℝ) (hr : p.rEff ≠ 0) :
    zOf (p.xc - t * p.rEff * Real.sin p.theta) (p.yc + t * p.rEff * Real.cos p.theta) p = |t| := by
  simp only [zOf, rot_cos, rot_sin, Prob.sq]
  have h1 : ((p.xc - t * p.rEff * Real.sin p.theta - p.xc) * -Real.sin p.theta
      + (p.yc + t * p.rEff * Real.cos p.theta - p.yc) * Real.cos p.theta) / p.rEff = t := by
    have := Real.sin_sq_add_cos_sq p.theta
    have hnum : (p.xc - t * p.rEff * Real.sin p.theta - p.xc) * -Real.sin p.theta
        + (p.yc + t * p.rEff * Real.cos p.theta - p.yc) * Real.cos p.theta = t * p.rEff := by
      linear_combination (t * p.rEff) * this
    rw [hnum, mul_div_assoc, div_self hr, mul_one]
  have h2 : (-(p.xc - t * p.rEff * Real.sin p.theta - p.xc) * Real.cos p.theta
      + (p.yc + t * p.rEff * Real.cos p.theta - p.yc) * -Real.sin p.theta) = 0 := by ring
  rw [h1, h2, zero_div, mul_zero, add_zero, Real.sqrt_mul_self_eq_abs]

/-- **minor axis**: t·(1 − ellip)·r_eff along the perpendicular (cos θ, sin θ) reaches z = |t| -/
theorem z_on_minor_axis (p : SersicP ℝ) (t : ℝ) (hr : p.rEff ≠ 0) (he : 1 - p.ellip ≠ 0) :
    zOf (p.xc + t * ((1 - p.ellip) * p.rEff) * Real.cos p.theta) (p.yc + t * ((1 - p.ellip) * p.rEff) * Real.sin p.theta) p = |t| := by
  simp only [zOf, rot_cos, rot_sin, Prob.sq]
  have h1 : ((p.xc + t * ((1 - p.ellip) * p.rEff) * Real.cos p.theta - p.xc) * -Real.sin p.theta
      + (p.yc + t * ((1 - p.ellip) * p.rEff) * Real.sin p.theta - p.yc) * Real.cos p.theta) = 0 := by ring
  have h2 : (-(p.xc + t * ((1 - p.ellip) * p.rEff) * Real.cos p.theta - p.xc) * Real.cos p.theta
      + (p.yc + t * ((1 - p.ellip) * p.rEff) * Real.sin p.theta - p.yc) * -Real.sin p.theta) / ((1 - p.ellip) * p.rEff) = -t := by
    have := Real.sin_sq_add_cos_sq p.theta
    have hb : (1 - p.ellip) * p.rEff ≠ 0 := mul_ne_zero he hr
    have hnum : -(p.xc + t * ((1 - p.ellip) * p.rEff) * Real.cos p.theta - p.xc) * Real.cos p.theta
        + (p.yc + t * ((1 - p.ellip) * p.rEff) * Real.sin p.theta - p.yc) * -Real.sin p.theta = -t * ((1 - p.ellip) * p.rEff) := by
      linear_combination (-(t * ((1 - p.ellip) * p.rEff))) * this
    rw [hnum, mul_div_assoc, div_self hb, mul_one]
  rw [h1, h2, zero_div, mul_zero, zero_add, Real.sqrt_mul_self_eq_abs, abs_neg]

/-- the centre: z vanishes exactly at (X, Y) = (xc, yc) — X the column, Y the row -/
theorem z_zero_iff (X Y : ℝ) (p : SersicP ℝ) (hr : p.rEff ≠ 0) (he : 1 - p.ellip ≠ 0) :
    zOf X Y p = 0 ↔ X = p.xc ∧ Y = p.yc := by
  have hb : (1 - p.ellip) * p.rEff ≠ 0 := mul_ne_zero he hr
  simp only [zOf, Prob.sq]
  rw [Real.sqrt_eq_zero (add_nonneg (mul_self_nonneg _) (mul_self_nonneg _))]
  constructor
  · intro h
    have h1 : ((X - p.xc) * Real.cos (rotAngle p.theta) + (Y - p.yc) * Real.sin (rotAngle p.theta)) / p.rEff = 0 := by
      nlinarith [mul_self_nonneg (((X - p.xc) * Real.cos (rotAngle p.theta) + (Y - p.yc) * Real.sin (rotAngle p.theta)) / p.rEff),
        mul_self_nonneg ((-(X - p.xc) * Real.sin (rotAngle p.theta) + (Y - p.yc) * Real.cos (rotAngle p.theta)) / ((1 - p.ellip) * p.rEff))]
    have h2 : (-(X - p.xc) * Real.sin (rotAngle p.theta) + (Y - p.yc) * Real.cos (rotAngle p.theta)) / ((1 - p.ellip) * p.rEff) = 0 := by
      nlinarith [mul_self_nonneg (((X - p.xc) * Real.cos (rotAngle p.theta) + (Y - p.yc) * Real.sin (rotAngle p.theta)) / p.rEff),
        mul_self_nonneg ((-(X - p.xc) * Real.sin (rotAngle p.theta) + (Y - p.yc) * Real.cos (rotAngle p.theta)) / ((1 - p.ellip) * p.rEff))]
    rw [div_eq_zero_iff] at h1 h2
    have e1 := h1.resolve_right hr
    have e2 := h2.resolve_right hb
    have hcs := Real.cos_sq_add_sin_sq (rotAngle p.theta)
    constructor
    · have : X - p.xc = 0 := by
        linear_combination (Real.cos (rotAngle p.theta)) * e1 - (Real.sin (rotAngle p.theta)) * e2 - (X - p.xc) * hcs
      linarith
    · have : Y - p.yc = 0 := by
        linear_combination (Real.sin (rotAngle p.theta)) * e1 + (Real.cos (rotAngle p.theta)) * e2 - (Y - p.yc) * hcs
      linarith
  · rintro ⟨rfl, rfl⟩
    simp

/-- point symmetry about the centre -/
theorem z_point_symm (dx dy : ℝ) (p : SersicP ℝ) : zOf (p.xc + dx) (p.yc + dy) p = zOf (p.xc - dx) (p.yc - dy) p := by
  simp only [zOf, Prob.sq]
  congr 1
  ring

/-- the major-axis direction flips sign under θ → θ + π: the angle is defined modulo π -/
theorem axis_mod_pi (θ : ℝ) : (-Real.sin (θ + π), Real.cos (θ + π)) = (-(-Real.sin θ), -Real.cos θ) := by
  simp [Real.sin_add_pi, Real.cos_add_pi]

/-- θ = 0 points along +y (rows), θ = π/2 along −x (columns): north through east -/
example : (-Real.sin 0, Real.cos 0) = ((0 : ℝ), (1 : ℝ)) := by simp
example : (-Real.sin (π / 2), Real.cos (π / 2)) = ((-1 : ℝ), (0 : ℝ)) := by simp

/-! ### the Gaussian-mixture paths use the same convention -/

/-- a real-space Gaussian component of width σ = r_eff·s and axis ratio 1 − ellip is a function of
the same elliptical radius z: amp/(2πσ²q)·exp(−z²/(2s²)) -/
theorem gaussPixelTerm_of_z (X Y s amp : ℝ) (p : SersicP ℝ) (hr : p.rEff ≠ 0) (hs : s ≠ 0) (he : 1 - p.ellip ≠ 0) :
    gaussPixelTerm X Y p.xc p.yc p.theta ⟨amp, p.rEff * s, 1 - p.ellip⟩
      = amp / (2 * π * (p.rEff * s) * (p.rEff * s) * (1 - p.ellip)) * Real.exp (-(zOf X Y p) ^ 2 / (2 * s ^ 2)) := by
  simp only [gaussPixelTerm, zOf, Prob.sq, two_real, Transc.pi_real, Transc.exp_real, Transc.cos_real, Transc.sin_real]
  rw [Real.sq_sqrt (add_nonneg (mul_self_nonneg _) (mul_self_nonneg _))]
  congr 2
  field_simp

/-- the Fourier-space component applies the same rotation to the frequency vector and carries the
phase −2π(fx·xc + fy·yc): centre, angle and axis ratio enter exactly as in real space -/
theorem gaussFourierTerm_form (FX FY xc yc θ : ℝ) (g : GComp ℝ) :
    gaussFourierTerm FX FY xc yc θ g =
      Cx.smul g.amp (Cx.expc
        (-((FX * Real.cos (rotAngle θ) + FY * Real.sin (rotAngle θ)) ^ 2
            + (-(FX * Real.sin (rotAngle θ)) + FY * Real.cos (rotAngle θ)) ^ 2 * g.q ^ 2) * (2 * π ^ 2 * g.sigma ^ 2))
        (-(2 * π * (FX * xc + FY * yc)))) := by
  simp only [gaussFourierTerm, two_real, Transc.pi_real, Transc.cos_real, Transc.sin_real]
  congr 2 <;> ring

/-- hybrid renderer: the broadened component has σ_obs² = σ² + σ_p² and (q_obs σ_obs)² = q²σ² + σ_p²,
i.e. it is the exact convolution of the elliptical Gaussian with a round Gaussian of width σ_p -/
theorem hybrid_broadening (sp : ℝ) (g : GComp ℝ) (hpos : 0 < g.sigma * g.sigma + sp * sp) :
    (broaden sp g).sigma ^ 2 = g.sigma ^ 2 + sp ^ 2
      ∧ ((broaden sp g).q * (broaden sp g).sigma) ^ 2 = g.q ^ 2 * g.sigma ^ 2 + sp ^ 2 := by
  simp only [broaden, Transc.sqrt_real]
  have h1 : Real.sqrt (g.sigma * g.sigma + sp * sp) ^ 2 = g.sigma * g.sigma + sp * sp := Real.sq_sqrt hpos.le
  constructor
  · rw [h1]; ring
  · have hnn : 0 ≤ (g.q * g.q * (g.sigma * g.sigma) + sp * sp) / (g.sigma * g.sigma + sp * sp) :=
      div_nonneg (add_nonneg (mul_nonneg (mul_self_nonneg _) (mul_self_nonneg _)) (mul_self_nonneg _)) hpos.le
    rw [mul_pow, h1, Real.mul_self_sqrt hpos.le, Real.sq_sqrt hnn]
    have hne : g.sigma * g.sigma + sp * sp ≠ 0 := hpos.ne'
    rw [div_mul_cancel₀ _ hne]
    ring

end Pysersic.Props.C02
