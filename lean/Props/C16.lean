/-
C16 — The sky background model is the stated constant or plane, added unconvolved.

Fully proved (ℝ, all image sizes, all sky values): 'none' adds nothing; 'flat' adds the
constant to every pixel; 'tilted-plane' adds back + (x − N/2)·x_sl + (y − N/2)·y_sl with
x the column and y the row; the plane with zero slopes is the flat sky; the stand-alone
function is the same plane; in the fitter's model image the sky is added to the
PSF-convolved scene (outside the convolution: for a flat sky the image total grows by
exactly N²·back whatever ΣPSF is) and does not depend on the source parameters; the
priors installed for (guess, err) are Normal(guess, err) for the level and
Normal(0, slopeFactor·err) for the two slopes, the factor being regenerated from the
source (0.1).
-/
import Proofs.RenderDC
import PysersicModel.Prob.Fitter
import PysersicModel.Gen.Consts

namespace Pysersic.Props.C16
open Pysersic Pysersic.Prob Pysersic.Render Real

variable (rows : ℕ) (X Y : ℝ) (v : SkyVals ℝ)

theorem sky_none : skyAt .none rows X Y v = 0 := by simp [skyAt]

theorem sky_flat : skyAt .flat rows X Y v = v.back := by simp [skyAt]

theorem sky_plane :
    skyAt .tilted rows X Y v = v.back + (X - (rows : ℝ) / 2) * v.xsl + (Y - (rows : ℝ) / 2) * v.ysl := by
  simp [skyAt, tiltedPlane]

/-- the plane with both slopes zero is the flat sky -/
theorem plane_zero_slopes (hx : v.xsl = 0) (hy : v.ysl = 0) : skyAt .tilted rows X Y v = skyAt .flat rows X Y v := by
  simp [skyAt, tiltedPlane, hx, hy]

/-- the stand-alone `render_tilted_plane_sky` is the plane the prior class adds -/
theorem standalone_eq_class : tiltedPlane rows X Y v = skyAt .tilted rows X Y v := rfl

/-- x is the column: the plane is constant along a column when x_sl … i.e. it varies with the
first coordinate only through x_sl and with the second only through y_sl -/
theorem plane_dx (h : ℝ) : skyAt .tilted rows (X + h) Y v - skyAt .tilted rows X Y v = h * v.xsl := by
  simp only [sky_plane]; ring

theorem plane_dy (h : ℝ) : skyAt .tilted rows X (Y + h) v - skyAt .tilted rows X Y v = h * v.ysl := by
  simp only [sky_plane]; ring

/-- in the sky image the first index is the row (y), the second the column (x) -/
theorem skyImg_index (t : SkyType) (N r c : ℕ) : skyImg t N v r c = skyAt t N (c : ℝ) (r : ℝ) v := rfl

/-! ### the sky is added after the convolution and is independent of the source -/

variable (R : Renderer ℝ) (ptype suffix : String) (sky : SkyType) (d : PDict ℝ)

/-- the model image minus the rendered (PSF-convolved) scene is the sky, pixel by pixel -/
theorem sky_outside_conv (r c : ℕ) :
    singleModelImage R ptype suffix sky d r c - R.renderSource d ptype suffix r c
      = skyAt sky R.N (c : ℝ) (r : ℝ) (skyValsOf d suffix) := by
  simp [singleModelImage, iadd, skyImg]

theorem sky_outside_conv_multi (paramsOf : String → List String) (types : List String) (r c : ℕ) :
    multiModelImage R paramsOf types suffix sky d r c - R.renderForModel paramsOf d types suffix r c
      = skyAt sky R.N (c : ℝ) (r : ℝ) (skyValsOf d "") := by
  simp [multiModelImage, iadd, skyImg]

/-- with sky type 'none' the model image is the rendered scene -/
theorem none_adds_nothing : singleModelImage R ptype suffix .none d = R.renderSource d ptype suffix := by
  funext r c; simp [singleModelImage, iadd, skyImg, skyAt]

/-- **unconvolved**: a flat sky raises the image total by exactly N²·back, whatever the PSF
(a convolved constant would contribute N²·back·ΣPSF) -/
theorem flat_total :
    imgSum R.N (singleModelImage R ptype suffix .flat d)
      = imgSum R.N (R.renderSource d ptype suffix) + (R.N : ℝ) * R.N * (skyValsOf d suffix).back := by
  simp only [singleModelImage, imgSum_iadd]
  congr 1
  simp [imgSum, skyImg, skyAt]
  ring

/-- two parameter sets with the same sky values get the same sky, whatever the source parameters -/
theorem sky_free_of_source (d' : PDict ℝ) (h : skyValsOf d suffix = skyValsOf d' suffix) (r c : ℕ) :
    singleModelImage R ptype suffix sky d r c - R.renderSource d ptype suffix r c
      = singleModelImage R ptype suffix sky d' r c - R.renderSource d' ptype suffix r c := by
  rw [sky_outside_conv, sky_outside_conv, h]

/-! ### priors -/

/-- flat: one parameter, Normal(guess, err) -/
theorem flat_sites (k : Q) (g e : ℝ) : skySites .flat k g e = [("sky_back", .affine (.normal 0 1) g e)] := by
  simp [skySites, skyPriorOf]

/-- tilted plane: level Normal(guess, err), slopes Normal(0, k·err) -/
theorem tilted_sites (k : Q) (g e : ℝ) :
    skySites .tilted k g e =
      [("sky_back", .affine (.normal 0 1) g e), ("sky_x_sl", .affine (.normal 0 1) 0 ((k.to : ℝ) * e)),
       ("sky_y_sl", .affine (.normal 0 1) 0 ((k.to : ℝ) * e))] := by
  simp [skySites, skyPriorOf]

theorem none_sites (k : Q) (g e : ℝ) : skySites .none k g e = [] := rfl

/-- **tie 1**: the slope-width factor of the current source is 0.1 -/
theorem repo_slope_factor : (Gen.priorConsts.slopeFactor.to : ℝ) = 1 / 10 := by
  rw [Q.to_real]; simp [Gen.priorConsts]

/-- **tie 1**: names and parameter lists of the three sky types agree with the regenerated table -/
theorem repo_sky_table : SkyType.all.map (fun t => (t.pyName, t.params)) = Gen.skyParams := by decide

/-- the parameters a sky prior defines are exactly those of its type -/
theorem sites_names (t : SkyType) (k : Q) (g e : ℝ) : (skySites t k g e).map Prod.fst = t.params := by
  cases t <;> rfl

end Pysersic.Props.C16
