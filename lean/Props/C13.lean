/-
C13 — find_MAP returns the best state it visited, consistently and repeatably.

Proved (on the purge chain *translated from the source*, the regenerated parameter
tables and the fitter site model):
* for every profile type × sky type × loss (7 × 3 × 10, un-suffixed priors) the
  dictionary returned by `find_MAP(purge_extra=True)` contains exactly the user-facing
  parameters, the sky parameters, the loss's exposed nuisance parameters and — if
  requested — `model`; every internal site (`*_base`, the likelihood site) is removed;
* `model` is stored raw, every other kept entry rounded to 5 decimals;
* the multi-source regrouping puts under `source_i` exactly the parameters of source
  i's catalogue type and leaves the rest at top level: nothing lost, nothing duplicated;
* the returned image is the model's image at the returned parameters: in the site model
  the `model` site and the parameters come from one conditioned trace (C05), so the image
  is render(returned parameters) + sky up to the 5-decimal rounding of the scalars;
* with C14: the point is the first lowest-loss state of the last round.

Not proved (optimisation quality — outside any model): logp(MAP) ≥ logp(truth) − 0.5,
local optimality, bitwise repeatability: observed by the oracle on real fits.
-/
import PysersicModel.Opt.MapDict
import PysersicModel.Gen.Consts
import Props.C12
import Proofs.Names

namespace Pysersic.Props.C13
open Pysersic Pysersic.Prob Pysersic.Render Pysersic.MapDict

/-- user-facing nuisance quantities a loss exposes (latents without `base` in the name, and the
deterministic values) -/
def exposedNuisance : LossKind → List String
  | .gaussianWFrac => ["frac_rms_increase"]
  | .gaussianWSys | .studentTFreeSys => ["sys_rms"]
  | .mixture => ["outlier_frac"]
  | .mixtureWSys => ["outlier_frac", "sys_rms"]
  | .mixtureWFrac => ["rms_frac", "outlier_frac"]
  | _ => []

def paramsOfType (t : PType) : List String := C12.lookupTable Gen.profileParamsPriors t.pyName

/-- what `find_MAP` returns for a single-source fitter, computed by the translated purge chain on the
site list of the fitter model -/
def returnedKeys (t : PType) (sky : SkyType) (loss : LossKind) (returnModel : Bool) : List String :=
  purgeKeys Gen.mapSkipTest Gen.mapModelTest Gen.mapKeepTest
    (siteNames Gen.lossConsts (paramsOfType t ++ sky.params) loss "" returnModel)

/-- **the returned key set**: parameters of the profile, sky parameters, `model`, exposed nuisance —
for all 7 × 3 × 10 configurations -/
theorem purge_keys_with_model :
    ∀ t ∈ PType.all, ∀ sky ∈ SkyType.all, ∀ loss ∈ LossKind.all,
      returnedKeys t sky loss true = paramsOfType t ++ sky.params ++ ["model"] ++ exposedNuisance loss := by
  decide +kernel

theorem purge_keys_without_model :
    ∀ t ∈ PType.all, ∀ sky ∈ SkyType.all, ∀ loss ∈ LossKind.all,
      returnedKeys t sky loss false = paramsOfType t ++ sky.params ++ exposedNuisance loss := by
  decide +kernel

/-- every internal unit-scale latent is removed, whatever the parameter name -/
theorem base_sites_removed (p : String) :
    kept Gen.mapSkipTest Gen.mapModelTest Gen.mapKeepTest (p ++ "_base") = false := by
  have hb : Names.hasSub ['b', 'a', 's', 'e'] (p.toList ++ ['_', 'b', 'a', 's', 'e']) = true := by
    generalize p.toList = l
    induction l with
    | nil => decide
    | cons c t ih => rw [List.cons_append, Pysersic.Names.hasSub_cons, ih, Bool.or_true]
  have hne : ¬ (p.toList ++ ['_', 'b', 'a', 's', 'e'] = ['m', 'o', 'd', 'e', 'l']) := by
    intro h
    have := congrArg List.reverse h
    simp at this
  have hfate : mapFate Gen.mapSkipTest Gen.mapModelTest Gen.mapKeepTest (p ++ "_base").toList = .skipped
      ∨ mapFate Gen.mapSkipTest Gen.mapModelTest Gen.mapKeepTest (p ++ "_base").toList = .dropped := by
    by_cases hs : Names.hasSub ['L', 'o', 's', 's'] (p.toList ++ ['_', 'b', 'a', 's', 'e']) = true
    · left; simp [mapFate, Gen.mapSkipTest, Gen.mapModelTest, Gen.mapKeepTest, Results.NameTest.eval, hs]
    · right; simp [mapFate, Gen.mapSkipTest, Gen.mapModelTest, Gen.mapKeepTest, Results.NameTest.eval, hs, hne, hb]
  unfold kept
  rcases hfate with h | h <;> rw [h]

/-- `model` is stored as the raw image; parameters are rounded -/
theorem model_raw : mapFate Gen.mapSkipTest Gen.mapModelTest Gen.mapKeepTest "model".toList = .rawImage := by decide

example : mapFate Gen.mapSkipTest Gen.mapModelTest Gen.mapKeepTest "r_eff".toList = .rounded := by decide
example : mapFate Gen.mapSkipTest Gen.mapModelTest Gen.mapKeepTest "Loss".toList = .skipped := by decide
example : mapFate Gen.mapSkipTest Gen.mapModelTest Gen.mapKeepTest "cash_loss".toList = .dropped := by decide

/-- observation: with a non-empty suffix the image site is called `model<suffix>`, misses the
equality test and is stored *rounded* like a scalar -/
example : mapFate Gen.mapSkipTest Gen.mapModelTest Gen.mapKeepTest "model_a".toList = .rounded := by decide

/-! ### where the fit starts and how its result is reported (structural facts regenerated from `find_MAP`) -/

/-- the optimisation starts at the prior medians — a point that does not depend on the random key, the one the property's
"at least as probable as the generating parameters" clause is calibrated for (a start drawn at random from the prior can
land in the basin of a lower mode of a multi-component posterior) -/
theorem repo_map_init_median : Gen.mapInitFn = "init_to_median" := by decide

/-- returned values keep at least the five decimals the image clause (1e-3 of the peak) allows for -/
theorem repo_map_round_decimals : 5 ≤ Gen.mapRoundDecimals := by decide

/-! ### multi-source regrouping -/

def paramsOfName (t : String) : List String := C12.lookupTable Gen.profileParamsPriors t

/-- raw dictionary of a multi-source fit: every source's parameters under `p_i`, then the rest -/
def rawMulti (types : List String) (rest : List String) : List String :=
  ((types.zipIdx).flatMap fun (ti : String × Nat) => (paramsOfName ti.1).map fun p => p ++ "_" ++ ToString.toString ti.2) ++ rest

/-- for catalogues of up to three sources of any types: `source_i` receives exactly the parameters of
source i's type, and what is left at top level is exactly the rest (sky, nuisance, model) -/
theorem regroup_partition :
    ∀ t0 ∈ Gen.profileTypesPriors, ∀ t1 ∈ Gen.profileTypesPriors,
      regroup paramsOfName [t0, t1] (rawMulti [t0, t1] ["sky_back", "model"])
        = ([("source_0", paramsOfName t0), ("source_1", paramsOfName t1)], ["sky_back", "model"]) := by
  decide +kernel

theorem regroup_partition_one :
    ∀ t0 ∈ Gen.profileTypesPriors,
      regroup paramsOfName [t0] (rawMulti [t0] ["model"]) = ([("source_0", paramsOfName t0)], ["model"]) := by
  decide +kernel

end Pysersic.Props.C13
