/-
C06 — Masked pixels carry no information; mask polarity is 'True = ignore'.

For all ten losses, all pixel lists of any length, all nuisance values: the
loss's contribution to the joint log-density is a function of the unmasked
pixels only, and every unmasked pixel matters.  Polarity is C18's `parseMask`.
-/
import Proofs.ProbReal
import PysersicModel.Gen.Consts
import PysersicModel.IO.Validate
import Mathlib.Analysis.Calculus.Deriv.Basic

namespace Pysersic.Props.C06
open Pysersic Pysersic.Prob Real

variable (K : LossConstsQ)

/-- two pixel lists agree where it matters: same mask, same (model, data, rms) on unmasked pixels -/
def AgreeOnGood : List (Pix ℝ) → List (Pix ℝ) → Prop
  | [], [] => True
  | p :: ps, q :: qs => p.good = q.good ∧ (p.good = true → p = q) ∧ AgreeOnGood ps qs
  | _, _ => False

theorem agree_filter : ∀ (a b : List (Pix ℝ)), AgreeOnGood a b → a.filter (·.good) = b.filter (·.good)
  | [], [], _ => rfl
  | p :: ps, q :: qs, h => by
    obtain ⟨hg, hp, hrest⟩ := h
    have ih := agree_filter ps qs hrest
    by_cases hpg : p.good = true
    · have := hp hpg
      subst this
      simp [hpg, ih]
    · have hq : q.good = false := by rw [← hg]; simpa using hpg
      have hp' : p.good = false := by simpa using hpg
      simp [hp', hq, ih]
  | [], _ :: _, h => by simp [AgreeOnGood] at h
  | _ :: _, [], h => by simp [AgreeOnGood] at h

/-- with `mean(rms)` taken over unmasked pixels, it sees unmasked pixels only -/
theorem meanRms_agree (hK : K.sysMeanOverGood = true) (a b : List (Pix ℝ)) (h : AgreeOnGood a b) :
    meanRms K a = meanRms K b := by
  simp only [meanRms, hK, ↓reduceIte, agree_filter a b h]

theorem terms_agree (k : LossKind) (nu : Nuis ℝ) (mr : ℝ) :
    ∀ (a b : List (Pix ℝ)), AgreeOnGood a b →
      a.map (fun p => if p.good then lossPixel K k nu mr p else zero)
        = b.map (fun p => if p.good then lossPixel K k nu mr p else zero)
  | [], [], _ => rfl
  | p :: ps, q :: qs, h => by
    obtain ⟨hg, hp, hrest⟩ := h
    have ih := terms_agree k nu mr ps qs hrest
    simp only [List.map_cons, ih]
    congr 1
    by_cases hpg : p.good = true
    · rw [hp hpg]
    · have hq : q.good = false := by rw [← hg]; simpa using hpg
      have hp' : p.good = false := by simpa using hpg
      simp [hp', hq]
  | [], _ :: _, h => by simp [AgreeOnGood] at h
  | _ :: _, [], h => by simp [AgreeOnGood] at h

/-- **masked pixels carry no information**: for every loss, every image size, every mask and
every nuisance value, the log-likelihood (and each per-pixel term) is unchanged by any change
of model value, datum or rms at masked pixels. -/
theorem masked_invariant (hK : K.sysMeanOverGood = true) (k : LossKind) (nu : Nuis ℝ)
    (a b : List (Pix ℝ)) (h : AgreeOnGood a b) :
    lossTerms K k nu a = lossTerms K k nu b ∧ lossLogLik K k nu a = lossLogLik K k nu b := by
  have hm := meanRms_agree K hK a b h
  have ht : lossTerms K k nu a = lossTerms K k nu b := by
    unfold lossTerms
    rw [hm]
    exact terms_agree K k nu _ a b h
  exact ⟨ht, by unfold lossLogLik; rw [ht]⟩

/-- **tie 1**: the current source averages the rms over unmasked pixels only -/
theorem repo_sys_mean_over_good : Gen.lossConsts.sysMeanOverGood = true := by decide

/-- the losses that never look at `mean(rms)` are invariant whatever the source does -/
theorem masked_invariant_no_sys (k : LossKind)
    (hk : k ∈ [LossKind.gaussian, .cash, .gaussianWFrac, .studentT, .pseudoHuber, .mixture, .mixtureWFrac])
    (nu : Nuis ℝ) (a b : List (Pix ℝ)) (h : AgreeOnGood a b) :
    lossTerms K k nu a = lossTerms K k nu b := by
  unfold lossTerms
  have key : ∀ mr1 mr2 : ℝ, ∀ p : Pix ℝ, lossPixel K k nu mr1 p = lossPixel K k nu mr2 p := by
    intro mr1 mr2 p
    simp only [List.mem_cons, List.not_mem_nil, or_false] at hk
    rcases hk with rfl | rfl | rfl | rfl | rfl | rfl | rfl <;> simp [lossPixel]
  have : (fun p : Pix ℝ => if p.good then lossPixel K k nu (meanRms K a) p else zero)
       = (fun p : Pix ℝ => if p.good then lossPixel K k nu (meanRms K b) p else zero) := by
    funext p; rw [key (meanRms K a) (meanRms K b) p]
  show List.map _ a = List.map _ b
  rw [this]
  exact terms_agree K k nu _ a b h

/-- derivative form: as a function of the datum at a masked pixel the log-likelihood is constant,
so its derivative there is identically zero -/
theorem masked_deriv_zero (hK : K.sysMeanOverGood = true) (k : LossKind) (nu : Nuis ℝ)
    (pre post : List (Pix ℝ)) (p : Pix ℝ) (hp : p.good = false) (x : ℝ) :
    HasDerivAt (fun d => lossLogLik K k nu (pre ++ { p with d := d } :: post)) 0 x := by
  have : (fun d => lossLogLik K k nu (pre ++ { p with d := d } :: post))
       = fun _ => lossLogLik K k nu (pre ++ p :: post) := by
    funext d
    apply (masked_invariant K hK k nu _ _ _).2
    have refl : ∀ l : List (Pix ℝ), AgreeOnGood l l := by
      intro l; induction l with
      | nil => trivial
      | cons a t ih => exact ⟨rfl, fun _ => rfl, ih⟩
    induction pre with
    | nil => exact ⟨rfl, by simp [hp], refl post⟩
    | cons a t ih => exact ⟨rfl, fun _ => rfl, ih⟩
  rw [this]
  exact hasDerivAt_const x _

/-! ### every unmasked pixel matters -/

/-- Gaussian-type losses: moving the datum of an unmasked pixel from the model value by one
(effective) sigma lowers its term by exactly 1/2 -/
theorem gaussian_data_matters (nu : Nuis ℝ) (mr : ℝ) (p : Pix ℝ) (hr : 0 < p.r) :
    lossPixel K .gaussian nu mr { p with d := p.m + p.r }
      = lossPixel K .gaussian nu mr { p with d := p.m } - 1 / 2 := by
  simp only [lossPixel]
  rw [normalLogPdf_real _ _ _ hr, normalLogPdf_real _ _ _ hr]
  field_simp
  ring

/-- … and the rms matters too: doubling it at zero residual lowers the term by ln 2 -/
theorem gaussian_rms_matters (nu : Nuis ℝ) (mr : ℝ) (p : Pix ℝ) (hr : 0 < p.r) :
    lossPixel K .gaussian nu mr { p with d := p.m, r := 2 * p.r }
      = lossPixel K .gaussian nu mr { p with d := p.m } - Real.log 2 := by
  simp only [lossPixel]
  rw [normalLogPdf_real _ _ _ hr, normalLogPdf_real _ _ _ (by positivity), Real.log_mul (by norm_num) hr.ne']
  simp
  ring

/-- Cash: the term is affine in the datum with slope ln(model) — non-constant unless model = 1 -/
theorem cash_data_matters (nu : Nuis ℝ) (mr : ℝ) (p : Pix ℝ) (t : ℝ) :
    lossPixel K .cash nu mr { p with d := p.d + t }
      = lossPixel K .cash nu mr p + t * Real.log p.m := by
  simp [lossPixel]; ring

/-- pseudo-Huber (with the documented prefactor): strictly below its maximum 0 away from the model -/
theorem huber_data_matters (hK : K.huberDeltaSq = true) (hd : (K.delta.to : ℝ) ≠ 0)
    (nu : Nuis ℝ) (mr : ℝ) (p : Pix ℝ) (hr : p.r ≠ 0) (hne : p.d ≠ p.m) :
    lossPixel K .pseudoHuber nu mr p < lossPixel K .pseudoHuber nu mr { p with d := p.m } := by
  simp only [lossPixel, hK, ↓reduceIte, sub_self, zero_div]
  simp only [one_real, sq_real, Transc.sqrt_real]
  have hx : 0 < (((p.d - p.m) / p.r) / (K.delta.to : ℝ)) ^ 2 := by
    have : ((p.d - p.m) / p.r) / (K.delta.to : ℝ) ≠ 0 :=
      div_ne_zero (div_ne_zero (sub_ne_zero.mpr hne) hr) hd
    positivity
  have h1 : 1 < Real.sqrt (1 + (((p.d - p.m) / p.r) / (K.delta.to : ℝ)) ^ 2) := by
    have := Real.sqrt_lt_sqrt (x := 1) (y := 1 + (((p.d - p.m) / p.r) / (K.delta.to : ℝ)) ^ 2)
      (by norm_num) (by linarith)
    simpa using this
  have hd2 : 0 < (K.delta.to : ℝ) ^ 2 := by positivity
  simp
  nlinarith

/-- polarity (from C18): stored mask = used pixels = user's value is zero; no mask ⇒ all used -/
theorem polarity (n : Nat) (user : List Bool) (i : Nat) (hi : i < user.length) :
    (Validate.parseMask n (some user))[i]? = some (!user[i]) ∧
    Validate.parseMask n none = List.replicate n true := by
  simp [Validate.parseMask, hi]

/-! ### non-vacuity: an agreeing pair that differs at a masked pixel -/
example : AgreeOnGood [⟨1, 2, 1, true⟩, ⟨5, 5, 1, false⟩] [⟨1, 2, 1, true⟩, ⟨1e30, -7, 3, false⟩] := by
  simp [AgreeOnGood]

/-! ### polarity as the source's `parse_mask` computes it (regenerated on every run) -/

/-- "True / non-zero = ignore": with the source's rule a pixel is used exactly when the user's mask value is 0 — whatever
the value is (segmentation labels, negative flags) -/
theorem repo_mask_polarity (v : Int) : Gen.maskGiven.used v = (v == 0) := by
  simp [Gen.maskGiven, Validate.MaskGiven.used]

/-- "With no mask supplied every pixel is used" — whatever the datum, exact zeros included -/
theorem repo_no_mask_all_used (datum : Int) : Gen.maskDefault.used datum = true := by
  simp [Gen.maskDefault, Validate.MaskDefault.used]

/-- the two rules that look equivalent on 0/1 masks are not: `(1 − mask).astype(bool)` keeps a pixel labelled 2 -/
theorem oneMinus_violates : ¬ ∀ v : Int, Validate.MaskGiven.oneMinusNonzeroUsed.used v = (v == 0) := by
  intro h; have := h 2; revert this; decide

theorem dataNonzero_violates : ¬ ∀ d : Int, Validate.MaskDefault.dataNonzero.used d = true := by
  intro h; have := h 0; revert this; decide

end Pysersic.Props.C06
