/-
C10 — Model and gradients are finite everywhere in the prior support.

What a theorem over ℝ can carry (partial): every partial operation of the ideal model is
applied inside its domain on the whole prior support, and the only points where the
analytic profile is not differentiable are pixel evaluations exactly at the source centre:

* on the support given by the *regenerated* prior bounds (r_eff ≥ 0.5, 0 ≤ ellip ≤ 0.9,
  0.65 ≤ n ≤ 8): r_eff, 1 − ellip, n ≠ 0; b_n > 0; Γ(2n) > 0; the amplitude denominator is
  positive; the radicand of z is non-negative; r_eff·frac > 0 under the logarithm; every
  width σ_k of the mixture is positive; the broadened widths and axis ratios are well defined;
* z = 0 ⇔ (X, Y) = (xc, yc) (C02); the radial law z ↦ exp(−b_n(z^{1/n} − 1)) is
  differentiable at every z > 0, and its derivative is unbounded as z → 0⁺ for n > 1 — the
  singular point that reverse-mode differentiation turns into 0·∞; the Gaussian kernels are
  differentiable everywhere.

Not provable here (runtime): float32 overflow/underflow at the corners of the support and
NaN propagation through reverse-mode AD — exhibited and searched by the oracle
(value + gradient, eager and jit, on the lattice × support corners).
-/
import Props.C02
import Props.C12
import Mathlib.Analysis.SpecialFunctions.Pow.Deriv
import Mathlib.Analysis.SpecialFunctions.ExpDeriv

namespace Pysersic.Props.C10
open Pysersic Pysersic.Prob Pysersic.Render Real

/-- the prior support, with bounds taken from the regenerated constants -/
structure InSupport (p : SersicP ℝ) : Prop where
  rEff : (Gen.priorConsts.rEffLow.to : ℝ) ≤ p.rEff
  ellipLo : (Gen.priorConsts.ellipLow.to : ℝ) ≤ p.ellip
  ellipHi : p.ellip ≤ (Gen.priorConsts.ellipHigh.to : ℝ)
  nLo : (Gen.priorConsts.nLow.to : ℝ) ≤ p.n
  nHi : p.n ≤ (Gen.priorConsts.nHigh.to : ℝ)

theorem support_facts (p : SersicP ℝ) (h : InSupport p) :
    (1 / 2 : ℝ) ≤ p.rEff ∧ 0 ≤ p.ellip ∧ p.ellip ≤ 9 / 10 ∧ (13 / 20 : ℝ) ≤ p.n ∧ p.n ≤ 8 := by
  obtain ⟨h1, h2, h3, h4, h5⟩ := h
  have b := C12.repo_bounds
  rw [b.1] at h1
  rw [b.2.1] at h2
  rw [b.2.2.1] at h3
  rw [b.2.2.2.1] at h4
  rw [b.2.2.2.2.1] at h5
  exact ⟨h1, h2, h3, h4, h5⟩

/-- **domain safety of the analytic profile on the whole support** -/
theorem domain_safe (X Y : ℝ) (p : SersicP ℝ) (h : InSupport p) :
    0 < p.rEff ∧ 0 < 1 - p.ellip ∧ 0 < p.n ∧ 0 < bnOf Gen.bn2d p.n ∧ 0 < Real.Gamma (2 * p.n)
      ∧ 0 < Real.exp (bnOf Gen.bn2d p.n + Real.log (Real.Gamma (2 * p.n))) * (p.rEff * p.rEff) * π * 2 * p.n
      ∧ 0 ≤ Prob.sq (((X - p.xc) * Real.cos (rotAngle p.theta) + (Y - p.yc) * Real.sin (rotAngle p.theta)) / p.rEff)
            + Prob.sq ((-(X - p.xc) * Real.sin (rotAngle p.theta) + (Y - p.yc) * Real.cos (rotAngle p.theta)) / ((1 - p.ellip) * p.rEff)) := by
  obtain ⟨hr, he0, he1, hn0, hn1⟩ := support_facts p h
  have hr' : 0 < p.rEff := by linarith
  have hn' : 0 < p.n := by linarith
  have hb := C01.repo_bn_pos p.n hn0
  have hG : 0 < Real.Gamma (2 * p.n) := Real.Gamma_pos_of_pos (by linarith)
  refine ⟨hr', by linarith, hn', hb, hG, by positivity, ?_⟩
  simp only [Prob.sq]
  exact add_nonneg (mul_self_nonneg _) (mul_self_nonneg _)

/-- the same constants serve `sersic1D` (direct decomposition) -/
theorem repo_bn1d_eq : Gen.bn1d = Gen.bn2d := by decide

/-- every mixture width is positive on the support, for the regenerated default fractions -/
theorem sigma_pos (cfg : MogCfg ℝ) (rEff : ℝ) (k : ℕ) : 0 < sigmaAt cfg rEff k := by
  simp only [sigmaAt, logspaceAt, Transc.rpow_real]
  exact Real.rpow_pos_of_pos (by norm_num) _

/-- the arguments of the two logarithms of the σ grid are positive on the support -/
theorem log_args_pos (p : SersicP ℝ) (h : InSupport p) :
    0 < p.rEff * (Gen.defaultFracStart.to : ℝ) ∧ 0 < p.rEff * (Gen.defaultFracEnd.to : ℝ) := by
  obtain ⟨hr, _⟩ := support_facts p h
  have hr' : 0 < p.rEff := by linarith
  simp only [Q.to_real, Gen.defaultFracStart, Gen.defaultFracEnd]
  constructor <;> positivity

/-- the broadened width is positive and the broadened axis ratio's radicand non-negative -/
theorem broaden_safe (sp : ℝ) (g : GComp ℝ) (hs : 0 < g.sigma) :
    0 < (broaden sp g).sigma ∧ 0 ≤ (g.q * g.q * (g.sigma * g.sigma) + sp * sp) / ((broaden sp g).sigma * (broaden sp g).sigma) := by
  have hpos : 0 < g.sigma * g.sigma + sp * sp := add_pos_of_pos_of_nonneg (mul_pos hs hs) (mul_self_nonneg _)
  simp only [broaden, Transc.sqrt_real]
  refine ⟨Real.sqrt_pos.mpr hpos, ?_⟩
  rw [Real.mul_self_sqrt hpos.le]
  exact div_nonneg (add_nonneg (mul_nonneg (mul_self_nonneg _) (mul_self_nonneg _)) (mul_self_nonneg _)) hpos.le

/-! ### where the profile can fail to be differentiable -/

/-- the radial law is differentiable at every z > 0 -/
theorem radial_differentiable (b n z : ℝ) (hz : 0 < z) :
    DifferentiableAt ℝ (fun z : ℝ => Real.exp (-b * (z ^ (1 / n) - 1))) z := by
  apply DifferentiableAt.exp
  apply DifferentiableAt.const_mul
  apply DifferentiableAt.sub_const
  exact Real.differentiableAt_rpow_const_of_ne _ hz.ne'

/-- its derivative: −(b/n)·z^{1/n − 1}·exp(…): for n > 1 the factor z^{1/n−1} is unbounded as z → 0⁺ -/
theorem radial_deriv (b n z : ℝ) (hz : 0 < z) :
    deriv (fun z : ℝ => Real.exp (-b * (z ^ (1 / n) - 1))) z
      = Real.exp (-b * (z ^ (1 / n) - 1)) * (-b * ((1 / n) * z ^ (1 / n - 1))) := by
  have h1 : HasDerivAt (fun z : ℝ => z ^ (1 / n)) ((1 / n) * z ^ (1 / n - 1)) z := Real.hasDerivAt_rpow_const (Or.inl hz.ne')
  have h2 : HasDerivAt (fun z : ℝ => -b * (z ^ (1 / n) - 1)) (-b * ((1 / n) * z ^ (1 / n - 1))) z :=
    (h1.sub_const 1).const_mul (-b)
  exact (h2.exp).deriv

/-- the singular factor: for n > 1 and 0 < z ≤ 1, z^{1/n − 1} ≥ 1/z^{…} grows without bound: at z = ε^n it equals ε^{1−n} -/
theorem singular_factor (n ε : ℝ) (hn : 1 < n) (hε : 0 < ε) : (ε ^ n) ^ (1 / n - 1) = ε ^ (1 - n) := by
  rw [← Real.rpow_mul hε.le]
  congr 1
  field_simp

/-- the only pixel evaluations with z = 0 are those exactly on the source centre -/
theorem singular_only_at_centre (X Y : ℝ) (p : SersicP ℝ) (h : InSupport p) : C02.zOf X Y p = 0 ↔ X = p.xc ∧ Y = p.yc := by
  obtain ⟨hr, he0, he1, _, _⟩ := support_facts p h
  exact C02.z_zero_iff X Y p (by linarith) (by linarith)

/-- a real-space Gaussian component is differentiable in the position everywhere -/
theorem gaussPixelTerm_differentiable (Y xc yc θ : ℝ) (g : GComp ℝ) :
    Differentiable ℝ (fun X : ℝ => gaussPixelTerm X Y xc yc θ g) := by
  simp only [gaussPixelTerm, Transc.exp_real, Transc.cos_real, Transc.sin_real, two_real, Transc.pi_real]
  fun_prop

end Pysersic.Props.C10
