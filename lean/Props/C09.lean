/-
C09 — Rendering respects the symmetries of the model.

Over ℝ, for every renderer kind, image size, PSF, option set and parameter value:
θ → θ + kπ leaves every rendered triple unchanged (hence the wrapped angle that
the post-processing reports describes the same image); with ellip = 0 the
kernels do not depend on θ; the kernels are covariant under transposition and
mirroring of the pixel grid, and so is the pixel renderer's intrinsic image
(the oversampling box is transposition-symmetric, and mirror-symmetric exactly
for even N); a whole-pixel move of a Fourier-rendered source is an exact shift
of the synthesised image.
-/
import Proofs.RenderLinear
import PysersicModel.Gen.Consts
import Props.C19
import Props.C08

namespace Pysersic.Props.C09
open Pysersic Pysersic.Prob Pysersic.Render Real

/-! ### θ → θ + π -/

theorem rot_add_pi_cos (θ : ℝ) : Real.cos (rotAngle (θ + π)) = -Real.cos (rotAngle θ) := by
  simp only [rotAngle_real]
  rw [show θ + π + π / 2 = θ + π / 2 + π by ring, Real.cos_add_pi]

theorem rot_add_pi_sin (θ : ℝ) : Real.sin (rotAngle (θ + π)) = -Real.sin (rotAngle θ) := by
  simp only [rotAngle_real]
  rw [show θ + π + π / 2 = θ + π / 2 + π by ring, Real.sin_add_pi]

theorem sersic2d_theta_add_pi (c : BnC) (X Y : ℝ) (p : SersicP ℝ) :
    sersic2d c X Y { p with theta := p.theta + π } = sersic2d c X Y p := by
  simp only [sersic2d, Transc.cos_real, Transc.sin_real, rot_add_pi_cos, rot_add_pi_sin, Prob.sq]
  ring_nf

theorem gaussPixelTerm_theta_add_pi (X Y xc yc θ : ℝ) (g : GComp ℝ) :
    gaussPixelTerm X Y xc yc (θ + π) g = gaussPixelTerm X Y xc yc θ g := by
  simp only [gaussPixelTerm, Transc.cos_real, Transc.sin_real, rot_add_pi_cos, rot_add_pi_sin]
  ring_nf

theorem gaussFourierTerm_theta_add_pi (FX FY xc yc θ : ℝ) (g : GComp ℝ) :
    gaussFourierTerm FX FY xc yc (θ + π) g = gaussFourierTerm FX FY xc yc θ g := by
  simp only [gaussFourierTerm, Transc.cos_real, Transc.sin_real, rot_add_pi_cos, rot_add_pi_sin]
  ring_nf

theorem gaussPixel_theta_add_pi (X Y xc yc θ : ℝ) (gs : List (GComp ℝ)) :
    gaussPixel X Y xc yc (θ + π) gs = gaussPixel X Y xc yc θ gs := by
  simp only [gaussPixel]
  congr 1
  apply List.map_congr_left
  intro g _
  exact gaussPixelTerm_theta_add_pi _ _ _ _ _ _

theorem gaussFourier_theta_add_pi (FX FY xc yc θ : ℝ) (gs : List (GComp ℝ)) :
    gaussFourier FX FY xc yc (θ + π) gs = gaussFourier FX FY xc yc θ gs := by
  simp only [gaussFourier]
  congr 1
  apply List.map_congr_left
  intro g _
  exact gaussFourierTerm_theta_add_pi _ _ _ _ _ _

/-- **every renderer: the Sersic triple is unchanged by θ → θ + π** -/
theorem sersic_theta_add_pi (R : Renderer ℝ) (xc yc flux rEff n ellip θ : ℝ) :
    R.sersic ⟨xc, yc, flux, rEff, n, ellip, θ + π⟩ = R.sersic ⟨xc, yc, flux, rEff, n, ellip, θ⟩ := by
  have hamp : ∀ t : ℝ, ampsFor R.bc1 R.cfg R.ampSrc ⟨xc, yc, flux, rEff, n, ellip, t⟩
      = ampsFor R.bc1 R.cfg R.ampSrc ⟨xc, yc, flux, rEff, n, ellip, θ⟩ := by
    intro t; cases h : R.ampSrc <;> simp [ampsFor]
  unfold Renderer.sersic
  cases hk : R.kind with
  | pixel =>
    simp only
    congr 1
    funext r c
    simp only [renderIntSersic, osPixel]
    have h2 := fun X Y : ℝ => sersic2d_theta_add_pi R.bc X Y ⟨xc, yc, flux, rEff, n, ellip, θ⟩
    simp only at h2
    simp only [h2]
  | fourier =>
    simp only [hamp (θ + π), mogComps]
    congr 1
    funext v u
    simp only [fourierSersicF, gaussFourier_theta_add_pi]
  | hybrid =>
    simp only [hamp (θ + π), mogComps]
    congr 1
    · funext v u
      simp only [fourierSersicF, gaussFourier_theta_add_pi]
    · funext r c
      simp only [gaussPixel_theta_add_pi]

/-- add δ to the value stored under "theta" -/
def shiftTheta (δ : ℝ) (d : PDict ℝ) : PDict ℝ :=
  d.map fun kv => if kv.1 == "theta" then (kv.1, kv.2 + δ) else kv

theorem get_shiftTheta (δ : ℝ) (d : PDict ℝ) (key : String) :
    (shiftTheta δ d).get key = if key = "theta" ∧ d.has key then d.get key + δ else d.get key := by
  induction d with
  | nil => simp [shiftTheta, PDict.get, PDict.has, zero]
  | cons kv t ih =>
    have hc : shiftTheta δ (kv :: t) = (if kv.1 == "theta" then (kv.1, kv.2 + δ) else kv) :: shiftTheta δ t := rfl
    have hh : PDict.has (kv :: t) key = (kv.1 == key || PDict.has t key) := by simp [PDict.has]
    rw [hc, C08.get_cons, C08.get_cons, ih, hh]
    by_cases h1 : kv.1 = "theta" <;> by_cases h2 : kv.1 = key <;> by_cases h3 : key = "theta" <;>
      simp_all

/-- **every profile type, every renderer: θ → θ + π leaves the triple unchanged** -/
theorem profileOf_theta_add_pi (R : Renderer ℝ) (t : PType) (d : PDict ℝ) :
    R.profileOf t (shiftTheta π d) = R.profileOf t d := by
  have hs := sersic_theta_add_pi R
  have hoth : ∀ key : String, key ≠ "theta" → (shiftTheta π d).get key = d.get key := by
    intro key h; rw [get_shiftTheta]; simp [h]
  have e1 := hoth "xc" (by decide)
  have e2 := hoth "yc" (by decide)
  have e3 := hoth "flux" (by decide)
  have e4 := hoth "r_eff" (by decide)
  have e5 := hoth "n" (by decide)
  have e6 := hoth "ellip" (by decide)
  have e7 := hoth "f_1" (by decide)
  have e8 := hoth "r_eff_1" (by decide)
  have e9 := hoth "n_1" (by decide)
  have e10 := hoth "ellip_1" (by decide)
  have e11 := hoth "r_eff_2" (by decide)
  have e12 := hoth "n_2" (by decide)
  have e13 := hoth "ellip_2" (by decide)
  have e14 := hoth "f_ps" (by decide)
  by_cases hth : d.has "theta"
  · have e0 : (shiftTheta π d).get "theta" = d.get "theta" + π := by rw [get_shiftTheta]; simp [hth]
    cases t <;>
      simp only [Renderer.profileOf, sersicOf, e0, e1, e2, e3, e4, e5, e6, e7, e8, e9, e10, e11, e12, e13, e14, hs]
  · have e0 : (shiftTheta π d).get "theta" = d.get "theta" := by rw [get_shiftTheta]; simp [hth]
    cases t <;>
      simp only [Renderer.profileOf, sersicOf, e0, e1, e2, e3, e4, e5, e6, e7, e8, e9, e10, e11, e12, e13, e14]

/-- θ → θ + kπ for every natural k -/
theorem sersic_theta_add_nat_mul_pi (R : Renderer ℝ) (xc yc flux rEff n ellip θ : ℝ) (k : ℕ) :
    R.sersic ⟨xc, yc, flux, rEff, n, ellip, θ + k * π⟩ = R.sersic ⟨xc, yc, flux, rEff, n, ellip, θ⟩ := by
  induction k with
  | zero => simp
  | succ j ih =>
    rw [show θ + ((j + 1 : ℕ) : ℝ) * π = (θ + j * π) + π by push_cast; ring, sersic_theta_add_pi, ih]

/-- θ → θ + kπ for every integer k: the position angle is defined modulo π -/
theorem sersic_theta_add_int_mul_pi (R : Renderer ℝ) (xc yc flux rEff n ellip θ : ℝ) (k : ℤ) :
    R.sersic ⟨xc, yc, flux, rEff, n, ellip, θ + k * π⟩ = R.sersic ⟨xc, yc, flux, rEff, n, ellip, θ⟩ := by
  cases k with
  | ofNat j => simpa using sersic_theta_add_nat_mul_pi R xc yc flux rEff n ellip θ j
  | negSucc j =>
    have h := sersic_theta_add_nat_mul_pi R xc yc flux rEff n ellip (θ + (Int.negSucc j : ℤ) * π) (j + 1)
    rw [← h]
    congr 2
    rw [Int.cast_negSucc]
    push_cast
    ring

/-- cross-property corollary (C19): the angle reported after wrapping into [0, π)
renders the same image as the sampled angle -/
theorem wrapped_angle_same_image (R : Renderer ℝ) (xc yc flux rEff n ellip θ : ℝ) :
    R.sersic ⟨xc, yc, flux, rEff, n, ellip, (Results.wrap θ : ℝ)⟩ = R.sersic ⟨xc, yc, flux, rEff, n, ellip, θ⟩ := by
  obtain ⟨k, hk⟩ := C19.wrap_congr θ
  rw [hk]
  exact sersic_theta_add_int_mul_pi R xc yc flux rEff n ellip θ k

/-! ### ellip = 0 ⇒ no dependence on θ -/

theorem rot_quadratic (dx dy φ : ℝ) :
    (dx * Real.cos φ + dy * Real.sin φ) ^ 2 + (-dx * Real.sin φ + dy * Real.cos φ) ^ 2 = dx ^ 2 + dy ^ 2 := by
  have h := Real.cos_sq_add_sin_sq φ
  linear_combination (dx ^ 2 + dy ^ 2) * h

/-- the analytic profile of a round source does not depend on θ -/
theorem sersic2d_round_theta_free (c : BnC) (X Y θ' : ℝ) (p : SersicP ℝ) (he : p.ellip = 0) :
    sersic2d c X Y { p with theta := θ' } = sersic2d c X Y p := by
  have key : ∀ φ : ℝ,
      Prob.sq (((X - p.xc) * Real.cos φ + (Y - p.yc) * Real.sin φ) / p.rEff)
        + Prob.sq ((-(X - p.xc) * Real.sin φ + (Y - p.yc) * Real.cos φ) / ((one - 0) * p.rEff))
      = ((X - p.xc) ^ 2 + (Y - p.yc) ^ 2) / p.rEff ^ 2 := by
    intro φ
    simp only [sq_real, one_real, sub_zero, one_mul, div_pow]
    rw [← add_div, rot_quadratic]
  simp only [sersic2d, he, Transc.cos_real, Transc.sin_real, key]

/-- a round Gaussian component in real space does not depend on θ -/
theorem gaussPixelTerm_round_theta_free (X Y xc yc θ θ' : ℝ) (g : GComp ℝ) (hq : g.q = 1) :
    gaussPixelTerm X Y xc yc θ' g = gaussPixelTerm X Y xc yc θ g := by
  have key : ∀ φ : ℝ,
      ((X - xc) * Real.cos φ + (Y - yc) * Real.sin φ) * ((X - xc) * Real.cos φ + (Y - yc) * Real.sin φ)
        + (-((X - xc) * Real.sin φ) + (Y - yc) * Real.cos φ) * (-((X - xc) * Real.sin φ) + (Y - yc) * Real.cos φ) / (1 * 1)
      = (X - xc) ^ 2 + (Y - yc) ^ 2 := by
    intro φ
    have h := rot_quadratic (X - xc) (Y - yc) φ
    rw [mul_one, div_one]
    linear_combination h
  simp only [gaussPixelTerm, hq, Transc.cos_real, Transc.sin_real, key]

/-- a round Gaussian component in Fourier space does not depend on θ -/
theorem gaussFourierTerm_round_theta_free (FX FY xc yc θ θ' : ℝ) (g : GComp ℝ) (hq : g.q = 1) :
    gaussFourierTerm FX FY xc yc θ' g = gaussFourierTerm FX FY xc yc θ g := by
  have key : ∀ φ : ℝ,
      (FX * Real.cos φ + FY * Real.sin φ) * (FX * Real.cos φ + FY * Real.sin φ)
        + (-(FX * Real.sin φ) + FY * Real.cos φ) * (-(FX * Real.sin φ) + FY * Real.cos φ) * 1 * 1
      = FX ^ 2 + FY ^ 2 := by
    intro φ
    have h := rot_quadratic FX FY φ
    linear_combination h
  simp only [gaussFourierTerm, hq, Transc.cos_real, Transc.sin_real, key]

/-- PSF broadening keeps a round component round (hybrid renderer) -/
theorem broaden_round (sp : ℝ) (g : GComp ℝ) (hq : g.q = 1) (hpos : 0 < g.sigma * g.sigma + sp * sp) :
    (broaden sp g).q = 1 := by
  simp only [broaden, hq, Transc.sqrt_real, one_mul]
  rw [Real.mul_self_sqrt hpos.le, div_self hpos.ne', Real.sqrt_one]

/-! ### transposition and mirroring of the pixel grid -/

/-- swapping the image axes (xc ↔ yc, θ → π/2 − θ) swaps the arguments of the profile -/
theorem sersic2d_transpose (c : BnC) (X Y : ℝ) (p : SersicP ℝ) :
    sersic2d c Y X { p with xc := p.yc, yc := p.xc, theta := π / 2 - p.theta } = sersic2d c X Y p := by
  have hc : Real.cos (rotAngle (π / 2 - p.theta)) = -Real.cos p.theta := by
    simp only [rotAngle_real]
    rw [show π / 2 - p.theta + π / 2 = π - p.theta by ring, Real.cos_pi_sub]
  have hs : Real.sin (rotAngle (π / 2 - p.theta)) = Real.sin p.theta := by
    simp only [rotAngle_real]
    rw [show π / 2 - p.theta + π / 2 = π - p.theta by ring, Real.sin_pi_sub]
  have hc' : Real.cos (rotAngle p.theta) = -Real.sin p.theta := by simp [cos_rot]
  have hs' : Real.sin (rotAngle p.theta) = Real.cos p.theta := by simp [sin_rot]
  simp only [sersic2d, Transc.cos_real, Transc.sin_real, hc, hs, hc', hs', Prob.sq]
  ring_nf

/-- mirroring the columns (X → M − X, xc → M − xc, θ → −θ) leaves the profile unchanged -/
theorem sersic2d_mirror (c : BnC) (X Y M : ℝ) (p : SersicP ℝ) :
    sersic2d c (M - X) Y { p with xc := M - p.xc, theta := -p.theta } = sersic2d c X Y p := by
  have hc : Real.cos (rotAngle (-p.theta)) = Real.sin p.theta := by
    simp only [rotAngle_real]
    rw [show -p.theta + π / 2 = π / 2 - p.theta by ring, Real.cos_pi_div_two_sub]
  have hs : Real.sin (rotAngle (-p.theta)) = Real.cos p.theta := by
    simp only [rotAngle_real]
    rw [show -p.theta + π / 2 = π / 2 - p.theta by ring, Real.sin_pi_div_two_sub]
  have hc' : Real.cos (rotAngle p.theta) = -Real.sin p.theta := by simp [cos_rot]
  have hs' : Real.sin (rotAngle p.theta) = Real.cos p.theta := by simp [sin_rot]
  simp only [sersic2d, Transc.cos_real, Transc.sin_real, hc, hs, hc', hs', Prob.sq]
  ring_nf

theorem gaussPixelTerm_transpose (X Y xc yc θ : ℝ) (g : GComp ℝ) :
    gaussPixelTerm Y X yc xc (π / 2 - θ) g = gaussPixelTerm X Y xc yc θ g := by
  have hc : Real.cos (rotAngle (π / 2 - θ)) = -Real.cos θ := by
    simp only [rotAngle_real]
    rw [show π / 2 - θ + π / 2 = π - θ by ring, Real.cos_pi_sub]
  have hs : Real.sin (rotAngle (π / 2 - θ)) = Real.sin θ := by
    simp only [rotAngle_real]
    rw [show π / 2 - θ + π / 2 = π - θ by ring, Real.sin_pi_sub]
  have hc' : Real.cos (rotAngle θ) = -Real.sin θ := by simp [cos_rot]
  have hs' : Real.sin (rotAngle θ) = Real.cos θ := by simp [sin_rot]
  simp only [gaussPixelTerm, Transc.cos_real, Transc.sin_real, hc, hs, hc', hs']
  ring_nf

theorem gaussFourierTerm_transpose (FX FY xc yc θ : ℝ) (g : GComp ℝ) :
    gaussFourierTerm FY FX yc xc (π / 2 - θ) g = gaussFourierTerm FX FY xc yc θ g := by
  have hc : Real.cos (rotAngle (π / 2 - θ)) = -Real.cos θ := by
    simp only [rotAngle_real]
    rw [show π / 2 - θ + π / 2 = π - θ by ring, Real.cos_pi_sub]
  have hs : Real.sin (rotAngle (π / 2 - θ)) = Real.sin θ := by
    simp only [rotAngle_real]
    rw [show π / 2 - θ + π / 2 = π - θ by ring, Real.sin_pi_sub]
  have hc' : Real.cos (rotAngle θ) = -Real.sin θ := by simp [cos_rot]
  have hs' : Real.sin (rotAngle θ) = Real.cos θ := by simp [sin_rot]
  simp only [gaussFourierTerm, Transc.cos_real, Transc.sin_real, hc, hs, hc', hs']
  ring_nf

/-- the oversampling box is symmetric under transposition … -/
theorem inBox_transpose (N os r c : ℕ) : inBox N os c r = inBox N os r c := by
  simp only [inBox, Bool.and_assoc]
  cases decide (boxLo N os ≤ r) <;> cases decide (r < boxHi N os) <;>
    cases decide (boxLo N os ≤ c) <;> cases decide (c < boxHi N os) <;> rfl

/-- … and under mirroring of the columns exactly when N is even -/
theorem inBox_mirror_even (N os r c : ℕ) (hN : N % 2 = 0) (hos : os ≤ N / 2) (hc : c < N) :
    inBox N os r (N - 1 - c) = inBox N os r c := by
  obtain ⟨m, rfl⟩ : ∃ m, N = 2 * m := ⟨N / 2, by omega⟩
  have hm : 2 * m / 2 = m := by omega
  rw [Bool.eq_iff_iff]
  simp only [inBox, boxLo, boxHi, Bool.and_eq_true, decide_eq_true_eq, hm] at hos ⊢
  omega

/-- for odd N the box is not mirror-symmetric (witness: N = 5, os = 1, column 1 ↔ 3) -/
example : inBox 5 1 1 (5 - 1 - 1) ≠ inBox 5 1 1 1 := by decide

/-- exchange of the two sub-sampling sums -/
theorem sumList_swap {β γ : Type} (l1 : List β) (l2 : List γ) (F : β → γ → ℝ) :
    Render.sumList (l1.map fun a => Render.sumList (l2.map fun b => F a b))
      = Render.sumList (l2.map fun b => Render.sumList (l1.map fun a => F a b)) := by
  simp only [Render.sumList_real]
  induction l1 with
  | nil => simp
  | cons a t ih =>
    simp only [List.map_cons, List.sum_cons, ih]
    rw [← List.sum_map_add]

/-- **the pixel renderer's intrinsic image is transposed by transposing the scene** -/
theorem renderIntSersic_transpose (bc : BnC) (N os : ℕ) (gl : Render.GL ℝ) (p : SersicP ℝ) (r c : ℕ) :
    renderIntSersic bc N os gl { p with xc := p.yc, yc := p.xc, theta := π / 2 - p.theta } c r
      = renderIntSersic bc N os gl p r c := by
  simp only [renderIntSersic, inBox_transpose N os r c]
  split
  · simp only [osPixel]
    have h := fun X Y : ℝ => sersic2d_transpose bc X Y p
    rw [sumList_swap]
    congr 1; apply List.map_congr_left; intro a _
    congr 1; apply List.map_congr_left; intro b _
    rw [h]; ring
  · exact sersic2d_transpose bc _ _ p

/-- the sub-sampling rule is symmetric: reversing the node list negates the nodes and keeps
the weights (numpy's `leggauss` symmetrises its output; checked on the real data by the harness) -/
def GLSym (gl : Render.GL ℝ) : Prop :=
  (gl.nodes.zip gl.weights).reverse = (gl.nodes.zip gl.weights).map fun dw => (-dw.1, dw.2)

theorem sumList_neg_nodes (gl : Render.GL ℝ) (h : GLSym gl) (F : ℝ × ℝ → ℝ) :
    Render.sumList ((gl.nodes.zip gl.weights).map fun dw => F (-dw.1, dw.2))
      = Render.sumList ((gl.nodes.zip gl.weights).map F) := by
  have h1 : ((gl.nodes.zip gl.weights).map fun dw => F (-dw.1, dw.2))
      = ((gl.nodes.zip gl.weights).map fun dw => (-dw.1, dw.2)).map F := by
    rw [List.map_map]; rfl
  rw [h1, ← h, Render.sumList_real, Render.sumList_real, List.map_reverse, List.sum_reverse]

/-- **for even N the pixel renderer's intrinsic image is mirrored by mirroring the scene** -/
theorem renderIntSersic_mirror (bc : BnC) (N os : ℕ) (gl : Render.GL ℝ) (hgl : GLSym gl) (p : SersicP ℝ) (r c : ℕ)
    (hN : N % 2 = 0) (hos : os ≤ N / 2) (hc : c < N) :
    renderIntSersic bc N os gl { p with xc := ((N : ℝ) - 1) - p.xc, theta := -p.theta } r (N - 1 - c)
      = renderIntSersic bc N os gl p r c := by
  have hcast : ((N - 1 - c : ℕ) : ℝ) = ((N : ℝ) - 1) - c := by
    rw [Nat.cast_sub (by omega), Nat.cast_sub (by omega)]; simp
  simp only [renderIntSersic, inBox_mirror_even N os r c hN hos hc, hcast]
  have h := fun X Y : ℝ => sersic2d_mirror bc X Y ((N : ℝ) - 1) p
  split
  · simp only [osPixel]
    congr 1; apply List.map_congr_left; intro a _
    obtain ⟨di, wi⟩ := a
    simp only
    have := sumList_neg_nodes gl hgl (fun dw =>
      sersic2d bc ((c : ℝ) + dw.1) ((r : ℝ) + di) p * (dw.2 * wi))
    simp only at this
    rw [← this]
    congr 1; apply List.map_congr_left; intro b _
    obtain ⟨dj, wj⟩ := b
    simp only
    rw [← h ((c : ℝ) + -dj) ((r : ℝ) + di)]
    congr 2
    ring
  · exact h _ _

/-! ### whole-pixel translation (Fourier and hybrid renderers) -/

theorem cis_add (a b : ℝ) : Cx.mul (Cx.cis a) (Cx.cis b) = Cx.cis (a + b) := by
  apply Cx.ext'
  · simp only [Cx.mul_re, Cx.cis, Transc.cos_real, Transc.sin_real, Real.cos_add]
  · simp only [Cx.mul_im, Cx.cis, Transc.cos_real, Transc.sin_real, Real.sin_add]; ring

theorem cis_add_nat_mul_two_pi (a : ℝ) (k : ℕ) : Cx.cis (a + k * (2 * π)) = Cx.cis a := by
  apply Cx.ext'
  · simp only [Cx.cis, Transc.cos_real]; exact Real.cos_add_nat_mul_two_pi a k
  · simp only [Cx.cis, Transc.sin_real]; exact Real.sin_add_nat_mul_two_pi a k

theorem Cx.mul_assoc' (a b c : Cx ℝ) : Cx.mul (Cx.mul a b) c = Cx.mul a (Cx.mul b c) := by
  apply Cx.ext' <;> simp only [Cx.mul_re, Cx.mul_im] <;> ring

theorem Cx.mul_comm' (a b : Cx ℝ) : Cx.mul a b = Cx.mul b a := by
  apply Cx.ext' <;> simp only [Cx.mul_re, Cx.mul_im] <;> ring

/-- the Fourier factor that moves a source by (dx, dy) whole pixels -/
noncomputable def shiftPhase (N dx dy : ℕ) : FImg ℝ := fun v u =>
  Cx.cis (-(2 * π * rfreq N u * dx) - 2 * π * ffreq N v * dy)

/-- the phase of a shifted source times the synthesis kernel is the synthesis kernel at the
shifted pixel (the negative-frequency rows differ by a whole number of turns) -/
theorem shift_kernel (N dx dy r c v u : ℕ) (hN : 0 < N) (hv : v < N) (hr : dy ≤ r) (hc : dx ≤ c) :
    Cx.mul (shiftPhase N dx dy v u) (Cx.cis (ang N (v * r + u * c)))
      = Cx.cis (ang N (v * (r - dy) + u * (c - dx))) := by
  have hNr : (N : ℝ) ≠ 0 := by exact_mod_cast hN.ne'
  rw [shiftPhase, cis_add]
  simp only [ang, rfreq, ffreq, two_real, Transc.pi_real]
  have hcast : ((v * (r - dy) + u * (c - dx) : ℕ) : ℝ) = v * ((r : ℝ) - dy) + u * ((c : ℝ) - dx) := by
    push_cast [Nat.cast_sub hr, Nat.cast_sub hc]; ring
  rw [hcast]
  split
  · congr 1
    push_cast
    field_simp
    ring
  · conv_rhs => rw [← cis_add_nat_mul_two_pi _ dy]
    congr 1
    have hvN : ((N - v : ℕ) : ℝ) = (N : ℝ) - v := by rw [Nat.cast_sub hv.le]
    rw [hvN]
    push_cast
    field_simp
    ring

/-- **multiplying the half-plane transform by the whole-pixel phase shifts the synthesised
image by exactly those pixels** (on the part of the frame that does not wrap) -/
theorem synth_shift (N dx dy r c : ℕ) (hN : 0 < N) (G : FImg ℝ) (hr : dy ≤ r) (hc : dx ≤ c) :
    synth N (fmul G (shiftPhase N dx dy)) r c = synth N G (r - dy) (c - dx) := by
  simp only [synth, sumN_real]
  congr 1
  apply Finset.sum_congr rfl; intro u _
  congr 1
  apply Finset.sum_congr rfl; intro v hv
  have hv' : v < N := Finset.mem_range.mp hv
  simp only [fmul]
  rw [Cx.mul_assoc', shift_kernel N dx dy r c v u hN hv' hr hc]

/-- a Fourier point source moved by whole pixels is the original times the phase factor -/
theorem pointF_shift (N dx dy : ℕ) (xc yc flux : ℝ) :
    pointF N (xc + dx) (yc + dy) flux = fmul (pointF N xc yc flux) (shiftPhase N dx dy) := by
  funext v u
  simp only [pointF, pointFourier, fmul, shiftPhase, two_real, Transc.pi_real]
  apply Cx.ext'
  · simp only [Cx.smul_re, Cx.mul_re, Cx.smul_im, Cx.cis, Transc.cos_real, Transc.sin_real]
    rw [show -(2 * π * rfreq N u * (xc + dx)) - 2 * π * ffreq N v * (yc + dy)
        = (-(2 * π * rfreq N u * xc) - 2 * π * ffreq N v * yc)
          + (-(2 * π * rfreq N u * dx) - 2 * π * ffreq N v * dy) by ring, Real.cos_add]
    ring
  · simp only [Cx.smul_re, Cx.mul_im, Cx.smul_im, Cx.cis, Transc.cos_real, Transc.sin_real]
    rw [show -(2 * π * rfreq N u * (xc + dx)) - 2 * π * ffreq N v * (yc + dy)
        = (-(2 * π * rfreq N u * xc) - 2 * π * ffreq N v * yc)
          + (-(2 * π * rfreq N u * dx) - 2 * π * ffreq N v * dy) by ring, Real.sin_add]
    ring

/-- a Fourier-space Gaussian component moved by whole pixels is the original times the phase factor -/
theorem gaussFourierTerm_shift (N dx dy v u : ℕ) (xc yc θ : ℝ) (g : GComp ℝ) :
    gaussFourierTerm (rfreq N u) (ffreq N v) (xc + dx) (yc + dy) θ g
      = Cx.mul (gaussFourierTerm (rfreq N u) (ffreq N v) xc yc θ g) (shiftPhase N dx dy v u) := by
  simp only [gaussFourierTerm, shiftPhase, two_real, Transc.pi_real, Transc.cos_real, Transc.sin_real]
  apply Cx.ext'
  · simp only [Cx.smul_re, Cx.mul_re, Cx.smul_im, Cx.cis, Cx.expc, Transc.cos_real, Transc.sin_real, Transc.exp_real]
    rw [show -(2 * π * rfreq N u * (xc + dx)) - 2 * π * ffreq N v * (yc + dy)
        = (-(2 * π * rfreq N u * xc) - 2 * π * ffreq N v * yc)
          + (-(2 * π * rfreq N u * dx) - 2 * π * ffreq N v * dy) by ring, Real.cos_add]
    ring
  · simp only [Cx.smul_re, Cx.mul_im, Cx.smul_im, Cx.cis, Cx.expc, Transc.cos_real, Transc.sin_real, Transc.exp_real]
    rw [show -(2 * π * rfreq N u * (xc + dx)) - 2 * π * ffreq N v * (yc + dy)
        = (-(2 * π * rfreq N u * xc) - 2 * π * ffreq N v * yc)
          + (-(2 * π * rfreq N u * dx) - 2 * π * ffreq N v * dy) by ring, Real.sin_add]
    ring

theorem sumCx_map_mul_right (s : Cx ℝ) (l : List (Cx ℝ)) : sumCx (l.map fun x => Cx.mul x s) = Cx.mul (sumCx l) s := by
  induction l with
  | nil => simp [sumCx, Cx.zero_mul]
  | cons a t ih => simp only [List.map_cons, sumCx, ih, Cx.mul_add_left]

/-- the Fourier-space part of a Sersic source moved by whole pixels -/
theorem fourierSersicF_shift (N dx dy : ℕ) (comps : List (GComp ℝ)) (xc yc flux rEff n ellip θ : ℝ) :
    fourierSersicF N comps ⟨xc + dx, yc + dy, flux, rEff, n, ellip, θ⟩
      = fmul (fourierSersicF N comps ⟨xc, yc, flux, rEff, n, ellip, θ⟩) (shiftPhase N dx dy) := by
  funext v u
  simp only [fourierSersicF, gaussFourier, fmul]
  rw [← sumCx_map_mul_right, List.map_map]
  congr 1
  apply List.map_congr_left
  intro g _
  exact gaussFourierTerm_shift N dx dy v u xc yc θ g

/-- **whole-pixel translation, Fourier-space part of the scene**: moving the source by
(dx, dy) pixels moves the PSF-convolved image by the same pixels, exactly, for every PSF -/
theorem convFft_shift (N dx dy r c : ℕ) (hN : 0 < N) (P F : FImg ℝ) (hr : dy ≤ r) (hc : dx ≤ c) :
    convFft N P (fmul F (shiftPhase N dx dy)) r c = convFft N P F (r - dy) (c - dx) := by
  simp only [convFft]
  have : fmul (fmul F (shiftPhase N dx dy)) P = fmul (fmul F P) (shiftPhase N dx dy) := by
    funext v u
    simp only [fmul]
    rw [Cx.mul_assoc', Cx.mul_comm' (shiftPhase N dx dy v u), ← Cx.mul_assoc']
  rw [this, synth_shift N dx dy r c hN _ hr hc]

/-- point source, Fourier and hybrid renderers -/
theorem pointsource_translate (N dx dy r c : ℕ) (hN : 0 < N) (P : FImg ℝ) (xc yc flux : ℝ)
    (hr : dy ≤ r) (hc : dx ≤ c) :
    convFft N P (pointF N (xc + dx) (yc + dy) flux) r c = convFft N P (pointF N xc yc flux) (r - dy) (c - dx) := by
  rw [pointF_shift, convFft_shift N dx dy r c hN P _ hr hc]

/-- Sersic source, Fourier-space components (all of them for the Fourier renderer, the
`n_sigma − num_pixel_render` narrowest for the hybrid renderer) -/
theorem sersic_fourier_translate (N dx dy r c : ℕ) (hN : 0 < N) (P : FImg ℝ) (comps : List (GComp ℝ))
    (xc yc flux rEff n ellip θ : ℝ) (hr : dy ≤ r) (hc : dx ≤ c) :
    convFft N P (fourierSersicF N comps ⟨xc + dx, yc + dy, flux, rEff, n, ellip, θ⟩) r c
      = convFft N P (fourierSersicF N comps ⟨xc, yc, flux, rEff, n, ellip, θ⟩) (r - dy) (c - dx) := by
  rw [fourierSersicF_shift, convFft_shift N dx dy r c hN P _ hr hc]

/-- the real-space components of the hybrid renderer shift exactly as well -/
theorem gaussPixelTerm_translate (X Y xc yc θ dx dy : ℝ) (g : GComp ℝ) :
    gaussPixelTerm X Y (xc + dx) (yc + dy) θ g = gaussPixelTerm (X - dx) (Y - dy) xc yc θ g := by
  simp only [gaussPixelTerm]
  ring_nf

end Pysersic.Props.C09
