/-
C05 — The posterior density is prior × likelihood of (rendered sources + sky).

The fitter model (Prob/Fitter.lean) mirrors `FitSingle/FitMulti.build_model`: prior
latents sampled in unit scale (TransformReparam) and exposed as loc + scale·base, the
image `render(exposed source parameters) + sky(exposed sky parameters)` recorded as
`model` and handed to the loss together with data, rms (σ, not σ²; 1 at masked pixels)
and the good-pixel mask.

Proved (ℝ):
* the joint log-density is the sum of one prior term per prior entry, the loss's own
  nuisance priors and the per-pixel likelihood of the unmasked pixels — nothing else;
* in the user-facing parameters it equals Σ log prior_i(x_i) + log-likelihood(render(x) + sky(x))
  up to the constant Σ log scale_i (C11), i.e. the posterior over the user-facing
  parameters is prior × likelihood;
* the likelihood depends on the latents only through the exposed dictionary, and on
  data/rms only at unmasked pixels (C06); rms enters as σ (C07);
* the latent sites are exactly `name_base` for the prior's entries plus the loss's
  nuisance latents, every exposed parameter appears under its own name, one likelihood
  site, the model image is recorded under `model ++ suffix` when requested;
* suffix stripping in `render_source` is the identity for the empty suffix; a decidable
  predicate says for which suffixes it recovers the parameter names, with a
  counter-example (`_e`).
-/
import Props.C11
import Props.C06
import Props.C07
import PysersicModel.Prob.Fitter
import Std.Data.String.ToNat

namespace Pysersic.Props.C05
open Pysersic Pysersic.Prob Pysersic.Render Real

variable (K : LossConstsQ)

/-! ### the joint density -/

/-- the joint log-density is exactly: prior terms + nuisance priors + masked likelihood terms -/
theorem joint_is_sum (entries : List (String × Prob.Dist ℝ)) (loss : LossKind) (z : String → ℝ) (nu : Nuis ℝ)
    (pixels : List (Pix ℝ)) :
    logJoint K entries loss z nu pixels
      = Render.sumList (entries.map fun kv => kv.2.baseOf.logProb (z kv.1))
        + nuisanceLogPrior K loss nu
        + Prob.sumList ((pixels.map fun p => if p.good then lossPixel K loss nu (meanRms K pixels) p else 0)) := by
  simp [logJoint, logPriorBase, lossLogLik, lossTerms, zero_real]

/-- a prior entry built by the helpers -/
structure AffineEntry where
  name : String
  base : Prob.Dist ℝ
  loc : ℝ
  scale : ℝ

def AffineEntry.toEntry (e : AffineEntry) : String × Prob.Dist ℝ := (e.name, .affine e.base e.loc e.scale)

/-- **posterior = prior × likelihood in the user-facing parameters**: with x_i = loc_i + scale_i·z_i,
the joint log-density equals Σ log prior_i(x_i) + Σ log scale_i + nuisance priors + log-likelihood —
the re-parameterisation contributes the constant Σ log scale_i only -/
theorem joint_in_user_units (es : List AffineEntry) (hs : ∀ e ∈ es, e.scale ≠ 0) (loss : LossKind) (z : String → ℝ)
    (nu : Nuis ℝ) (pixels : List (Pix ℝ)) :
    logJoint K (es.map AffineEntry.toEntry) loss z nu pixels
      = Render.sumList (es.map fun e => (Prob.Dist.affine e.base e.loc e.scale).logProb (e.loc + e.scale * z e.name))
        + Render.sumList (es.map fun e => Real.log e.scale)
        + nuisanceLogPrior K loss nu + lossLogLik K loss nu pixels := by
  have hp : logPriorBase (es.map AffineEntry.toEntry) z
      = Render.sumList (es.map fun e => (Prob.Dist.affine e.base e.loc e.scale).logProb (e.loc + e.scale * z e.name))
        + Render.sumList (es.map fun e => Real.log e.scale) := by
    induction es with
    | nil => simp [logPriorBase, Render.sumList]
    | cons e t ih =>
      have h1 := hs e (by simp)
      have h2 : ∀ e' ∈ t, e'.scale ≠ 0 := fun e' he' => hs e' (by simp [he'])
      have hj := C11.reparam_constant_jacobian e.base e.loc e.scale (z e.name) h1
      simp only [Dist.fromBase, Dist.baseOf] at hj
      simp only [logPriorBase, List.map_cons, Render.sumList, AffineEntry.toEntry, Dist.baseOf] at ih ⊢
      rw [ih h2, hj]
      ring
  simp only [logJoint, hp]

/-- the likelihood sees the latents only through the exposed dictionary: equal exposed values give
equal model images, hence equal likelihoods -/
theorem likelihood_through_exposed (R : Renderer ℝ) (ptype suffix : String) (sky : SkyType)
    (entries : List (String × Prob.Dist ℝ)) (z z' : String → ℝ)
    (h : exposedDict entries z = exposedDict entries z') :
    singleModelImage R ptype suffix sky (exposedDict entries z) = singleModelImage R ptype suffix sky (exposedDict entries z') := by
  rw [h]

/-- every prior entry is exposed under its own name with the value loc + scale·base -/
theorem exposed_names (entries : List (String × Prob.Dist ℝ)) (z : String → ℝ) :
    (exposedDict entries z).map Prod.fst = entries.map Prod.fst := by
  simp [exposedDict]

/-- rms enters as the per-pixel σ of the Gaussian (not σ²) -/
theorem rms_is_sigma (nu : Nuis ℝ) (mr : ℝ) (p : Pix ℝ) (hr : 0 < p.r) :
    lossPixel K .gaussian nu mr p = -(p.d - p.m) ^ 2 / (2 * p.r ^ 2) - Real.log p.r - Real.log (2 * π) / 2 :=
  Pysersic.Props.C07.gaussian_doc K nu mr p hr

/-! ### sites -/

theorem filter_const_kind {β : Type} (l : List β) (f : β → String) (k k' : SiteKind) :
    (l.map fun b => (f b, k)).filter (fun s => s.2 == k') = if k = k' then l.map fun b => (f b, k) else [] := by
  induction l with
  | nil => simp
  | cons a t ih =>
    by_cases h : k = k'
    · simp only [h, if_true] at ih ⊢
      simp [ih]
    · simp only [h, if_false] at ih ⊢
      simp [List.filter_cons, h, ih]

theorem priorSites_filter (l : List (String × Prob.Dist ℝ)) (k : SiteKind) :
    (priorSites l).filter (fun s => s.2 == k)
      = if k = SiteKind.latent then l.map (fun kv => (kv.1 ++ "_base", SiteKind.latent))
        else if k = SiteKind.deterministic then l.map (fun kv => (kv.1, SiteKind.deterministic)) else [] := by
  induction l with
  | nil => cases k <;> simp [priorSites]
  | cons a t ih =>
    simp only [priorSites, List.flatMap_cons] at ih ⊢
    rw [List.filter_append, ih]
    cases k <;> simp

/-- latent sites of the fitter model: `name_base` for every prior entry, then the loss's nuisance latents -/
theorem latent_sites (entries : List (String × Prob.Dist ℝ)) (loss : LossKind) (suffix : String) (rm : Bool) :
    ((fitterSites K entries loss suffix rm).filter fun s => s.2 == SiteKind.latent).map Prod.fst
      = entries.map (fun kv => kv.1 ++ "_base") ++ (nuisanceSites (α := ℝ) K loss).map (fun kv => kv.1 ++ suffix) := by
  simp only [fitterSites, List.filter_append, priorSites_filter, filter_const_kind, if_true]
  cases rm <;> simp [List.map_map] <;> constructor <;> rfl

/-- exactly one observed (likelihood) site -/
theorem one_likelihood_site (entries : List (String × Prob.Dist ℝ)) (loss : LossKind) (suffix : String) (rm : Bool) :
    ((fitterSites K entries loss suffix rm).filter fun s => s.2 == SiteKind.observed)
      = [((likelihoodSite loss).1 ++ suffix, SiteKind.observed)] := by
  simp only [fitterSites, List.filter_append, priorSites_filter, filter_const_kind]
  cases rm <;> simp

/-- the model image is recorded under `model ++ suffix` exactly when requested -/
theorem model_site (entries : List (String × Prob.Dist ℝ)) (loss : LossKind) (suffix : String) :
    ("model" ++ suffix, SiteKind.deterministic) ∈ fitterSites K entries loss suffix true := by
  simp [fitterSites]


/-! ### multi-source keys: no site feeds two sources -/

/-- a string is split uniquely at its first underscore -/
theorem split_first_underscore (a b x y : List Char) (ha : '_' ∉ a) (hb : '_' ∉ b)
    (h : a ++ '_' :: x = b ++ '_' :: y) : a = b ∧ x = y := by
  induction a generalizing b with
  | nil =>
    cases b with
    | nil => simpa using h
    | cons c b' =>
      simp only [List.nil_append, List.cons_append, List.cons.injEq] at h
      exact absurd h.1.symm (fun e => hb (by simp [e]))
  | cons c a' ih =>
    cases b with
    | nil =>
      simp only [List.nil_append, List.cons_append, List.cons.injEq] at h
      exact absurd h.1 (fun e => ha (by simp [e]))
    | cons c' b' =>
      simp only [List.cons_append, List.cons.injEq] at h
      have ha' : '_' ∉ a' := fun e => ha (by simp [e])
      have hb' : '_' ∉ b' := fun e => hb (by simp [e])
      obtain ⟨e1, e2⟩ := ih b' ha' hb' h.2
      exact ⟨by rw [h.1, e1], e2⟩

/-- decimal numerals contain no underscore -/
theorem no_underscore_in_repr (j : ℕ) : '_' ∉ (Nat.repr j).toList := by
  intro h
  have hd : ('_' : Char).isDigit = true := by
    apply Nat.isDigit_of_mem_toDigits (b := 10) (n := j) (by decide) (by decide)
    simpa [Nat.repr] using h
  exact absurd hd (by decide)

/-- **the key `p_j<suffix>` read by `render_for_model` determines both the parameter and the source**:
for any parameter names p, p' (underscores allowed), source indices j, j' and one suffix,
p ++ "_" ++ j ++ suffix = p' ++ "_" ++ j' ++ suffix implies p = p' and j = j' — no site feeds two sources -/
theorem multi_key_injective (p p' suffix : String) (j j' : ℕ)
    (h : p ++ "_" ++ toString j ++ suffix = p' ++ "_" ++ toString j' ++ suffix) : p = p' ∧ j = j' := by
  have h1 := congrArg String.toList h
  simp only [String.toList_append, List.append_left_inj] at h1
  -- reverse: digits first, then the underscore, then the reversed parameter name
  have h2 := congrArg List.reverse h1
  simp only [List.reverse_append] at h2
  have hj : (toString j).toList = (Nat.repr j).toList := rfl
  have hj' : (toString j').toList = (Nat.repr j').toList := rfl
  have hu : ("_" : String).toList = ['_'] := rfl
  rw [hj, hj', hu] at h2
  simp only [List.reverse_cons, List.reverse_nil, List.nil_append, List.append_assoc, List.singleton_append] at h2
  have := split_first_underscore _ _ _ _
    (by simpa using no_underscore_in_repr j) (by simpa using no_underscore_in_repr j') h2
  obtain ⟨e1, e2⟩ := this
  have e1' : (Nat.repr j).toList = (Nat.repr j').toList := List.reverse_injective e1
  have e2' : p.toList = p'.toList := List.reverse_injective e2
  exact ⟨String.toList_injective e2', Nat.repr_injective (String.toList_injective e1')⟩

/-! ### suffix stripping -/

/-- `k.replace("", "")` leaves every key unchanged -/
theorem stripSuffix_empty (d : PDict ℝ) : stripSuffix "" d = d := by
  simp only [stripSuffix, Names.pyReplace]
  have : ∀ kv : String × ℝ, (Names.toString ([] ++ kv.1.toList.flatMap fun c => [c]), kv.2) = kv := by
    intro kv
    have : (kv.1.toList.flatMap fun c => [c]) = kv.1.toList := by
      induction kv.1.toList with
      | nil => rfl
      | cons a t ih => simp [List.flatMap_cons, ih]
    simp [this, Names.toString]
  simpa using List.map_congr_left (fun kv _ => this kv) |>.trans (List.map_id _)

/-- does stripping the suffix recover every parameter name of every profile type? -/
def suffixSafe (suffix : String) : Bool :=
  Gen.profileParamsRender.all fun kv => kv.2.all fun p =>
    Names.toString (Names.pyReplace (p ++ suffix).toList suffix.toList []) == p

/-- the suffixes used by the multi-band fitter's defaults and typical band names are safe … -/
example : suffixSafe "_a" = true ∧ suffixSafe "_7" = true ∧ suffixSafe "_F444W" = true ∧ suffixSafe "_Band_0" = true := by decide

/-- … `_e` is not: `r_eff_e` is stripped to `rff` (the suffix also occurs inside the name) -/
example : suffixSafe "_e" = false ∧
    Names.toString (Names.pyReplace "r_eff_e".toList "_e".toList []) = "rff" := by decide

end Pysersic.Props.C05
