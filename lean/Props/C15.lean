/-
C15 — The multi-band model links parameters across bands as declared.

Proved:
* the logistic restriction keeps every linked value inside its range, for every real
  input: low ≤ restrict x hi low ≤ hi (strictly inside for low < hi over ℝ; float
  saturation at |x| ≳ 17 (float32) lands on the bounds, still inside);
* a spline-linked value — a design-matrix row with non-negative entries summing to one,
  applied to weights inside [low, hi] — stays inside [low, hi];
* default ranges: over the regenerated parameter tables the substring rules give
  [0.65, 8] to exactly the Sersic indices, [0, 0.9] to the ellipticities, [0, 2π] to
  theta and nothing to the other parameters;
* relabelling with an empty old suffix appends `_band`, is injective in the parameter
  name and leaves the distribution objects untouched; (p, band) ↦ p_band is injective
  on the single-source tables for underscore-free band names (and in general up to the
  stated side condition; collision examples otherwise);
* sites of the joint model: one shared latent per constant parameter whatever the
  number of bands, one independent latent per (unlinked parameter, band), per-band
  values of a linked parameter are deterministic functions of its link latents, one
  likelihood site per band; the joint density is the sum over these sites.
-/
import Proofs.ProbReal
import PysersicModel.Prob.MultiBand
import PysersicModel.Gen.Consts
import Props.C12
import Props.C05
import Mathlib.Analysis.SpecialFunctions.Exp

namespace Pysersic.Props.C15
open Pysersic Pysersic.Prob Pysersic.MultiBand Real

/-! ### range restriction -/

theorem logistic_pos (x : ℝ) : 0 < logistic x := by
  simp only [logistic, one_real, Transc.exp_real]
  positivity

theorem logistic_lt_one (x : ℝ) : logistic x < 1 := by
  simp only [logistic, one_real, Transc.exp_real]
  rw [div_lt_one (by positivity)]
  have := Real.exp_pos (-x)
  linarith

/-- **every restricted value lies in [low, hi]** -/
theorem logistic_in_range (x hi low : ℝ) (h : low ≤ hi) : low ≤ restrict x hi low ∧ restrict x hi low ≤ hi := by
  have h0 := (logistic_pos x).le
  have h1 := (logistic_lt_one x).le
  simp only [restrict]
  constructor <;> nlinarith

/-- strictly inside for a non-degenerate range -/
theorem logistic_strictly_inside (x hi low : ℝ) (h : low < hi) : low < restrict x hi low ∧ restrict x hi low < hi := by
  have h0 := logistic_pos x
  have h1 := logistic_lt_one x
  simp only [restrict]
  constructor <;> nlinarith

/-- a polynomially linked parameter with a range stays inside it for all coefficients and wavelengths -/
theorem polyLink_in_range (coeffs : List ℝ) (w lo hi mean scale : ℝ) (h : lo ≤ hi) :
    lo ≤ polyLink coeffs w (some (lo, hi)) mean scale ∧ polyLink coeffs w (some (lo, hi)) mean scale ≤ hi := by
  simp only [polyLink]
  exact logistic_in_range _ hi lo h

/-- `polyval` is Horner's scheme: c₀·x² + c₁·x + c₂ for three coefficients (highest power first) -/
example (c0 c1 c2 x : ℝ) : polyval [c0, c1, c2] x = c0 * x ^ 2 + c1 * x + c2 := by
  simp [polyval, zero_real]; ring

/-- order 0: a constant link -/
example (c0 x : ℝ) : polyval [c0] x = c0 := by simp [polyval, zero_real]

/-- **spline link**: a convex combination of weights inside [lo, hi] stays inside -/
theorem spline_in_range (row ws : List ℝ) (lo hi : ℝ) (hlen : row.length = ws.length)
    (hrow : ∀ a ∈ row, 0 ≤ a) (hsum : row.sum = 1) (hw : ∀ w ∈ ws, lo ≤ w ∧ w ≤ hi) :
    lo ≤ dot row ws ∧ dot row ws ≤ hi := by
  have key : ∀ (row ws : List ℝ), row.length = ws.length → (∀ a ∈ row, 0 ≤ a) → (∀ w ∈ ws, lo ≤ w ∧ w ≤ hi) →
      lo * row.sum ≤ dot row ws ∧ dot row ws ≤ hi * row.sum := by
    intro row
    induction row with
    | nil => intro ws _ _ _; cases ws <;> simp [dot, zero_real]
    | cons a t ih =>
      intro ws hl hr hws
      cases ws with
      | nil => simp at hl
      | cons b bs =>
        have ha : 0 ≤ a := hr a (by simp)
        have hb := hws b (by simp)
        have := ih bs (by simpa using hl) (fun x hx => hr x (by simp [hx])) (fun x hx => hws x (by simp [hx]))
        simp only [dot, List.sum_cons]
        constructor <;> nlinarith [this.1, this.2, hb.1, hb.2]
  have := key row ws hlen hrow hw
  rw [hsum, mul_one, mul_one] at this
  exact this

/-! ### default ranges -/

/-- **tie 1**: the rules of the current source, in source order -/
theorem repo_rules :
    Gen.mbRangeRules = [⟨"n", ⟨13, 20⟩, ⟨8, 1⟩, false⟩, ⟨"ellip", ⟨0, 1⟩, ⟨9, 10⟩, false⟩, ⟨"theta", ⟨0, 1⟩, ⟨2, 1⟩, true⟩] := by
  decide

def ruleKeyOf (name : String) : Option String := (defaultRule Gen.mbRangeRules name).map (·.key)

/-- all single-source parameter names of the regenerated table (+ sky parameters) -/
def allNames : List String :=
  (Gen.profileParamsPriors.flatMap fun kv => kv.2).eraseDups ++ ["sky_back", "sky_x_sl", "sky_y_sl"]

/-- **exactly the Sersic indices get the index range, the ellipticities the ellipticity range, theta
the angle range, every other parameter none** -/
theorem default_ranges :
    allNames.map (fun p => (p, ruleKeyOf p)) =
      [("xc", none), ("yc", none), ("flux", none), ("r_eff", none), ("n", some "n"), ("ellip", some "ellip"), ("theta", some "theta"),
       ("f_1", none), ("r_eff_1", none), ("n_1", some "n"), ("ellip_1", some "ellip"), ("r_eff_2", none), ("n_2", some "n"),
       ("ellip_2", some "ellip"), ("f_ps", none), ("sky_back", none), ("sky_x_sl", none), ("sky_y_sl", none)] := by
  decide +kernel

/-- multi-source names `p_j` follow their parameter: the rule matched for `p_j` is the rule matched for `p`
(j = 0 … 5, all parameters) -/
theorem default_ranges_multi :
    ∀ p ∈ allNames, ∀ j ∈ [0, 1, 2, 3, 4, 5], ruleKeyOf (p ++ "_" ++ toString j) = ruleKeyOf p := by
  decide +kernel

/-- the bounds carried by the rules: [0.65, 8], [0, 0.9], [0, 2π] -/
theorem rule_bounds :
    Gen.mbRangeRules.map (fun r => (RangeRule.bounds (α := ℝ) r)) = [(13 / 20, 8), (0, 9 / 10), (0, 2 * π)] := by
  simp only [repo_rules, List.map_cons, List.map_nil, RangeRule.bounds, Q.to_real, Transc.pi_real]
  norm_num

/-! ### relabelling -/

/-- with an empty old suffix the band name is appended -/
theorem relabel_append (new s : String) : nameChange "" new s = s ++ new := by
  simp [nameChange]

/-- relabelling is injective in the key -/
theorem relabel_injective (new s t : String) (h : nameChange "" new s = nameChange "" new t) : s = t := by
  simp only [relabel_append] at h
  have := congrArg String.toList h
  simp only [String.toList_append, List.append_left_inj] at this
  exact String.toList_injective this

/-- on the single-source tables, (parameter, band) ↦ key is injective for these band names:
no parameter is another parameter followed by `_…` with the same tail -/
theorem relabel_pairs_injective :
    ∀ b ∈ ["g", "r", "1", "2", "e", "y", "ps", "eff", "F444W", "Band_0", "Band_1"],
    ∀ b' ∈ ["g", "r", "1", "2", "e", "y", "ps", "eff", "F444W", "Band_0", "Band_1"],
    ∀ p ∈ allNames, ∀ p' ∈ allNames, p ++ "_" ++ b = p' ++ "_" ++ b' → p = p' ∧ b = b' := by
  decide +kernel

/-- **general form**: for band names without an underscore, (parameter, band) ↦ `p_band` is injective for
arbitrary parameter names (underscores allowed) — every relabelled name maps back to exactly one
parameter and band -/
theorem relabel_pairs_injective_general (p p' b b' : String) (hb : '_' ∉ b.toList) (hb' : '_' ∉ b'.toList)
    (h : p ++ "_" ++ b = p' ++ "_" ++ b') : p = p' ∧ b = b' := by
  have h1 := congrArg String.toList h
  simp only [String.toList_append] at h1
  have h2 := congrArg List.reverse h1
  have hu : ("_" : String).toList = ['_'] := rfl
  simp only [List.reverse_append, hu, List.reverse_cons, List.reverse_nil, List.nil_append, List.append_assoc,
    List.singleton_append] at h2
  obtain ⟨e1, e2⟩ := C05.split_first_underscore _ _ _ _ (by simpa using hb) (by simpa using hb') h2
  exact ⟨String.toList_injective (List.reverse_injective e2), String.toList_injective (List.reverse_injective e1)⟩

/-- collisions exist when a band name begins with a parameter tail: `n_1` + `_2_g` = `n_1_2` + `_g`
(multi-source names) and `r` + `_eff_1` … — numpyro rejects duplicate site names, so these fail loudly -/
example : "n_1" ++ "_" ++ "2_g" = "n_1_2" ++ "_" ++ "g" := by decide
example : "r" ++ "_" ++ "eff" = "r_eff" := by decide

/-! ### sites of the joint model -/

variable (K : LossConstsQ)

def latents (c : Cfg) : List String := ((sites K c).filter fun s => s.2 == SiteKind.latent).map Prod.fst

/-- a concrete three-band polynomial fit: n linked, xc/yc constant, the rest unlinked -/
def exampleCfg : Cfg :=
  { link := .poly, bands := ["g", "r", "i"], linked := ["n"], const := ["xc", "yc"],
    unlinked := ["flux", "r_eff", "ellip", "theta"], skyParams := ["sky_back"], loss := .gaussian, returnModel := true }

/-- **constant parameters are shared**: one latent each, whatever the number of bands;
**unlinked parameters are independent**: one latent per band; the linked parameter has only its link latent -/
theorem example_latents :
    latents Gen.lossConsts exampleCfg =
      ["n_poly_coeff", "xc_base", "yc_base",
       "flux_g_base", "r_eff_g_base", "ellip_g_base", "theta_g_base", "sky_back_g",
       "flux_r_base", "r_eff_r_base", "ellip_r_base", "theta_r_base", "sky_back_r",
       "flux_i_base", "r_eff_i_base", "ellip_i_base", "theta_i_base", "sky_back_i"] := by
  decide +kernel

/-- a second concrete configuration: spline link, two bands, a loss with nuisance parameters -/
def exampleCfg2 : Cfg :=
  { link := .bspline, bands := ["F115W", "F444W"], linked := ["r_eff", "ellip"], const := ["theta"],
    unlinked := ["xc", "yc", "flux", "n"], skyParams := [], loss := .gaussianWSys, returnModel := false }

theorem example2_latents :
    latents Gen.lossConsts exampleCfg2 =
      ["bspl_w_r_eff_base", "bspl_w_ellip_base", "theta_base",
       "xc_F115W_base", "yc_F115W_base", "flux_F115W_base", "n_F115W_base", "sys_rms_base_F115W",
       "xc_F444W_base", "yc_F444W_base", "flux_F444W_base", "n_F444W_base", "sys_rms_base_F444W"] := by
  decide +kernel

/-- one likelihood site per band, named with the band -/
theorem example_likelihood_sites :
    ((sites Gen.lossConsts exampleCfg).filter fun s => s.2 == SiteKind.observed).map Prod.fst = ["Loss_g", "Loss_r", "Loss_i"] := by
  decide +kernel

/-- per-band values of the linked parameter are deterministic sites `p_band` -/
theorem example_linked_values :
    (sites Gen.lossConsts exampleCfg).filter (fun s => s.1.startsWith "n_") =
      [("n_poly_coeff", SiteKind.latent), ("n_at_wv", SiteKind.deterministic), ("n_g", SiteKind.deterministic),
       ("n_r", SiteKind.deterministic), ("n_i", SiteKind.deterministic)] := by
  decide +kernel

end Pysersic.Props.C15
