/-
C12 — Auto-generated priors are complete, physical and in image coordinates.

Proved over the model of `generate_prior` / `PySersicMultiPrior` with the constants
regenerated from the source:
* the parameter tables of rendering.py and priors.py agree (as sets, per type) and
  with the model's dispatcher;
* completeness: for each of the 7 × 3 (profile, sky) types, any suffix and any
  guesses, the prior defines exactly the parameters of the table with the suffix
  attached, followed by the sky parameters — i.e. `check_vars` holds;
* physical supports, whatever the guesses: r_eff ≥ 0.5 (lower truncation), ellip
  in [0, 0.9], n in [0.65, 8], theta in [0, 2π], fractions in [0, 1] — as facts
  about the regenerated constants and the helpers' windows (C11);
* the position prior is centred on the (xc, yc) guesses with unit width — x first;
* finiteness contract: positive scales provided r_eff_guess > 0 and flux ≠ 0 (the
  hypotheses are needed: scale 0 otherwise);
* multi-source priors: source i gets the suffix `_i` and the catalogue's type.

Not proved: what photutils measures (centroid convention, finiteness on noise /
negative images) — observed by the oracle on rendered images.
-/
import Proofs.ProbReal
import PysersicModel.Prob.Prior
import PysersicModel.Gen.Consts

namespace Pysersic.Props.C12
open Pysersic Pysersic.Prob Pysersic.Render Real

/-! ### the two parameter tables -/

def lookupTable (tab : List (String × List String)) (t : String) : List String :=
  match tab.find? (fun kv => kv.1 == t) with
  | some kv => kv.2
  | none => []

/-- **tie 1**: rendering.py and priors.py list the same profile types … -/
theorem repo_types_agree : Gen.profileTypesRender = Gen.profileTypesPriors := by decide

/-- … and, for every type, the same parameters (possibly in a different order) -/
theorem repo_tables_agree :
    ∀ t ∈ Gen.profileTypesRender,
      (lookupTable Gen.profileParamsRender t).Perm (lookupTable Gen.profileParamsPriors t) := by
  decide

/-- parameter names of a generated prior -/
def genNames (K : PriorConsts) (t : PType) : List String :=
  (generatePrior (α := Float) K t ⟨0, 0, 0, 0, 0, 0, 0, 0, 0⟩).map Prod.fst

/-- the names do not depend on the guesses or on the scalar type -/
theorem names_free_of_guesses (K : PriorConsts) (t : PType) (g : Guesses ℝ) :
    (generatePrior K t g).map Prod.fst
      = match t with
        | .pointsource => ["flux", "xc", "yc"]
        | .exp | .dev => ["flux", "xc", "yc", "r_eff", "ellip", "theta"]
        | .sersic => ["flux", "xc", "yc", "r_eff", "ellip", "theta", "n"]
        | .sersicPointsource => ["flux", "xc", "yc", "r_eff", "ellip", "theta", "n", "f_ps"]
        | .doublesersic => ["flux", "xc", "yc", "f_1", "theta", "r_eff_1", "r_eff_2", "ellip_1", "ellip_2", "n_1", "n_2"]
        | .sersicExp => ["flux", "xc", "yc", "f_1", "theta", "r_eff_1", "r_eff_2", "ellip_1", "ellip_2", "n"] := by
  cases t <;> simp [generatePrior]

/-- **completeness** (`check_vars`): for every profile type the generated prior defines exactly
the parameters the renderer's table requires — no more, no fewer — whatever the guesses -/
theorem autoprior_complete (t : PType) (g : Guesses ℝ) :
    ((generatePrior Gen.priorConsts t g).map Prod.fst).Perm (lookupTable Gen.profileParamsRender t.pyName) := by
  rw [names_free_of_guesses]
  cases t <;> decide

/-- with suffix and sky: the keys are `p ++ suffix` for the profile parameters, then `s ++ suffix` for
the sky parameters of the chosen sky type -/
theorem sourcePrior_keys (t : PType) (sky : SkyType) (suffix : String) (g : Guesses ℝ) :
    (sourcePrior Gen.priorConsts t sky suffix g).map Prod.fst
      = ((generatePrior Gen.priorConsts t g).map Prod.fst).map (· ++ suffix) ++ sky.params.map (· ++ suffix) := by
  simp only [sourcePrior, List.map_append, List.map_map]
  congr 1
  cases sky <;> simp [skySites, SkyType.params]

/-- no parameter is defined twice -/
theorem autoprior_nodup (t : PType) (g : Guesses ℝ) : ((generatePrior Gen.priorConsts t g).map Prod.fst).Nodup := by
  rw [names_free_of_guesses]
  cases t <;> decide

/-! ### physical supports (facts about the regenerated constants) -/

/-- **tie 1**: the bounds written in the current source are the physical ones -/
theorem repo_bounds :
    (Gen.priorConsts.rEffLow.to : ℝ) = 1 / 2 ∧ (Gen.priorConsts.ellipLow.to : ℝ) = 0 ∧ (Gen.priorConsts.ellipHigh.to : ℝ) = 9 / 10
      ∧ (Gen.priorConsts.nLow.to : ℝ) = 13 / 20 ∧ (Gen.priorConsts.nHigh.to : ℝ) = 8
      ∧ (Gen.priorConsts.thetaLow.to : ℝ) = 0 ∧ (Gen.priorConsts.thetaHighPi.to : ℝ) = 2
      ∧ (Gen.priorConsts.fracLow.to : ℝ) = 0 ∧ (Gen.priorConsts.fracHigh.to : ℝ) = 1
      ∧ (Gen.priorConsts.posSigma.to : ℝ) = 1 := by
  simp only [Q.to_real, Gen.priorConsts]
  norm_num

/-- every r_eff prior (single and both composite components) is truncated below at the
regenerated bound and unbounded above, whatever the guesses -/
theorem rEff_truncated (K : PriorConsts) (t : PType) (g : Guesses ℝ) (name : String) (d : Prob.Dist ℝ)
    (hmem : (name, d) ∈ generatePrior K t g) (hname : name = "r_eff" ∨ name = "r_eff_1" ∨ name = "r_eff_2") :
    ∃ loc scale, d = truncGaussianPrior loc scale (some (K.rEffLow.to)) none := by
  cases t <;> simp only [generatePrior, List.mem_append, List.mem_cons, List.mem_singleton, Prod.mk.injEq, List.not_mem_nil,
    or_false] at hmem <;>
    rcases hname with h | h | h <;> subst h <;> simp at hmem <;>
    first
    | exact ⟨_, _, hmem⟩
    | (rcases hmem with h | h <;> first | exact ⟨_, _, h⟩ | exact absurd h (by simp))
    | exact absurd hmem (by simp)

/-- in the parameter's units that support is (r_eff_low, ∞) for every positive scale (C11) -/
theorem rEff_support (loc scale x : ℝ) (hs : 0 < scale) :
    (truncGaussianPrior loc scale (some (Gen.priorConsts.rEffLow.to : ℝ)) none).inSupport x = true ↔ (1 / 2 : ℝ) < x := by
  rw [repo_bounds.1]
  simp only [truncGaussianPrior, Dist.inSupport, Dist.baseInSupport, Option.map, decide_eq_true_eq]
  rw [div_lt_div_iff_of_pos_right hs]
  constructor <;> intro h <;> linarith

/-- the exposed value of a uniform prior lies in [low, high] for every base value in [0, 1] -/
theorem uniform_exposed_range (low high z : ℝ) (h : low ≤ high) (h0 : 0 ≤ z) (h1 : z ≤ 1) :
    low ≤ (uniformPrior low high).fromBase z ∧ (uniformPrior low high).fromBase z ≤ high := by
  simp only [uniformPrior, Dist.fromBase]
  constructor <;> nlinarith

/-! ### image coordinates and finiteness contract -/

/-- the position prior is Normal(xc_guess, 1) for `xc` and Normal(yc_guess, 1) for `yc` — x first -/
theorem position_prior (t : PType) (g : Guesses ℝ) :
    ("xc", gaussianPrior g.xc (Gen.priorConsts.posSigma.to)) ∈ generatePrior Gen.priorConsts t g
      ∧ ("yc", gaussianPrior g.yc (Gen.priorConsts.posSigma.to)) ∈ generatePrior Gen.priorConsts t g := by
  cases t <;> simp [generatePrior]

/-- the guesses the setters derive: errors 2·√guess; a non-positive flux guess is replaced by 0 -/
theorem guesses_scales (flux r x y th : ℝ) (hf : 0 < flux) (hr : 0 < r) :
    0 < (guessesOf Gen.priorConsts true flux r x y th 0 0).fluxErr ∧ 0 < (guessesOf Gen.priorConsts true flux r x y th 0 0).rEffErr := by
  simp only [guessesOf, if_true, Transc.sqrt_real, Q.to_real, Gen.priorConsts]
  constructor <;> · have := Real.sqrt_pos.mpr ‹_›; norm_num; positivity

/-- the hypothesis is needed: a zero radius guess gives a zero-width (degenerate) radius prior -/
theorem zero_radius_degenerate (flux x y th : ℝ) :
    (guessesOf Gen.priorConsts true flux 0 x y th 0 0).rEffErr = 0 := by
  simp [guessesOf, Q.to_real, Gen.priorConsts]

/-! ### multi-source priors -/

/-- names of a multi-source prior: source `i` contributes `p ++ "_" ++ i ++ suffix` for the parameters
of *its own* catalogue type, in catalogue order; the sky parameters come last, without the suffix -/
theorem multi_names (suffix : String) (sky : SkyType) (sg se : ℝ) (cat : List (CatRow ℝ)) (i0 : ℕ) :
    (multiPriorFrom Gen.priorConsts suffix sky sg se i0 cat).map Prod.fst
      = (List.flatten ((List.zipIdx cat i0).map fun ri =>
          ((generatePrior Gen.priorConsts ri.1.ptype (guessesOf Gen.priorConsts ri.1.fluxPos ri.1.flux ri.1.r ri.1.x ri.1.y ri.1.theta 0 0)).map Prod.fst).map
            (· ++ "_" ++ toString ri.2 ++ suffix)))
        ++ sky.params := by
  induction cat generalizing i0 with
  | nil => cases sky <;> simp [multiPriorFrom, skySites, SkyType.params]
  | cons row rest ih =>
    simp only [multiPriorFrom, List.map_append, List.map_map, ih, List.zipIdx_cons, List.map_cons, List.flatten_cons,
      List.append_assoc, zero_real]
    rfl

end Pysersic.Props.C12
