/-
C08 — Rendering is linear in flux and additive over components and sources.

All statements are over ℝ, for every renderer kind, image size, PSF, option set
and every parameter value (no domain restriction: linearity is structural).
-/
import Proofs.RenderLinear
import PysersicModel.Gen.Consts

namespace Pysersic.Props.C08
open Pysersic Pysersic.Prob Pysersic.Render Real

/-! ### kernels -/

/-- the analytic Sersic profile is homogeneous of degree one in flux -/
theorem sersic2d_flux_smul (c : BnC) (X Y k : ℝ) (p : SersicP ℝ) :
    sersic2d c X Y { p with flux := k * p.flux } = k * sersic2d c X Y p := by
  simp only [sersic2d]
  ring

/-- scaling the amplitude of a Gaussian component -/
def scaleG (k : ℝ) (g : GComp ℝ) : GComp ℝ := ⟨k * g.amp, g.sigma, g.q⟩

theorem gaussPixelTerm_scale (X Y xc yc θ k : ℝ) (g : GComp ℝ) :
    gaussPixelTerm X Y xc yc θ (scaleG k g) = k * gaussPixelTerm X Y xc yc θ g := by
  simp only [gaussPixelTerm, scaleG]
  ring

theorem gaussFourierTerm_scale (FX FY xc yc θ k : ℝ) (g : GComp ℝ) :
    gaussFourierTerm FX FY xc yc θ (scaleG k g) = Cx.smul k (gaussFourierTerm FX FY xc yc θ g) := by
  apply Cx.ext' <;> simp only [gaussFourierTerm, scaleG, Cx.smul_re, Cx.smul_im] <;> ring

theorem sumList_map_mul (k : ℝ) (l : List ℝ) : Render.sumList (l.map (k * ·)) = k * Render.sumList l := by
  induction l with
  | nil => simp [Render.sumList]
  | cons a t ih => simp only [List.map_cons, Render.sumList, ih]; ring

theorem sumCx_map_smul (k : ℝ) (l : List (Cx ℝ)) : sumCx (l.map (Cx.smul k)) = Cx.smul k (sumCx l) := by
  induction l with
  | nil => apply Cx.ext' <;> simp [sumCx, Cx.smul_re, Cx.smul_im, Cx.zero]
  | cons a t ih =>
    simp only [List.map_cons, sumCx, ih]
    apply Cx.ext' <;> simp only [Cx.add_re, Cx.add_im, Cx.smul_re, Cx.smul_im] <;> ring

/-- a Gaussian mixture in real space is linear in its amplitudes -/
theorem gaussPixel_scale (X Y xc yc θ k : ℝ) (gs : List (GComp ℝ)) :
    gaussPixel X Y xc yc θ (gs.map (scaleG k)) = k * gaussPixel X Y xc yc θ gs := by
  simp only [gaussPixel, List.map_map]
  rw [← sumList_map_mul, List.map_map]
  congr 1
  apply List.map_congr_left
  intro g _
  simp [gaussPixelTerm_scale]

/-- a Gaussian mixture in Fourier space is linear in its amplitudes -/
theorem gaussFourier_scale (FX FY xc yc θ k : ℝ) (gs : List (GComp ℝ)) :
    gaussFourier FX FY xc yc θ (gs.map (scaleG k)) = Cx.smul k (gaussFourier FX FY xc yc θ gs) := by
  simp only [gaussFourier, List.map_map]
  rw [← sumCx_map_smul, List.map_map]
  congr 1
  apply List.map_congr_left
  intro g _
  simp [gaussFourierTerm_scale]

/-- the Fourier point source is linear in flux -/
theorem pointFourier_flux_smul (FX FY xc yc flux k : ℝ) :
    pointFourier FX FY xc yc (k * flux) = Cx.smul k (pointFourier FX FY xc yc flux) := by
  apply Cx.ext' <;> simp only [pointFourier, Cx.smul_re, Cx.smul_im] <;> ring

/-- the interpolated PSF stamp is linear in flux -/
theorem pixelPointSource_flux_smul (κ : PsConv) (s0 s1 : ℕ) (psf : Img ℝ) (xc yc flux k : ℝ) :
    pixelPointSource κ s0 s1 psf xc yc (k * flux) = ismul k (pixelPointSource κ s0 s1 psf xc yc flux) := by
  funext r c
  simp only [pixelPointSource, ismul, bilinear, sumN_real]
  split <;>
  · rw [Finset.mul_sum]
    apply Finset.sum_congr rfl; intro i _
    rw [Finset.mul_sum]
    apply Finset.sum_congr rfl; intro j _
    ring

/-! ### amplitudes -/

theorem sersic1DRe_flux_smul (bc : BnC) (r : Cx ℝ) (flux re n k : ℝ) :
    sersic1DRe bc r (k * flux) re n = k * sersic1DRe bc r flux re n := by
  simp only [sersic1DRe]; ring

/-- the direct decomposition is linear in flux -/
theorem decompAmp_flux_smul (bc : BnC) (P : ℕ) (flux re n s e k : ℝ) (nc j : ℕ) :
    decompAmp bc P (k * flux) re n s e nc j = k * decompAmp bc P flux re n s e nc j := by
  simp only [decompAmp, sumN_real, sersic1DRe_flux_smul]
  have h : ∀ f : ℕ → ℝ, ∑ i ∈ Finset.range (2 * P + 1), etaAt P i * (k * f i)
      = k * ∑ i ∈ Finset.range (2 * P + 1), etaAt P i * f i := by
    intro f; rw [Finset.mul_sum]; apply Finset.sum_congr rfl; intros; ring
  rw [h]
  split <;> ring

/-- both branches of `get_amps_sigmas` give amplitudes linear in flux -/
theorem ampsFor_flux_smul (bc : BnC) (cfg : MogCfg ℝ) (src : AmpSrc ℝ) (p : SersicP ℝ) (k : ℝ) :
    ampsFor bc cfg src { p with flux := k * p.flux } = (ampsFor bc cfg src p).map (k * ·) := by
  cases src with
  | interp A =>
    simp only [ampsFor, List.map_map]
    apply List.map_congr_left
    intro a _
    simp only [Function.comp]
    ring
  | direct P =>
    simp only [ampsFor, directAmps, List.map_map]
    apply List.map_congr_left
    intro j _
    simp [decompAmp_flux_smul]

theorem getD_map_mul (l : List ℝ) (k : ℝ) (i : ℕ) : (l.map (k * ·)).getD i 0 = k * l.getD i 0 := by
  simp only [List.getD_eq_getElem?_getD, List.getElem?_map]
  cases l[i]? <;> simp

/-- the component list scales with the amplitudes; widths and axis ratio do not depend on flux -/
theorem mogComps_scale (cfg : MogCfg ℝ) (amps : List ℝ) (p : SersicP ℝ) (k : ℝ) :
    mogComps cfg (amps.map (k * ·)) { p with flux := k * p.flux } = (mogComps cfg amps p).map (scaleG k) := by
  simp only [mogComps, List.map_map]
  apply List.map_congr_left
  intro j _
  simp only [Function.comp, scaleG, zero_real, getD_map_mul]

theorem broaden_scale (sp k : ℝ) (g : GComp ℝ) : broaden sp (scaleG k g) = scaleG k (broaden sp g) := by
  simp [broaden, scaleG]

theorem fourierPart_scale (npr : ℕ) (k : ℝ) (cs : List (GComp ℝ)) :
    fourierPart npr (cs.map (scaleG k)) = (fourierPart npr cs).map (scaleG k) := by
  simp [fourierPart, List.map_take]

theorem realPart_scale (npr : ℕ) (sp k : ℝ) (cs : List (GComp ℝ)) :
    Render.realPart npr sp (cs.map (scaleG k)) = (Render.realPart npr sp cs).map (scaleG k) := by
  simp only [Render.realPart, List.length_map, ← List.map_drop, List.map_map]
  apply List.map_congr_left
  intro g _
  simp [broaden_scale]

/-! ### renderers -/

/-- **every renderer's Sersic triple is linear in flux** -/
theorem sersic_flux_smul (R : Renderer ℝ) (p : SersicP ℝ) (k : ℝ) :
    R.sersic { p with flux := k * p.flux } = Triple.smul k (R.sersic p) := by
  unfold Renderer.sersic
  cases hk : R.kind with
  | pixel =>
    simp only [Triple.smul]
    congr 1
    · funext v u; apply Cx.ext' <;> simp [fsmul, fzero, Cx.smul_re, Cx.smul_im, Cx.zero]
    · funext r c
      simp only [renderIntSersic, ismul, osPixel]
      split
      · rw [← sumList_map_mul, List.map_map]
        congr 1; apply List.map_congr_left; intro a _
        simp only [Function.comp]
        rw [← sumList_map_mul, List.map_map]
        congr 1; apply List.map_congr_left; intro b _
        simp only [Function.comp, sersic2d_flux_smul]; ring
      · exact sersic2d_flux_smul _ _ _ _ _
    · funext r c; simp [ismul, izero]
  | fourier =>
    simp only [Triple.smul, ampsFor_flux_smul, mogComps_scale]
    congr 1
    · funext v u; simp [fourierSersicF, fsmul, gaussFourier_scale]
    · funext r c; simp [ismul, izero]
    · funext r c; simp [ismul, izero]
  | hybrid =>
    simp only [Triple.smul, ampsFor_flux_smul, mogComps_scale, fourierPart_scale, realPart_scale]
    congr 1
    · funext v u; simp [fourierSersicF, fsmul, gaussFourier_scale]
    · funext r c; simp [ismul, izero]
    · funext r c; simp [ismul, gaussPixel_scale]

/-- **every renderer's point-source triple is linear in flux** -/
theorem pointsource_flux_smul (R : Renderer ℝ) (xc yc flux k : ℝ) :
    R.pointsource xc yc (k * flux) = Triple.smul k (R.pointsource xc yc flux) := by
  unfold Renderer.pointsource
  cases hk : R.kind with
  | pixel =>
    simp only [Triple.smul, pixelPointSource_flux_smul]
    congr 1
    · funext v u; apply Cx.ext' <;> simp [fsmul, fzero, Cx.smul_re, Cx.smul_im, Cx.zero]
    · funext r c; simp [ismul, izero]
  | fourier =>
    simp only [Triple.smul]
    congr 1
    · funext v u; simp [pointF, fsmul, pointFourier_flux_smul]
    · funext r c; simp [ismul, izero]
    · funext r c; simp [ismul, izero]
  | hybrid =>
    simp only [Triple.smul]
    congr 1
    · funext v u; simp [pointF, fsmul, pointFourier_flux_smul]
    · funext r c; simp [ismul, izero]
    · funext r c; simp [ismul, izero]

/-! ### composites, exp/dev -/

/-- double Sersic = two Sersic components with fluxes f·F and (1−f)·F at the same centre and angle -/
theorem doublesersic_is_sum (R : Renderer ℝ) (d : PDict ℝ) :
    R.profileOf .doublesersic d =
      Triple.add
        (R.sersic ⟨d.get "xc", d.get "yc", d.get "flux" * d.get "f_1", d.get "r_eff_1", d.get "n_1", d.get "ellip_1", d.get "theta"⟩)
        (R.sersic ⟨d.get "xc", d.get "yc", d.get "flux" * (1 - d.get "f_1"), d.get "r_eff_2", d.get "n_2", d.get "ellip_2", d.get "theta"⟩) := by
  simp [Renderer.profileOf, sersicOf]

/-- Sersic + exponential: the second component is a Sersic profile with n = 1 -/
theorem sersic_exp_is_sum (R : Renderer ℝ) (d : PDict ℝ) :
    R.profileOf .sersicExp d =
      Triple.add
        (R.sersic ⟨d.get "xc", d.get "yc", d.get "flux" * d.get "f_1", d.get "r_eff_1", d.get "n", d.get "ellip_1", d.get "theta"⟩)
        (R.sersic ⟨d.get "xc", d.get "yc", d.get "flux" * (1 - d.get "f_1"), d.get "r_eff_2", 1, d.get "ellip_2", d.get "theta"⟩) := by
  simp [Renderer.profileOf, sersicOf]

/-- Sersic + point source at the same centre, fractions 1−f_ps and f_ps -/
theorem sersic_pointsource_is_sum (R : Renderer ℝ) (d : PDict ℝ) :
    R.profileOf .sersicPointsource d =
      Triple.add
        (R.sersic ⟨d.get "xc", d.get "yc", (1 - d.get "f_ps") * d.get "flux", d.get "r_eff", d.get "n", d.get "ellip", d.get "theta"⟩)
        (R.pointsource (d.get "xc") (d.get "yc") (d.get "f_ps" * d.get "flux")) := by
  simp [Renderer.profileOf, sersicOf]

/-- the exponential profile is the Sersic profile at n = 1 -/
theorem exp_is_sersic_n1 (R : Renderer ℝ) (d : PDict ℝ) :
    R.profileOf .exp d = R.sersic ⟨d.get "xc", d.get "yc", d.get "flux", d.get "r_eff", 1, d.get "ellip", d.get "theta"⟩ := by
  simp [Renderer.profileOf, sersicOf]

/-- the de Vaucouleurs profile is the Sersic profile at n = 4 -/
theorem dev_is_sersic_n4 (R : Renderer ℝ) (d : PDict ℝ) :
    R.profileOf .dev d = R.sersic ⟨d.get "xc", d.get "yc", d.get "flux", d.get "r_eff", 4, d.get "ellip", d.get "theta"⟩ := by
  simp [Renderer.profileOf, sersicOf]

/-- the Python names the dispatcher knows are exactly the seven of the regenerated table -/
theorem repo_profile_types : PType.all.map PType.pyName = Gen.profileTypesRender := by decide

/-! ### linearity of every profile type in its flux parameter -/

/-- multiply the value stored under "flux" by k -/
def scaleFlux (k : ℝ) (d : PDict ℝ) : PDict ℝ :=
  d.map fun kv => if kv.1 == "flux" then (kv.1, k * kv.2) else kv

theorem get_cons (kv : String × ℝ) (t : PDict ℝ) (key : String) :
    PDict.get (kv :: t) key = if kv.1 = key then kv.2 else PDict.get t key := by
  simp only [PDict.get, List.find?_cons]
  by_cases h : kv.1 = key
  · simp [h]
  · have hb : (kv.1 == key) = false := by simpa using h
    simp [hb, h]

theorem get_scaleFlux (k : ℝ) (d : PDict ℝ) (key : String) :
    (scaleFlux k d).get key = if key = "flux" then k * d.get key else d.get key := by
  induction d with
  | nil => simp [scaleFlux, PDict.get, zero]
  | cons kv t ih =>
    have hc : scaleFlux k (kv :: t) = (if kv.1 == "flux" then (kv.1, k * kv.2) else kv) :: scaleFlux k t := rfl
    rw [hc, get_cons, get_cons, ih]
    by_cases h1 : kv.1 = "flux" <;> by_cases h2 : kv.1 = key <;> by_cases h3 : key = "flux" <;>
      simp_all

theorem Triple.smul_add (k : ℝ) (a b : Triple ℝ) :
    Triple.smul k (Triple.add a b) = Triple.add (Triple.smul k a) (Triple.smul k b) := by
  simp only [Triple.smul, Triple.add]
  congr 1
  · funext v u; apply Cx.ext' <;> simp [fsmul, fadd, Cx.smul_re, Cx.smul_im, Cx.add_re, Cx.add_im] <;> ring
  · exact ismul_iadd _ _ _
  · exact ismul_iadd _ _ _

theorem Triple.smul_zero (k : ℝ) : Triple.smul k Triple.zero = Triple.zero := by
  simp only [Triple.smul, Triple.zero]
  congr 1
  · funext v u; apply Cx.ext' <;> simp [fsmul, fzero, Cx.smul_re, Cx.smul_im, Cx.zero]
  · funext r c; simp [ismul, izero]
  · funext r c; simp [ismul, izero]

theorem get_scaleFlux_flux (k : ℝ) (d : PDict ℝ) : (scaleFlux k d).get "flux" = k * d.get "flux" := by
  rw [get_scaleFlux]; simp

theorem get_scaleFlux_other (k : ℝ) (d : PDict ℝ) (key : String) (h : key ≠ "flux") :
    (scaleFlux k d).get key = d.get key := by
  rw [get_scaleFlux]; simp [h]

/-- **for every renderer and every profile type the rendered triple is linear in the
flux parameter**, all other parameters arbitrary -/
theorem profileOf_flux_smul (R : Renderer ℝ) (t : PType) (d : PDict ℝ) (k : ℝ) :
    R.profileOf t (scaleFlux k d) = Triple.smul k (R.profileOf t d) := by
  have hs : ∀ xc yc flux rEff n ellip theta : ℝ, R.sersic ⟨xc, yc, k * flux, rEff, n, ellip, theta⟩
      = Triple.smul k (R.sersic ⟨xc, yc, flux, rEff, n, ellip, theta⟩) :=
    fun xc yc flux rEff n ellip theta => sersic_flux_smul R ⟨xc, yc, flux, rEff, n, ellip, theta⟩ k
  have hp := fun xc yc f : ℝ => pointsource_flux_smul R xc yc f k
  have e1 := get_scaleFlux_other k d "xc" (by decide)
  have e2 := get_scaleFlux_other k d "yc" (by decide)
  have e3 := get_scaleFlux_other k d "theta" (by decide)
  have e4 := get_scaleFlux_other k d "r_eff" (by decide)
  have e5 := get_scaleFlux_other k d "n" (by decide)
  have e6 := get_scaleFlux_other k d "ellip" (by decide)
  have e7 := get_scaleFlux_other k d "f_1" (by decide)
  have e8 := get_scaleFlux_other k d "r_eff_1" (by decide)
  have e9 := get_scaleFlux_other k d "n_1" (by decide)
  have e10 := get_scaleFlux_other k d "ellip_1" (by decide)
  have e11 := get_scaleFlux_other k d "r_eff_2" (by decide)
  have e12 := get_scaleFlux_other k d "n_2" (by decide)
  have e13 := get_scaleFlux_other k d "ellip_2" (by decide)
  have e14 := get_scaleFlux_other k d "f_ps" (by decide)
  have e0 := get_scaleFlux_flux k d
  cases t <;>
    simp only [Renderer.profileOf, sersicOf, e0, e1, e2, e3, e4, e5, e6, e7, e8, e9, e10, e11, e12, e13, e14,
      Triple.smul_add]
  · exact hs _ _ _ _ _ _ _
  · rw [mul_assoc k, mul_assoc k, hs, hs]
  · rw [mul_assoc k, mul_assoc k, hs, hs]
  · rw [mul_left_comm _ k, mul_left_comm _ k, hs, hp]
  · exact hp _ _ _
  · exact hs _ _ _ _ _ _ _
  · exact hs _ _ _ _ _ _ _

theorem profile_flux_smul (R : Renderer ℝ) (t : String) (d : PDict ℝ) (k : ℝ) :
    R.profile t (scaleFlux k d) = Triple.smul k (R.profile t d) := by
  unfold Renderer.profile
  cases parsePType t with
  | none => simp [Triple.smul_zero]
  | some pt => exact profileOf_flux_smul R pt d k

/-- image level: scaling the flux scales the PSF-convolved model image -/
theorem image_flux_smul (R : Renderer ℝ) (t : String) (d : PDict ℝ) (k : ℝ) :
    combineScene R.N R.P (R.profile t (scaleFlux k d)) = ismul k (combineScene R.N R.P (R.profile t d)) := by
  rw [profile_flux_smul, combineScene_smul]

/-- a zero-flux source contributes nothing -/
theorem zero_flux_zero (R : Renderer ℝ) (t : String) (d : PDict ℝ) :
    combineScene R.N R.P (R.profile t (scaleFlux 0 d)) = izero := by
  rw [image_flux_smul]; funext r c; simp [ismul, izero]

/-! ### scenes of several sources -/

/-- sum of the individually rendered sources, source `j` read from the keys `p_j<suffix>` -/
noncomputable def sumOfSources (R : Renderer ℝ) (paramsOf : String → List String) (d : PDict ℝ) (suffix : String) :
    ℕ → List String → Img ℝ
  | _, [] => izero
  | j, t :: ts =>
    iadd (combineScene R.N R.P (R.profile t (sourceDict (paramsOf t) d j suffix)))
      (sumOfSources R paramsOf d suffix (j + 1) ts)

/-- **a scene is the sum of its individually rendered sources**, for every catalogue
length and order -/
theorem renderForModel_eq_sum (R : Renderer ℝ) (paramsOf : String → List String) (d : PDict ℝ)
    (types : List String) (suffix : String) :
    R.renderForModel paramsOf d types suffix = sumOfSources R paramsOf d suffix 0 types := by
  unfold Renderer.renderForModel
  generalize 0 = j
  induction types generalizing j with
  | nil => simp [Renderer.catalogueTriple, sumOfSources, combineScene_zero]
  | cons t ts ih =>
    simp only [Renderer.catalogueTriple, sumOfSources, combineScene_add, ih]

/-- non-vacuity: a two-source catalogue unfolds to two terms -/
example (R : Renderer ℝ) (pf : String → List String) (d : PDict ℝ) :
    sumOfSources R pf d "" 0 ["sersic", "pointsource"] =
      iadd (combineScene R.N R.P (R.profile "sersic" (sourceDict (pf "sersic") d 0 "")))
        (iadd (combineScene R.N R.P (R.profile "pointsource" (sourceDict (pf "pointsource") d 1 ""))) izero) := rfl

end Pysersic.Props.C08
