/-
C18 — Inconsistent inputs are rejected, consistent inputs are ingested faithfully.

The decision logic of fitter / renderer construction is a total function of the
array shapes, the presence of a negative rms value and the renderer class; the
theorems hold for all shapes (no size bound).  They are stated for source code
in which both PSF-size tests compare element-wise and the hybrid renderer builds
its PSF grid in the stamp's own orientation (`GoodFacts`); `repo_facts` is the
proof obligation that the regenerated facts of the current /repo tree are such.
-/
import PysersicModel.IO.Validate
import PysersicModel.Gen.Consts

namespace Pysersic.Props.C18
open Pysersic.Validate

/-- the source facts under which validation is correct -/
def GoodFacts (F : Facts) : Prop :=
  F.fitterCmp = .elementwise ∧ F.rendererCmp = .elementwise ∧ F.hybridSquareOnly = false

/-- **tie 1**: the current /repo tree has these facts -/
theorem repo_facts : GoodFacts Gen.validateFacts := ⟨by decide, by decide, by decide⟩

/-- what the property calls a consistent input -/
def Consistent (d r p : Shape) (m : Option Shape) (negRms : Bool) : Prop :=
  r = d ∧ negRms = false ∧ p.1 ≤ d.1 ∧ p.2 ≤ d.2 ∧ (m = none ∨ m = some d)

variable (F : Facts) (R : Renderer) (d r p : Shape) (m : Option Shape) (negRms : Bool)

/-- **accept ⇔ consistent**, for every renderer and all shapes -/
theorem accept_iff_consistent (hF : GoodFacts F) :
    fitterInit F R d r p m negRms = .ok ↔ Consistent d r p m negRms := by
  obtain ⟨h1, h2, h3⟩ := hF
  have hlt : ∀ a b : Shape, shapeLt .elementwise a b = true ↔ (a.1 < b.1 ∨ a.2 < b.2) := by
    intro a b; simp [shapeLt]
  unfold fitterInit checkInputData rendererInit Consistent
  rw [h1, h2, h3]
  simp only [Bool.and_false, Bool.false_and]
  by_cases hr : d = r
  · subst hr
    cases negRms with
    | true => simp
    | false =>
      by_cases hp : shapeLt .elementwise d p = true
      · have := (hlt d p).mp hp
        simp [hp]; omega
      · have hp' : ¬ (d.1 < p.1 ∨ d.2 < p.2) := fun h => hp ((hlt d p).mpr h)
        simp only [hp]
        cases m with
        | none => simp; omega
        | some ms =>
          by_cases hm : ms = d
          · subst hm; simp; omega
          · simp [hm]
  · have : r ≠ d := fun e => hr e.symm
    simp [hr, this]

/-- **reject reasons**: the specific documented exception for each inconsistency
(the first inconsistency in the order rms shape, negative rms, PSF size, mask shape decides) -/
theorem reject_rms_shape (h : r ≠ d) : fitterInit F R d r p m negRms = .shapeMatchError := by
  have : d ≠ r := fun e => h e.symm
  simp [fitterInit, checkInputData, this]

theorem reject_negative_rms (h : r = d) (hn : negRms = true) :
    fitterInit F R d r p m negRms = .valueError := by
  simp [fitterInit, checkInputData, h, hn]

theorem reject_psf_larger (hF : GoodFacts F) (h : r = d) (hn : negRms = false)
    (hp : d.1 < p.1 ∨ d.2 < p.2) : fitterInit F R d r p m negRms = .kernelError := by
  obtain ⟨h1, _, _⟩ := hF
  have : shapeLt .elementwise d p = true := by simp [shapeLt]; exact hp
  simp [fitterInit, checkInputData, h, hn, h1, this]

theorem reject_mask_shape (hF : GoodFacts F) (h : r = d) (hn : negRms = false)
    (hp : p.1 ≤ d.1 ∧ p.2 ≤ d.2) (ms : Shape) (hm : m = some ms) (hne : ms ≠ d) :
    fitterInit F R d r p m negRms = .shapeMatchError := by
  obtain ⟨h1, _, _⟩ := hF
  have : shapeLt .elementwise d p = false := by simp [shapeLt]; omega
  simp [fitterInit, checkInputData, h, hn, h1, this, hm, hne]

/-- never any other outcome than the documented ones -/
theorem outcome_documented (hF : GoodFacts F) :
    fitterInit F R d r p m negRms ∈
      [Outcome.ok, .shapeMatchError, .valueError, .kernelError] := by
  obtain ⟨h1, h2, h3⟩ := hF
  unfold fitterInit checkInputData rendererInit
  rw [h3]
  simp only [Bool.and_false, Bool.false_and]
  split <;> rename_i hh <;> revert hh <;> (repeat' split) <;> simp_all

/-- the renderer constructor alone: KernelError iff the PSF is larger than the image in some axis -/
theorem renderer_accept_iff (hF : GoodFacts F) :
    rendererInit F R d p = (if d.1 < p.1 ∨ d.2 < p.2 then Outcome.kernelError else .ok) := by
  obtain ⟨_, h2, h3⟩ := hF
  simp [rendererInit, h2, h3, shapeLt]

/-- **mask polarity**: the stored mask marks a pixel as used iff the user's value is zero;
with no mask every pixel is used; length is preserved -/
theorem mask_polarity (n : Nat) (user : List Bool) (i : Nat) (hi : i < user.length) :
    (parseMask n (some user))[i]? = some (!user[i]) := by
  simp [parseMask, hi]

theorem mask_none_all_used (n : Nat) : parseMask n none = List.replicate n true := rfl

theorem mask_length (n : Nat) (user : List Bool) : (parseMask n (some user)).length = user.length := by
  simp [parseMask]

/-- unknown profile or sky types are refused when the prior is built, known ones accepted -/
theorem prior_types (ptype stype : String) :
    priorInit Gen.profileTypesPriors Gen.skyTypes ptype stype = .ok ↔
      ptype ∈ Gen.profileTypesPriors ∧ stype ∈ Gen.skyTypes := by
  unfold priorInit
  by_cases h1 : stype ∈ Gen.skyTypes <;> by_cases h2 : ptype ∈ Gen.profileTypesPriors <;>
    simp [h1, h2]

/-- the two copies of the profile-type list agree (the fitter checks one, the prior the other) -/
theorem type_lists_agree : Gen.profileTypesRender = Gen.profileTypesPriors := by decide

/-! ### the lexicographic comparison is wrong — witness kept as a theorem about the model -/

/-- with Python tuple comparison a (15,17) PSF in a (16,16) image is accepted -/
example : fitterInit ⟨.tuple, .tuple, false⟩ .pixel (16, 16) (16, 16) (15, 17) none false = .ok := by decide
/-- … and the same input is refused with element-wise comparison -/
example : fitterInit ⟨.elementwise, .elementwise, false⟩ .pixel (16, 16) (16, 16) (15, 17) none false
    = .kernelError := by decide
/-- with the swapped PSF grid the default renderer dies on a consistent non-square stamp -/
example : fitterInit ⟨.elementwise, .elementwise, true⟩ .hybrid (16, 16) (16, 16) (15, 16) none false
    = .typeError := by decide
/-- non-vacuity: a consistent input -/
example : Consistent (16, 16) (16, 16) (15, 16) (some (16, 16)) false := by simp [Consistent]

end Pysersic.Props.C18
