/-
C17 — Sky estimate uses only unmasked border pixels.

All theorems are for arbitrary image shapes `H × W`, arbitrary border width
`n = k+1 ≥ 1` with `2n ≤ H`, `2n ≤ W` (the property's domain is "shapes from
2n+1 upward"), arbitrary pixel values of any type, arbitrary masks, and an
arbitrary statistic (median, biweight scale … are functions of the gathered
list).
-/
import Proofs.SkyEstimate
import PysersicModel.Gen.Consts

namespace Pysersic.Props.C17
open Pysersic.SkyEstimate

variable (H W k : Nat)

/-- the pixels within `n` of an image edge -/
def InBorder (H W n i j : Nat) : Prop :=
  i < H ∧ j < W ∧ (i < n ∨ H - n ≤ i ∨ j < n ∨ W - n ≤ j)

/-- **exactly the border**: a position is gathered iff it lies within `n` pixels of an edge -/
theorem border_mem_iff (hH : 2 * (k + 1) ≤ H) (hW : 2 * (k + 1) ≤ W) (i j : Nat) :
    (i, j) ∈ borderIdx H W (k + 1) ↔ InBorder H W (k + 1) i j := by
  rw [borderIdx_eq H W k hH hW]
  simp only [List.mem_append, mem_block, List.mem_range'_1, InBorder]
  constructor
  · rintro (((h | h) | h) | h) <;> omega
  · intro h
    by_cases h1 : i < k + 1
    · left; left; left; omega
    · by_cases h2 : H - (k + 1) ≤ i
      · left; left; right; omega
      · by_cases h3 : j < k + 1
        · left; right; omega
        · right; omega

/-- **each counted once** -/
theorem border_nodup (hH : 2 * (k + 1) ≤ H) (hW : 2 * (k + 1) ≤ W) :
    (borderIdx H W (k + 1)).Nodup := by
  rw [borderIdx_eq H W k hH hW]
  have nd := fun s n => List.nodup_range' (s := s) (n := n) (step := 1)
  refine List.Nodup.append (List.Nodup.append (List.Nodup.append ?_ ?_ ?_) ?_ ?_) ?_ ?_
  · exact nodup_block (nd _ _) (nd _ _)
  · exact nodup_block (nd _ _) (nd _ _)
  · rintro ⟨i, j⟩ h1 h2
    simp only [mem_block, List.mem_range'_1] at h1 h2
    omega
  · exact nodup_block (nd _ _) (nd _ _)
  · rintro ⟨i, j⟩ h1 h2
    simp only [List.mem_append, mem_block, List.mem_range'_1] at h1 h2
    omega
  · exact nodup_block (nd _ _) (nd _ _)
  · rintro ⟨i, j⟩ h1 h2
    simp only [List.mem_append, mem_block, List.mem_range'_1] at h1 h2
    omega

/-- **border size** `H·W − (H−2n)(W−2n)` -/
theorem border_length (hH : 2 * (k + 1) ≤ H) (hW : 2 * (k + 1) ≤ W) :
    (borderIdx H W (k + 1)).length = H * W - (H - 2 * (k + 1)) * (W - 2 * (k + 1)) := by
  rw [borderIdx_eq H W k hH hW]
  simp only [List.length_append, length_block, List.length_range']
  obtain ⟨a, rfl⟩ := Nat.exists_eq_add_of_le hH
  obtain ⟨b, rfl⟩ := Nat.exists_eq_add_of_le hW
  simp only [Nat.add_sub_cancel_left]
  symm
  apply Nat.sub_eq_of_eq_add
  ring

variable {α β γ : Type}

/-- a position reaches the statistics iff it is a border position that is not masked -/
theorem used_iff (hH : 2 * (k + 1) ≤ H) (hW : 2 * (k + 1) ≤ W) (mask : Nat → Nat → Bool) (i j : Nat) :
    (i, j) ∈ usedIdx H W (k + 1) mask ↔ InBorder H W (k + 1) i j ∧ mask i j = false := by
  simp [usedIdx, List.mem_filter, border_mem_iff H W k hH hW]

/-- **count** = border pixels − masked border pixels -/
theorem count_eq (med : List α → β) (scat : List α → γ) (img : Nat → Nat → α) (mask : Nat → Nat → Bool) (n : Nat) :
    (estimate med scat H W n img mask).2.2
      = (borderIdx H W n).length - ((borderIdx H W n).filter fun p => mask p.1 p.2).length := by
  simp only [estimate, gather, usedIdx, List.length_map]
  have := List.length_eq_length_filter_add (l := borderIdx H W n) (fun p => mask p.1 p.2)
  omega

/-- **invariance**: two images that agree on the unmasked border pixels give the same
median, scatter and count — whatever the statistics are.  In particular any change
of interior pixels or of masked pixels is invisible. -/
theorem estimate_invariant (hH : 2 * (k + 1) ≤ H) (hW : 2 * (k + 1) ≤ W)
    (med : List α → β) (scat : List α → γ) (img₁ img₂ : Nat → Nat → α) (mask : Nat → Nat → Bool)
    (hagree : ∀ i j, InBorder H W (k + 1) i j → mask i j = false → img₁ i j = img₂ i j) :
    estimate med scat H W (k + 1) img₁ mask = estimate med scat H W (k + 1) img₂ mask := by
  have : gather H W (k + 1) img₁ mask = gather H W (k + 1) img₂ mask := by
    unfold gather
    apply List.map_congr_left
    rintro ⟨i, j⟩ hp
    obtain ⟨hb, hm⟩ := (used_iff H W k hH hW mask i j).mp hp
    exact hagree i j hb hm
  simp [estimate, this]

/-- interior pixels are never gathered -/
theorem interior_not_used (hH : 2 * (k + 1) ≤ H) (hW : 2 * (k + 1) ≤ W) (mask : Nat → Nat → Bool)
    (i j : Nat) (hi : k + 1 ≤ i ∧ i < H - (k + 1)) (hj : k + 1 ≤ j ∧ j < W - (k + 1)) :
    (i, j) ∉ usedIdx H W (k + 1) mask := by
  rw [used_iff H W k hH hW]
  unfold InBorder
  omega

/-- masked pixels are never gathered -/
theorem masked_not_used (hH : 2 * (k + 1) ≤ H) (hW : 2 * (k + 1) ≤ W) (mask : Nat → Nat → Bool)
    (i j : Nat) (hm : mask i j = true) : (i, j) ∉ usedIdx H W (k + 1) mask := by
  rw [used_iff H W k hH hW]
  simp [hm]

/-! ### the source's own slices and mask handling (regenerated from `estimate_sky` on every run) -/

/-- the slices written in the source gather exactly the model's border list, for every shape and width -/
theorem repo_slices (H W n : Nat) : borderIdxOf Gen.skySlices H W n = borderIdx H W n := by
  simp [borderIdxOf, Gen.skySlices, borderIdx, SB.toBound]

/-- the gathering keeps masks (`np.ma.concatenate(…).compressed()`, not `np.concatenate`) -/
theorem repo_gather_keeps_mask : Gen.skyGatherKeepsMask = true := by decide

/-- the full clause "ignores pixels that are masked, whether the mask is passed separately or as a masked array":
whatever the image carries (`own`) and whatever is passed separately (`arg`), a pixel masked by either is masked
when the border is gathered -/
def masks_honoured_full (rule : MaskRule) : Prop :=
  ∀ (H W : Nat) (own arg : Option (Nat → Nat → Bool)) (i j : Nat), i < H → j < W →
    (maskOf own i j = true ∨ maskOf arg i j = true) → effMask rule H W own arg i j = true

/-- … and nothing else is: the mask in force is exactly the union -/
theorem effMask_combine (H W : Nat) (own arg : Option (Nat → Nat → Bool)) (i j : Nat) :
    effMask .combine H W own arg i j = (maskOf own i j || maskOf arg i j) := by
  cases arg <;> simp [effMask, maskOf]

theorem masks_honoured_combine : masks_honoured_full .combine := by
  intro H W own arg i j _ _ h
  rw [effMask_combine]
  rcases h with h | h <;> simp [h]

/-- the source combines the two masks -/
theorem repo_mask_rule : Gen.skyMaskRule = .combine := by decide

theorem repo_masks_honoured : masks_honoured_full Gen.skyMaskRule := by
  rw [repo_mask_rule]; exact masks_honoured_combine

/-- a pixel masked either way never reaches the statistics (with the source's rule) -/
theorem either_masked_not_used (hH : 2 * (k + 1) ≤ H) (hW : 2 * (k + 1) ≤ W)
    (own arg : Option (Nat → Nat → Bool)) (i j : Nat) (hi : i < H) (hj : j < W)
    (hm : maskOf own i j = true ∨ maskOf arg i j = true) :
    (i, j) ∉ usedIdx H W (k + 1) (effMask Gen.skyMaskRule H W own arg) :=
  masked_not_used H W k hH hW _ i j (repo_masks_honoured H W own arg i j hi hj hm)

/-- the guard the code had before the repair (`if not np.ma.is_masked(image) and mask is not None`) does NOT meet the
clause: a masked-array image with one masked pixel makes it drop the separately passed mask (replayed on the
implementation by the harness: call style `both`) -/
theorem argIfImageUnmasked_violates : ¬ masks_honoured_full .argIfImageUnmasked := by
  intro h
  have := h 3 3 (some fun i j => i == 0 && j == 0) (some fun i j => i == 2 && j == 2) 2 2 (by decide) (by decide)
    (Or.inr (by decide))
  revert this
  decide

/-- nor does `if not isMaskedArray(image) and mask is not None` (a masked array with nothing masked is enough) -/
theorem argIfNotMaskedArray_violates : ¬ masks_honoured_full .argIfNotMaskedArray := by
  intro h
  have := h 3 3 (some fun _ _ => false) (some fun i j => i == 2 && j == 2) 2 2 (by decide) (by decide)
    (Or.inr (by decide))
  revert this
  decide

/-! ### non-vacuity and corner cases -/

example : borderIdx 5 6 1 = [(0,0),(0,1),(0,2),(0,3),(0,4),(0,5),(4,0),(4,1),(4,2),(4,3),(4,4),(4,5),
    (1,0),(2,0),(3,0),(1,5),(2,5),(3,5)] := by decide
/-- 3×3, n = 1, one masked corner: 7 pixels are used (the unrepaired code used 8) -/
example : (usedIdx 3 3 1 (fun i j => i == 0 && j == 0)).length = 7 := by decide
/-- outside the domain (`n = 0`): Python's `image[-0:]` is the whole image, so everything is gathered -/
example : (borderIdx 4 4 0).length = 16 := by decide
/-- outside the domain (`2n > H`): the slices overlap and pixels are counted twice -/
example : ¬ (borderIdx 3 3 2).Nodup := by decide

end Pysersic.Props.C17
