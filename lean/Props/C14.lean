/-
C14 — Staged early-stopping optimiser honours its patience/round contract.

Every theorem quantifies over an arbitrary loss history `script : ℕ → Loss`
(NaN, ±inf and ties included) and an arbitrary configuration
`cfg = (num_round, max_train, patience)`; nothing is bounded.

Vocabulary (Proofs/EarlyStop.lean): `Chained`, `Scripted`, `BarChain`,
`PatienceOK`, `firstMin`, `Linked`, `BrokeOnlyLast`.
-/
import Proofs.EarlyStop
import Proofs.GenEarlyStop
import PysersicModel.Gen.Consts

namespace Pysersic.Props.C14
open Pysersic.EarlyStop

variable (script : Nat → Loss) (cfg : Cfg)

/-- every recorded round is the inner loop run from its recorded start values -/
theorem allRounds_recOK : ∀ rc ∈ allRounds script cfg, RecOK script cfg rc :=
  rounds_recOK script cfg _ _ _ _ _

/-- **(a)** at most one initial step plus `max_train` steps per round … -/
theorem round_calls_bound : ∀ rc ∈ allRounds script cfg, rc.out.steps.length ≤ cfg.maxTrain := by
  intro rc hrc
  rw [allRounds_recOK script cfg rc hrc]
  exact inner_steps_length ..

/-- … hence at most `1 + num_round * max_train` calls of the update function in total. -/
theorem calls_bound (res : Result) (h : run script cfg = some res) :
    res.calls ≤ 1 + cfg.numRound * cfg.maxTrain := by
  obtain ⟨rc, _, rfl⟩ := run_eq_some script cfg h
  · simp only [totalCalls]
    have := sum_steps_le (allRounds script cfg) cfg.maxTrain (round_calls_bound script cfg)
    have hl : (allRounds script cfg).length = cfg.numRound := rounds_length ..
    rw [hl] at this
    omega

/-- **(b)** scanning any round with a counter of consecutive non-improving steps,
a non-improving step either ends the round or leaves the counter ≤ patience. -/
theorem patience_bound : ∀ rc ∈ allRounds script cfg, PatienceOK cfg.patience 0 rc.out.steps := by
  intro rc hrc
  rw [allRounds_recOK script cfg rc hrc]
  exact inner_patienceOK ..

/-- **(b, window form)** a round never continues past `patience + 1` consecutive
non-improving losses: every window of `patience + 1` consecutive steps that is
followed by a further step of the same round contains an improving step. -/
theorem patience_window : ∀ rc ∈ allRounds script cfg, ∀ a w b : List Step,
    rc.out.steps = a ++ w ++ b → b ≠ [] → w.length = cfg.patience + 1 →
    ∃ st ∈ w, st.adopted = true := by
  intro rc hrc
  exact PatienceOK.window _ _ (patience_bound script cfg rc hrc)

/-- **(c)** round 0 starts from the state returned by the unconditional first step
(state 1, call index 1); each later round starts from the best state of the
previous round, at the next call index, with `best_loss` reset to `+inf`;
rounds are numbered 0,1,2,… -/
theorem restart_from_best : Linked 0 1 1 (allRounds script cfg) :=
  rounds_linked ..

/-- inside a round every call takes the state the previous call returned, and the
state handed back as `svi_state` is the one the last call returned -/
theorem round_chained : ∀ rc ∈ allRounds script cfg,
    Chained rc.start rc.out.steps ∧ rc.out.cur = lastOut rc.start rc.out.steps := by
  intro rc hrc
  rw [allRounds_recOK script cfg rc hrc]
  exact ⟨inner_chained .., inner_cur ..⟩

/-- **(c, learning rate)** every call of round `r` uses exponent `r`
(learning rate `lr_init * frac_lr_decrease ^ r`), and the round consumes the loss
history consecutively from its first call index -/
theorem round_exponent : ∀ rc ∈ allRounds script cfg,
    Scripted script rc.idx rc.firstCall rc.out.steps := by
  intro rc hrc
  rw [allRounds_recOK script cfg rc hrc]
  exact inner_scripted ..

/-- the bar a step is compared with is the running strict minimum of the round,
started at the round's initial `best_loss` -/
theorem bar_chain : ∀ rc ∈ allRounds script cfg, BarChain rc.bar0 rc.out.steps := by
  intro rc hrc
  rw [allRounds_recOK script cfg rc hrc]
  exact inner_barChain ..

/-- the initial bar: the first step's own loss in round 0 (`+inf` if that loss is
NaN), `+inf` in every later round -/
theorem bar0_value : ∀ rc ∈ allRounds script cfg,
    rc.bar0 = if rc.idx = 0 then firstBar (script 0) else Loss.pinf := by
  intro rc hrc
  unfold allRounds at hrc
  cases hn : cfg.numRound with
  | zero => simp [hn, rounds] at hrc
  | succ n =>
    simp only [hn, rounds, List.mem_cons] at hrc
    rcases hrc with rfl | hrc
    · simp
    · have h1 := rounds_bar0_pinf script cfg n 1 _ _ _ (by omega) rc hrc
      have h2 := (rounds_idx_ge script cfg n 1 _ _ _ rc hrc).1
      have : rc.idx ≠ 0 := by omega
      simp [h1, this]

/-- **(d)** after the unconditional first step a state is adopted only if its loss
is not NaN and strictly below the round's best so far -/
theorem adopt_strict : ∀ rc ∈ allRounds script cfg, ∀ st ∈ rc.out.steps,
    st.adopted = true → st.loss ≠ Loss.nan ∧ st.loss.lt st.barBefore = true := by
  intro rc hrc st hst ha
  have h := BarChain.adopted_iff _ _ (bar_chain script cfg rc hrc) st hst
  rw [ha] at h
  exact ⟨Loss.ne_nan_of_lt_left h.symm, h.symm⟩

/-- **(e)** the returned parameters are those of the *first* state of the final
round attaining the *lowest* loss among the losses below the round's initial bar
(the round's starting state if no loss is below it). -/
theorem result_first_argmin (res : Result) (h : run script cfg = some res) :
    ∃ rc, (allRounds script cfg).getLast? = some rc ∧
      ((res.best = rc.start ∧ ∀ st ∈ rc.out.steps, st.loss.lt rc.bar0 = false) ∨
       (∃ pre st post, rc.out.steps = pre ++ st :: post ∧ res.best = st.outState ∧
          st.loss.lt rc.bar0 = true ∧
          (∀ x ∈ pre, x.loss = Loss.nan ∨ st.loss.lt x.loss = true) ∧
          (∀ x ∈ post, x.loss.lt st.loss = false))) := by
  obtain ⟨rc, hlast, rfl⟩ := run_eq_some script cfg h
  · refine ⟨rc, hlast, ?_⟩
    have hmem : rc ∈ allRounds script cfg := List.mem_of_getLast? hlast
    have hok := allRounds_recOK script cfg rc hmem
    have hfm := inner_firstMin script cfg.patience rc.idx cfg.maxTrain rc.start rc.start rc.bar0 0 rc.firstCall
    rw [← hok] at hfm
    rcases firstMin_spec rc.start rc.bar0 rc.out.steps with ⟨heq, hall⟩ | ⟨pre, st, post, hs, heq, hlt, hpre, hpost⟩
    · left
      rw [heq] at hfm
      exact ⟨(Prod.mk.inj hfm).1, hall⟩
    · right
      rw [heq] at hfm
      exact ⟨pre, st, post, hs, (Prod.mk.inj hfm).1, hlt, hpre, hpost⟩

/-- **(e, later rounds)** with at least two rounds the final round's bar is `+inf`:
the result is the round's starting state exactly when nothing improved on `+inf` -/
theorem result_start_if_none (res : Result) (h : run script cfg = some res)
    (h2 : 2 ≤ cfg.numRound) :
    ∃ rc, (allRounds script cfg).getLast? = some rc ∧ rc.bar0 = Loss.pinf ∧
      ((∀ st ∈ rc.out.steps, st.loss.lt Loss.pinf = false) → res.best = rc.start) := by
  obtain ⟨rc, hlast, hspec⟩ := result_first_argmin script cfg res h
  have hmem : rc ∈ allRounds script cfg := List.mem_of_getLast? hlast
  have hb0 := bar0_value script cfg rc hmem
  -- the last round has index numRound - 1 ≥ 1
  have hidx : rc.idx ≠ 0 := by
    have := rounds_getLast_idx script cfg _ _ _ _ _ rc hlast
    omega
  simp [hidx] at hb0
  refine ⟨rc, hlast, hb0, ?_⟩
  intro hnone
  rcases hspec with ⟨hs, _⟩ | ⟨pre, st, post, hsplit, _, hlt, _, _⟩
  · exact hs
  · rw [hb0] at hlt
    have := hnone st (by rw [hsplit]; simp)
    rw [this] at hlt
    exact absurd hlt (by simp)

/-- **(f)** the returned loss list is the final round's losses in order, without the
breaking step; only the last step of a round can be the breaking one, and the
breaking step is non-improving -/
theorem recorded_losses (res : Result) (h : run script cfg = some res) :
    ∃ rc, (allRounds script cfg).getLast? = some rc ∧
      res.losses = (rc.out.steps.filter (fun st => !st.broke)).map (·.loss) ∧
      BrokeOnlyLast rc.out.steps ∧
      (∀ st ∈ rc.out.steps, st.broke = true → st.adopted = false) ∧
      res.last = lastOut rc.start rc.out.steps := by
  obtain ⟨rc, hlast, rfl⟩ := run_eq_some script cfg h
  · have hmem : rc ∈ allRounds script cfg := List.mem_of_getLast? hlast
    have hok := allRounds_recOK script cfg rc hmem
    refine ⟨rc, hlast, ?_, ?_, ?_, ?_⟩
    · show rc.out.recorded = _
      rw [hok]; exact inner_recorded ..
    · rw [hok]; exact inner_brokeOnlyLast ..
    · rw [hok]; exact inner_broke_not_adopted _ _ _ _ _ _ _ _ _
    · show rc.out.cur = _
      exact (round_chained script cfg rc hmem).2

/-- the routine returns normally exactly when there is at least one round
(`num_round = 0` leaves `svi_state` unbound: NameError) -/
theorem run_isSome_iff : (run script cfg).isSome = true ↔ 0 < cfg.numRound := by
  unfold run
  simp only
  have hl : (allRounds script cfg).length = cfg.numRound := rounds_length ..
  cases hr : (allRounds script cfg).getLast? with
  | none =>
    have := List.getLast?_eq_none_iff.mp hr
    simp [this] at hl
    simp; omega
  | some x =>
    have hne : allRounds script cfg ≠ [] := by
      intro h0; simp [h0] at hr
    have : 0 < (allRounds script cfg).length := List.length_pos_iff.mpr hne
    simp; omega

/-- the bar is never NaN: a state can always be improved upon by a finite loss
below the bar (the corner "NaN first loss with a single round" is closed) -/
theorem bar0_ne_nan : ∀ rc ∈ allRounds script cfg, rc.bar0 ≠ Loss.nan := by
  intro rc hrc
  rw [bar0_value script cfg rc hrc]
  split
  · unfold firstBar; split <;> simp_all
  · simp

/-- **(e, single round)** with one round and a NaN first loss the bar is `+inf`:
the first state is returned only if no later loss is below `+inf`. -/
theorem result_single_round_nan_first (res : Result)
    (h : run script cfg = some res) (h1 : cfg.numRound = 1) (hnan : script 0 = Loss.nan) :
    ∃ rc, (allRounds script cfg).getLast? = some rc ∧ rc.bar0 = Loss.pinf ∧ rc.start = 1 ∧
      (res.best = 1 → ∀ st ∈ rc.out.steps, st.loss.lt Loss.pinf = false) := by
  obtain ⟨rc, hlast, hspec⟩ := result_first_argmin script cfg res h
  have hmem : rc ∈ allRounds script cfg := List.mem_of_getLast? hlast
  have hrc : rc.start = 1 ∧ rc.bar0 = Loss.pinf ∧ rc.firstCall = 1 := by
    unfold allRounds at hmem
    simp only [h1, rounds, List.mem_cons, List.not_mem_nil, or_false] at hmem
    subst hmem
    simp [hnan, firstBar]
  refine ⟨rc, hlast, hrc.2.1, hrc.1, ?_⟩
  intro hb
  rcases hspec with ⟨_, hall⟩ | ⟨pre, st, post, hsplit, hbest, _, _, _⟩
  · rw [hrc.2.1] at hall; exact hall
  · -- res.best = st.outState ≥ 2, contradiction with res.best = 1
    exfalso
    have hscr := round_exponent script cfg rc hmem
    rw [hrc.2.2, hsplit] at hscr
    have : ∀ (c : Nat) (l : List Step), Scripted script rc.idx c (l ++ st :: post) → c + 1 ≤ st.outState := by
      intro c l
      induction l generalizing c with
      | nil => intro hh; simp [Scripted] at hh; omega
      | cons x xs ih => intro hh; simp [Scripted] at hh; have := ih (c + 1) hh.2.2.2; omega
    have := this 1 pre hscr
    omega

/-- Tie 1: every in-package caller, and the defaults, use at least two rounds, so
a single round is reachable only through an explicit user
argument; all configurations are admissible (`num_round ≥ 1`). -/
theorem call_sites_valid :
    (∀ s ∈ Gen.earlyStopCallSites, 2 ≤ s.2.1) ∧ 2 ≤ Gen.earlyStopNumRound := by
  decide

/-! ### Non-vacuity: a concrete history exercising every branch -/

private def demo : Nat → Loss
  | 0 => .fin 5 | 1 => .fin 4 | 2 => .fin 4 | 3 => .fin 4 | 4 => .fin 3
  | 5 => .nan | 6 => .fin 2 | _ => .fin 2

example : run demo ⟨3, 3, 1⟩ = some ⟨8, 10, [.fin 2, .fin 2], 10⟩ := by decide
example : run demo ⟨0, 3, 1⟩ = none := by decide
/-- the routine as translated from the source, run on the same history -/
example : Gen.EarlyStopProg.run demo ⟨3, 3, 1⟩ = some ⟨8, 10, [.fin 2, .fin 2], 10⟩ := by decide
example : Gen.EarlyStopProg.run demo ⟨0, 3, 1⟩ = none := by decide
/-- regression witness of the repaired defect: history `[nan, 2, 1, 0, …]`, one round,
now returns the lowest-loss state, not the first one -/
example : (run (fun k => if k = 0 then .nan else .fin (3 - k)) ⟨1, 5, 5⟩).map (·.best) = some 6 := by
  decide

/-! ### the same statements about the routine AS TRANSLATED FROM THE SOURCE on this run
(`Gen.EarlyStopProg.run`, regenerated by tools/translate_prog.py; `Proofs.GenEarlyStop.gen_run_eq` identifies it with the model) -/

section source
open Pysersic.Gen.EarlyStopProg (Params)
open Pysersic.Proofs.GenEarlyStop (cfgOf gen_run_eq gen_calls_eq)

variable (P : Params)

/-- call budget of the translated source -/
theorem src_calls_bound (res : Result) (h : Gen.EarlyStopProg.run script P = some res) :
    res.calls ≤ 1 + P.num_round * P.max_train := by
  rw [gen_run_eq] at h
  exact calls_bound script (cfgOf P) res h

/-- the translated source returns the first strict running minimum of the last round (or the round's start state) -/
theorem src_result_first_argmin (res : Result) (h : Gen.EarlyStopProg.run script P = some res) :
    ∃ rc, (allRounds script (cfgOf P)).getLast? = some rc ∧
      ((res.best = rc.start ∧ ∀ st ∈ rc.out.steps, st.loss.lt rc.bar0 = false) ∨
       (∃ pre st post, rc.out.steps = pre ++ st :: post ∧ res.best = st.outState ∧
          st.loss.lt rc.bar0 = true ∧
          (∀ x ∈ pre, x.loss = Loss.nan ∨ st.loss.lt x.loss = true) ∧
          (∀ x ∈ post, x.loss.lt st.loss = false))) := by
  rw [gen_run_eq] at h
  exact result_first_argmin script (cfgOf P) res h

/-- the translated source raises (NameError) exactly for `num_round = 0` -/
theorem src_run_isSome_iff : (Gen.EarlyStopProg.run script P).isSome = true ↔ 0 < P.num_round := by
  rw [gen_run_eq]
  exact run_isSome_iff script (cfgOf P)

/-- every update call of the translated source is a step of the model's trace: the patience / restart / learning-rate
theorems above, stated on `allRounds`, are statements about the calls the source makes -/
theorem src_calls_are_model_steps :
    Gen.EarlyStopProg.calls script P =
      (0, 0) :: (allRounds script (cfgOf P)).flatMap (fun rc => rc.out.steps.map fun st => (st.round, st.inState)) :=
  gen_calls_eq script P

end source

end Pysersic.Props.C14
