/-
C07 — Each loss function is the likelihood its documentation states.

`lossPixel K k ν m̄ p` is the code-shaped log-density contribution of one unmasked
pixel (Prob/Loss.lean mirrors pysersic/loss.py expression by expression); the
theorems identify it, over ℝ, with the documented likelihood for every model
value, datum, positive rms and nuisance value.  `K` is the constant table
regenerated from loss.py; the obligations `repo_*` state what the theorems need
of it.
-/
import Proofs.ProbReal
import PysersicModel.Gen.Consts
import Mathlib.Analysis.SpecialFunctions.Pow.Real

namespace Pysersic.Props.C07
open Pysersic Pysersic.Prob Real

variable (K : LossConstsQ) (nu : Nuis ℝ) (mr : ℝ) (p : Pix ℝ)

/-- Gaussian with σ = rms -/
theorem gaussian_doc (hr : 0 < p.r) :
    lossPixel K .gaussian nu mr p
      = -(p.d - p.m) ^ 2 / (2 * p.r ^ 2) - Real.log p.r - Real.log (2 * π) / 2 := by
  simp only [lossPixel]
  exact normalLogPdf_real _ _ _ hr

/-- Gaussian with σ scaled by (1 + f) -/
theorem gaussian_w_frac_doc (hr : 0 < p.r) (hf : -1 < nu.frac) :
    lossPixel K .gaussianWFrac nu mr p
      = -(p.d - p.m) ^ 2 / (2 * ((1 + nu.frac) * p.r) ^ 2) - Real.log ((1 + nu.frac) * p.r)
        - Real.log (2 * π) / 2 := by
  simp only [lossPixel, one_real]
  exact normalLogPdf_real _ _ _ (by have : 0 < 1 + nu.frac := by linarith
                                    positivity)

/-- Gaussian with a systematic term added in quadrature: σ² = rms² + σ_sys² -/
theorem gaussian_w_sys_doc (hr : 0 < p.r) :
    lossPixel K .gaussianWSys nu mr p
      = -(p.d - p.m) ^ 2 / (2 * (p.r ^ 2 + (sysScatter nu mr) ^ 2))
        - Real.log (p.r ^ 2 + (sysScatter nu mr) ^ 2) / 2 - Real.log (2 * π) / 2 := by
  simp only [lossPixel, sq_real, Transc.sqrt_real]
  have hpos : 0 < p.r ^ 2 + (sysScatter nu mr) ^ 2 := by positivity
  rw [normalLogPdf_real _ _ _ (Real.sqrt_pos.mpr hpos), Real.sq_sqrt hpos.le, Real.log_sqrt hpos.le]

/-- the Cash statistic −(m − d ln m) -/
theorem cash_doc : lossPixel K .cash nu mr p = -(p.m - p.d * Real.log p.m) := by
  simp [lossPixel]

/-- pseudo-Huber: −δ² (√(1 + (r/δ)²) − 1) of the rms-scaled residual r, when the source
carries the δ² prefactor -/
theorem pseudo_huber_doc (hK : K.huberDeltaSq = true) :
    lossPixel K .pseudoHuber nu mr p
      = -((K.delta.to : ℝ) ^ 2 *
          (Real.sqrt (1 + (((p.d - p.m) / p.r) / (K.delta.to : ℝ)) ^ 2) - 1)) := by
  simp [lossPixel, hK]

/-- **tie 1**: the current source has the documented δ² prefactor -/
theorem repo_huber_prefactor : Gen.lossConsts.huberDeltaSq = true := by decide

/-- small-residual limit check of the documented form: at r = 0 the loss vanishes -/
theorem pseudo_huber_zero (hK : K.huberDeltaSq = true) (h : p.d = p.m) :
    lossPixel K .pseudoHuber nu mr p = 0 := by
  rw [pseudo_huber_doc K nu mr p hK, h]; simp

/-! ### Student-t: location, symmetry, scale, tail exponent -/

/-- closed form: `C(ν) − ln s − ((ν+1)/2) ln(1 + t²/ν)` with `t = (d − m)/s` -/
theorem studentT_form (df loc s x : ℝ) :
    studentTLogPdf df loc s x
      = -((1 / 2) * (df + 1)) * Real.log (1 + ((x - loc) / s) ^ 2 / df)
        - (Real.log s + (1 / 2) * Real.log df + (1 / 2) * Real.log π
            + Real.log (Real.Gamma ((1 / 2) * df)) - Real.log (Real.Gamma ((1 / 2) * (df + 1)))) := by
  simp [studentTLogPdf]

/-- located at the model and symmetric in the residual -/
theorem studentT_symmetric (t : ℝ) :
    lossPixel K .studentT nu mr ⟨p.m, p.m + t, p.r, p.good⟩
      = lossPixel K .studentT nu mr ⟨p.m, p.m - t, p.r, p.good⟩ := by
  simp only [lossPixel, studentT_form]
  have : ((p.m + t - p.m) / (studentScale K.nu * p.r)) ^ 2 = ((p.m - t - p.m) / (studentScale K.nu * p.r)) ^ 2 := by
    ring
  rw [this]

/-- depends on (d, m, rms) only through the rms-scaled residual, up to −ln rms:
rescaling residual and rms together by `a > 0` shifts the log-density by −ln a -/
theorem studentT_scale (a : ℝ) (ha : 0 < a) (hr : 0 < p.r) (hk : 0 < (studentScale K.nu : ℝ)) (t : ℝ) :
    lossPixel K .studentT nu mr ⟨p.m, p.m + a * t, a * p.r, p.good⟩
      = lossPixel K .studentT nu mr ⟨p.m, p.m + t, p.r, p.good⟩ - Real.log a := by
  simp only [lossPixel, studentT_form]
  have h1 : (p.m + a * t - p.m) / (studentScale K.nu * (a * p.r)) = (p.m + t - p.m) / (studentScale K.nu * p.r) := by
    field_simp
    ring
  rw [h1, show (studentScale K.nu : ℝ) * (a * p.r) = a * (studentScale K.nu * p.r) by ring,
    Real.log_mul ha.ne' (by positivity)]
  ring

/-- tail exponent: the only dependence on the residual is `−((ν+1)/2) · ln(1 + t²/ν)`;
for the regenerated ν this is 3 = (5+1)/2, i.e. density ∝ |t|^{-6} far out -/
theorem repo_student_df : (Gen.lossConsts.nu.to : ℝ) = 5 ∧ (Gen.lossConsts.nuSys.to : ℝ) = 5 := by
  constructor <;> (rw [Q.to_real]; norm_num [Gen.lossConsts])

theorem repo_student_scale_pos : 0 < (studentScale Gen.lossConsts.nu : ℝ) := by
  unfold studentScale
  simp only [Transc.sqrt_real, two_real]
  rw [repo_student_df.1]
  apply Real.sqrt_pos.mpr
  norm_num

/-! ### the two-component mixtures -/

/-- mixture log-density = log of the weighted sum of the two Gaussian densities -/
theorem mix2_doc (w loc s1 s2 x : ℝ) (hw0 : 0 < w) (hw1 : w < 1) (h1 : 0 < s1) (h2 : 0 < s2) :
    (Dist.mix2Normal w loc s1 s2).logProb x
      = Real.log ((1 - w) * (Real.exp (-(x - loc) ^ 2 / (2 * s1 ^ 2)) / (Real.sqrt (2 * π) * s1))
          + w * (Real.exp (-(x - loc) ^ 2 / (2 * s2 ^ 2)) / (Real.sqrt (2 * π) * s2))) := by
  simp only [Dist.logProb, logAddExp, Transc.log_real, Transc.exp_real, one_real]
  rw [Real.exp_add, Real.exp_add, Real.exp_log (by linarith), Real.exp_log hw0,
    exp_normalLogPdf _ _ _ h1, exp_normalLogPdf _ _ _ h2]

/-- `gaussian_mixture`: core σ = rms, outlier σ = c·rms -/
theorem mixture_components :
    lossPixel K .mixture nu mr p
      = (Dist.mix2Normal (contamFrac K nu) p.m p.r ((K.c.to : ℝ) * p.r)).logProb p.d := rfl

/-- `gaussian_mixture_w_sys`: both components built on √(rms² + σ_sys²) -/
theorem mixture_w_sys_components :
    lossPixel K .mixtureWSys nu mr p
      = (Dist.mix2Normal (contamFrac K nu) p.m (Real.sqrt (p.r ^ 2 + (sysScatter nu mr) ^ 2))
          ((K.c.to : ℝ) * Real.sqrt (p.r ^ 2 + (sysScatter nu mr) ^ 2))).logProb p.d := by
  simp [lossPixel]

/-- `gaussian_mixture_w_frac`: the core component is scaled by (1 + rms_frac), the
outlier component stays at c·rms (as its docstring says) -/
theorem mixture_w_frac_components :
    lossPixel K .mixtureWFrac nu mr p
      = (Dist.mix2Normal (contamFrac K nu) p.m ((1 + nu.sigFrac) * p.r) ((K.c.to : ℝ) * p.r)).logProb p.d := by
  simp [lossPixel]

/-- outlier fraction confined to [0, 0.25] on the support of its base variable -/
theorem contam_range (h0 : 0 ≤ nu.contamBase) (h1 : nu.contamBase ≤ (Gen.lossConsts.contamHigh.to : ℝ)) :
    0 ≤ contamFrac Gen.lossConsts nu ∧ contamFrac Gen.lossConsts nu ≤ 1 / 4 := by
  unfold contamFrac
  rw [Q.to_real] at h1 ⊢
  norm_num [Gen.lossConsts] at h1 ⊢
  constructor <;> nlinarith

/-- outlier component is `c = 5` times wider -/
theorem repo_outlier_width : (Gen.lossConsts.c.to : ℝ) = 5 := by
  rw [Q.to_real]; norm_num [Gen.lossConsts]

/-- documented nuisance supports: f ∈ [−0.5, 2]; σ_sys base ≥ 0; outlier base ∈ [0, 5];
rms_frac ∈ [−2/3, 2] -/
theorem repo_nuisance_supports :
    (nuisanceSites (α := ℝ) Gen.lossConsts .gaussianWFrac).map (·.1) = ["frac_rms_increase"] ∧
    (Gen.lossConsts.fracLow.to : ℝ) = -1 / 2 ∧ (Gen.lossConsts.fracHigh.to : ℝ) = 2 ∧
    (Gen.lossConsts.sigFracLow.to : ℝ) = -2 / 3 ∧ (Gen.lossConsts.sigFracHigh.to : ℝ) = 2 ∧
    (Gen.lossConsts.contamHigh.to : ℝ) = 5 := by
  refine ⟨rfl, ?_, ?_, ?_, ?_, ?_⟩ <;> (rw [Q.to_real]; norm_num [Gen.lossConsts])

/-- which nuisance latents each loss introduces: nothing but its documented ones -/
theorem nuisance_names :
    LossKind.all.map (fun k => (nuisanceSites (α := ℝ) Gen.lossConsts k).map (·.1)) =
      [[], [], ["frac_rms_increase"], ["sys_rms_base"], [], ["sys_rms_base"], [],
       ["outlier_frac_base"], ["outlier_frac_base", "sys_rms_base"], ["outlier_frac_base", "rms_frac"]] := by
  rfl

/-! ### non-vacuity -/
example : (0 : ℝ) < (⟨1, 2, 0.5, true⟩ : Pix ℝ).r := by norm_num
/-- the form without the δ² prefactor differs (δ = 3, scaled residual 4): witness of the repaired defect -/
example : (Real.sqrt (1 + (4 / 3 : ℝ) ^ 2) - 1) ≠ 3 ^ 2 * (Real.sqrt (1 + (4 / 3 : ℝ) ^ 2) - 1) := by
  have h : Real.sqrt (1 + (4 / 3 : ℝ) ^ 2) = 5 / 3 := by
    rw [show (1 + (4 / 3 : ℝ) ^ 2) = (5 / 3) ^ 2 by norm_num]
    exact Real.sqrt_sq (by norm_num)
  rw [h]; norm_num

end Pysersic.Props.C07
