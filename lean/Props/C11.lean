/-
C11 — Prior-setting helpers install exactly the stated distribution.

Over ℝ, for every loc, every scale > 0 and every bound: the object the Gaussian helper
installs has the textbook normal log-density in the parameter's own units; the uniform
helper −log(high − low); the truncated helper the normal density renormalised by
Φ((high−loc)/scale) − Φ((low−loc)/scale) (one-sided cases included), the truncation
window in the parameter's units being exactly [low, high].  The re-parameterisation is
exact: the value exposed under the parameter's name is loc + scale·base, and the plain
log-density at that value equals the base log-density minus log scale — the posterior
over the user-facing parameter differs by the constant Jacobian only.

As numpyro evaluates `log_prob` without support masking (validate_args off), the
installed object reports these formulas also outside the stated bounds; the model
mirrors that, and the theorems are stated as formulas valid everywhere.
-/
import Proofs.ProbReal
import PysersicModel.Prob.Prior
import PysersicModel.Gen.Consts

namespace Pysersic.Props.C11
open Pysersic Pysersic.Prob Real

/-- Gaussian helper: textbook normal log-density in the parameter's units -/
theorem gaussian_logpdf (loc scale x : ℝ) (hs : 0 < scale) :
    (gaussianPrior loc scale).logProb x
      = -(x - loc) ^ 2 / (2 * scale ^ 2) - Real.log scale - Real.log (2 * π) / 2 := by
  simp only [gaussianPrior, Dist.logProb, Transc.log_real]
  rw [normalLogPdf_real _ _ _ (by simp)]
  simp only [zero_real, one_real, sub_zero, one_pow, mul_one, Real.log_one, sub_zero, div_pow]
  field_simp
  ring

/-- uniform helper: constant density 1/(high − low) -/
theorem uniform_logpdf (low high x : ℝ) :
    (uniformPrior low high).logProb x = -Real.log (high - low) := by
  simp [uniformPrior, Dist.logProb]

/-- truncated helper: normal density renormalised by the mass of the window, bounds given in the
parameter's own units -/
theorem trunc_logpdf (loc scale x : ℝ) (low high : Option ℝ) (hs : 0 < scale) :
    (truncGaussianPrior loc scale low high).logProb x
      = -(x - loc) ^ 2 / (2 * scale ^ 2) - Real.log scale - Real.log (2 * π) / 2
        - Real.log ((match high with | some h => Phi ((h - loc) / scale) | none => 1)
                    - (match low with | some l => Phi ((l - loc) / scale) | none => 0)) := by
  simp only [truncGaussianPrior, Dist.logProb, Transc.log_real]
  rw [normalLogPdf_real _ _ _ (by simp)]
  simp only [zero_real, one_real, sub_zero, one_pow, mul_one, Real.log_one, sub_zero, div_pow, truncMass, div_one, Transc.ncdf_real, Transc.log_real]
  cases low <;> cases high <;> simp only [Option.map] <;> field_simp <;> ring

/-- the truncation window in the parameter's units is [low, high]:
(low − loc)/scale ≤ (x − loc)/scale ⇔ low ≤ x, and likewise for high -/
theorem window_low (loc scale low x : ℝ) (hs : 0 < scale) : (low - loc) / scale ≤ (x - loc) / scale ↔ low ≤ x := by
  rw [div_le_div_iff_of_pos_right hs]; constructor <;> intro h <;> linarith

theorem window_high (loc scale high x : ℝ) (hs : 0 < scale) : (x - loc) / scale ≤ (high - loc) / scale ↔ x ≤ high := by
  rw [div_le_div_iff_of_pos_right hs]; constructor <;> intro h <;> linarith

/-- the uniform helper's support in the parameter's units is [low, high] -/
theorem uniform_window (low high z : ℝ) (h : low < high) :
    (0 ≤ z ∧ z ≤ 1) ↔ (low ≤ (uniformPrior low high).fromBase z ∧ (uniformPrior low high).fromBase z ≤ high) := by
  simp only [uniformPrior, Dist.fromBase]
  have hp : 0 < high - low := by linarith
  constructor
  · rintro ⟨h0, h1⟩
    constructor <;> nlinarith
  · rintro ⟨h0, h1⟩
    constructor
    · by_contra hz
      push_neg at hz
      nlinarith
    · by_contra hz
      push_neg at hz
      nlinarith

/-- **the exposed value** under the parameter's name is loc + scale·base, for all three helpers -/
theorem exposed_value (loc scale low high z : ℝ) (lo hi : Option ℝ) :
    (gaussianPrior loc scale).fromBase z = loc + scale * z
      ∧ (uniformPrior low high).fromBase z = low + (high - low) * z
      ∧ (truncGaussianPrior loc scale lo hi).fromBase z = loc + scale * z := by
  simp [gaussianPrior, uniformPrior, truncGaussianPrior, Dist.fromBase]

/-- **constant Jacobian**: for every base distribution, the plain log-density at the exposed value
is the base log-density at the base value minus log scale -/
theorem reparam_constant_jacobian (b : Prob.Dist ℝ) (loc scale z : ℝ) (hs : scale ≠ 0) :
    (Dist.affine b loc scale).logProb ((Dist.affine b loc scale).fromBase z)
      = (Dist.affine b loc scale).baseOf.logProb z - Real.log scale := by
  simp only [Dist.logProb, Dist.fromBase, Dist.baseOf, Transc.log_real]
  congr 2
  field_simp
  ring

/-- … hence a whole reparameterised prior differs from the plain prior by the constant Σ log scale_i -/
theorem prior_reparam_constant (entries : List (String × (Prob.Dist ℝ × ℝ × ℝ))) (z : String → ℝ)
    (hs : ∀ e ∈ entries, e.2.2.2 ≠ 0) :
    Render.sumList (entries.map fun e => (Dist.affine e.2.1 e.2.2.1 e.2.2.2).logProb
        ((Dist.affine e.2.1 e.2.2.1 e.2.2.2).fromBase (z e.1)))
      = Render.sumList (entries.map fun e => e.2.1.logProb (z e.1))
        - Render.sumList (entries.map fun e => Real.log e.2.2.2) := by
  induction entries with
  | nil => simp [Render.sumList]
  | cons e t ih =>
    have h1 := hs e (by simp)
    have h2 : ∀ e' ∈ t, e'.2.2.2 ≠ 0 := fun e' he' => hs e' (by simp [he'])
    simp only [List.map_cons, Render.sumList, ih h2]
    have := reparam_constant_jacobian e.2.1 e.2.2.1 e.2.2.2 (z e.1) h1
    simp only [Dist.baseOf] at this
    rw [this]
    ring

/-! ### outside the stated bounds the density is zero -/

/-- **tie 1**: the bounded helpers of the current source hand the base support to the affine
transform and validate arguments, so numpyro masks values outside the support -/
theorem repo_support_masked : Gen.priorSupportMasked = true := by decide

/-- with masking, a point outside the support has log-density −∞ (`none`) -/
theorem masked_outside (d : Prob.Dist ℝ) (x : ℝ) (h : d.inSupport x = false) : helperLogProb true d x = none := by
  simp [helperLogProb, h]

/-- … and a point inside has the textbook log-density of the theorems above -/
theorem masked_inside (d : Prob.Dist ℝ) (x : ℝ) (h : d.inSupport x = true) : helperLogProb true d x = some (d.logProb x) := by
  simp [helperLogProb, h]

/-- the support of the uniform helper, in the parameter's units, is exactly [low, high] -/
theorem uniform_support (low high x : ℝ) (h : low < high) :
    (uniformPrior low high).inSupport x = true ↔ low ≤ x ∧ x ≤ high := by
  have hp : 0 < high - low := by linarith
  simp only [uniformPrior, Dist.inSupport, Dist.baseInSupport, zero_real, one_real, Bool.and_eq_true, decide_eq_true_eq]
  rw [le_div_iff₀ hp, div_le_iff₀ hp]
  constructor <;> rintro ⟨a, b⟩ <;> constructor <;> linarith

/-- the support of the two-sided truncated helper, in the parameter's units, is exactly [low, high] -/
theorem trunc_support (loc scale low high x : ℝ) (hs : 0 < scale) :
    (truncGaussianPrior loc scale (some low) (some high)).inSupport x = true ↔ low ≤ x ∧ x ≤ high := by
  simp only [truncGaussianPrior, Dist.inSupport, Dist.baseInSupport, Option.map, Bool.and_eq_true, decide_eq_true_eq]
  rw [window_low loc scale low x hs, window_high loc scale high x hs]

/-- one-sided truncation is honoured: only a lower bound → support (low, ∞) -/
theorem trunc_support_low (loc scale low x : ℝ) (hs : 0 < scale) :
    (truncGaussianPrior loc scale (some low) none).inSupport x = true ↔ low < x := by
  simp only [truncGaussianPrior, Dist.inSupport, Dist.baseInSupport, Option.map, decide_eq_true_eq]
  rw [div_lt_div_iff_of_pos_right hs]
  constructor <;> intro h <;> linarith

/-- only an upper bound → support (−∞, high) -/
theorem trunc_support_high (loc scale high x : ℝ) (hs : 0 < scale) :
    (truncGaussianPrior loc scale none (some high)).inSupport x = true ↔ x < high := by
  simp only [truncGaussianPrior, Dist.inSupport, Dist.baseInSupport, Option.map, decide_eq_true_eq]
  rw [div_lt_div_iff_of_pos_right hs]
  constructor <;> intro h <;> linarith

/-- non-vacuity: a concrete truncated prior (r_eff ~ N(3, 1.5) truncated below at 0.5) -/
example : (truncGaussianPrior (3 : ℝ) 1.5 (some 0.5) none).fromBase 0 = 3 := by
  simp [truncGaussianPrior, Dist.fromBase]

end Pysersic.Props.C11
