/-
C20 — Renderer construction options trade accuracy and cost, never meaning.

Proved (all N, all admissible option values):
* the oversampled set of the pixel renderer is exactly rows/columns
  [N/2 − os, N/2 + os) (floor division; clipped at N), empty for os = 0;
  outside it a pixel holds the point-sampled profile, inside it the quadrature
  sum Σ w_i w_j · profile(X + d_j, Y + d_i); a rule whose weights sum to 1
  reproduces a profile that is constant over the sample points;
* the hybrid renderer splits the component list into a Fourier part and a real
  part that together are the whole list, the real part being the last
  `num_pixel_render` (widest) components; with `num_pixel_render = 0` the hybrid
  triple is identical to the Fourier renderer's;
* both branches of `get_amps_sigmas` put the components on the same σ grid
  r_eff · logspace(frac_start, frac_end), whose first and last widths are
  r_eff·frac_start and r_eff·frac_end.
-/
import Proofs.RenderLinear
import PysersicModel.Gen.Consts

namespace Pysersic.Props.C20
open Pysersic Pysersic.Prob Pysersic.Render Real

/-! ### pixel renderer: which pixels are oversampled -/

/-- the box is exactly [N/2 − os, N/2 + os) ∩ [0, N) in both axes -/
theorem inBox_iff (N os r c : ℕ) :
    inBox N os r c = true ↔
      (N / 2 - os ≤ r ∧ r < N / 2 + os ∧ r < N) ∧ (N / 2 - os ≤ c ∧ c < N / 2 + os ∧ c < N) := by
  simp [inBox, boxLo, boxHi]
  omega

/-- for admissible half-widths (os ≤ N/2) nothing is clipped: the box has 2·os rows and columns -/
theorem inBox_admissible (N os r c : ℕ) (hos : os ≤ N / 2) :
    inBox N os r c = true ↔ (N / 2 - os ≤ r ∧ r < N / 2 + os) ∧ (N / 2 - os ≤ c ∧ c < N / 2 + os) := by
  rw [inBox_iff]
  omega

/-- os = 0: no pixel is oversampled -/
theorem inBox_zero (N r c : ℕ) : inBox N 0 r c = false := by
  rw [← Bool.not_eq_true, inBox_iff]
  omega

/-- outside the box a pixel holds the centre-sampled profile -/
theorem pixel_outside (bc : BnC) (N os : ℕ) (gl : Render.GL ℝ) (p : SersicP ℝ) (r c : ℕ)
    (h : inBox N os r c = false) :
    renderIntSersic bc N os gl p r c = sersic2d bc (c : ℝ) (r : ℝ) p := by
  simp [renderIntSersic, h]

/-- inside the box a pixel holds the sub-sampled quadrature value -/
theorem pixel_inside (bc : BnC) (N os : ℕ) (gl : Render.GL ℝ) (p : SersicP ℝ) (r c : ℕ)
    (h : inBox N os r c = true) :
    renderIntSersic bc N os gl p r c = osPixel bc gl (c : ℝ) (r : ℝ) p := by
  simp [renderIntSersic, h]

/-- with os = 0 the whole image is point-sampled, for every sub-sampling order -/
theorem pixel_os_zero (bc : BnC) (N : ℕ) (gl : Render.GL ℝ) (p : SersicP ℝ) (r c : ℕ) :
    renderIntSersic bc N 0 gl p r c = sersic2d bc (c : ℝ) (r : ℝ) p :=
  pixel_outside bc N 0 gl p r c (inBox_zero N r c)

theorem sumList_const_mul (K : ℝ) (l : List ℝ) : Render.sumList (l.map (K * ·)) = K * Render.sumList l := by
  induction l with
  | nil => simp [Render.sumList]
  | cons a t ih => simp only [List.map_cons, Render.sumList, ih]; ring

theorem sumList_zip_snd (nodes ws : List ℝ) (h : nodes.length = ws.length) :
    Render.sumList ((nodes.zip ws).map Prod.snd) = Render.sumList ws := by
  rw [List.map_snd_zip (by omega)]

/-- a rule whose weights sum to one reproduces a profile that takes the same value K at all
sample points (sub-sampling never changes a locally flat profile, for any order) -/
theorem osPixel_const (bc : BnC) (gl : Render.GL ℝ) (X Y K : ℝ) (p : SersicP ℝ)
    (hlen : gl.nodes.length = gl.weights.length) (hw : Render.sumList gl.weights = 1)
    (hK : ∀ di ∈ gl.nodes, ∀ dj ∈ gl.nodes, sersic2d bc (X + dj) (Y + di) p = K) :
    osPixel bc gl X Y p = K := by
  simp only [osPixel]
  have inner : ∀ dw ∈ gl.nodes.zip gl.weights,
      Render.sumList ((gl.nodes.zip gl.weights).map fun (x : ℝ × ℝ) =>
        sersic2d bc (X + x.1) (Y + dw.1) p * (x.2 * dw.2)) = K * dw.2 := by
    intro dw hdw
    have hdi : dw.1 ∈ gl.nodes := (List.of_mem_zip hdw).1
    have : ((gl.nodes.zip gl.weights).map fun (x : ℝ × ℝ) => sersic2d bc (X + x.1) (Y + dw.1) p * (x.2 * dw.2))
        = ((gl.nodes.zip gl.weights).map Prod.snd).map ((K * dw.2) * ·) := by
      rw [List.map_map]
      apply List.map_congr_left
      intro x hx
      have hdj : x.1 ∈ gl.nodes := (List.of_mem_zip hx).1
      simp only [Function.comp, hK dw.1 hdi x.1 hdj]
      ring
    rw [this, sumList_const_mul, sumList_zip_snd _ _ hlen, hw, mul_one]
  have outer : ((gl.nodes.zip gl.weights).map fun (dw : ℝ × ℝ) =>
        Render.sumList ((gl.nodes.zip gl.weights).map fun (x : ℝ × ℝ) =>
          sersic2d bc (X + x.1) (Y + dw.1) p * (x.2 * dw.2)))
      = ((gl.nodes.zip gl.weights).map Prod.snd).map (K * ·) := by
    rw [List.map_map]
    apply List.map_congr_left
    intro dw hdw
    simp only [Function.comp, inner dw hdw]
  have e : ∀ l : List (ℝ × ℝ), (l.map fun x => match x with
      | (di, wi) => Render.sumList (l.map fun x => match x with
        | (dj, wj) => sersic2d bc (X + dj) (Y + di) p * (wj * wi)))
      = (l.map fun (dw : ℝ × ℝ) => Render.sumList (l.map fun (x : ℝ × ℝ) =>
          sersic2d bc (X + x.1) (Y + dw.1) p * (x.2 * dw.2))) := by
    intro l; rfl
  rw [e, outer, sumList_const_mul, sumList_zip_snd _ _ hlen, hw, mul_one]

/-! ### hybrid renderer: the component split -/

/-- the Fourier part and the (un-broadened) real part together are the whole component list -/
theorem split_partition (npr : ℕ) (cs : List (GComp ℝ)) :
    fourierPart npr cs ++ cs.drop (cs.length - npr) = cs := by
  simp [fourierPart, List.take_append_drop]

/-- the real part consists of the last `npr` components (all of them if npr exceeds the list) -/
theorem realPart_length (npr : ℕ) (sp : ℝ) (cs : List (GComp ℝ)) :
    (Render.realPart npr sp cs).length = min npr cs.length := by
  simp only [Render.realPart, List.length_map, List.length_drop]
  omega

theorem fourierPart_length (npr : ℕ) (cs : List (GComp ℝ)) :
    (fourierPart npr cs).length = cs.length - npr := by
  simp only [fourierPart, List.length_take]
  omega

/-- the components drawn in real space are the widest ones: entry i of the real part is the
broadened component number `length − npr + i` of the list (the σ grid is increasing) -/
theorem realPart_get (npr : ℕ) (sp : ℝ) (cs : List (GComp ℝ)) (i : ℕ) (hnpr : npr ≤ cs.length) (hi : i < npr) :
    (Render.realPart npr sp cs)[i]? = (cs[cs.length - npr + i]?).map (broaden sp) := by
  simp [Render.realPart, List.getElem?_map, List.getElem?_drop]

/-- **`num_pixel_render = 0`: the hybrid renderer's Sersic triple is identical to the Fourier
renderer's**, for every parameter value and every other option -/
theorem hybrid_zero_eq_fourier (R : Renderer ℝ) (p : SersicP ℝ) (hk : R.kind = .hybrid) (h0 : R.npr = 0) :
    R.sersic p = ({ R with kind := .fourier } : Renderer ℝ).sersic p := by
  unfold Renderer.sersic
  simp only [hk, h0, fourierPart, Render.realPart, Nat.sub_zero, List.take_length, List.drop_length, List.map_nil]
  first
    | rfl
    | (congr 1
       funext r c
       simp [gaussPixel, Render.sumList, izero])

/-- point sources never depend on the hybrid/Fourier choice -/
theorem hybrid_pointsource_eq_fourier (R : Renderer ℝ) (xc yc f : ℝ) (hk : R.kind = .hybrid) :
    R.pointsource xc yc f = ({ R with kind := .fourier } : Renderer ℝ).pointsource xc yc f := by
  unfold Renderer.pointsource
  simp [hk]

/-! ### the σ grid is the same for interpolated and direct amplitudes -/

/-- whichever amplitude source is used, component k sits at `sigmaAt cfg r_eff k` with axis ratio 1 − ellip -/
theorem same_sigma_grid (cfg : MogCfg ℝ) (amps amps' : List ℝ) (p : SersicP ℝ) :
    (mogComps cfg amps p).map (fun g => (g.sigma, g.q)) = (mogComps cfg amps' p).map (fun g => (g.sigma, g.q)) := by
  simp [mogComps]

/-- the grid starts at r_eff·frac_start … -/
theorem sigma_first (cfg : MogCfg ℝ) (rEff : ℝ) (hpos : 0 < rEff * cfg.fracStart) :
    sigmaAt cfg rEff 0 = rEff * cfg.fracStart := by
  simp only [sigmaAt, logspaceAt, Transc.rpow_real, Transc.log_real, zero_real]
  have h10 : (0 : ℝ) < ((10 : ℕ) : ℝ) := by norm_num
  have hl : Real.log ((10 : ℕ) : ℝ) ≠ 0 := by
    have : (1 : ℝ) < ((10 : ℕ) : ℝ) := by norm_num
    exact (Real.log_pos this).ne'
  simp only [Nat.cast_zero, zero_mul, add_zero]
  rw [Real.rpow_def_of_pos h10, mul_div_cancel₀ _ hl, Real.exp_log hpos]

/-- … and ends at r_eff·frac_end -/
theorem sigma_last (cfg : MogCfg ℝ) (rEff : ℝ) (h2 : 2 ≤ cfg.nSigma) (hlo : 0 < rEff * cfg.fracStart)
    (hhi : 0 < rEff * cfg.fracEnd) :
    sigmaAt cfg rEff (cfg.nSigma - 1) = rEff * cfg.fracEnd := by
  simp only [sigmaAt, logspaceAt, Transc.rpow_real, Transc.log_real, zero_real]
  have h10 : (0 : ℝ) < ((10 : ℕ) : ℝ) := by norm_num
  have hl : Real.log ((10 : ℕ) : ℝ) ≠ 0 := by
    have : (1 : ℝ) < ((10 : ℕ) : ℝ) := by norm_num
    exact (Real.log_pos this).ne'
  have hn : ¬ cfg.nSigma ≤ 1 := by omega
  have hm : ((cfg.nSigma - 1 : ℕ) : ℝ) ≠ 0 := by
    have : 0 < cfg.nSigma - 1 := by omega
    exact_mod_cast this.ne'
  simp only [hn, if_false]
  rw [mul_div_cancel₀ _ hm, add_sub_cancel, Real.rpow_def_of_pos h10, mul_div_cancel₀ _ hl, Real.exp_log hhi]

/-- the defaults of the current source are admissible: 0 < frac_start < frac_end, n_sigma ≥ 2,
num_pixel_render ≤ n_sigma -/
theorem repo_defaults_admissible :
    (0 : ℚ) < Gen.defaultFracStart.num ∧ Gen.defaultFracStart.num * Gen.defaultFracEnd.den < Gen.defaultFracEnd.num * Gen.defaultFracStart.den
      ∧ 2 ≤ Gen.defaultNSigma ∧ Gen.defaultNpr ≤ Gen.defaultNSigma := by
  decide

/-! ### the box as the source computes it (index arithmetic of `PixelRenderer.__init__`, regenerated on every run) -/

/-- `int(N/2) ∓ os_pixel_size` along both axes: the source's box is the model's `[N/2 − os, N/2 + os)` for every image side
(`int(·)`, `round(·)` and `//` keep their Python meaning in the translation, so a box placed with `round(x_mid)` or
`round((N+1)/2) − 1` — off by one exactly when N ≡ 2 or 0 (mod 4) — does not pass) -/
theorem repo_pixel_box (N0 N1 os : Nat) :
    Gen.pix_x_os_lo N0 N1 os = ((N0 / 2 : Nat) : Int) - os ∧ Gen.pix_x_os_hi N0 N1 os = ((N0 / 2 : Nat) : Int) + os ∧
    Gen.pix_y_os_lo N0 N1 os = ((N1 / 2 : Nat) : Int) - os ∧ Gen.pix_y_os_hi N0 N1 os = ((N1 / 2 : Nat) : Int) + os := by
  have t0 : ∀ x : Int, 0 ≤ x → Int.tdiv x 2 = x / 2 := fun x hx => Int.tdiv_eq_ediv_of_nonneg hx
  simp only [Gen.pix_x_os_lo, Gen.pix_x_os_hi, Gen.pix_y_os_lo, Gen.pix_y_os_hi, Render.roundHalfEven]
  have h0 := t0 ((2 * (N0 : Int)) / 2) (by omega)
  have h1 := t0 ((2 * (N1 : Int)) / 2) (by omega)
  refine ⟨?_, ?_, ?_, ?_⟩ <;> (try rw [h0]) <;> (try rw [h1]) <;> omega

/-- … and for a box that fits (`os ≤ N/2`) its lower edge is the model's `boxLo` -/
theorem repo_pixel_box_lo (N os : Nat) (h : os ≤ N / 2) : Gen.pix_x_os_lo N N os = ((boxLo N os : Nat) : Int) := by
  rw [(repo_pixel_box N N os).1]
  unfold boxLo
  omega

end Pysersic.Props.C20
