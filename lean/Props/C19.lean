/-
C19 — Posterior post-processing wraps only angles and drops only internal variables.

Names are underscore-joined segment lists.  A user-facing parameter name is
`p ++ sfx` where `p` comes from the regenerated parameter tables and `sfx` is
any list of *clean* segments (source index, band name, …): segments that do not
contain one of the trigger substrings.  All theorems quantify over every such
suffix (unbounded) and every real angle value.
-/
import Proofs.Names
import Proofs.RealScalar
import PysersicModel.IO.Results
import PysersicModel.Gen.Consts
import Mathlib.Algebra.Order.Floor.Ring
import Mathlib.Tactic.Linarith
import Mathlib.Tactic.FieldSimp

namespace Pysersic.Props.C19
open Pysersic.Names Pysersic.Results

/-! ### the wrap is a reduction modulo π into [0, π) -/

theorem wrap_eq (x : ℝ) : (wrap x : ℝ) = x + Real.pi - Real.pi * (⌊(x + Real.pi) / Real.pi⌋ : ℝ) := by
  simp [wrap, remainder]

/-- every wrapped value lies in `[0, π)` -/
theorem wrap_range (x : ℝ) : 0 ≤ (wrap x : ℝ) ∧ (wrap x : ℝ) < Real.pi := by
  rw [wrap_eq]
  have hpi := Real.pi_pos
  have h1 := Int.floor_le ((x + Real.pi) / Real.pi)
  have h2 := Int.lt_floor_add_one ((x + Real.pi) / Real.pi)
  rw [le_div_iff₀ hpi] at h1
  rw [div_lt_iff₀ hpi] at h2
  constructor <;> nlinarith

/-- … and is congruent to the sampled value modulo π (so it describes the same image, C09) -/
theorem wrap_congr (x : ℝ) : ∃ k : ℤ, (wrap x : ℝ) = x + k * Real.pi := by
  refine ⟨1 - ⌊(x + Real.pi) / Real.pi⌋, ?_⟩
  rw [wrap_eq]
  push_cast
  ring

/-- values already in range are left where they are -/
theorem wrap_of_mem (x : ℝ) (h0 : 0 ≤ x) (h1 : x < Real.pi) : (wrap x : ℝ) = x := by
  rw [wrap_eq]
  have hpi := Real.pi_pos
  have : ⌊(x + Real.pi) / Real.pi⌋ = 1 := by
    rw [Int.floor_eq_iff]
    constructor
    · rw [le_div_iff₀ hpi]; push_cast; linarith
    · rw [div_lt_iff₀ hpi]; push_cast; linarith
  rw [this]; push_cast; ring

/-! ### which names are touched -/

/-- substrings whose presence in a suffix segment would change the classification -/
def triggers : List String := ["theta", "base", "auto", "unwrapped", "model", "poly", "bspl"]

/-- a segment (source index, band name, …) free of all trigger substrings -/
def Clean (seg : Str) : Prop := ∀ t ∈ triggers, hasSub t.toList seg = false

/-- user-facing parameters: profile and sky parameters of the regenerated tables, plus
the exposed nuisance parameters of the loss functions -/
def userParams : List String :=
  ((Gen.profileParamsPriors.flatMap (·.2)) ++ (Gen.skyParams.flatMap (·.2))).eraseDups ++
    ["frac_rms_increase", "sys_rms", "outlier_frac", "rms_frac"]

theorem any_clean (t : String) (ht : t ∈ triggers) (sfx : List Str) (hs : ∀ s ∈ sfx, Clean s) :
    sfx.any (hasSub t.toList) = false := by
  rw [List.any_eq_false]
  intro s hs'
  simp [hs s hs' t ht]

/-- the trigger substrings are underscore-free and non-empty -/
theorem triggers_ok : ∀ t ∈ triggers, '_' ∉ t.toList ∧ t.toList ≠ [] := by decide

/-- occurrence of a trigger in a joined name, segment by segment -/
theorem has_trigger_join (t : String) (ht : t ∈ triggers) (segs : List Str) :
    hasSub t.toList (joinU segs) = segs.any (hasSub t.toList) :=
  hasSub_joinU _ (triggers_ok t ht).1 (triggers_ok t ht).2 segs

theorem no_poly_coeff (s : Str) (h : hasSub "poly".toList s = false) :
    hasSub "poly_coeff".toList s = false := by
  cases hc : hasSub "poly_coeff".toList s with
  | false => rfl
  | true =>
    have e : "poly_coeff".toList = "poly".toList ++ "_coeff".toList := by decide
    rw [e] at hc
    have := hasSub_of_hasSub_append_right _ _ _ hc
    rw [h] at this
    exact absurd this (by simp)

theorem no_bspl_w (s : Str) (h : hasSub "bspl".toList s = false) :
    hasSub "bspl_w".toList s = false := by
  cases hc : hasSub "bspl_w".toList s with
  | false => rfl
  | true =>
    have e : "bspl_w".toList = "bspl".toList ++ "_w".toList := by decide
    rw [e] at hc
    have := hasSub_of_hasSub_append_right _ _ _ hc
    rw [h] at this
    exact absurd this (by simp)

/-- table facts, decided over the whole regenerated parameter table -/
theorem table_theta : ∀ p ∈ userParams,
    (splitU p.toList).any (hasSub "theta".toList) = (p == "theta") := by decide +kernel
theorem table_clean : ∀ p ∈ userParams, ∀ t ∈ ["base", "auto", "unwrapped", "model", "poly", "bspl"],
    (splitU p.toList).any (hasSub t.toList) = false := by decide +kernel

/-- flags of a name made of table segments followed by clean segments -/
theorem flags_param (p : String) (hp : p ∈ userParams) (sfx : List Str) (hs : ∀ s ∈ sfx, Clean s)
    (t : String) (ht : t ∈ triggers) :
    hasSub t.toList (joinU (splitU p.toList ++ sfx)) =
      (t == "theta" && p == "theta") := by
  rw [has_trigger_join t ht, List.any_append, any_clean t ht sfx hs, Bool.or_false]
  simp only [triggers, List.mem_cons, List.not_mem_nil, or_false] at ht
  rcases ht with rfl | rfl | rfl | rfl | rfl | rfl | rfl
  · simpa using table_theta p hp
  all_goals
    first
    | (have := table_clean p hp "base" (by simp); simpa using this)
    | (have := table_clean p hp "auto" (by simp); simpa using this)
    | (have := table_clean p hp "unwrapped" (by simp); simpa using this)
    | (have := table_clean p hp "model" (by simp); simpa using this)
    | (have := table_clean p hp "poly" (by simp); simpa using this)
    | (have := table_clean p hp "bspl" (by simp); simpa using this)

variable (purge save : Bool)

/-- **user-facing parameters** (any profile / sky / nuisance parameter with any clean
suffix: single source, `_i`, band suffix, both): wrapped iff it is the position angle;
never dropped, never mistaken for the model image. -/
theorem user_param_fate (p : String) (hp : p ∈ userParams) (sfx : List Str) (hs : ∀ s ∈ sfx, Clean s) :
    fate Gen.wrapTest Gen.dropTest Gen.modelTest purge save (joinU (splitU p.toList ++ sfx))
      = ⟨p == "theta", false, false⟩ := by
  have f := flags_param p hp sfx hs
  have hth := f "theta" (by simp [triggers])
  have hba := f "base" (by simp [triggers])
  have hau := f "auto" (by simp [triggers])
  have hun := f "unwrapped" (by simp [triggers])
  have hmo := f "model" (by simp [triggers])
  have hpo := no_poly_coeff _ (by simpa using f "poly" (by simp [triggers]))
  have hbs := no_bspl_w _ (by simpa using f "bspl" (by simp [triggers]))
  simp only [fate, Gen.wrapTest, Gen.dropTest, Gen.modelTest, NameTest.eval]
  simp at hth hba hau hun hmo hpo hbs
  simp [hth, hba, hau, hun, hmo, hpo, hbs]

/-- **link-function values at the saved wavelengths** `p…_at_wv`: an angle iff `p` is `theta` -/
theorem at_wv_fate (p : String) (hp : p ∈ userParams) (sfx : List Str) (hs : ∀ s ∈ sfx, Clean s) :
    fate Gen.wrapTest Gen.dropTest Gen.modelTest purge save
        (joinU (splitU p.toList ++ (sfx ++ ["at".toList, "wv".toList])))
      = ⟨p == "theta", false, false⟩ := by
  apply user_param_fate purge save p hp
  intro s hs'
  simp only [List.mem_append, List.mem_cons, List.not_mem_nil, or_false] at hs'
  rcases hs' with h | rfl | rfl
  · exact hs s h
  · intro t ht; revert t; decide
  · intro t ht; revert t; decide

/-- **polynomial link coefficients** `p…_poly_coeff` pass through untouched, also for `p = theta` -/
theorem poly_coeff_fate (p : String) (hp : p ∈ userParams) (sfx : List Str) (hs : ∀ s ∈ sfx, Clean s) :
    fate Gen.wrapTest Gen.dropTest Gen.modelTest purge save
        (joinU (splitU p.toList ++ sfx) ++ "_poly_coeff".toList)
      = ⟨false, false, false⟩ := by
  have hne : splitU p.toList ++ sfx ≠ [] := by simp [splitU_ne_nil]
  have hsplit : joinU (splitU p.toList ++ sfx) ++ "_poly_coeff".toList
      = joinU ((splitU p.toList ++ sfx) ++ ["poly".toList, "coeff".toList]) := by
    rw [joinU_append _ _ hne (by simp)]
    congr 1
  have hexcl : hasSub "poly_coeff".toList (joinU (splitU p.toList ++ sfx) ++ "_poly_coeff".toList) = true := by
    have := hasSub_append_self_right (joinU (splitU p.toList ++ sfx) ++ ['_']) "poly_coeff".toList
    simpa using this
  -- drop / model flags: segment-wise
  have key : ∀ t ∈ ["base", "auto", "unwrapped", "model"],
      hasSub t.toList (joinU ((splitU p.toList ++ sfx) ++ ["poly".toList, "coeff".toList])) = false := by
    intro t ht
    have htr : t ∈ triggers := by
      simp only [List.mem_cons, List.not_mem_nil, or_false] at ht
      rcases ht with rfl | rfl | rfl | rfl <;> simp [triggers]
    rw [has_trigger_join t htr, List.any_append, List.any_append, any_clean t htr sfx hs]
    have h1 := table_clean p hp t (by
      simp only [List.mem_cons, List.not_mem_nil, or_false] at ht ⊢
      rcases ht with rfl | rfl | rfl | rfl <;> simp)
    rw [h1]
    simp only [List.mem_cons, List.not_mem_nil, or_false] at ht
    rcases ht with rfl | rfl | rfl | rfl <;> decide
  rw [hsplit] at hexcl ⊢
  simp only [fate, Gen.wrapTest, Gen.dropTest, Gen.modelTest, NameTest.eval]
  have hba := key "base" (by simp)
  have hau := key "auto" (by simp)
  have hun := key "unwrapped" (by simp)
  have hmo := key "model" (by simp)
  simp at hba hau hun hmo hexcl
  simp [hba, hau, hun, hmo, hexcl]

/-- **spline link weights** `bspl_w_p…` pass through untouched, also for `p = theta` -/
theorem bspl_w_fate (p : String) (hp : p ∈ userParams) (sfx : List Str) (hs : ∀ s ∈ sfx, Clean s) :
    fate Gen.wrapTest Gen.dropTest Gen.modelTest purge save
        ("bspl_w_".toList ++ joinU (splitU p.toList ++ sfx))
      = ⟨false, false, false⟩ := by
  have hne : splitU p.toList ++ sfx ≠ [] := by simp [splitU_ne_nil]
  have hsplit : "bspl_w_".toList ++ joinU (splitU p.toList ++ sfx)
      = joinU (["bspl".toList, "w".toList] ++ (splitU p.toList ++ sfx)) := by
    rw [joinU_append _ _ (by simp) hne]
    have e : "bspl_w_".toList = joinU ["bspl".toList, "w".toList] ++ ['_'] := by decide
    rw [e]; simp
  have hexcl : hasSub "bspl_w".toList ("bspl_w_".toList ++ joinU (splitU p.toList ++ sfx)) = true := by
    have h0 : hasSub "bspl_w".toList "bspl_w_".toList = true := by decide
    exact hasSub_append_right _ _ _ h0
  have key : ∀ t ∈ ["base", "auto", "unwrapped", "model"],
      hasSub t.toList (joinU (["bspl".toList, "w".toList] ++ (splitU p.toList ++ sfx))) = false := by
    intro t ht
    have htr : t ∈ triggers := by
      simp only [List.mem_cons, List.not_mem_nil, or_false] at ht
      rcases ht with rfl | rfl | rfl | rfl <;> simp [triggers]
    rw [has_trigger_join t htr, List.any_append, List.any_append, any_clean t htr sfx hs]
    have h1 := table_clean p hp t (by
      simp only [List.mem_cons, List.not_mem_nil, or_false] at ht ⊢
      rcases ht with rfl | rfl | rfl | rfl <;> simp)
    rw [h1]
    simp only [List.mem_cons, List.not_mem_nil, or_false] at ht
    rcases ht with rfl | rfl | rfl | rfl <;> decide
  rw [hsplit] at hexcl ⊢
  simp only [fate, Gen.wrapTest, Gen.dropTest, Gen.modelTest, NameTest.eval]
  have hba := key "base" (by simp)
  have hau := key "auto" (by simp)
  have hun := key "unwrapped" (by simp)
  have hmo := key "model" (by simp)
  simp at hba hau hun hmo hexcl
  simp [hba, hau, hun, hmo, hexcl]

/-- **internal re-parameterisation variables** (`…_base`, `…_auto_loc`, `…unwrapped…`):
every name containing one of these substrings is removed when purging -/
theorem internal_dropped (pre post : Str) (lit : String) (hl : lit ∈ ["base", "auto", "unwrapped"]) :
    (fate Gen.wrapTest Gen.dropTest Gen.modelTest true save (pre ++ lit.toList ++ post)).dropped = true ∧
    (fate Gen.wrapTest Gen.dropTest Gen.modelTest true save (pre ++ lit.toList ++ post)).asModel = false := by
  have h : hasSub lit.toList (pre ++ lit.toList ++ post) = true :=
    hasSub_append_right _ _ _ (hasSub_append_self_right pre lit.toList)
  simp only [List.mem_cons, List.not_mem_nil, or_false] at hl
  simp only [fate, Gen.dropTest, Gen.modelTest, NameTest.eval]
  rcases hl with rfl | rfl | rfl <;> (rw [h]; simp)

/-- **the model image** `model…` is removed from the posterior but preserved in `.models` -/
theorem model_fate (sfx : List Str) (hs : ∀ s ∈ sfx, Clean s) :
    fate Gen.wrapTest Gen.dropTest Gen.modelTest true true (joinU ("model".toList :: sfx))
      = ⟨false, true, true⟩ := by
  have key : ∀ t ∈ triggers, hasSub t.toList (joinU ("model".toList :: sfx)) = (t == "model") := by
    intro t ht
    rw [has_trigger_join t ht, List.any_cons, any_clean t ht sfx hs, Bool.or_false]
    revert t; decide
  have hth := key "theta" (by simp [triggers])
  have hba := key "base" (by simp [triggers])
  have hau := key "auto" (by simp [triggers])
  have hun := key "unwrapped" (by simp [triggers])
  have hmo := key "model" (by simp [triggers])
  simp only [fate, Gen.wrapTest, Gen.dropTest, Gen.modelTest, NameTest.eval]
  simp at hth hba hau hun hmo
  simp [hth, hba, hau, hun, hmo]

/-- without purging nothing is removed -/
theorem no_purge_keeps_all (name : Str) :
    (fate Gen.wrapTest Gen.dropTest Gen.modelTest false save name).dropped = false ∧
    (fate Gen.wrapTest Gen.dropTest Gen.modelTest false save name).asModel = false := by
  simp [fate]

/-! ### non-vacuity and what lies outside the hypotheses -/

example : Clean "12".toList := by intro t ht; revert t; decide
example : Clean "F444W".toList := by intro t ht; revert t; decide
example : "theta" ∈ userParams ∧ "r_eff_1" ∈ userParams ∧ "sky_x_sl" ∈ userParams := by decide
/-- regression witness of the repaired defect -/
example : (fate Gen.wrapTest Gen.dropTest Gen.modelTest true true "theta_poly_coeff".toList).wrapped = false := by decide
example : (fate Gen.wrapTest Gen.dropTest Gen.modelTest true true "bspl_w_theta".toList).wrapped = false := by decide
example : (fate Gen.wrapTest Gen.dropTest Gen.modelTest true true "theta_at_wv".toList).wrapped = true := by decide
/-- a band literally called `theta` is outside the hypotheses: `n_theta` would be wrapped -/
example : ¬ Clean "theta".toList := by intro h; have := h "theta" (by simp [triggers]); revert this; decide
example : (fate Gen.wrapTest Gen.dropTest Gen.modelTest true true "n_theta".toList).wrapped = true := by decide

end Pysersic.Props.C19
