/-
C03 — The model is the intrinsic scene convolved with the PSF exactly as supplied.

Code-level model: `PSF_fft` = zero-padded DFT of the stamp times two phase ramps
that move the stamp's geometric centre (s/2 − ½) to the origin, with the constant
for π *as extracted from the source*; the pixel renderer's point source is the
bilinearly interpolated stamp, with the centre offset and the axis order *as
extracted from the source*.

Proved here (ℝ): the obligations on the extracted facts (the ramps use π; the
stamp is addressed rows-by-y, centred on (s−1)/2); for those facts a pixel-renderer
point source at an integer position is exactly flux × the stamp embedded with its
centre on that pixel, orientation preserved, zero elsewhere; a Fourier/hybrid point
source at an integer position is an exact whole-pixel shift of the one at the origin
(DFT shift theorem, from C09); a 1×1 unit PSF has transform ≡ 1 whatever the ramp
constant, so the Fourier-space part of the scene is returned unchanged.

Also proved (Proofs/RenderConv.lean): the **convolution theorem for the code-level
pipeline** — for odd stamps and π in the ramps, `irfft2(rfft2(I)·PSF_fft)` with the c2r
half-plane weights is exactly circular convolution with the stamp centred on its
geometric centre, rows and columns not exchanged; in particular irfft2 ∘ rfft2 is the
identity on real images.  Even-sized stamps (half-pixel Fourier shift) are outside the
theorem and are covered by the correspondence and the centroid clause of the oracle.
-/
import Props.C09
import Proofs.RenderConv

namespace Pysersic.Props.C03
open Pysersic Pysersic.Prob Pysersic.Render Real

/-! ### obligations on the facts regenerated from the source -/

/-- **tie 1**: both PSF phase ramps use π (not a truncated literal) -/
theorem repo_ramp_is_pi : Gen.rampX = .pi ∧ Gen.rampY = .pi := by decide

/-- **tie 1**: the pixel renderer addresses stamp rows by the image row and centres the stamp
on its geometric centre (s − 1)/2 -/
theorem repo_ps_conv : Gen.psConv = ⟨true, true⟩ := by decide

/-! ### the interpolation weight at integers -/

theorem hat_real (t : ℝ) : hat t = max 0 (1 - |t|) := by
  simp only [hat, zero_real, one_real]
  congr 2

theorem hat_int (k : ℤ) : hat (k : ℝ) = if k = 0 then 1 else 0 := by
  rw [hat_real]
  by_cases h : k = 0
  · simp [h]
  · simp only [h, if_false]
    have : (1 : ℝ) ≤ |(k : ℝ)| := by
      rw [← Int.cast_abs]
      exact_mod_cast Int.one_le_abs h
    exact max_eq_left (by linarith)

theorem hat_sub_nat (a : ℤ) (i : ℕ) : hat ((a : ℝ) - (i : ℝ)) = if a = i then 1 else 0 := by
  have : ((a : ℝ) - (i : ℝ)) = ((a - i : ℤ) : ℝ) := by push_cast; ring
  rw [this, hat_int]
  by_cases h : a = i
  · simp [h]
  · have : a - (i : ℤ) ≠ 0 := fun e => h (by omega)
    simp [h, this]

/-- bilinear interpolation with zero padding, evaluated at integer coordinates, reads the
array entry there — or zero outside the array -/
theorem bilinear_int (s0 s1 : ℕ) (img : Img ℝ) (a b : ℤ) :
    bilinear s0 s1 img (a : ℝ) (b : ℝ)
      = if 0 ≤ a ∧ a < s0 ∧ 0 ≤ b ∧ b < s1 then img a.toNat b.toNat else 0 := by
  simp only [bilinear, sumN_real, hat_sub_nat]
  by_cases h : 0 ≤ a ∧ a < s0 ∧ 0 ≤ b ∧ b < s1
  · obtain ⟨ha0, ha1, hb0, hb1⟩ := h
    simp only [ha0, ha1, hb0, hb1, and_self, if_true]
    have hA : (a.toNat : ℤ) = a := Int.toNat_of_nonneg ha0
    have hB : (b.toNat : ℤ) = b := Int.toNat_of_nonneg hb0
    rw [Finset.sum_eq_single a.toNat]
    · rw [Finset.sum_eq_single b.toNat]
      · simp [hA, hB]
      · intro j _ hj
        have : b ≠ (j : ℤ) := fun e => hj (by omega)
        simp [this]
      · intro hj; exfalso; apply hj; rw [Finset.mem_range]; omega
    · intro i _ hi
      have : a ≠ (i : ℤ) := fun e => hi (by omega)
      simp [this]
    · intro hi; exfalso; apply hi; rw [Finset.mem_range]; omega
  · simp only [h, if_false]
    apply Finset.sum_eq_zero; intro i hi
    apply Finset.sum_eq_zero; intro j hj
    rw [Finset.mem_range] at hi hj
    by_cases h1 : a = i
    · by_cases h2 : b = j
      · exfalso; apply h; omega
      · simp [h2]
    · simp [h1]

/-! ### pixel renderer: a point source at an integer pixel is the embedded stamp -/

/-- **with the extracted facts `⟨rows by y, geometric centre⟩`, an odd-sized stamp
(2h₀+1)×(2h₁+1) and a source at the integer pixel (x₀, y₀), pixel (r, c) receives
flux × PSF[r − y₀ + h₀, c − x₀ + h₁] — the stamp centred on the source, not transposed,
not mirrored — and zero outside the stamp's footprint** -/
theorem pixel_pointsource_integer (psf : Img ℝ) (h0 h1 x0 y0 r c : ℕ) (flux : ℝ) :
    pixelPointSource ⟨true, true⟩ (2 * h0 + 1) (2 * h1 + 1) psf (x0 : ℝ) (y0 : ℝ) flux r c
      = if y0 ≤ r + h0 ∧ r + h0 < y0 + (2 * h0 + 1) ∧ x0 ≤ c + h1 ∧ c + h1 < x0 + (2 * h1 + 1)
        then psf (r + h0 - y0) (c + h1 - x0) * flux else 0 := by
  simp only [pixelPointSource, if_true, one_real, two_real]
  have e0 : (((2 * h0 + 1 : ℕ) : ℝ) - 1) / 2 = h0 := by push_cast; ring
  have e1 : (((2 * h1 + 1 : ℕ) : ℝ) - 1) / 2 = h1 := by push_cast; ring
  rw [e0, e1]
  have ea : (r : ℝ) - ((y0 : ℝ) - h0) = (((r : ℤ) + h0 - y0 : ℤ) : ℝ) := by push_cast; ring
  have eb : (c : ℝ) - ((x0 : ℝ) - h1) = (((c : ℤ) + h1 - x0 : ℤ) : ℝ) := by push_cast; ring
  rw [ea, eb, bilinear_int]
  by_cases h : y0 ≤ r + h0 ∧ r + h0 < y0 + (2 * h0 + 1) ∧ x0 ≤ c + h1 ∧ c + h1 < x0 + (2 * h1 + 1)
  · have h' : (0 : ℤ) ≤ (r : ℤ) + h0 - y0 ∧ (r : ℤ) + h0 - y0 < ((2 * h0 + 1 : ℕ) : ℤ)
        ∧ (0 : ℤ) ≤ (c : ℤ) + h1 - x0 ∧ (c : ℤ) + h1 - x0 < ((2 * h1 + 1 : ℕ) : ℤ) := by
      obtain ⟨a, b, c', d⟩ := h
      push_cast
      omega
    rw [if_pos h', if_pos h]
    have t0 : ((r : ℤ) + h0 - y0).toNat = r + h0 - y0 := by omega
    have t1 : ((c : ℤ) + h1 - x0).toNat = c + h1 - x0 := by omega
    rw [t0, t1]
  · have h' : ¬ ((0 : ℤ) ≤ (r : ℤ) + h0 - y0 ∧ (r : ℤ) + h0 - y0 < ((2 * h0 + 1 : ℕ) : ℤ)
        ∧ (0 : ℤ) ≤ (c : ℤ) + h1 - x0 ∧ (c : ℤ) + h1 - x0 < ((2 * h1 + 1 : ℕ) : ℤ)) := by
      intro hh; apply h
      obtain ⟨a, b, c', d⟩ := hh
      push_cast at b d
      omega
    rw [if_neg h', if_neg h]

/-- non-vacuity: a 3×3 stamp at (x₀, y₀) = (5, 7): the centre pixel gets the centre entry,
the pixel one row up and one column right gets entry (2, 2)… -/
example (psf : Img ℝ) (f : ℝ) :
    pixelPointSource ⟨true, true⟩ 3 3 psf (5 : ℕ) (7 : ℕ) f 7 5 = psf 1 1 * f := by
  have := pixel_pointsource_integer psf 1 1 5 7 7 5 f
  simpa using this

example (psf : Img ℝ) (f : ℝ) :
    pixelPointSource ⟨true, true⟩ 3 3 psf (5 : ℕ) (7 : ℕ) f 8 6 = psf 2 2 * f := by
  have := pixel_pointsource_integer psf 1 1 5 7 8 6 f
  simpa using this

/-- the unrepaired addressing (`⟨rows by x, offset s/2⟩`) does *not* have this property:
a 1×1 unit stamp at pixel (1, 0) is rendered at half weight into the wrong place -/
theorem old_addressing_violates :
    pixelPointSource ⟨false, false⟩ 1 1 (fun _ _ => (1 : ℝ)) (1 : ℕ) (0 : ℕ) 1 0 1 ≠ 1 := by
  simp only [pixelPointSource, bilinear, sumN_real, hat_real, one_real, two_real]
  norm_num [Finset.sum_range_one, abs_of_pos]

/-! ### 1×1 unit PSF -/

/-- the transform of a 1×1 stamp of value a is the constant a, whatever constant the ramps use
(the ramp offset s/2 − ½ vanishes) -/
theorem psfFft_unit (ρx ρy : RampConst) (N : ℕ) (a : ℝ) (v u : ℕ) :
    psfFft ρx ρy N 1 1 (fun _ _ => a) v u = ⟨a, 0⟩ := by
  simp only [psfFft, rfft2, sumNCx, List.range_one, List.map_cons, List.map_nil, sumCx, two_real, half_real]
  apply Cx.ext' <;>
    simp [Cx.mul_re, Cx.mul_im, Cx.add_re, Cx.add_im, Cx.smul_re, Cx.smul_im, Cx.cis, Cx.zero, ang]

/-- with a 1×1 unit PSF the Fourier-space part of a scene is returned unchanged -/
theorem unit_psf_convFft (ρx ρy : RampConst) (N : ℕ) (F : FImg ℝ) :
    convFft N (psfFft ρx ρy N 1 1 (fun _ _ => (1 : ℝ))) F = synth N F := by
  simp only [convFft]
  congr 1
  funext v u
  simp only [fmul, psfFft_unit]
  apply Cx.ext' <;> simp [Cx.mul_re, Cx.mul_im]

/-! ### Fourier / hybrid renderers: integer positions are exact shifts -/

/-- a Fourier point source at the integer pixel (x₀, y₀) is the one at the origin shifted by
exactly (x₀, y₀) pixels, for every PSF transform (in particular for the real, asymmetric,
even- or odd-sized stamps): position enters only through the whole-pixel shift -/
theorem fourier_pointsource_integer (N x0 y0 r c : ℕ) (hN : 0 < N) (P : FImg ℝ) (flux : ℝ)
    (hr : y0 ≤ r) (hc : x0 ≤ c) :
    convFft N P (pointF N (x0 : ℝ) (y0 : ℝ) flux) r c = convFft N P (pointF N 0 0 flux) (r - y0) (c - x0) := by
  have := C09.pointsource_translate N x0 y0 r c hN P 0 0 flux hr hc
  simpa using this

/-! ### extended sources: the model is the intrinsic image convolved with the stamp as supplied -/

/-- **convolution theorem** (odd stamp, π in the ramps): pixel (r, c) of `conv_img(I)` is
Σ_{i,j} PSF[i,j]·I[(r + h − i) mod N, (c + h − j) mod N] — the stamp centred on (h, h), not transposed,
not mirrored.  (`(r + h + (N−1)·i) % N` is `(r + h − i) mod N` written in ℕ.) -/
theorem conv_img_is_circular_convolution (N h r c : ℕ) (hN : 0 < N) (img psf : Img ℝ) :
    convImg N (psfFft .pi .pi N (2 * h + 1) (2 * h + 1) psf) img r c
      = ∑ i ∈ Finset.range (2 * h + 1), ∑ j ∈ Finset.range (2 * h + 1),
          psf i j * img ((r + h + (N - 1) * i) % N) ((c + h + (N - 1) * j) % N) :=
  convImg_circular N h r c hN img psf

/-- for the ramps of the current source -/
theorem repo_conv_img_is_circular_convolution (N h r c : ℕ) (hN : 0 < N) (img psf : Img ℝ) :
    convImg N (psfFft Gen.rampX Gen.rampY N (2 * h + 1) (2 * h + 1) psf) img r c
      = ∑ i ∈ Finset.range (2 * h + 1), ∑ j ∈ Finset.range (2 * h + 1),
          psf i j * img ((r + h + (N - 1) * i) % N) ((c + h + (N - 1) * j) % N) := by
  rw [repo_ramp_is_pi.1, repo_ramp_is_pi.2]
  exact convImg_circular N h r c hN img psf

/-- a 1×1 unit PSF returns the intrinsic image unchanged, whatever constant the ramps use -/
theorem unit_psf_returns_intrinsic (ρx ρy : RampConst) (N r c : ℕ) (hN : 0 < N) (hr : r < N) (hc : c < N) (img : Img ℝ) :
    convImg N (psfFft ρx ρy N 1 1 (fun _ _ => (1 : ℝ))) img r c = img r c := by
  have hP : psfFft ρx ρy N 1 1 (fun _ _ => (1 : ℝ)) = psfFft .pi .pi N 1 1 (fun _ _ => (1 : ℝ)) := by
    funext v u; rw [psfFft_unit, psfFft_unit]
  rw [hP]
  exact synth_rfft2_inverse N r c hN hr hc img

/-- the pixel renderer's scene (intrinsic image only) is that convolution -/
theorem pixel_scene_is_convolution (N h r c : ℕ) (hN : 0 < N) (int psf : Img ℝ) :
    combineScene N (psfFft .pi .pi N (2 * h + 1) (2 * h + 1) psf) ⟨fzero, int, izero⟩ r c
      = ∑ i ∈ Finset.range (2 * h + 1), ∑ j ∈ Finset.range (2 * h + 1),
          psf i j * int ((r + h + (N - 1) * i) % N) ((c + h + (N - 1) * j) % N) := by
  simp only [combineScene, iadd, convFft_zero, izero, zero_real, zero_add, add_zero]
  exact convImg_circular N h r c hN int psf

/-- non-vacuity: inside the frame the index is the plain difference: N = 10, h = 1, r = 5, i = 2 ↦ row 4 -/
example : (5 + 1 + (10 - 1) * 2) % 10 = 4 := by decide

/-- the zero-frequency term of the PSF transform is ΣPSF, whatever the ramp constant -/
theorem psfFft_dc (ρx ρy : RampConst) (N s0 s1 : ℕ) (psf : Img ℝ) :
    psfFft ρx ρy N s0 s1 psf 0 0 = ⟨sumN s0 fun i => sumN s1 fun j => psf i j, 0⟩ := by
  simp only [psfFft, rfft2, rfreq, ffreq]
  apply Cx.ext'
  · simp [Cx.mul_re, Cx.mul_im, sumNCx_re, sumNCx_im, Cx.smul_re, Cx.smul_im, Cx.cis, ang, sumN_real]
  · simp [Cx.mul_re, Cx.mul_im, sumNCx_re, sumNCx_im, Cx.smul_re, Cx.smul_im, Cx.cis, ang, sumN_real]

end Pysersic.Props.C03
