/-
C01 — The rendered model carries the requested total flux.

Proved (ℝ, every image size N, every PSF stamp, every ramp constant, every
position — integer, fractional, off-frame —, angle, ellipticity, radius):

* `scene_total`: the pixel sum of `combine_scene(F, I, O)` is
  `Re F(0,0)·ΣPSF + ΣI·ΣPSF + ΣO` (DC theorem of the synthesis model);
* Fourier/hybrid point source: total = flux·ΣPSF exactly;
* Fourier renderer, Sersic source: total = (Σ_k amps_k)·ΣPSF = flux·(Σ_k A_k(n))·ΣPSF
  with the interpolated table — the seven-parameter tolerance claim collapses to the
  one-dimensional statement |Σ_k A_k(n) − 1| ≤ tol, which the residual scans on the
  real table;
* pixel renderer: total = (Σ intrinsic image)·ΣPSF;
* composites split their total as f : 1 − f; totals are additive over sources;
* the analytic normalisation is exact for *any* b_n > 0:
  2π·a·b·∫₀^∞ I(z) z dz = flux.

Not proved (numerical): how close Σ_k A_k(n) is to 1, how much light the footprint
and the oversampling box capture — observed by the residual with the property's
tolerances against an independent float64 integration.
-/
import Proofs.RenderDC
import Props.C08
import Props.C03
import Mathlib.MeasureTheory.Integral.Gamma

namespace Pysersic.Props.C01
open Pysersic Pysersic.Prob Pysersic.Render Real MeasureTheory

/-- ΣPSF -/
noncomputable def psfSum (s0 s1 : ℕ) (psf : Img ℝ) : ℝ := sumN s0 fun i => sumN s1 fun j => psf i j

/-! ### totals through the scene assembly -/

theorem convFft_total (N : ℕ) (hN : 0 < N) (ρx ρy : RampConst) (s0 s1 : ℕ) (psf : Img ℝ) (F : FImg ℝ) :
    imgSum N (convFft N (psfFft ρx ρy N s0 s1 psf) F) = (F 0 0).re * psfSum s0 s1 psf := by
  rw [convFft, synth_dc N hN]
  simp only [fmul, C03.psfFft_dc, Cx.mul_re, psfSum]
  ring

theorem rfft2_dc (N : ℕ) (img : Img ℝ) : rfft2 N N N img 0 0 = ⟨imgSum N img, 0⟩ := by
  apply Cx.ext'
  · simp [rfft2, sumNCx_re, Cx.smul_re, Cx.cis, ang, imgSum]
  · simp [rfft2, sumNCx_im, Cx.smul_im, Cx.cis, ang]

theorem convImg_total (N : ℕ) (hN : 0 < N) (ρx ρy : RampConst) (s0 s1 : ℕ) (psf : Img ℝ) (img : Img ℝ) :
    imgSum N (convImg N (psfFft ρx ρy N s0 s1 psf) img) = imgSum N img * psfSum s0 s1 psf := by
  rw [convImg, synth_dc N hN]
  simp only [fmul, C03.psfFft_dc, rfft2_dc, Cx.mul_re, psfSum]
  ring

/-- **the pixel sum of any assembled scene** -/
theorem scene_total (N : ℕ) (hN : 0 < N) (ρx ρy : RampConst) (s0 s1 : ℕ) (psf : Img ℝ) (t : Triple ℝ) :
    imgSum N (combineScene N (psfFft ρx ρy N s0 s1 psf) t)
      = (t.F 0 0).re * psfSum s0 s1 psf + imgSum N t.int * psfSum s0 s1 psf + imgSum N t.obs := by
  simp only [combineScene, imgSum_iadd, convFft_total N hN, convImg_total N hN]

/-! ### point sources -/

theorem pointF_dc (N : ℕ) (xc yc flux : ℝ) : (pointF N xc yc flux 0 0).re = flux := by
  simp [pointF, pointFourier, rfreq, ffreq, Cx.smul_re, Cx.cis]

/-- **Fourier and hybrid renderers: a point source carries exactly flux·ΣPSF**, at every
(integer, fractional, even off-frame) position, for every PSF, normalised or not -/
theorem fourier_pointsource_total (N : ℕ) (hN : 0 < N) (ρx ρy : RampConst) (s0 s1 : ℕ) (psf : Img ℝ)
    (xc yc flux : ℝ) :
    imgSum N (combineScene N (psfFft ρx ρy N s0 s1 psf) ⟨pointF N xc yc flux, izero, izero⟩)
      = flux * psfSum s0 s1 psf := by
  rw [scene_total N hN]
  simp [pointF_dc, imgSum, izero]

/-! ### Sersic sources through the Gaussian-mixture renderers -/

theorem gaussFourierTerm_dc (xc yc θ : ℝ) (g : GComp ℝ) :
    (gaussFourierTerm 0 0 xc yc θ g).re = g.amp := by
  simp [gaussFourierTerm, Cx.smul_re, Cx.expc]

theorem sumCx_re (l : List (Cx ℝ)) : (sumCx l).re = (l.map Cx.re).sum := by
  induction l with
  | nil => simp [sumCx, Cx.zero]
  | cons a t ih => simp [sumCx, Cx.add_re, ih]

theorem fourierSersicF_dc (N : ℕ) (comps : List (GComp ℝ)) (p : SersicP ℝ) :
    (fourierSersicF N comps p 0 0).re = (comps.map GComp.amp).sum := by
  simp only [fourierSersicF, gaussFourier, sumCx_re, List.map_map, rfreq, ffreq]
  congr 1
  apply List.map_congr_left
  intro g _
  simp [gaussFourierTerm_dc]

/-- **Fourier renderer: total = (Σ_k amps_k)·ΣPSF for every centre, angle, ellipticity,
radius, image size and PSF** -/
theorem fourier_sersic_total (N : ℕ) (hN : 0 < N) (ρx ρy : RampConst) (s0 s1 : ℕ) (psf : Img ℝ)
    (comps : List (GComp ℝ)) (p : SersicP ℝ) :
    imgSum N (combineScene N (psfFft ρx ρy N s0 s1 psf) ⟨fourierSersicF N comps p, izero, izero⟩)
      = (comps.map GComp.amp).sum * psfSum s0 s1 psf := by
  rw [scene_total N hN]
  simp [fourierSersicF_dc, imgSum, izero]

/-- the amplitudes of the interpolated branch are `flux · A_k(n)` -/
theorem mogComps_amp_sum (cfg : MogCfg ℝ) (A : List ℝ) (hA : A.length = cfg.nSigma) (p : SersicP ℝ) :
    ((mogComps cfg (A.map (· * p.flux)) p).map GComp.amp).sum = p.flux * A.sum := by
  simp only [mogComps, List.map_map]
  have : (List.map (GComp.amp ∘ fun k => (⟨(A.map (· * p.flux)).getD k zero, sigmaAt cfg p.rEff k, one - p.ellip⟩ : GComp ℝ))
      (List.range cfg.nSigma)) = A.map (· * p.flux) := by
    apply List.ext_getElem
    · simp [hA]
    · intro i h1 h2
      simp only [List.getElem_map, List.getElem_range, Function.comp]
      have h3 : i < (A.map (· * p.flux)).length := by simpa using h2
      simp only [List.getD_eq_getElem?_getD, List.getElem?_eq_getElem h3]
      simp
  rw [this, List.sum_map_mul_right]
  simp [mul_comm]

/-- **reduction of the Fourier-renderer flux clause**: with the interpolated table the
rendered total is `flux · (Σ_k A_k(n)) · ΣPSF`; the tolerance band of the property is
therefore a statement about the one-dimensional function n ↦ Σ_k A_k(n) alone -/
theorem fourier_total_reduction (R : Renderer ℝ) (hk : R.kind = .fourier) (hN : 0 < R.N)
    (A : ℝ → List ℝ) (hsrc : R.ampSrc = .interp A) (p : SersicP ℝ) (hA : (A p.n).length = R.cfg.nSigma) :
    imgSum R.N (combineScene R.N R.P (R.sersic p)) = p.flux * (A p.n).sum * psfSum R.s0 R.s1 R.psf := by
  unfold Renderer.sersic Renderer.P
  simp only [hk, hsrc, ampsFor]
  rw [fourier_sersic_total R.N hN, mogComps_amp_sum R.cfg (A p.n) hA p]

/-- hybrid renderer: the Fourier-space components contribute (Σ of their amps)·ΣPSF exactly;
the real-space components contribute the pixel sum of the PSF-broadened Gaussians -/
theorem hybrid_sersic_total (N : ℕ) (hN : 0 < N) (ρx ρy : RampConst) (s0 s1 : ℕ) (psf : Img ℝ)
    (fcomps : List (GComp ℝ)) (obs : Img ℝ) (p : SersicP ℝ) :
    imgSum N (combineScene N (psfFft ρx ρy N s0 s1 psf) ⟨fourierSersicF N fcomps p, izero, obs⟩)
      = (fcomps.map GComp.amp).sum * psfSum s0 s1 psf + imgSum N obs := by
  rw [scene_total N hN]
  simp [fourierSersicF_dc, imgSum, izero]

/-- pixel renderer: total = (Σ intrinsic image)·ΣPSF -/
theorem pixel_sersic_total (N : ℕ) (hN : 0 < N) (ρx ρy : RampConst) (s0 s1 : ℕ) (psf : Img ℝ) (int : Img ℝ) :
    imgSum N (combineScene N (psfFft ρx ρy N s0 s1 psf) ⟨fzero, int, izero⟩)
      = imgSum N int * psfSum s0 s1 psf := by
  rw [scene_total N hN]
  simp [fzero, Cx.zero, imgSum, izero]


/-! ### pixel renderer: point source total (partition of unity of linear interpolation) -/

/-- the hat weights of all integer nodes sum to one when both neighbours of t are in range -/
theorem hat_partition (M : ℕ) (t : ℝ) (h0 : 0 ≤ t) (h1 : t ≤ (M : ℝ) - 1) (hM : 1 ≤ M) :
    ∑ r ∈ Finset.range M, hat ((r : ℝ) - t) = 1 := by
  simp only [C03.hat_real]
  set k := ⌊t⌋₊ with hk
  have hkle : (k : ℝ) ≤ t := Nat.floor_le h0
  have hklt : t < (k : ℝ) + 1 := Nat.lt_floor_add_one t
  have hkM : k < M := by
    have : (k : ℝ) ≤ (M : ℝ) - 1 := le_trans hkle h1
    have h2 : (k : ℝ) + 1 ≤ (M : ℝ) := by linarith
    exact_mod_cast h2
  have hzero : ∀ r : ℕ, r ≠ k → r ≠ k + 1 → max 0 (1 - |(r : ℝ) - t|) = 0 := by
    intro r h1' h2'
    apply max_eq_left
    rcases Nat.lt_or_ge r k with hlt | hge
    · have : (r : ℝ) + 1 ≤ k := by exact_mod_cast hlt
      have : (r : ℝ) - t ≤ -1 := by linarith
      rw [abs_of_nonpos (by linarith)]; linarith
    · have hge2 : k + 2 ≤ r := by omega
      have : (k : ℝ) + 2 ≤ r := by exact_mod_cast hge2
      rw [abs_of_nonneg (by linarith)]; linarith
  by_cases hk1 : k + 1 < M
  · rw [Finset.sum_eq_add (a := k) (b := k + 1) (by omega)
        (fun r _ hr => hzero r hr.1 hr.2) (fun h => absurd (Finset.mem_range.mpr hkM) h)
        (fun h => absurd (Finset.mem_range.mpr hk1) h)]
    have e1 : max 0 (1 - |(k : ℝ) - t|) = 1 - (t - k) := by
      rw [abs_of_nonpos (show (k : ℝ) - t ≤ 0 by linarith), max_eq_right (show (0 : ℝ) ≤ 1 - -((k : ℝ) - t) by linarith)]
      ring
    have e2 : max 0 (1 - |((k + 1 : ℕ) : ℝ) - t|) = t - k := by
      push_cast
      rw [abs_of_nonneg (show (0 : ℝ) ≤ (k : ℝ) + 1 - t by linarith)]
      rw [max_eq_right (by linarith)]; ring
    rw [e1, e2]; ring
  · -- k + 1 = M: then t = k exactly (t ≤ M − 1 = k)
    have hkeq : k + 1 = M := by omega
    have ht : t = k := by
      have : (M : ℝ) = k + 1 := by exact_mod_cast hkeq.symm
      linarith
    rw [Finset.sum_eq_single k (fun r hr hne => hzero r hne (by have := Finset.mem_range.mp hr; omega))
        (fun h => absurd (Finset.mem_range.mpr hkM) h)]
    rw [ht]; simp

/-- **pixel renderer: a point source whose interpolated stamp lies inside the frame carries exactly
flux·ΣPSF** (any fractional position, any stamp size, either addressing convention) -/
theorem pixel_pointsource_total (κ : PsConv) (N s0 s1 : ℕ) (psf : Img ℝ) (xc yc flux : ℝ) (hN : 1 ≤ N)
    (hy0 : 0 ≤ (if κ.rowsByY then yc else xc) - (if κ.centreIsGeometric then ((s0 : ℝ) - 1) / 2 else (s0 : ℝ) / 2))
    (hy1 : (if κ.rowsByY then yc else xc) - (if κ.centreIsGeometric then ((s0 : ℝ) - 1) / 2 else (s0 : ℝ) / 2) + s0 ≤ N)
    (hx0 : 0 ≤ (if κ.rowsByY then xc else yc) - (if κ.centreIsGeometric then ((s1 : ℝ) - 1) / 2 else (s1 : ℝ) / 2))
    (hx1 : (if κ.rowsByY then xc else yc) - (if κ.centreIsGeometric then ((s1 : ℝ) - 1) / 2 else (s1 : ℝ) / 2) + s1 ≤ N) :
    imgSum N (pixelPointSource κ s0 s1 psf xc yc flux) = flux * psfSum s0 s1 psf := by
  set A0 := (if κ.rowsByY then yc else xc) - (if κ.centreIsGeometric then ((s0 : ℝ) - 1) / 2 else (s0 : ℝ) / 2) with hA0
  set B0 := (if κ.rowsByY then xc else yc) - (if κ.centreIsGeometric then ((s1 : ℝ) - 1) / 2 else (s1 : ℝ) / 2) with hB0
  -- both conventions are the same double hat-sum with (row, column) roles exchanged
  have hrows : ∀ i : ℕ, i < s0 → ∑ r ∈ Finset.range N, hat ((r : ℝ) - A0 - i) = 1 := by
    intro i hi
    have hi' : (i : ℝ) + 1 ≤ s0 := by exact_mod_cast hi
    have := hat_partition N (A0 + i) (by positivity) (by linarith) hN
    simpa [sub_sub] using this
  have hcols : ∀ j : ℕ, j < s1 → ∑ c ∈ Finset.range N, hat ((c : ℝ) - B0 - j) = 1 := by
    intro j hj
    have hj' : (j : ℝ) + 1 ≤ s1 := by exact_mod_cast hj
    have := hat_partition N (B0 + j) (by positivity) (by linarith) hN
    simpa [sub_sub] using this
  have key : ∀ (F : ℕ → ℕ → ℝ),
      (∀ r c, F r c = ∑ i ∈ Finset.range s0, ∑ j ∈ Finset.range s1, psf i j * flux * (hat ((r : ℝ) - A0 - i) * hat ((c : ℝ) - B0 - j))) →
      ∑ r ∈ Finset.range N, ∑ c ∈ Finset.range N, F r c = flux * ∑ i ∈ Finset.range s0, ∑ j ∈ Finset.range s1, psf i j := by
    intro F hF
    simp only [hF]
    have swap1 : ∀ r : ℕ, ∑ c ∈ Finset.range N, ∑ i ∈ Finset.range s0, ∑ j ∈ Finset.range s1,
        psf i j * flux * (hat ((r : ℝ) - A0 - i) * hat ((c : ℝ) - B0 - j))
        = ∑ i ∈ Finset.range s0, ∑ j ∈ Finset.range s1, psf i j * flux * hat ((r : ℝ) - A0 - i) := by
      intro r
      rw [Finset.sum_comm]
      apply Finset.sum_congr rfl; intro i _
      rw [Finset.sum_comm]
      apply Finset.sum_congr rfl; intro j hj
      rw [← Finset.mul_sum, ← Finset.mul_sum, hcols j (Finset.mem_range.mp hj), mul_one]
    simp only [swap1]
    rw [Finset.sum_comm, Finset.mul_sum]
    apply Finset.sum_congr rfl; intro i hi
    rw [Finset.sum_comm, Finset.mul_sum]
    apply Finset.sum_congr rfl; intro j _
    rw [← Finset.mul_sum, hrows i (Finset.mem_range.mp hi)]
    ring
  simp only [imgSum, psfSum, sumN_real]
  cases hκ : κ.rowsByY
  · -- stamp rows addressed by the image column: exchange the roles of r and c
    rw [Finset.sum_comm]
    apply key (fun c r => pixelPointSource κ s0 s1 psf xc yc flux r c)
    intro c r
    simp only [pixelPointSource, hκ, bilinear, sumN_real, hA0, hB0, one_real, two_real, if_false, Bool.false_eq_true]
  · apply key (fun r c => pixelPointSource κ s0 s1 psf xc yc flux r c)
    intro r c
    simp only [pixelPointSource, hκ, bilinear, sumN_real, hA0, hB0, one_real, two_real, if_true]

/-! ### composites and catalogues -/

/-- totals are additive over components / sources -/
theorem total_add (N : ℕ) (P : FImg ℝ) (s t : Triple ℝ) :
    imgSum N (combineScene N P (Triple.add s t)) = imgSum N (combineScene N P s) + imgSum N (combineScene N P t) := by
  rw [combineScene_add, imgSum_iadd]

/-- totals are homogeneous in flux -/
theorem total_smul (N : ℕ) (P : FImg ℝ) (k : ℝ) (t : Triple ℝ) :
    imgSum N (combineScene N P (Triple.smul k t)) = k * imgSum N (combineScene N P t) := by
  rw [combineScene_smul, imgSum_ismul]

/-- **a Sersic + point-source composite splits its total exactly as (1 − f_ps) : f_ps**
(Fourier/hybrid point source; the Sersic part scaled from the unit-flux rendering) -/
theorem sersic_pointsource_split (R : Renderer ℝ) (d : PDict ℝ) :
    imgSum R.N (combineScene R.N R.P (R.profileOf .sersicPointsource d))
      = imgSum R.N (combineScene R.N R.P
          (R.sersic ⟨d.get "xc", d.get "yc", (1 - d.get "f_ps") * d.get "flux", d.get "r_eff", d.get "n", d.get "ellip", d.get "theta"⟩))
        + imgSum R.N (combineScene R.N R.P (R.pointsource (d.get "xc") (d.get "yc") (d.get "f_ps" * d.get "flux"))) := by
  rw [C08.sersic_pointsource_is_sum, total_add]

/-- **a double-Sersic splits its total between the components carrying f·F and (1−f)·F** -/
theorem doublesersic_split (R : Renderer ℝ) (d : PDict ℝ) :
    imgSum R.N (combineScene R.N R.P (R.profileOf .doublesersic d))
      = imgSum R.N (combineScene R.N R.P
          (R.sersic ⟨d.get "xc", d.get "yc", d.get "flux" * d.get "f_1", d.get "r_eff_1", d.get "n_1", d.get "ellip_1", d.get "theta"⟩))
        + imgSum R.N (combineScene R.N R.P
          (R.sersic ⟨d.get "xc", d.get "yc", d.get "flux" * (1 - d.get "f_1"), d.get "r_eff_2", d.get "n_2", d.get "ellip_2", d.get "theta"⟩)) := by
  rw [C08.doublesersic_is_sum, total_add]

/-- each component's total is proportional to the flux it is given: a component rendered
with flux k·F carries k times the total of the same component rendered with flux F -/
theorem component_total_scales (R : Renderer ℝ) (p : SersicP ℝ) (k : ℝ) :
    imgSum R.N (combineScene R.N R.P (R.sersic { p with flux := k * p.flux }))
      = k * imgSum R.N (combineScene R.N R.P (R.sersic p)) := by
  rw [C08.sersic_flux_smul, total_smul]

/-! ### the analytic normalisation -/

/-- the Sersic surface-brightness law as a function of the elliptical radius z
(`render_sersic_2d` is this function of z = √((x_maj/a)² + (x_min/b)²)) -/
noncomputable def sersicOfZ (c : BnC) (p : SersicP ℝ) (z : ℝ) : ℝ :=
  p.flux * (bnOf c p.n) ^ (2 * p.n)
      / (Real.exp (bnOf c p.n + Real.log (Real.Gamma (2 * p.n))) * (p.rEff * p.rEff) * π * 2 * p.n)
    * Real.exp (-(bnOf c p.n) * (z ^ (1 / p.n) - 1)) / (1 - p.ellip)

theorem sersic2d_eq_sersicOfZ (c : BnC) (X Y : ℝ) (p : SersicP ℝ) :
    sersic2d c X Y p = sersicOfZ c p
      (Real.sqrt (Prob.sq (((X - p.xc) * Real.cos (rotAngle p.theta) + (Y - p.yc) * Real.sin (rotAngle p.theta)) / p.rEff)
        + Prob.sq ((-(X - p.xc) * Real.sin (rotAngle p.theta) + (Y - p.yc) * Real.cos (rotAngle p.theta)) / ((1 - p.ellip) * p.rEff)))) := by
  simp only [sersic2d, sersicOfZ, Transc.cos_real, Transc.sin_real, Transc.rpow_real, Transc.exp_real, Transc.lgamma_real,
    Transc.sqrt_real, Transc.pi_real, two_real, one_real]

/-- **the analytic normalisation is exact for any b_n > 0**: integrating the profile over the
plane in elliptical polar coordinates (area element 2π·a·b·z dz with a = r_eff,
b = (1 − ellip)·r_eff) returns the flux -/
theorem sersic_radial_norm (c : BnC) (p : SersicP ℝ) (hn : 0 < p.n) (hb : 0 < bnOf c p.n) (hr : 0 < p.rEff)
    (he : p.ellip < 1) :
    ∫ z in Set.Ioi (0 : ℝ), 2 * π * p.rEff * ((1 - p.ellip) * p.rEff) * z * sersicOfZ c p z = p.flux := by
  set b := bnOf c p.n with hbdef
  have hG : 0 < Real.Gamma (2 * p.n) := Real.Gamma_pos_of_pos (by linarith)
  have he' : (1 - p.ellip) ≠ 0 := by linarith
  have key := integral_rpow_mul_exp_neg_mul_rpow (p := 1 / p.n) (q := 1) (b := b) (by positivity) (by norm_num) hb
  -- rewrite the integrand as constant × z^1 × exp(−b z^{1/n})
  have hint : ∀ z : ℝ, 2 * π * p.rEff * ((1 - p.ellip) * p.rEff) * z * sersicOfZ c p z
      = (2 * π * p.rEff * ((1 - p.ellip) * p.rEff)
          * (p.flux * b ^ (2 * p.n) / (Real.exp (b + Real.log (Real.Gamma (2 * p.n))) * (p.rEff * p.rEff) * π * 2 * p.n))
          * Real.exp b / (1 - p.ellip))
        * (z ^ (1 : ℝ) * Real.exp (-b * z ^ (1 / p.n))) := by
    intro z
    simp only [sersicOfZ, ← hbdef, Real.rpow_one]
    have hexp : Real.exp (-b * (z ^ (1 / p.n) - 1)) = Real.exp b * Real.exp (-b * z ^ (1 / p.n)) := by
      rw [← Real.exp_add]; congr 1; ring
    rw [hexp]
    field_simp
  simp only [hint]
  rw [MeasureTheory.integral_const_mul, key]
  rw [Real.exp_add, Real.exp_log hG]
  have h1 : (-(1 + 1) / (1 / p.n) : ℝ) = -(2 * p.n) := by field_simp; ring
  have h2 : ((1 + 1) / (1 / p.n) : ℝ) = 2 * p.n := by field_simp; ring
  rw [h1, h2, Real.rpow_neg hb.le]
  have hbp : 0 < b ^ (2 * p.n) := Real.rpow_pos_of_pos hb _
  have hexp : 0 < Real.exp b := Real.exp_pos b
  field_simp

/-- the hypotheses are met on the prior support (n ≥ 0.65) by the b_n of the current source -/
theorem repo_bn_pos (n : ℝ) (hn : (13 : ℝ) / 20 ≤ n) : 0 < bnOf Gen.bn2d n := by
  simp only [bnOf, Gen.bn2d, Q.to_real]
  norm_num
  nlinarith

end Pysersic.Props.C01
