"""Tie 1, second half: translate the straight-line scalar kernels of /repo/pysersic into Lean.

`tools/extract.py` regenerates constants, tables and structural facts.  This translator regenerates
*formulas*: for each kernel listed in KERNELS it reads the function's source with `ast`, checks that the
body is a straight line of assignments ending in one `return` (or, for the losses, one `factor(name, expr)`
call), and prints the same expression tree as a Lean definition, generic in the scalar type, one Lean `let`
per Python assignment, into lean/PysersicModel/Gen/Kernels.lean.  `lean/Proofs/GenKernels.lean` then proves
`gen = hand-written model` over ℝ for every argument, so the theorems about the hand-written model are
re-checked against what the source says now; the driver also evaluates the generated definitions at Float and
the harness compares them with the real Python functions, which validates the translator itself on every run.

What the translation does, and nothing more:
  names                     → the same names (Python re-assignment = Lean shadowing `let`)
  int / float literals      → `((k : Nat) : α)` or `dec p q` for the decimal the literal spells (exact)
  `1j`                      → `Cx.I` (a kernel may also declare a parameter complex: `sersic1D` is called on complex radii); an expression is complex iff a complex literal flows into it; a real operand of a
                              mixed operation is embedded with `Cx.ofReal`
  + - * / unary -           → the same operation (`Cx.add`, … on complex operands)
  x ** k, k a literal int≥0 → repeated product (what `lax.integer_pow` computes); any other power → `Transc.rpow`;
                              complex ** real → `Cx.powr` (principal value), complex / real → `Cx.divr`
  jnp.pi | np.pi | math.pi  → `Transc.pi`
  jnp.{exp,log,sqrt,sin,cos}, jax.scipy.special.gammaln, jax.lax.logistic
                            → `Transc.exp`, …, `Transc.lgamma`, `1/(1+exp(-x))`;  `jnp.exp` of a complex argument → `Cx.exp`
  jnp.where(c, a, b)        → `if c then a else b` (c a comparison of real expressions, or a name bound to one:
                              `m = e > 0` becomes `let m := decide (0 < e)`)
  NAME (module-level `NAME = <expr>`) → the defining expression, read in the module's scope
  f(args) with f a module-level straight-line `def` → the helper's body spliced in as `let`s, its locals prefixed `f__`
                              (arguments bound first, in the caller's scope; tuple returns bind to tuple targets)
  e[:, jnp.newaxis, …]      → e     (broadcasting only: the definitions are per pixel and per component)
  float(e)                  → e
  A.shape[i]                → a fresh scalar parameter `A_shape<i>`
  v = sample(name, dist)    → (kernels marked `sampled`) v becomes a scalar parameter: the latent value is an input of the formula
  jnp.sum(e, axis=0) as the returned value of a per-component kernel → the definition is the *term* `e`, and the
                              reduction is recorded as `reduce := "sum_axis0"`
Anything else raises `Miss`: the committed fallback text of that kernel is kept and the miss is recorded in the
evidence; a miss is never a verdict.
"""
from __future__ import annotations

import ast
import warnings
import hashlib
import json
import os
import sys
from fractions import Fraction
from pathlib import Path

warnings.filterwarnings("ignore", category=SyntaxWarning)
VERIF = Path(__file__).resolve().parent.parent
REPO = Path(os.environ.get("PYSERSIC_REPO", "/repo"))
LEAN_DIR = Path(os.environ.get("VERIF_LEAN_DIR", str(VERIF / "lean")))
OUT = LEAN_DIR / "PysersicModel" / "Gen" / "Kernels.lean"
FALLBACK = VERIF / "tools" / "kernels_fallback.json"
REPORT = LEAN_DIR / ".lake" / "gen_kernels_report.json"


class Miss(Exception):
    pass


# kernel table: lean name, file, function (and class), which parameters are per-component arrays,
# which to drop (`self`, `suffix`, `mask`), where the value is (return / factor argument)
KERNELS = [
    dict(lean="render_sersic_2d", file="rendering.py", func="render_sersic_2d"),
    dict(lean="sersic1D", file="rendering.py", func="sersic1D"),
    dict(lean="sersic1D_cx", file="rendering.py", func="sersic1D", complex_params=["r"]),
    dict(lean="render_gaussian_pixel_term", file="rendering.py", func="render_gaussian_pixel", reduce="sum_axis0"),
    dict(lean="render_gaussian_fourier_term", file="rendering.py", func="render_gaussian_fourier", reduce="sum_axis0"),
    dict(lean="render_pointsource_fourier", file="rendering.py", func="render_pointsource_fourier"),
    dict(lean="render_tilted_plane_sky", file="priors.py", func="render_tilted_plane_sky"),
    dict(lean="tilted_plane_sky_sample", file="priors.py", func="sample", cls="TiltedPlaneSkyPrior", drop=["self"], sampled=True),
    dict(lean="restrict_func", file="multiband.py", func="restrict_func", cls="FitMultiBandPoly", drop=["self"]),
    # two local variables of a method: how the hybrid renderer broadens the components it draws in real space
    dict(lean="hybrid_broaden", file="rendering.py", func="render_sersic_hybrid", cls="HybridRenderer", drop=["self"],
         value="locals", targets=["sigmas_obs", "q_obs"]),
    dict(lean="cash_loss_factor", file="loss.py", func="cash_loss", value="factor", drop=["suffix", "mask", "rms"]),
    dict(lean="pseudo_huber_loss_factor", file="loss.py", func="pseudo_huber_loss", value="factor",
         drop=["suffix", "mask"]),
]

PI_NAMES = {"jnp.pi", "np.pi", "math.pi", "numpy.pi", "jax.numpy.pi"}
UNARY = {
    "jnp.exp": "exp", "jnp.log": "log", "jnp.sqrt": "sqrt", "jnp.sin": "sin", "jnp.cos": "cos",
    "np.exp": "exp", "np.log": "log", "np.sqrt": "sqrt", "np.sin": "sin", "np.cos": "cos",
    "jax.numpy.exp": "exp", "jax.numpy.log": "log", "jax.numpy.sqrt": "sqrt", "jax.numpy.sin": "sin",
    "jax.numpy.cos": "cos",
    "jax.scipy.special.gammaln": "lgamma", "jsp.special.gammaln": "lgamma", "gammaln": "lgamma",
    "jax.lax.logistic": "logistic", "lax.logistic": "logistic", "jax.nn.sigmoid": "logistic",
}
LEAN_RESERVED = {"at", "from", "to", "in", "fun", "let", "then", "else", "if", "end", "open", "show", "have", "by",
                 "do", "re", "im"}


def dotted(node):
    if isinstance(node, ast.Name):
        return node.id
    if isinstance(node, ast.Attribute):
        d = dotted(node.value)
        return None if d is None else d + "." + node.attr
    return None


def lean_ident(name):
    n = name
    if n in LEAN_RESERVED or not n.isidentifier():
        n = n + "_"
    return n


class T:
    """one translated expression: Lean text and whether it is complex"""

    def __init__(self, text, cx=False, atom=False):
        self.text, self.cx, self.atom = text, cx, atom

    def p(self):
        return self.text if self.atom else f"({self.text})"


def nat(k):
    return T(f"(({k} : Nat) : α)", atom=True)


def literal(node, src):
    v = node.value
    if isinstance(v, bool):
        raise Miss("boolean literal")
    if isinstance(v, int):
        if v < 0:
            raise Miss("negative int literal")
        return nat(v)
    if isinstance(v, float):
        seg = ast.get_source_segment(src, node)
        try:
            q = Fraction(seg) if seg else Fraction(repr(v))
        except (ValueError, TypeError):
            q = Fraction(repr(v))
        if q < 0:
            raise Miss("negative float literal")
        if q.denominator == 1:
            return nat(q.numerator)
        # keep a power-of-ten denominator: `dec 19992 10000`
        den = 1
        while (q * den).denominator != 1:
            den *= 10
            if den > 10 ** 30:
                raise Miss("literal is not a finite decimal")
        return T(f"(dec {int(q * den)} {den} : α)", atom=True)
    if isinstance(v, complex):
        if v.real != 0:
            raise Miss("complex literal with a real part")
        seg = (ast.get_source_segment(src, node) or repr(v)).rstrip("jJ")
        q = Fraction(seg)
        if q == 1:
            return T("(Cx.I : Cx α)", cx=True, atom=True)
        if q.denominator == 1 and q > 0:
            return T(f"Cx.mul (Cx.ofReal {nat(q.numerator).text}) Cx.I", cx=True)
        raise Miss("unsupported imaginary literal")
    raise Miss(f"literal {v!r}")


class Translator:
    """One kernel.  `scope` maps a Python name to (Lean name, kind) with kind ∈ {"re", "cx", "bool"}; `lets` is the
    sequence of Lean `let`s produced so far (helper functions called by the kernel are inlined into it, their locals
    prefixed with the helper's name)."""

    def __init__(self, src, params, complex_params=(), module=None):
        self.src = src
        self.scope = {p: (lean_ident(p), "cx" if p in complex_params else "re") for p in params}
        self.extra_params = []                             # A_shape<i>
        self.lets = []                                     # (lean name, T)
        self.module = module or {}                         # module-level name -> ast node (constant expression or FunctionDef)
        self.depth = 0
        self.inlined = []
        self.self_attrs = None                             # list: `self.<attr>` becomes a parameter (prior programs)

    def fresh(self, name, prefix=""):
        return lean_ident(prefix + name)

    # ---- expressions -------------------------------------------------------------------------------------------
    def ex(self, node) -> T:
        if isinstance(node, ast.Constant):
            return literal(node, self.src)
        d = dotted(node)
        if d in PI_NAMES:
            return T("(Transc.pi : α)", atom=True)
        if (self.self_attrs is not None and isinstance(node, ast.Attribute) and isinstance(node.value, ast.Name)
                and node.value.id == "self"):
            # an attribute of the object: a scalar parameter of the translated definition
            if node.attr not in self.self_attrs:
                self.self_attrs.append(node.attr)
            return T(lean_ident(node.attr), atom=True)
        if isinstance(node, ast.Name):
            if node.id in self.scope:
                ln, kind = self.scope[node.id]
                if kind == "bool":
                    raise Miss(f"boolean {node.id} used as a number")
                return T(ln, cx=(kind == "cx"), atom=True)
            m = self.module.get(node.id)
            if m is not None and not isinstance(m, ast.FunctionDef):
                # a module-level constant: its defining expression, read in the module's own scope
                if self.depth > 6:
                    raise Miss("module constants nested too deeply")
                saved, self.scope = self.scope, {}
                self.depth += 1
                try:
                    v = self.ex(m)
                finally:
                    self.scope = saved
                    self.depth -= 1
                if node.id not in self.inlined:
                    self.inlined.append(node.id)
                return T(v.text, cx=v.cx, atom=False)
            raise Miss(f"free name {node.id}")
        if isinstance(node, ast.UnaryOp):
            if isinstance(node.op, ast.USub):
                a = self.ex(node.operand)
                return T(f"Cx.neg {a.p()}", cx=True) if a.cx else T(f"-{a.p()}")
            if isinstance(node.op, ast.UAdd):
                return self.ex(node.operand)
            raise Miss("unary operator")
        if isinstance(node, ast.BinOp):
            if isinstance(node.op, ast.Pow):
                return self.power(node)
            a, b = self.ex(node.left), self.ex(node.right)
            op = {ast.Add: ("+", "add"), ast.Sub: ("-", "sub"), ast.Mult: ("*", "mul"), ast.Div: ("/", "div")}.get(type(node.op))
            if op is None:
                raise Miss(f"binary operator {type(node.op).__name__}")
            if a.cx or b.cx:
                if op[1] == "div":
                    if a.cx and not b.cx:
                        return T(f"Cx.divr {a.p()} {b.p()}", cx=True)
                    raise Miss("division by a complex number")
                a2 = a if a.cx else T(f"Cx.ofReal {a.p()}", cx=True)
                b2 = b if b.cx else T(f"Cx.ofReal {b.p()}", cx=True)
                return T(f"Cx.{op[1]} {a2.p()} {b2.p()}", cx=True)
            return T(f"{a.p()} {op[0]} {b.p()}")
        if isinstance(node, ast.Subscript):
            return self.subscript(node)
        if isinstance(node, ast.Call):
            r = self.call(node)
            if isinstance(r, list):
                raise Miss("a helper returning a tuple used as a single value")
            return r
        if isinstance(node, ast.Compare):
            raise Miss("comparison outside jnp.where")
        raise Miss(f"expression {type(node).__name__}")

    def power(self, node):
        base = self.ex(node.left)
        e = node.right
        if base.cx:
            ex = self.ex(e)
            if ex.cx:
                raise Miss("complex exponent")
            return T(f"Cx.powr {base.p()} {ex.p()}", cx=True)
        if isinstance(e, ast.Constant) and isinstance(e.value, int) and not isinstance(e.value, bool) and 0 <= e.value <= 8:
            k = e.value
            if k == 0:
                return nat(1)
            return T(" * ".join([base.p()] * k), atom=(k == 1 and base.atom))
        ex = self.ex(e)
        if ex.cx:
            raise Miss("complex exponent")
        return T(f"Transc.rpow {base.p()} {ex.p()}")

    def subscript(self, node):
        # A.shape[i]
        if (isinstance(node.value, ast.Attribute) and node.value.attr == "shape" and isinstance(node.value.value, ast.Name)
                and isinstance(node.slice, ast.Constant) and isinstance(node.slice.value, int)):
            name = f"{node.value.value.id}_shape{node.slice.value}"
            if name not in self.extra_params:
                self.extra_params.append(name)
            return T(name, atom=True)
        # e[:, jnp.newaxis, …]: broadcasting only
        sl = node.slice
        items = sl.elts if isinstance(sl, ast.Tuple) else [sl]
        for it in items:
            full = isinstance(it, ast.Slice) and it.lower is None and it.upper is None and it.step is None
            newaxis = dotted(it) in ("jnp.newaxis", "np.newaxis", "jax.numpy.newaxis") or (
                isinstance(it, ast.Constant) and it.value is None)
            if not (full or newaxis):
                raise Miss("subscript other than [:, newaxis, …]")
        return self.ex(node.value)

    def cond(self, node):
        """a where-condition as Lean text of type Prop"""
        if isinstance(node, ast.Name) and self.scope.get(node.id, (None, None))[1] == "bool":
            return self.scope[node.id][0]           # a Bool bound earlier (coerces to `· = true`)
        if not (isinstance(node, ast.Compare) and len(node.ops) == 1):
            raise Miss("where-condition is not a single comparison")
        a, b = self.ex(node.left), self.ex(node.comparators[0])
        if a.cx or b.cx:
            raise Miss("complex comparison")
        op = type(node.ops[0])
        if op is ast.Gt:
            return f"{b.p()} < {a.p()}"
        if op is ast.Lt:
            return f"{a.p()} < {b.p()}"
        raise Miss(f"comparison {op.__name__}")

    def call(self, node):
        f = dotted(node.func)
        if f in ("float",) and len(node.args) == 1 and not node.keywords:
            return self.ex(node.args[0])
        if f in UNARY and len(node.args) == 1 and not node.keywords:
            a = self.ex(node.args[0])
            op = UNARY[f]
            if a.cx:
                if op != "exp":
                    raise Miss(f"{op} of a complex argument")
                return T(f"Cx.exp {a.p()}", cx=True)
            if op == "logistic":
                return T(f"{nat(1).text} / ({nat(1).text} + Transc.exp (-{a.p()}))")
            return T(f"Transc.{op} {a.p()}")
        if f in ("jnp.where", "np.where", "jax.numpy.where") and len(node.args) == 3 and not node.keywords:
            c = self.cond(node.args[0])
            a, b = self.ex(node.args[1]), self.ex(node.args[2])
            if a.cx or b.cx:
                raise Miss("complex where")
            return T(f"if {c} then {a.text} else {b.text}")
        if isinstance(node.func, ast.Name) and isinstance(self.module.get(node.func.id), ast.FunctionDef):
            return self.inline(self.module[node.func.id], node)
        raise Miss(f"call {f or type(node.func).__name__}")

    def inline(self, fn, call):
        """a call of a module-level straight-line helper: its body is spliced in, locals prefixed `<helper>__`"""
        if self.depth > 4:
            raise Miss("helpers nested too deeply")
        if fn.args.vararg or fn.args.kwarg or fn.args.kwonlyargs or fn.decorator_list:
            raise Miss(f"helper {fn.name}: variadic or decorated")
        params = [a.arg for a in fn.args.args]
        given = {}
        if len(call.args) > len(params):
            raise Miss(f"helper {fn.name}: too many arguments")
        for p, a in zip(params, call.args):
            given[p] = a
        for kw in call.keywords:
            if kw.arg is None or kw.arg not in params or kw.arg in given:
                raise Miss(f"helper {fn.name}: keyword argument")
            given[kw.arg] = kw.value
        defaults = dict(zip(params[len(params) - len(fn.args.defaults):], fn.args.defaults))
        prefix = fn.name.lstrip("_") + "__"
        # arguments are evaluated in the caller's scope, then bound to the helper's (prefixed) parameters
        bound = {}
        for p in params:
            if p in given:
                v = self.ex(given[p])
            elif p in defaults:
                saved, self.scope = self.scope, {}
                try:
                    v = self.ex(defaults[p])
                finally:
                    self.scope = saved
            else:
                raise Miss(f"helper {fn.name}: missing argument {p}")
            ln = self.fresh(p, prefix)
            self.lets.append((ln, v))
            bound[p] = (ln, "cx" if v.cx else "re")
        saved, self.scope = self.scope, bound
        self.depth += 1
        if fn.name not in self.inlined:
            self.inlined.append(fn.name)
        try:
            result = None
            for s in body_statements(fn):
                if result is not None:
                    raise Miss(f"helper {fn.name}: statement after return")
                if isinstance(s, ast.Assign) and len(s.targets) == 1:
                    self.assign(s.targets[0], s.value, prefix)
                elif isinstance(s, ast.Return) and s.value is not None:
                    if isinstance(s.value, ast.Tuple):
                        result = [self.ex(e) for e in s.value.elts]
                    else:
                        result = self.ex(s.value)
                else:
                    raise Miss(f"helper {fn.name}: statement {type(s).__name__}")
            if result is None:
                raise Miss(f"helper {fn.name}: no return value")
            # the returned expressions mention helper locals, which stay visible as `let`s: bind them to be safe
            if isinstance(result, list):
                outs = []
                for i, r in enumerate(result):
                    ln = self.fresh(f"ret{i}", prefix)
                    self.lets.append((ln, r))
                    outs.append(T(ln, cx=r.cx, atom=True))
                return outs
            ln = self.fresh("ret", prefix)
            self.lets.append((ln, result))
            return T(ln, cx=result.cx, atom=True)
        finally:
            self.scope = saved
            self.depth -= 1

    # ---- statements --------------------------------------------------------------------------------------------
    def bind(self, name, v, prefix=""):
        ln = self.fresh(name, prefix)
        self.lets.append((ln, v))
        self.scope[name] = (ln, "cx" if v.cx else "re")

    def assign(self, target, value_node, prefix=""):
        if isinstance(target, ast.Tuple):
            if isinstance(value_node, ast.Call):
                r = self.call(value_node)
                if not (isinstance(r, list) and len(r) == len(target.elts)):
                    raise Miss("tuple assignment from a call that does not return as many values")
                for t, v in zip(target.elts, r):
                    if not isinstance(t, ast.Name):
                        raise Miss("tuple assignment target")
                    self.bind(t.id, v, prefix)
                return
            if not (isinstance(value_node, ast.Tuple) and len(value_node.elts) == len(target.elts)):
                raise Miss("tuple assignment from a non-tuple")
            # Python evaluates the whole right-hand side before binding: sequential `let`s are the same thing
            # exactly when no element reads a name bound by an earlier element of the same tuple
            tmp = []
            bound = set()
            for t, vn in zip(target.elts, value_node.elts):
                if not isinstance(t, ast.Name) or isinstance(vn, ast.Compare):
                    raise Miss("tuple assignment target")
                used = {x.id for x in ast.walk(vn) if isinstance(x, ast.Name)}
                if used & bound:
                    raise Miss("tuple assignment with a dependency between its elements")
                tmp.append((t.id, self.ex(vn)))
                bound.add(t.id)
            for n, v in tmp:
                self.bind(n, v, prefix)
            return
        if not isinstance(target, ast.Name):
            raise Miss("assignment target")
        if isinstance(value_node, ast.Compare):
            c = self.cond(value_node)
            ln = self.fresh(target.id, prefix)
            self.lets.append((ln, T(f"decide ({c})")))
            self.scope[target.id] = (ln, "bool")
            return
        self.bind(target.id, self.ex(value_node), prefix)


def module_table(tree):
    """module-level helpers and constants a kernel may refer to: `def f(...)` and `NAME = <expr>` at top level"""
    tab = {}
    for s in tree.body:
        if isinstance(s, ast.FunctionDef):
            tab[s.name] = s
        elif isinstance(s, ast.Assign) and len(s.targets) == 1 and isinstance(s.targets[0], ast.Name):
            tab[s.targets[0].id] = s.value
        elif isinstance(s, ast.AnnAssign) and isinstance(s.target, ast.Name) and s.value is not None:
            tab[s.target.id] = s.value
    return tab


def find_func(tree, name, cls=None):
    for node in ast.walk(tree):
        if cls and isinstance(node, ast.ClassDef) and node.name == cls:
            for sub in node.body:
                if isinstance(sub, ast.FunctionDef) and sub.name == name:
                    return sub
        if not cls and isinstance(node, ast.FunctionDef) and node.name == name:
            return node
    raise Miss(f"function {(cls + '.') if cls else ''}{name} not found")


def body_statements(fn):
    """the straight-line body: docstring dropped, `with handlers.mask(...)` blocks flattened"""
    out = []

    def walk(stmts):
        for s in stmts:
            if isinstance(s, ast.Expr) and isinstance(s.value, ast.Constant) and isinstance(s.value.value, str):
                continue
            if isinstance(s, ast.With):
                walk(s.body)
                continue
            out.append(s)
    walk(fn.body)
    return out


def translate_kernel(spec, tree, src):
    fn = find_func(tree, spec["func"], spec.get("cls"))
    drop = set(spec.get("drop", []))
    params = [a.arg for a in fn.args.args if a.arg not in drop]
    if fn.args.vararg or fn.args.kwarg or fn.args.kwonlyargs:
        raise Miss("variadic signature")
    tr = Translator(src, params, spec.get("complex_params", ()), module_table(tree))
    value = None
    reduce = None
    sampled = []
    stmts = body_statements(fn)
    if spec.get("value") == "locals":
        # the values of named local variables: assignments are translated in order until every target is bound; results of
        # calls that are not formulas (tuple-unpacked method calls) and `self.<attr>` become scalar parameters
        tr.self_attrs = []
        want = list(spec["targets"])
        for s in stmts:
            if all(t in tr.scope for t in want):
                break
            if not (isinstance(s, ast.Assign) and len(s.targets) == 1):
                raise Miss(f"statement {type(s).__name__} at line {s.lineno} before the targets are bound")
            tgt, val = s.targets[0], s.value
            if isinstance(tgt, ast.Tuple) and isinstance(val, ast.Call) and all(isinstance(x, ast.Name) for x in tgt.elts):
                for x in tgt.elts:
                    if x.id in want:
                        raise Miss(f"target {x.id} is the result of a call")
                    sampled.append(x.id)
                    tr.scope[x.id] = (lean_ident(x.id), "re")
                continue
            tr.assign(tgt, val)
        if not all(t in tr.scope for t in want):
            raise Miss(f"targets {[t for t in want if t not in tr.scope]} are never assigned")
        allp = params + sampled + [a for a in tr.self_attrs]
        lines = [f"/-- translated from pysersic/{spec['file']} `{spec['func']}`: the local variables {', '.join(want)} (per component) -/",
                 "def " + spec['lean'] + " " + " ".join(f"({lean_ident(p)} : α)" for p in allp) + " : " + " × ".join(["α"] * len(want)) + " :="]
        for n, v in tr.lets:
            lines.append(f"  let {n} := {v.text}")
        lines.append("  (" + ", ".join(tr.scope[t][0] for t in want) + ")")
        return dict(text="\n".join(lines), params=allp, inlined=tr.inlined, complex=False, complex_params=[], reduce="none", line=fn.lineno,
                    tuple=len(want))
    for i, s in enumerate(stmts):
        if value is not None:
            # after the value: only `return <name bound to it>` is allowed
            if isinstance(s, ast.Return) and isinstance(s.value, ast.Name) and s.value.id == value[0]:
                continue
            raise Miss("statement after the value")
        if isinstance(s, ast.Assign) and len(s.targets) == 1:
            tgt, val = s.targets[0], s.value
            if spec.get("value") == "factor" and isinstance(val, ast.Call) and dotted(val.func) in ("factor", "numpyro.factor"):
                if len(val.args) != 2:
                    raise Miss("factor(...) with other than two positional arguments")
                value = (tgt.id if isinstance(tgt, ast.Name) else None, tr.ex(val.args[1]))
                continue
            # `v = sample(site name, distribution)`: a latent value, i.e. an input of the formula
            if (spec.get("sampled") and isinstance(tgt, ast.Name) and isinstance(val, ast.Call)
                    and dotted(val.func) in ("sample", "numpyro.sample") and len(val.args) == 2 and not val.keywords):
                if tgt.id in tr.scope:
                    raise Miss("sample site bound to an existing name")
                sampled.append(tgt.id)
                tr.scope[tgt.id] = (lean_ident(tgt.id), "re")
                continue
            # `im = jnp.sum(term, axis=0)` as the last assignment of a per-component kernel
            if (spec.get("reduce") == "sum_axis0" and isinstance(val, ast.Call) and dotted(val.func) in ("jnp.sum", "np.sum")
                    and len(val.args) == 1 and len(val.keywords) == 1 and val.keywords[0].arg == "axis"
                    and isinstance(val.keywords[0].value, ast.Constant) and val.keywords[0].value.value == 0):
                value = (tgt.id if isinstance(tgt, ast.Name) else None, tr.ex(val.args[0]))
                reduce = "sum_axis0"
                continue
            tr.assign(tgt, val)
            continue
        if isinstance(s, ast.Return) and s.value is not None:
            if spec.get("value") == "factor":
                raise Miss("return before factor(...)")
            val = s.value
            if (spec.get("reduce") == "sum_axis0" and isinstance(val, ast.Call) and dotted(val.func) in ("jnp.sum", "np.sum")
                    and len(val.args) == 1 and len(val.keywords) == 1 and val.keywords[0].arg == "axis"
                    and isinstance(val.keywords[0].value, ast.Constant) and val.keywords[0].value.value == 0):
                value = (None, tr.ex(val.args[0]))
                reduce = "sum_axis0"
            else:
                value = (None, tr.ex(val))
            continue
        raise Miss(f"statement {type(s).__name__} at line {s.lineno}")
    if value is None:
        raise Miss("no value found")
    if spec.get("reduce") and reduce != spec["reduce"]:
        raise Miss(f"the returned value is not jnp.sum(…, axis=0)")
    allp = params + sampled + tr.extra_params
    ret = "Cx α" if value[1].cx else "α"
    lines = [f"/-- translated from pysersic/{spec['file']} `{spec['func']}`"
             + (f" (the summand of the final `jnp.sum(…, axis=0)`)" if reduce else "")
             + (f" (the argument of `factor`)" if spec.get("value") == "factor" else "") + " -/",
             "def " + spec['lean'] + " " + " ".join(
                 f"({lean_ident(p)} : {'Cx α' if p in spec.get('complex_params', ()) else 'α'})" for p in allp) + f" : {ret} :="]
    for n, v in tr.lets:
        lines.append(f"  let {n} := {v.text}")
    lines.append(f"  {value[1].text}")
    return dict(text="\n".join(lines), params=allp, inlined=tr.inlined, complex=value[1].cx, complex_params=list(spec.get("complex_params", ())), reduce=reduce or "none", line=fn.lineno)


# ----------------------------------------------------------------------------------------------------------------
# prior programs: a method that configures a prior object by a sequence of `prior.set_*_prior(name, …)` calls under
# `if`s on the profile type becomes a Lean function returning the list of (name, distribution) it installs, in order
# ----------------------------------------------------------------------------------------------------------------

PROGRAMS = [
    dict(lean="generate_prior", file="priors.py", cls="SourceProperties", func="generate_prior", obj="prior",
         switch="profile_type"),
]
SETTERS = {
    "set_gaussian_prior": ("gaussianPrior", ["loc", "scale"], []),
    "set_uniform_prior": ("uniformPrior", ["low", "high"], []),
    "set_truncated_gaussian_prior": ("truncGaussianPrior", ["loc", "scale"], ["low", "high"]),
}


class Program:
    def __init__(self, spec, tree, src):
        self.spec, self.src = spec, src
        self.tr = Translator(src, [], module=module_table(tree))
        self.tr.self_attrs = []
        self.switch = spec["switch"]

    def str_cond(self, node):
        """a condition on the profile-type string → Lean Bool text"""
        sw = self.switch
        if isinstance(node, ast.BoolOp):
            op = " && " if isinstance(node.op, ast.And) else " || "
            return "(" + op.join(self.str_cond(v) for v in node.values) + ")"
        if isinstance(node, ast.UnaryOp) and isinstance(node.op, ast.Not):
            return f"(!{self.str_cond(node.operand)})"
        if isinstance(node, ast.Compare) and len(node.ops) == 1:
            l, r, op = node.left, node.comparators[0], node.ops[0]
            is_sw = lambda n: isinstance(n, ast.Name) and n.id == sw
            is_str = lambda n: isinstance(n, ast.Constant) and isinstance(n.value, str)
            if isinstance(op, (ast.Eq, ast.NotEq)) and ((is_sw(l) and is_str(r)) or (is_str(l) and is_sw(r))):
                lit = r.value if is_str(r) else l.value
                t = f"({sw} == {lean_str(lit)})"
                return t if isinstance(op, ast.Eq) else f"(!{t})"
            if isinstance(op, (ast.In, ast.NotIn)) and is_sw(l) and isinstance(r, (ast.List, ast.Tuple)) and all(is_str(e) for e in r.elts):
                t = "([" + ", ".join(lean_str(e.value) for e in r.elts) + f"].contains {sw})"
                return t if isinstance(op, ast.In) else f"(!{t})"
            if isinstance(op, (ast.In, ast.NotIn)) and is_str(l) and is_sw(r):
                t = f"(Names.hasSub {lean_str(l.value)}.toList {sw}.toList)"
                return t if isinstance(op, ast.In) else f"(!{t})"
        raise Miss("condition other than a test on the profile-type string")

    def setter(self, call, ind):
        name = call.func.attr
        fn, pos, opt = SETTERS[name]
        args = list(call.args)
        kws = {k.arg: k.value for k in call.keywords}
        if None in kws:
            raise Miss("**kwargs in a setter call")
        if not args and "var_name" not in kws:
            raise Miss("setter without a name")
        name_node = args.pop(0) if args else kws.pop("var_name")
        if not (isinstance(name_node, ast.Constant) and isinstance(name_node.value, str)):
            raise Miss("parameter name is not a string literal")
        vals = {}
        for pname in pos + opt:
            if args:
                vals[pname] = args.pop(0)
            elif pname in kws:
                vals[pname] = kws.pop(pname)
        if args or kws:
            raise Miss("unexpected setter argument")
        parts = []
        for pname in pos:
            if pname not in vals:
                raise Miss(f"setter argument {pname} missing")
            v = self.tr.ex(vals[pname])
            if v.cx:
                raise Miss("complex prior parameter")
            parts.append(v.p())
        for pname in opt:
            if pname not in vals or (isinstance(vals[pname], ast.Constant) and vals[pname].value is None):
                parts.append("none")
            else:
                v = self.tr.ex(vals[pname])
                parts.append(f"(some {v.p()})")
        return f"{ind}let acc := acc ++ [({lean_str(name_node.value)}, {fn} {' '.join(parts)})]"

    def block(self, stmts, ind):
        """statements → Lean lines, each rebinding `acc` (the list installed so far) or a local"""
        out = []
        obj = self.spec["obj"]
        for s in stmts:
            if isinstance(s, ast.Expr) and isinstance(s.value, ast.Constant) and isinstance(s.value.value, str):
                continue
            if isinstance(s, ast.Return):
                if not (isinstance(s.value, ast.Name) and s.value.id == obj):
                    raise Miss("return of something other than the prior object")
                continue
            if isinstance(s, ast.Assign) and len(s.targets) == 1 and isinstance(s.targets[0], ast.Name):
                tgt = s.targets[0].id
                if tgt == obj:
                    # construction of the prior object: its keyword arguments are not part of the installed list
                    if not isinstance(s.value, ast.Call):
                        raise Miss("prior object bound to a non-call")
                    continue
                n0 = len(self.tr.lets)
                self.tr.assign(s.targets[0], s.value)
                for ln, v in self.tr.lets[n0:]:
                    out.append(f"{ind}let {ln} := {v.text}")
                continue
            if (isinstance(s, ast.Expr) and isinstance(s.value, ast.Call) and isinstance(s.value.func, ast.Attribute)
                    and isinstance(s.value.func.value, ast.Name) and s.value.func.value.id == obj):
                if s.value.func.attr not in SETTERS:
                    raise Miss(f"call {obj}.{s.value.func.attr}")
                n0 = len(self.tr.lets)
                line = self.setter(s.value, ind)
                for ln, v in self.tr.lets[n0:]:
                    out.append(f"{ind}let {ln} := {v.text}")
                out.append(line)
                continue
            if isinstance(s, ast.If):
                out += self.ifchain(s, ind)
                continue
            raise Miss(f"statement {type(s).__name__} at line {s.lineno}")
        return out

    def branch(self, stmts, ind):
        saved = dict(self.tr.scope)
        lines = self.block(stmts, ind + "  ")
        self.tr.scope = saved                # names bound in a branch are local to it
        return [f"{ind}(", *lines, f"{ind}  acc)"]

    def ifchain(self, node, ind):
        c = self.str_cond(node.test)
        out = [f"{ind}let acc :=", f"{ind}  if {c} then"]
        out += self.branch(node.body, ind + "    ")
        orelse = node.orelse
        while len(orelse) == 1 and isinstance(orelse[0], ast.If):
            e = orelse[0]
            out.append(f"{ind}  else if {self.str_cond(e.test)} then")
            out += self.branch(e.body, ind + "    ")
            orelse = e.orelse
        out.append(f"{ind}  else")
        out += self.branch(orelse, ind + "    ") if orelse else [f"{ind}    acc"]
        return out


def translate_program(spec, tree, src):
    fn = find_func(tree, spec["func"], spec.get("cls"))
    if spec["switch"] not in [a.arg for a in fn.args.args]:
        raise Miss(f"no parameter {spec['switch']}")
    pg = Program(spec, tree, src)
    body = pg.block(body_statements(fn), "  ")
    attrs = sorted(pg.tr.self_attrs)
    lines = [f"/-- translated from pysersic/{spec['file']} `{spec.get('cls', '')}.{spec['func']}`: the (name, distribution) "
             "pairs it installs, in order -/",
             f"def {spec['lean']} ({spec['switch']} : String) " + " ".join(f"({lean_ident(a)} : α)" for a in attrs)
             + " : List (String × Dist α) :=",
             "  let acc : List (String × Dist α) := []", *body, "  acc"]
    return dict(text="\n".join(lines), params=[spec["switch"]] + attrs, inlined=pg.tr.inlined, complex=False,
                complex_params=[], reduce="none", line=fn.lineno, program=True)


def lean_str(s):
    return '"' + s.replace("\\", "\\\\").replace('"', '\\"') + '"'


# ----------------------------------------------------------------------------------------------------------------
# loss programs: a numpyro loss function — latent `sample` sites, `deterministic` values, one observed `sample` site or
# one `factor` under `handlers.mask(mask=mask)` — becomes (i) the per-pixel log-density term of the observed/factor site
# as a function of the pixel (mod, data, rms), the function's keyword parameters, the aggregate `mean(rms)` and the
# values of the latent sites, and (ii) the list of latent sites (name without suffix, distribution), in source order
# ----------------------------------------------------------------------------------------------------------------

LOSSES = ["gaussian_loss", "cash_loss", "gaussian_loss_w_frac", "gaussian_loss_w_sys", "student_t_loss",
          "student_t_loss_free_sys", "pseudo_huber_loss", "gaussian_mixture", "gaussian_mixture_w_sys", "gaussian_mixture_w_frac"]
PIXEL_ARGS = ("mod", "data", "rms")


class Pair:
    def __init__(self, a, b, nodes):
        self.a, self.b, self.nodes = a, b, nodes


class LossProgram:
    def __init__(self, fn, tree, src):
        self.fn, self.src = fn, src
        names = [a.arg for a in fn.args.args]
        for need in PIXEL_ARGS + ("mask",):
            if need not in names:
                raise Miss(f"loss without parameter {need}")
        self.keyword_params = [n for n in names if n not in PIXEL_ARGS + ("mask", "suffix")]
        self.tr = Translator(src, [n for n in names if n not in ("mask", "suffix")], module=module_table(tree))
        self.latents = []         # (python name, site name, Lean dist text)
        self.determ = []          # site names of `deterministic`
        self.means = []           # which aggregate means are used
        self.dists = {}           # python name -> Lean text of a distribution value (or ("cat", w) / ("normal2", …))
        self.lines = []
        self.value = None         # Lean text of the per-pixel term
        self.obs = None           # (site name, kind, masked)

    # site names: f'name{suffix}' or 'name' + suffix
    def site_name(self, node):
        if isinstance(node, ast.JoinedStr) and len(node.values) == 2 and isinstance(node.values[0], ast.Constant) \
                and isinstance(node.values[1], ast.FormattedValue) and isinstance(node.values[1].value, ast.Name) \
                and node.values[1].value.id == "suffix" and node.values[1].format_spec is None and node.values[1].conversion == -1:
            return node.values[0].value
        if isinstance(node, ast.BinOp) and isinstance(node.op, ast.Add) and isinstance(node.left, ast.Constant) \
                and isinstance(node.left.value, str) and isinstance(node.right, ast.Name) and node.right.id == "suffix":
            return node.left.value
        raise Miss("site name is not <literal> followed by the suffix")

    def scalar(self, node):
        """scalar expression, with `jnp.mean(rms[, where=mask])` as an aggregate input"""
        if isinstance(node, ast.Call) and dotted(node.func) in ("jnp.mean", "np.mean") and len(node.args) == 1 \
                and isinstance(node.args[0], ast.Name) and node.args[0].id == "rms":
            kws = {k.arg: k.value for k in node.keywords}
            if not kws:
                nm = "mean_rms_all"
            elif list(kws) == ["where"] and isinstance(kws["where"], ast.Name) and kws["where"].id == "mask":
                nm = "mean_rms_good"
            else:
                raise Miss("jnp.mean with other keywords")
            if nm not in self.means:
                self.means.append(nm)
            return T(nm, atom=True)
        # let the expression translator see the aggregate through a placeholder
        class R(ast.NodeTransformer):
            def visit_Call(s2, n):
                if dotted(n.func) in ("jnp.mean", "np.mean"):
                    t = self.scalar(n)
                    return ast.copy_location(ast.Name(id="__" + t.text, ctx=ast.Load()), n)
                return s2.generic_visit(n)
        import copy
        node2 = R().visit(copy.deepcopy(node))
        for m in self.means:
            self.tr.scope.setdefault("__" + m, (m, "re"))
        v = self.tr.ex(node2)
        if v.cx:
            raise Miss("complex value in a loss")
        return v

    def opt(self, node, default):
        if node is None:
            return default
        if isinstance(node, ast.Constant) and node.value is None:
            return "none"
        return f"(some {self.scalar(node).p()})"

    def pair(self, node):
        """jnp.stack([a, b], axis=-1) / jnp.array([a, b]) → the two scalar components"""
        if isinstance(node, ast.Call) and dotted(node.func) in ("jnp.stack", "jnp.array", "np.array", "jnp.asarray") and node.args \
                and isinstance(node.args[0], (ast.List, ast.Tuple)) and len(node.args[0].elts) == 2:
            for k in node.keywords:
                if not (k.arg == "axis" and isinstance(k.value, (ast.Constant, ast.UnaryOp))):
                    raise Miss("stack keyword")
            a, b = node.args[0].elts
            return Pair(self.scalar(a), self.scalar(b), (a, b))
        raise Miss("expected a two-component stack")

    def dist(self, node):
        """a numpyro distribution expression → Lean `Dist α` text"""
        if isinstance(node, ast.Name) and node.id in self.dists:
            return self.dists[node.id]
        if not isinstance(node, ast.Call):
            raise Miss("distribution expression")
        f = dotted(node.func) or ""
        fam = f.split(".")[-1]
        args = list(node.args)
        kws = {k.arg: k.value for k in node.keywords}
        if None in kws:
            raise Miss("**kwargs in a distribution")

        def take(names, defaults):
            vals = {}
            rest = list(args)
            for nme in names:
                if rest:
                    vals[nme] = rest.pop(0)
                elif nme in kws:
                    vals[nme] = kws.pop(nme)
            if rest:
                raise Miss("too many positional arguments")
            return [vals.get(nme) for nme in names]
        if fam == "Normal":
            loc, scale = take(["loc", "scale"], None)
            if kws:
                raise Miss("Normal keyword")
            if isinstance(loc, ast.Call) and dotted(loc.func) in ("jnp.stack",):
                pl, ps = self.pair(loc), self.pair(scale)
                if ast.dump(pl.nodes[0]) != ast.dump(pl.nodes[1]):
                    raise Miss("two-component Normal with different locations")
                return ("normal2", pl.a, ps.a, ps.b)
            l = self.scalar(loc) if loc is not None else nat(0)
            sc = self.scalar(scale) if scale is not None else nat(1)
            return f"(Dist.normal {l.p()} {sc.p()})"
        if fam == "StudentT":
            df, loc, scale = take(["df", "loc", "scale"], None)
            if kws or df is None:
                raise Miss("StudentT arguments")
            l = self.scalar(loc) if loc is not None else nat(0)
            sc = self.scalar(scale) if scale is not None else nat(1)
            return f"(Dist.studentT {self.scalar(df).p()} {l.p()} {sc.p()})"
        if fam == "TruncatedNormal":
            loc, scale = take(["loc", "scale"], None)
            low, high = kws.pop("low", None), kws.pop("high", None)
            if kws:
                raise Miss("TruncatedNormal keyword")
            l = self.scalar(loc) if loc is not None else nat(0)
            sc = self.scalar(scale) if scale is not None else nat(1)
            return f"(Dist.truncNormal {l.p()} {sc.p()} {self.opt(low, 'none')} {self.opt(high, 'none')})"
        if fam == "Categorical":
            if args or list(kws) != ["probs"]:
                raise Miss("Categorical arguments")
            pr = self.pair(kws["probs"])
            a, b = pr.nodes
            # probs = [1 - w, w]
            if not (isinstance(a, ast.BinOp) and isinstance(a.op, ast.Sub) and isinstance(a.left, ast.Constant)
                    and a.left.value in (1, 1.0) and ast.dump(a.right) == ast.dump(b)):
                raise Miss("Categorical probabilities are not [1 - w, w]")
            return ("cat", pr.b)
        if fam == "MixtureSameFamily":
            mix, comp = take(["mixing_distribution", "component_distribution"], None)
            if kws or mix is None or comp is None:
                raise Miss("MixtureSameFamily arguments")
            m, c = self.dist(mix), self.dist(comp)
            if not (isinstance(m, tuple) and m[0] == "cat" and isinstance(c, tuple) and c[0] == "normal2"):
                raise Miss("mixture other than Categorical([1-w, w]) over two Normals")
            return f"(Dist.mix2Normal {m[1].p()} {c[1].p()} {c[2].p()} {c[3].p()})"
        raise Miss(f"distribution {fam}")

    def flush_lets(self, n0):
        for ln, v in self.tr.lets[n0:]:
            self.lines.append(f"  let {ln} := {v.text}")

    def statement(self, s, masked):
        if self.value is not None:
            if isinstance(s, ast.Return):
                return
            raise Miss("statement after the observed site")
        if isinstance(s, ast.With):
            if not (len(s.items) == 1 and isinstance(s.items[0].context_expr, ast.Call)
                    and dotted(s.items[0].context_expr.func) in ("handlers.mask", "numpyro.handlers.mask")
                    and [k.arg for k in s.items[0].context_expr.keywords] == ["mask"] and not s.items[0].context_expr.args
                    and isinstance(s.items[0].context_expr.keywords[0].value, ast.Name)
                    and s.items[0].context_expr.keywords[0].value.id == "mask"):
                raise Miss("with-block other than handlers.mask(mask=mask)")
            for t in s.body:
                self.statement(t, True)
            return
        if isinstance(s, ast.Return):
            raise Miss("return before the observed site")
        if not (isinstance(s, ast.Assign) and len(s.targets) == 1 and isinstance(s.targets[0], ast.Name)):
            raise Miss(f"statement {type(s).__name__}")
        tgt, val = s.targets[0].id, s.value
        f = dotted(val.func) if isinstance(val, ast.Call) else None
        if f in ("sample", "numpyro.sample"):
            kws = {k.arg: k.value for k in val.keywords}
            if len(val.args) != 2:
                raise Miss("sample(...) arguments")
            name = self.site_name(val.args[0])
            d = self.dist(val.args[1])
            if isinstance(d, tuple):
                raise Miss("bare component distribution at a site")
            if "obs" in kws:
                if list(kws) != ["obs"] or not (isinstance(kws["obs"], ast.Name) and kws["obs"].id == "data"):
                    raise Miss("observed site not on `data`")
                self.value = f"Dist.logProb {d} data"
                self.obs = (name, "observed", masked)
                return
            if kws:
                raise Miss("sample keyword")
            if masked:
                raise Miss("latent site under the mask")
            self.latents.append((tgt, name, d))
            self.tr.scope[tgt] = (lean_ident(tgt), "re")
            return
        if f in ("factor", "numpyro.factor"):
            if len(val.args) != 2 or val.keywords:
                raise Miss("factor(...) arguments")
            n0 = len(self.tr.lets)
            v = self.scalar(val.args[1])
            self.flush_lets(n0)
            self.value = v.text
            self.obs = (self.site_name(val.args[0]), "factor", masked)
            return
        if f in ("deterministic", "numpyro.deterministic"):
            if len(val.args) != 2 or val.keywords:
                raise Miss("deterministic(...) arguments")
            self.determ.append(self.site_name(val.args[0]))
            n0 = len(self.tr.lets)
            v = self.scalar(val.args[1])
            self.flush_lets(n0)
            self.lines.append(f"  let {lean_ident(tgt)} := {v.text}")
            self.tr.scope[tgt] = (lean_ident(tgt), "re")
            return
        if f and f.split(".")[-1] in ("Normal", "StudentT", "TruncatedNormal", "Categorical", "MixtureSameFamily"):
            self.dists[tgt] = self.dist(val)
            return
        n0 = len(self.tr.lets)
        v = self.scalar(val)
        self.flush_lets(n0)
        self.lines.append(f"  let {lean_ident(tgt)} := {v.text}")
        self.tr.scope[tgt] = (lean_ident(tgt), "re")


def translate_loss(name, tree, src):
    fn = find_func(tree, name)
    lp = LossProgram(fn, tree, src)
    for s in fn.body:
        if isinstance(s, ast.Expr) and isinstance(s.value, ast.Constant) and isinstance(s.value.value, str):
            continue
        lp.statement(s, False)
    if lp.value is None or lp.obs is None:
        raise Miss("no observed site or factor")
    params = list(PIXEL_ARGS) + lp.keyword_params + lp.means + [t for t, _, _ in lp.latents]
    defaults = {}
    allargs = [a.arg for a in fn.args.args]
    for a, d in zip(allargs[len(allargs) - len(fn.args.defaults):], fn.args.defaults):
        if a in lp.keyword_params:
            if not (isinstance(d, ast.Constant) and isinstance(d.value, (int, float)) and not isinstance(d.value, bool)):
                raise Miss(f"default of {a}")
            defaults[a] = repr(d.value)
    text = [f"/-- translated from pysersic/loss.py `{name}`: log-density term of one unmasked pixel at the {lp.obs[1]} site "
            f"`{lp.obs[0]}<suffix>` -/",
            f"def {name}_pixel " + " ".join(f"({lean_ident(p)} : α)" for p in params) + " : α :=",
            *lp.lines, f"  {lp.value}", "",
            f"/-- the latent sites of `{name}` (name without suffix, distribution), in source order -/",
            f"def {name}_sites : List (String × Dist α) :=",
            "  [" + ", ".join(f"({lean_str(n)}, {d})" for _, n, d in lp.latents) + "]"]
    return dict(text="\n".join(text), params=params, inlined=lp.tr.inlined, complex=False, complex_params=[], reduce="none",
                line=fn.lineno, loss=True, site=lp.obs[0], site_kind=lp.obs[1], masked=lp.obs[2], deterministic=lp.determ,
                latents=[n for _, n, _ in lp.latents], defaults=defaults)


HEADER = """/-
GENERATED by tools/translate.py from the current /repo tree — do not edit.
The straight-line scalar kernels of pysersic, expression by expression.
-/
import PysersicModel.Render.CxOps
import PysersicModel.Prob.Prior
import PysersicModel.IO.Names

namespace Pysersic.Gen.K
open Pysersic
open Pysersic.Render (Cx)
open Pysersic.Prob (Dist gaussianPrior uniformPrior truncGaussianPrior)

section
variable {α : Type} [Add α] [Sub α] [Mul α] [Div α] [Neg α] [NatCast α] [Transc α] [LT α] [DecidableLT α]

"""


def emit(ks):
    parts = [HEADER]
    for spec in KERNELS:
        k = ks[spec["lean"]]
        parts.append(k["text"] + "\n\n")
    parts.append("/-! ### prior programs -/\n\n")
    for spec in PROGRAMS:
        parts.append(ks[spec["lean"]]["text"] + "\n\n")
    parts.append("/-! ### loss programs -/\n\n")
    for name in LOSSES:
        parts.append(ks[name + "_pixel"]["text"] + "\n\n")
    parts.append("end\n\n")
    parts.append("/-- per loss: (function, site name, site kind, under handlers.mask, deterministic sites, latent sites) -/\n")
    rows = ", ".join('(%s, %s, %s, %s, [%s], [%s])' % (
        lean_str(n), lean_str(ks[n + "_pixel"]["site"]), lean_str(ks[n + "_pixel"]["site_kind"]),
        "true" if ks[n + "_pixel"]["masked"] else "false",
        ", ".join(lean_str(x) for x in ks[n + "_pixel"]["deterministic"]),
        ", ".join(lean_str(x) for x in ks[n + "_pixel"]["latents"])) for n in LOSSES)
    parts.append(f"def lossMeta : List (String × String × String × Bool × List String × List String) := [{rows}]\n\n")
    parts.append("/-- the translated kernels at `Float`, by name (complex arguments and results as re, im), for the driver -/\n")
    parts.append("def evalF (name : String) (a : Array Float) : Option (List Float) :=\n  match name with\n")
    for spec in KERNELS:
        k = ks[spec["lean"]]
        cps = set(k.get("complex_params", []))
        args, i = [], 0
        for p in k["params"]:
            if p in cps:
                args.append(f"(⟨a[{i}]!, a[{i + 1}]!⟩ : Cx Float)")
                i += 2
            else:
                args.append(f"a[{i}]!")
                i += 1
        call = f"{spec['lean']} " + " ".join(args)
        res = f"let z := {call}; [z.re, z.im]" if k["complex"] else (f"let z := {call}; [z.1, z.2]" if k.get("tuple") == 2 else f"[{call}]")
        parts.append(f"  | \"{spec['lean']}\" => if a.size = {i} then some ({res}) else none\n")
    parts.append("  | _ => none\n\n")
    parts.append("/-- the translated prior programs at `Float`, by name: switch string, scalar arguments in the order of `params` -/\n")
    parts.append("def evalProgF (name sw : String) (a : Array Float) : Option (List (String × Dist Float)) :=\n  match name with\n")
    for spec in PROGRAMS:
        k = ks[spec["lean"]]
        n = len(k["params"]) - 1
        call = f"{spec['lean']} sw " + " ".join(f"a[{i}]!" for i in range(n))
        parts.append(f"  | \"{spec['lean']}\" => if a.size = {n} then some ({call}) else none\n")
    parts.append("  | _ => none\n\n")
    parts.append("/-- how each per-component kernel reduces over its components, and where each translation came from -/\n")
    rows = ", ".join(f'("{s["lean"]}", "{ks[s["lean"]]["reduce"]}")' for s in KERNELS)
    parts.append(f"def reduceOf : List (String × String) := [{rows}]\n\n")
    parts.append("end Pysersic.Gen.K\n")
    return "".join(parts)


def regenerate(write=True):
    fallback = json.loads(FALLBACK.read_text()) if FALLBACK.exists() else {}
    trees = {}
    ks, failed = {}, {}
    for spec in KERNELS:
        try:
            if spec["file"] not in trees:
                src = (REPO / "pysersic" / spec["file"]).read_text()
                import warnings
                warnings.simplefilter("ignore")
                trees[spec["file"]] = (ast.parse(src), src)
            tree, src = trees[spec["file"]]
            ks[spec["lean"]] = translate_kernel(spec, tree, src)
        except Exception as e:  # Miss, SyntaxError, or anything a refactor can throw at the matcher
            failed[spec["lean"]] = f"{type(e).__name__}: {e}"
            if spec["lean"] not in fallback:
                raise
            ks[spec["lean"]] = fallback[spec["lean"]]
    for spec in PROGRAMS:
        try:
            if spec["file"] not in trees:
                src = (REPO / "pysersic" / spec["file"]).read_text()
                trees[spec["file"]] = (ast.parse(src), src)
            tree, src = trees[spec["file"]]
            ks[spec["lean"]] = translate_program(spec, tree, src)
        except Exception as e:
            failed[spec["lean"]] = f"{type(e).__name__}: {e}"
            if spec["lean"] not in fallback:
                raise
            ks[spec["lean"]] = fallback[spec["lean"]]
    for name in LOSSES:
        key = name + "_pixel"
        try:
            if "loss.py" not in trees:
                src = (REPO / "pysersic" / "loss.py").read_text()
                trees["loss.py"] = (ast.parse(src), src)
            tree, src = trees["loss.py"]
            ks[key] = translate_loss(name, tree, src)
        except Exception as e:
            failed[key] = f"{type(e).__name__}: {e}"
            if key not in fallback:
                raise
            ks[key] = fallback[key]
    text = emit(ks)
    status = "unchanged"
    if write:
        old = OUT.read_text() if OUT.exists() else None
        if old != text:
            OUT.parent.mkdir(parents=True, exist_ok=True)
            OUT.write_text(text)
            status = "rewritten"
    rep = dict(status=status, failed=failed, sha256=hashlib.sha256(text.encode()).hexdigest(),
               translated=sorted(k for k in ks if k not in failed),
               differs_from_committed_fallback=sorted(k for k in ks if (fallback.get(k) or {}).get("text") != ks[k]["text"]))
    try:
        REPORT.parent.mkdir(parents=True, exist_ok=True)
        REPORT.write_text(json.dumps(dict(rep, kernels=ks), indent=1))
    except OSError:
        pass
    return rep


def use_fallback_text():
    """restore the committed translation of every kernel (used when the regenerated file does not compile)"""
    fallback = json.loads(FALLBACK.read_text())
    OUT.write_text(emit(fallback))


if __name__ == "__main__":
    if len(sys.argv) > 1 and sys.argv[1] == "--update-fallback":
        ks = {}
        for spec in KERNELS:
            src = (REPO / "pysersic" / spec["file"]).read_text()
            ks[spec["lean"]] = translate_kernel(spec, ast.parse(src), src)
        for spec in PROGRAMS:
            src = (REPO / "pysersic" / spec["file"]).read_text()
            ks[spec["lean"]] = translate_program(spec, ast.parse(src), src)
        src = (REPO / "pysersic" / "loss.py").read_text()
        for name in LOSSES:
            ks[name + "_pixel"] = translate_loss(name, ast.parse(src), src)
        FALLBACK.write_text(json.dumps(ks, indent=1))
        print("fallback updated")
    rep = regenerate()
    print(json.dumps(rep, indent=1))
