"""Tie 1: regenerate lean/PysersicModel/Gen/Consts.lean from the current /repo tree.

An `ast` walk over /repo/pysersic/*.py extracts, by syntactic role, the
constants, tables, defaults and structural facts the Lean theorems are stated
over.  The theorems quantify over these values under explicit side conditions;
`Props/*.lean` then proves that the regenerated values meet the side
conditions.  If a pattern no longer matches (a refactor), the committed
fallback value is kept, the miss is recorded, and only the behavioural
correspondence (tie 2) carries that constant — a miss is never a verdict.
"""
from __future__ import annotations

import ast
import hashlib
import json
import os
import sys
from fractions import Fraction
from pathlib import Path

VERIF = Path(__file__).resolve().parent.parent
REPO = Path(os.environ.get("PYSERSIC_REPO", "/repo"))
LEAN_DIR = Path(os.environ.get("VERIF_LEAN_DIR", str(VERIF / "lean")))
OUT = LEAN_DIR / "PysersicModel" / "Gen" / "Consts.lean"
FALLBACK = VERIF / "tools" / "consts_fallback.json"
REPORT = LEAN_DIR / ".lake" / "gen_report.json"


class Miss(Exception):
    pass


# ----------------------------------------------------------------------------
# helpers
# ----------------------------------------------------------------------------

def parse(rel):
    import warnings
    warnings.simplefilter("ignore")
    p = REPO / rel
    return ast.parse(p.read_text(), filename=str(p)), p.read_text()


def find_func(tree, name, cls=None):
    for node in ast.walk(tree):
        if cls and isinstance(node, ast.ClassDef) and node.name == cls:
            for sub in node.body:
                if isinstance(sub, (ast.FunctionDef,)) and sub.name == name:
                    return sub
        if not cls and isinstance(node, ast.FunctionDef) and node.name == name:
            return node
    raise Miss(f"function {cls + '.' if cls else ''}{name} not found")


def find_class(tree, name):
    for node in ast.walk(tree):
        if isinstance(node, ast.ClassDef) and node.name == name:
            return node
    raise Miss(f"class {name} not found")


PI_NAMES = {("jnp", "pi"), ("np", "pi"), ("math", "pi"), ("numpy", "pi")}


def is_pi(node):
    return (isinstance(node, ast.Attribute) and isinstance(node.value, ast.Name)
            and (node.value.id, node.attr) in PI_NAMES)


def num(node, src=None):
    """Exact rational value of a numeric constant expression (decimal literals are
    read as the decimal they spell, not as the nearest double)."""
    if isinstance(node, ast.Constant) and isinstance(node.value, (int, float)) and not isinstance(node.value, bool):
        if isinstance(node.value, int):
            return Fraction(node.value)
        seg = ast.get_source_segment(src, node) if src else None
        try:
            return Fraction(seg) if seg else Fraction(repr(node.value))
        except (ValueError, TypeError):
            return Fraction(repr(node.value))
    if isinstance(node, ast.UnaryOp) and isinstance(node.op, ast.USub):
        return -num(node.operand, src)
    if isinstance(node, ast.UnaryOp) and isinstance(node.op, ast.UAdd):
        return num(node.operand, src)
    if isinstance(node, ast.BinOp):
        a, b = num(node.left, src), num(node.right, src)
        if isinstance(node.op, ast.Add):
            return a + b
        if isinstance(node.op, ast.Sub):
            return a - b
        if isinstance(node.op, ast.Mult):
            return a * b
        if isinstance(node.op, ast.Div):
            return a / b
        if isinstance(node.op, ast.Pow) and b.denominator == 1:
            return a ** int(b)
    if isinstance(node, ast.Call) and isinstance(node.func, ast.Name) and node.func.id in ("int", "float") and len(node.args) == 1:
        v = num(node.args[0], src)
        return Fraction(int(v)) if node.func.id == "int" else v
    raise Miss(f"not a numeric constant: {ast.dump(node)[:80]}")


def pi_multiple(node, src=None):
    """Return q such that node == q * pi, for expressions like 2.0*np.pi."""
    if is_pi(node):
        return Fraction(1)
    if isinstance(node, ast.BinOp) and isinstance(node.op, ast.Mult):
        try:
            return num(node.left, src) * pi_multiple(node.right, src)
        except Miss:
            return pi_multiple(node.left, src) * num(node.right, src)
    if isinstance(node, ast.BinOp) and isinstance(node.op, ast.Div):
        return pi_multiple(node.left, src) / num(node.right, src)
    raise Miss("not a multiple of pi")


def defaults_of(fn):
    args = fn.args
    names = [a.arg for a in args.args]
    d = {}
    for a, dv in zip(names[len(names) - len(args.defaults):], args.defaults):
        d[a] = dv
    for a, dv in zip(args.kwonlyargs, args.kw_defaults):
        if dv is not None:
            d[a.arg] = dv
    return d


def str_list(node):
    if isinstance(node, (ast.List, ast.Tuple)) and all(isinstance(e, ast.Constant) and isinstance(e.value, str) for e in node.elts):
        return [e.value for e in node.elts]
    raise Miss("not a list of string literals")


def module_assign(tree, name):
    for node in tree.body:
        if isinstance(node, ast.Assign) and any(isinstance(t, ast.Name) and t.id == name for t in node.targets):
            return node.value
    raise Miss(f"module-level {name} not found")


def dict_zip_table(tree, types_name, params_name):
    types = str_list(module_assign(tree, types_name))
    val = module_assign(tree, params_name)
    # dict(zip(<types_name>, [[...], ...]))
    if (isinstance(val, ast.Call) and getattr(val.func, "id", None) == "dict" and len(val.args) == 1
            and isinstance(val.args[0], ast.Call) and getattr(val.args[0].func, "id", None) == "zip"):
        z = val.args[0]
        if isinstance(z.args[0], ast.Name) and z.args[0].id == types_name and isinstance(z.args[1], ast.List):
            lists = [str_list(e) for e in z.args[1].elts]
            if len(lists) == len(types):
                return types, lists
    if isinstance(val, ast.Dict):
        keys = [k.value for k in val.keys]
        return keys, [str_list(v) for v in val.values]
    raise Miss(f"{params_name} is not dict(zip({types_name}, [...]))")


def kw_dict(call_or_dict, src):
    """dict(a=1, b=2) or {'a': 1} → {name: Fraction}; non-numeric entries skipped."""
    out = {}
    if isinstance(call_or_dict, ast.Call) and getattr(call_or_dict.func, "id", None) == "dict":
        items = [(k.arg, k.value) for k in call_or_dict.keywords]
    elif isinstance(call_or_dict, ast.Dict):
        items = [(k.value, v) for k, v in zip(call_or_dict.keys, call_or_dict.values)]
    else:
        raise Miss("not a dict literal")
    for k, v in items:
        try:
            out[k] = num(v, src)
        except Miss:
            pass
    return out


# ----------------------------------------------------------------------------
# the individual extractions; each returns a JSON-able value
# ----------------------------------------------------------------------------

def fr(q: Fraction):
    return [q.numerator, q.denominator]


EXTRACTORS = {}


def extractor(name):
    def deco(f):
        EXTRACTORS[name] = f
        return f
    return deco


@extractor("early_stop_defaults")
def _(T):
    tree, src = T["pysersic.py"]
    fn = find_func(tree, "train_numpyro_svi_early_stop")
    d = defaults_of(fn)
    return {k: fr(num(d[k], src)) for k in ("num_round", "max_train", "patience", "lr_init", "frac_lr_decrease")}


@extractor("early_stop_call_sites")
def _(T):
    """(site, num_round, max_train, patience) for every caller, defaults filled in."""
    tree, src = T["pysersic.py"]
    dflt = {k: num(v, src) for k, v in defaults_of(find_func(tree, "train_numpyro_svi_early_stop")).items()
            if k in ("num_round", "max_train", "patience")}
    sites = []
    base = find_class(tree, "BaseFitter")
    fm = find_func(tree, "find_MAP", "BaseFitter")
    for node in ast.walk(fm):
        if isinstance(node, ast.Assign) and getattr(node.targets[0], "id", None) == "train_kwargs":
            kw = kw_dict(node.value, src)
            cfg = dict(dflt)
            cfg.update({k: v for k, v in kw.items() if k in cfg})
            sites.append(["find_MAP"] + [int(cfg[k]) for k in ("num_round", "max_train", "patience")])
    tsvi = find_func(tree, "_train_SVI", "BaseFitter")
    tsvi_nr = num(defaults_of(tsvi)["num_round"], src)
    ep = find_func(tree, "estimate_posterior", "BaseFitter")
    cur_kw = None
    for node in ast.walk(ep):
        if isinstance(node, ast.If):
            kws, nr, method = None, tsvi_nr, None
            for sub in ast.walk(node):
                if isinstance(sub, ast.Assign) and getattr(sub.targets[0], "id", None) == "train_kwargs" and kws is None:
                    kws = kw_dict(sub.value, src)
                if isinstance(sub, ast.Call) and getattr(sub.func, "attr", None) == "_train_SVI" and method is None:
                    for k in sub.keywords:
                        if k.arg == "num_round":
                            nr = num(k.value, src)
                    method = "estimate_posterior"
            if kws is not None and method:
                cfg = dict(dflt)
                cfg["num_round"] = nr
                cfg.update({k: v for k, v in kws.items() if k in cfg})
                tup = [f"estimate_posterior#{len([s for s in sites if s[0].startswith('estimate')])}"] + [int(cfg[k]) for k in ("num_round", "max_train", "patience")]
                sites.append(tup)
                break_outer = False
    if len(sites) < 2:
        raise Miss("call sites of train_numpyro_svi_early_stop not recognised")
    return sites


@extractor("profile_tables")
def _(T):
    out = {}
    for key, fname in (("render", "rendering.py"), ("priors", "priors.py")):
        tree, _ = T[fname]
        types, lists = dict_zip_table(tree, "base_profile_types", "base_profile_params")
        out[key] = [[t, l] for t, l in zip(types, lists)]
    return out


@extractor("sky_table")
def _(T):
    tree, _ = T["priors.py"]
    types, lists = dict_zip_table(tree, "base_sky_types", "base_sky_params")
    return [[t, l] for t, l in zip(types, lists)]



def _is_shape(n):
    if isinstance(n, ast.Attribute):
        return n.attr == "shape" or n.attr.endswith("_shape")
    if isinstance(n, ast.Name):
        return n.id.endswith("shape")
    return False


def _raises(node, exc):
    for sub in ast.walk(node):
        if isinstance(sub, ast.Raise) and sub.exc is not None:
            f = sub.exc.func if isinstance(sub.exc, ast.Call) else sub.exc
            if getattr(f, "id", getattr(f, "attr", None)) == exc:
                return True
    return False


def _cmp_kind(fn):
    for node in ast.walk(fn):
        if isinstance(node, ast.If) and _raises(ast.Module(body=node.body, type_ignores=[]), "KernelError"):
            test = node.test
            has_gen = any(isinstance(x, (ast.GeneratorExp, ast.ListComp)) for x in ast.walk(test))
            tuple_cmp = any(isinstance(x, ast.Compare) and _is_shape(x.left) and _is_shape(x.comparators[0])
                            for x in ast.walk(test))
            sub_cmp = [x for x in ast.walk(test) if isinstance(x, ast.Compare)
                       and isinstance(x.left, ast.Subscript) and isinstance(x.comparators[0], ast.Subscript)]
            if tuple_cmp and not has_gen:
                return "tuple"
            if has_gen or len(sub_cmp) >= 2:
                return "elementwise"
    raise Miss("PSF size test not recognised")


@extractor("validate_facts")
def _(T):
    ptree, _ = T["pysersic.py"]
    rtree, _ = T["rendering.py"]
    fitter = _cmp_kind(find_func(ptree, "check_input_data"))
    rend = _cmp_kind(find_func(rtree, "__init__", "BaseRenderer"))
    hy = find_func(rtree, "__init__", "HybridRenderer")
    square_only = None
    for node in ast.walk(hy):
        if (isinstance(node, ast.Assign) and isinstance(node.targets[0], ast.Tuple)
                and [getattr(e, "id", None) for e in node.targets[0].elts] == ["psf_X", "psf_Y"]
                and isinstance(node.value, ast.Call) and getattr(node.value.func, "attr", None) == "meshgrid"):
            idx = []
            for a in node.value.args:
                subs = [x for x in ast.walk(a) if isinstance(x, ast.Subscript) and _is_shape(x.value)]
                if len(subs) != 1:
                    raise Miss("meshgrid argument not arange(psf_shape[i])")
                idx.append(int(num(subs[0].slice)))
            indexing = "xy"
            for k in node.value.keywords:
                if k.arg == "indexing":
                    indexing = k.value.value
            fits = (idx == [1, 0]) if indexing == "xy" else (idx == [0, 1])
            square_only = not fits
    if square_only is None:
        raise Miss("hybrid PSF grid construction not recognised")
    return dict(fitterCmp=fitter, rendererCmp=rend, hybridSquareOnly=square_only)


@extractor("type_lists")
def _(T):
    rtree, _ = T["rendering.py"]
    ptree, _ = T["priors.py"]
    return dict(profile_types_render=str_list(module_assign(rtree, "base_profile_types")),
                profile_types_priors=str_list(module_assign(ptree, "base_profile_types")),
                sky_types=str_list(module_assign(ptree, "base_sky_types")))



def name_test(node, var):
    """Translate a boolean combination of `'lit' in var` / `var == 'lit'` into a NameTest (as nested lists)."""
    if isinstance(node, ast.BoolOp):
        op = "and" if isinstance(node.op, ast.And) else "or"
        acc = name_test(node.values[0], var)
        for v in node.values[1:]:
            acc = [op, acc, name_test(v, var)]
        return acc
    if isinstance(node, ast.UnaryOp) and isinstance(node.op, ast.Not):
        return ["not", name_test(node.operand, var)]
    if isinstance(node, ast.Compare) and len(node.ops) == 1:
        l, r, op = node.left, node.comparators[0], node.ops[0]
        if isinstance(l, ast.Constant) and isinstance(l.value, str) and isinstance(r, ast.Name) and r.id == var:
            if isinstance(op, ast.In):
                return ["has", l.value]
            if isinstance(op, ast.NotIn):
                return ["not", ["has", l.value]]
        if isinstance(l, ast.Name) and l.id == var and isinstance(r, ast.Constant) and isinstance(r.value, str):
            if isinstance(op, ast.Eq):
                return ["eq", r.value]
            if isinstance(op, ast.NotEq):
                return ["not", ["eq", r.value]]
    raise Miss(f"not a name test: {ast.dump(node)[:100]}")


def lean_name_test(t):
    if t[0] in ("has", "eq"):
        return f"(.{t[0]} {lean_str(t[1])})"
    if t[0] == "not":
        return f"(.not {lean_name_test(t[1])})"
    return f"(.{t[0]} {lean_name_test(t[1])} {lean_name_test(t[2])})"


@extractor("results_tests")
def _(T):
    tree, _ = T["results.py"]
    fn = find_func(tree, "_parse_injested_data", "PySersicResults")
    wrap = drop = model = None
    for node in fn.body:
        if isinstance(node, ast.For) and isinstance(node.target, ast.Name):
            var = node.target.id
            for st in node.body:
                if isinstance(st, ast.If) and any(getattr(getattr(c, "func", None), "attr", None) == "remainder"
                                                    or isinstance(c, ast.Mod) for c in ast.walk(st)):
                    wrap = name_test(st.test, var)
        if isinstance(node, ast.If):
            for sub in node.body:
                if isinstance(sub, ast.For) and isinstance(sub.target, ast.Name):
                    var = sub.target.id
                    for st in sub.body:
                        if isinstance(st, ast.If):
                            drop = name_test(st.test, var)
                            if st.orelse and isinstance(st.orelse[0], ast.If):
                                model = ["and", ["not", drop], name_test(st.orelse[0].test, var)]
    if wrap is None or drop is None or model is None:
        raise Miss("wrap / purge loops of _parse_injested_data not recognised")
    return dict(wrap=wrap, drop=drop, model=model)



def _fname(node):
    """f'name{suffix}' → 'name'"""
    if isinstance(node, ast.JoinedStr) and node.values and isinstance(node.values[0], ast.Constant):
        return node.values[0].value
    if isinstance(node, ast.Constant) and isinstance(node.value, str):
        return node.value
    raise Miss("site name not an f-string")


def _calls(fn, name):
    return [n for n in ast.walk(fn) if isinstance(n, ast.Call)
            and getattr(n.func, "id", getattr(n.func, "attr", None)) == name]


@extractor("loss_consts")
def _(T):
    tree, src = T["loss.py"]
    out = {}
    # Student-t
    st = find_func(tree, "student_t_loss")
    nu = None
    for n in st.body:
        if isinstance(n, ast.Assign) and getattr(n.targets[0], "id", None) == "nu":
            nu = num(n.value, src)
    if nu is None:
        nu = num(defaults_of(st)["nu"], src)
    out["nu"] = fr(nu)
    out["nuSys"] = fr(num(defaults_of(find_func(tree, "student_t_loss_free_sys"))["nu"], src))
    # pseudo-Huber
    ph = find_func(tree, "pseudo_huber_loss")
    out["delta"] = fr(num(defaults_of(ph)["delta"], src))
    fac = _calls(ph, "factor")
    if len(fac) != 1:
        raise Miss("pseudo_huber_loss: factor call not found")
    expr = fac[0].args[1]

    def has_delta_sq(e):
        for x in ast.walk(e):
            if isinstance(x, ast.BinOp) and isinstance(x.op, ast.Pow) and getattr(x.left, "id", None) == "delta":
                try:
                    if num(x.right, src) == 2:
                        return True
                except Miss:
                    pass
            if (isinstance(x, ast.BinOp) and isinstance(x.op, ast.Mult) and getattr(x.left, "id", None) == "delta"
                    and getattr(x.right, "id", None) == "delta"):
                return True
        return False
    # the δ² prefactor multiplies the whole bracket; (res/delta)**2 inside the sqrt is not it
    top = expr
    prefactor = False
    stack = [top]
    while stack:
        e = stack.pop()
        if isinstance(e, ast.BinOp) and isinstance(e.op, ast.Mult):
            for side in (e.left, e.right):
                if not any(isinstance(c, ast.Call) for c in ast.walk(side)) and has_delta_sq(side):
                    prefactor = True
            stack += [e.left, e.right]
        elif isinstance(e, ast.UnaryOp):
            stack.append(e.operand)
    out["huberDeltaSq"] = prefactor
    # mixtures
    cs = {str(num(defaults_of(find_func(tree, f))["c"], src)) for f in ("gaussian_mixture", "gaussian_mixture_w_sys", "gaussian_mixture_w_frac")}
    if len(cs) != 1:
        raise Miss("mixture losses disagree on c")
    out["c"] = fr(Fraction(cs.pop()))
    # truncated-normal nuisance priors, by site name
    tn = {}
    scale_contam = set()
    mean_where = set()
    for fn in tree.body:
        if not isinstance(fn, ast.FunctionDef):
            continue
        for call in _calls(fn, "sample"):
            if len(call.args) >= 2 and isinstance(call.args[1], ast.Call) and getattr(call.args[1].func, "attr", None) == "TruncatedNormal":
                name = _fname(call.args[0])
                kw = {k.arg: fr(num(k.value, src)) for k in call.args[1].keywords}
                if name in tn and tn[name] != kw:
                    raise Miss(f"nuisance prior {name} differs between loss functions")
                tn[name] = kw
        for call in _calls(fn, "deterministic"):
            name = _fname(call.args[0])
            if name == "outlier_frac":
                e = call.args[1]
                if isinstance(e, ast.BinOp) and isinstance(e.op, ast.Mult):
                    scale_contam.add(str(num(e.right, src)))
            if name == "sys_rms":
                means = _calls(call.args[1], "mean")
                if len(means) != 1:
                    raise Miss("sys_rms: mean(rms) not found")
                mean_where.add(any(k.arg == "where" for k in means[0].keywords))
    if len(scale_contam) != 1 or len(mean_where) != 1:
        raise Miss("outlier_frac scale / sys_rms mean not uniform across losses")
    out["contamScale"] = fr(Fraction(scale_contam.pop()))
    out["sysMeanOverGood"] = mean_where.pop()
    def g(name, key, default=None):
        v = tn[name].get(key)
        if v is None:
            if default is None:
                raise Miss(f"{name}.{key} missing")
            return default
        return v
    out["fracLow"], out["fracHigh"] = g("frac_rms_increase", "low"), g("frac_rms_increase", "high")
    if g("sys_rms_base", "low") != [0, 1] or "high" in tn["sys_rms_base"] or g("sys_rms_base", "scale", [1, 1]) != [1, 1]:
        raise Miss("sys_rms_base prior changed shape")
    if g("outlier_frac_base", "low") != [0, 1] or g("outlier_frac_base", "scale", [1, 1]) != [1, 1]:
        raise Miss("outlier_frac_base prior changed shape")
    out["contamHigh"] = g("outlier_frac_base", "high")
    out["sigFracLow"], out["sigFracHigh"] = g("rms_frac", "low"), g("rms_frac", "high")
    out["sigFracScale"] = g("rms_frac", "scale", [1, 1])
    if g("rms_frac", "loc", [0, 1]) != [0, 1]:
        raise Miss("rms_frac prior no longer centred on 0")
    return out


# ----------------------------------------------------------------------------
# rendering.py: constants and structural facts of the render layer
# ----------------------------------------------------------------------------

def _bn_coeffs(fn, src):
    """`bn = A * n - B`"""
    for node in ast.walk(fn):
        if isinstance(node, ast.Assign) and len(node.targets) == 1 and isinstance(node.targets[0], ast.Name) \
                and node.targets[0].id == "bn":
            v = node.value
            if isinstance(v, ast.BinOp) and isinstance(v.op, ast.Sub) and isinstance(v.left, ast.BinOp) \
                    and isinstance(v.left.op, ast.Mult):
                l, r = v.left.left, v.left.right
                try:
                    a = num(l, src)
                    other = r
                except Miss:
                    a = num(r, src)
                    other = l
                if not (isinstance(other, ast.Name) and other.id == "n"):
                    raise Miss("bn is not linear in n")
                return [fr(a), fr(num(v.right, src))]
    raise Miss("bn assignment not found")


def _ramp_const(init, target, src):
    """the constant standing for pi in a PSF phase ramp: ['pi'] or ['literal', num, den]"""
    for node in ast.walk(init):
        if isinstance(node, ast.Assign) and len(node.targets) == 1 and isinstance(node.targets[0], ast.Name) \
                and node.targets[0].id == target:
            pis = [n for n in ast.walk(node.value) if is_pi(n)]
            lits = [n for n in ast.walk(node.value) if isinstance(n, ast.Constant) and isinstance(n.value, float)
                    and 3.0 < n.value < 3.3]
            if len(pis) == 1 and not lits:
                return ["pi"]
            if len(lits) == 1 and not pis:
                return ["literal"] + fr(num(lits[0], src))
            raise Miss(f"{target}: cannot identify the pi constant")
    raise Miss(f"{target} not found")


def _dotted(node):
    """dotted name of a call target, '' if it is not a plain attribute chain"""
    parts = []
    while isinstance(node, ast.Attribute):
        parts.append(node.attr)
        node = node.value
    if isinstance(node, ast.Name):
        parts.append(node.id)
        return ".".join(reversed(parts))
    return ""


class _Sym:
    """tiny evaluator: expressions over params[...] (-> 0) and psf_shape[k] (-> s)"""
    def __init__(self, s):
        self.s = s

    def ev(self, node, src):
        if isinstance(node, ast.Subscript):
            seg = ast.get_source_segment(src, node) or ""
            if "psf_shape" in seg:
                return Fraction(self.s)
            if "params" in seg:
                return Fraction(0)
            raise Miss("unknown subscript " + seg)
        if isinstance(node, ast.BinOp):
            a, b = self.ev(node.left, src), self.ev(node.right, src)
            return {ast.Add: a + b, ast.Sub: a - b, ast.Mult: a * b,
                    ast.Div: (a / b if b != 0 else None)}[type(node.op)]
        if isinstance(node, ast.UnaryOp) and isinstance(node.op, ast.USub):
            return -self.ev(node.operand, src)
        return num(node, src)


@extractor("render_consts")
def _(T):
    tree, src = T["rendering.py"]
    out = {}
    out["bn2d"] = _bn_coeffs(find_func(tree, "render_sersic_2d"), src)
    out["bn1d"] = _bn_coeffs(find_func(tree, "sersic1D"), src)
    init = find_func(tree, "__init__", cls="BaseRenderer")
    out["rampX"] = _ramp_const(init, "fft_shift_arr_x", src)
    out["rampY"] = _ramp_const(init, "fft_shift_arr_y", src)
    # PixelRenderer.render_pointsource: offset subtracted from the position, and coordinate order
    ps = find_func(tree, "render_pointsource", cls="PixelRenderer")
    offs = {}
    for node in ast.walk(ps):
        if isinstance(node, ast.Assign) and len(node.targets) == 1 and isinstance(node.targets[0], ast.Name) \
                and node.targets[0].id in ("dx", "dy"):
            # position - offset(s): evaluate with the position at 0 → -offset
            o10, o20 = -_Sym(10).ev(node.value, src), -_Sym(20).ev(node.value, src)
            if (o10, o20) == (Fraction(9, 2), Fraction(19, 2)):
                offs[node.targets[0].id] = True
            elif (o10, o20) == (Fraction(5), Fraction(10)):
                offs[node.targets[0].id] = False
            else:
                raise Miss(f"unrecognised PSF centre offset {o10}, {o20}")
    if set(offs) != {"dx", "dy"} or offs["dx"] != offs["dy"]:
        raise Miss("point-source offsets not found / inconsistent")
    out["psCentreGeometric"] = offs["dx"]
    coords = None
    for node in ast.walk(ps):
        if isinstance(node, ast.Call) and _dotted(node.func).endswith("map_coordinates") and len(node.args) >= 2 \
                and isinstance(node.args[1], (ast.List, ast.Tuple)) and len(node.args[1].elts) == 2:
            coords = node.args[1].elts
    if coords is None:
        raise Miss("map_coordinates call not found")
    seg0 = ast.get_source_segment(src, coords[0]) or ""
    seg1 = ast.get_source_segment(src, coords[1]) or ""
    if "self.Y" in seg0 and "self.X" in seg1 and "dy" in seg0 and "dx" in seg1:
        out["psRowsByY"] = True
    elif "self.X" in seg0 and "self.Y" in seg1 and "dx" in seg0 and "dy" in seg1:
        out["psRowsByY"] = False
    else:
        raise Miss("unrecognised coordinate order in map_coordinates")
    # constructor defaults
    d = defaults_of(find_func(tree, "__init__", cls="PixelRenderer"))
    out["os_pixel_size"] = fr(num(d["os_pixel_size"], src))
    out["num_os"] = fr(num(d["num_os"], src))
    d = defaults_of(find_func(tree, "__init__", cls="HybridRenderer"))
    for k in ("frac_start", "frac_end", "n_sigma", "num_pixel_render", "precision"):
        out[k] = fr(num(d[k], src))
    d2 = defaults_of(find_func(tree, "__init__", cls="FourierRenderer"))
    for k in ("frac_start", "frac_end", "n_sigma", "precision"):
        if fr(num(d2[k], src)) != out[k]:
            raise Miss(f"Fourier/Hybrid default {k} differ")
    # n_ax grid
    fi = find_func(tree, "__init__", cls="FourierRenderer")
    for node in ast.walk(fi):
        if isinstance(node, ast.Call) and _dotted(node.func).endswith("linspace") and len(node.args) >= 2:
            out["n_ax"] = [fr(num(node.args[0], src)), fr(num(node.args[1], src)),
                           fr(num({k.arg: k.value for k in node.keywords}["num"], src))]
    if "n_ax" not in out:
        raise Miss("n_ax grid not found")
    return out


# ----------------------------------------------------------------------------
# priors.py: constants of generate_prior, the SourceProperties setters and the sky priors
# ----------------------------------------------------------------------------

def _const_or_pi(node, src):
    """('q', Fraction) | ('pi', Fraction multiple) | None for non-constant expressions"""
    try:
        return ("q", num(node, src))
    except Miss:
        pass
    try:
        return ("pi", pi_multiple(node, src))
    except Miss:
        return None


@extractor("prior_consts")
def _(T):
    tree, src = T["priors.py"]
    gp = find_func(tree, "generate_prior", cls="SourceProperties")
    calls = {}
    for node in ast.walk(gp):
        if isinstance(node, ast.Call) and isinstance(node.func, ast.Attribute) and node.func.attr in (
                "set_gaussian_prior", "set_uniform_prior", "set_truncated_gaussian_prior") and node.args \
                and isinstance(node.args[0], ast.Constant):
            name = node.args[0].value
            args = [_const_or_pi(a, src) for a in node.args[1:]]
            kw = {k.arg: _const_or_pi(k.value, src) for k in node.keywords}
            calls.setdefault(name, []).append((node.func.attr, args, kw))

    def one(name):
        if name not in calls:
            raise Miss(f"no prior call for {name}")
        first = calls[name][0]
        if any(c != first for c in calls[name]):
            raise Miss(f"inconsistent prior calls for {name}")
        return first

    def q(x):
        if x is None or x[0] != "q":
            raise Miss("expected a numeric constant")
        return x[1]
    out = {}
    m, a, kw = one("xc")
    m2, a2, kw2 = one("yc")
    if m != "set_gaussian_prior" or m2 != m or q(a[1]) != q(a2[1]):
        raise Miss("xc/yc priors")
    out["posSigma"] = fr(q(a[1]))
    lows = set()
    for nm in ("r_eff", "r_eff_1", "r_eff_2"):
        m, a, kw = one(nm)
        if m != "set_truncated_gaussian_prior" or "high" in kw:
            raise Miss(f"{nm} prior shape")
        lows.add(q(kw["low"]))
    if len(lows) != 1:
        raise Miss("r_eff lower bounds differ")
    out["rEffLow"] = fr(lows.pop())
    es = {(q(one(nm)[1][0]), q(one(nm)[1][1])) for nm in ("ellip", "ellip_1", "ellip_2")}
    if len(es) != 1 or any(one(nm)[0] != "set_uniform_prior" for nm in ("ellip", "ellip_1", "ellip_2")):
        raise Miss("ellip priors")
    lo, hi = es.pop()
    out["ellipLow"], out["ellipHigh"] = fr(lo), fr(hi)
    m, a, kw = one("theta")
    if m != "set_uniform_prior" or a[1] is None or a[1][0] != "pi":
        raise Miss("theta prior")
    out["thetaLow"], out["thetaHighPi"] = fr(q(a[0])), fr(a[1][1])
    # "n" is set twice: uniform for the single-component types, truncated normal for sersic_exp
    uni = [c for c in calls["n"] if c[0] == "set_uniform_prior"]
    tru = [c for c in calls["n"] if c[0] == "set_truncated_gaussian_prior"]
    if len(uni) != 1 or len(tru) != 1:
        raise Miss("n priors")
    out["nLow"], out["nHigh"] = fr(q(uni[0][1][0])), fr(q(uni[0][1][1]))
    fs = {(q(one(nm)[1][0]), q(one(nm)[1][1])) for nm in ("f_1", "f_ps")}
    if len(fs) != 1:
        raise Miss("fraction priors")
    lo, hi = fs.pop()
    out["fracLow"], out["fracHigh"] = fr(lo), fr(hi)
    m, a1, kw1 = one("n_1")
    m, a2_, kw2_ = one("n_2")
    for kwx in (kw1, kw2_, tru[0][2]):
        if fr(q(kwx["low"])) != out["nLow"] or fr(q(kwx["high"])) != out["nHigh"]:
            raise Miss("composite index bounds differ from the uniform index bounds")
    if (q(tru[0][1][0]), q(tru[0][1][1])) != (q(a1[0]), q(a1[1])):
        raise Miss("sersic_exp n prior differs from n_1")
    out["n1Loc"], out["n1Scale"] = fr(q(a1[0])), fr(q(a1[1]))
    out["n2Loc"], out["n2Scale"] = fr(q(a2_[0])), fr(q(a2_[1]))
    # split factor: r_loc1 = r / c, r_loc2 = r * c
    facs = {}
    for node in ast.walk(gp):
        if isinstance(node, ast.Assign) and len(node.targets) == 1 and isinstance(node.targets[0], ast.Name) \
                and node.targets[0].id in ("r_loc1", "r_loc2") and isinstance(node.value, ast.BinOp):
            facs[node.targets[0].id] = (type(node.value.op).__name__, num(node.value.right, src))
    if facs.get("r_loc1", (None,))[0] != "Div" or facs.get("r_loc2", (None,))[0] != "Mult" or facs["r_loc1"][1] != facs["r_loc2"][1]:
        raise Miss("component radius split")
    out["splitFactor"] = fr(facs["r_loc1"][1])
    # error factor in the setters: k * np.sqrt(guess)
    ks = set()
    for fn_name in ("set_flux_guess", "set_r_eff_guess"):
        fn = find_func(tree, fn_name, cls="SourceProperties")
        for node in ast.walk(fn):
            if isinstance(node, ast.BinOp) and isinstance(node.op, ast.Mult) and isinstance(node.right, ast.Call) \
                    and _dotted(node.right.func).endswith("sqrt"):
                ks.add(num(node.left, src))
    if len(ks) != 1:
        raise Miss("error factors of the setters")
    out["errFactor"] = fr(ks.pop())
    # sky slope factor
    tp = find_func(tree, "__init__", cls="TiltedPlaneSkyPrior")
    sl = set()
    for node in ast.walk(tp):
        if isinstance(node, ast.Call) and isinstance(node.func, ast.Attribute) and node.func.attr == "update_prior" \
                and isinstance(node.args[0], ast.Constant) and node.args[0].value in ("sky_x_sl", "sky_y_sl"):
            w = node.args[2]
            if not (isinstance(w, ast.BinOp) and isinstance(w.op, ast.Mult)) or num(node.args[1], src) != 0:
                raise Miss("sky slope prior shape")
            sl.add(num(w.left, src))
    if len(sl) != 1:
        raise Miss("sky slope factor")
    out["slopeFactor"] = fr(sl.pop())
    # do the bounded helpers hand the base support to the affine transform and validate arguments?
    masked = []
    for hname in ("set_uniform_prior", "set_truncated_gaussian_prior"):
        fn = find_func(tree, hname, cls="BasePrior")
        has_domain = has_validate = False
        for node in ast.walk(fn):
            if isinstance(node, ast.Call) and _dotted(node.func).endswith("AffineTransform"):
                has_domain |= any(k.arg == "domain" for k in node.keywords)
            if isinstance(node, ast.Call) and _dotted(node.func).endswith("TransformedDistribution"):
                has_validate |= any(k.arg == "validate_args" and isinstance(k.value, ast.Constant) and k.value.value is True for k in node.keywords)
        masked.append(has_domain and has_validate)
    if masked[0] != masked[1]:
        raise Miss("the two bounded helpers differ in support handling")
    out["supportMasked"] = bool(masked[0])
    return out


@extractor("sky_estimate")
def _(T):
    """`estimate_sky` (priors.py): the guard that applies a separately passed mask, the slices gathered (in order), and whether
    the gathering keeps masks (np.ma.concatenate(...).compressed()) or drops them (np.concatenate).  Any statement the matcher
    does not know is a Miss: the behavioural tie then carries the function alone."""
    tree, src = T["priors.py"]
    fn = find_func(tree, "estimate_sky")
    argn = [a.arg for a in fn.args.args]
    if len(argn) < 3:
        raise Miss("estimate_sky signature")
    img, msk, npx = argn[0], argn[1], argn[2]
    body = [st for st in fn.body if not (isinstance(st, ast.Expr) and isinstance(st.value, ast.Constant))]
    if len(body) != 5 or not isinstance(body[0], ast.If) or not all(isinstance(b, ast.Assign) for b in body[1:4]) \
            or not isinstance(body[4], ast.Return):
        raise Miss("estimate_sky no longer has the shape guard / gather / median / scatter / return")
    # --- guard
    g = body[0]
    if g.orelse or len(g.body) != 1 or not isinstance(g.body[0], ast.Assign):
        raise Miss("mask guard body")
    asg = g.body[0]
    seg = ast.get_source_segment(src, asg.value) or ""
    if not (isinstance(asg.targets[0], ast.Name) and asg.targets[0].id == img and isinstance(asg.value, ast.Call)
            and seg.replace(" ", "") in (f"np.ma.masked_array({img},{msk})", f"np.ma.masked_array({img},mask={msk})",
                                         f"np.ma.MaskedArray({img},{msk})", f"np.ma.array({img},mask={msk})")):
        raise Miss("mask guard does not wrap the image with np.ma.masked_array(image, mask)")

    def is_mask_given(e):
        return (isinstance(e, ast.Compare) and isinstance(e.left, ast.Name) and e.left.id == msk and len(e.ops) == 1
                and isinstance(e.ops[0], ast.IsNot) and isinstance(e.comparators[0], ast.Constant) and e.comparators[0].value is None)

    def image_test(e):
        """`not <f>(image)` → name of f"""
        if isinstance(e, ast.UnaryOp) and isinstance(e.op, ast.Not) and isinstance(e.operand, ast.Call) and len(e.operand.args) >= 1 \
                and isinstance(e.operand.args[0], ast.Name) and e.operand.args[0].id == img:
            f = e.operand.func
            if isinstance(f, ast.Attribute):
                return f.attr
            if isinstance(f, ast.Name):
                if f.id == "isinstance":
                    return "isMaskedArray" if "MaskedArray" in (ast.get_source_segment(src, e.operand.args[1]) or "") else None
                return f.id
        return None
    t = g.test
    if is_mask_given(t):
        rule = "combine"
    elif isinstance(t, ast.BoolOp) and isinstance(t.op, ast.And) and len(t.values) == 2 and any(is_mask_given(v) for v in t.values):
        other = [v for v in t.values if not is_mask_given(v)]
        f = image_test(other[0]) if other else None
        rule = {"is_masked": "argIfImageUnmasked", "isMaskedArray": "argIfNotMaskedArray", "isMA": "argIfNotMaskedArray"}.get(f)
        if rule is None:
            raise Miss(f"mask guard tests the image with {f}")
    else:
        raise Miss("mask guard condition")
    # --- gather
    val = body[1].value
    compressed = False
    if isinstance(val, ast.Call) and isinstance(val.func, ast.Attribute) and val.func.attr == "compressed" and not val.args:
        compressed = True
        val = val.func.value
    cseg = (ast.get_source_segment(src, val.func) or "") if isinstance(val, ast.Call) else ""
    if cseg not in ("np.ma.concatenate", "np.concatenate") or len(val.args) != 1 or not isinstance(val.args[0], (ast.List, ast.Tuple)):
        raise Miss("gather is not a concatenate of a list")
    keeps = cseg == "np.ma.concatenate" and compressed

    def bound(e):
        if e is None:
            return "none"
        if isinstance(e, ast.Name) and e.id == npx:
            return "pos"
        if isinstance(e, ast.UnaryOp) and isinstance(e.op, ast.USub) and isinstance(e.operand, ast.Name) and e.operand.id == npx:
            return "neg"
        raise Miss("slice bound is not ±n_pix_sample")
    slices = []
    for el in val.args[0].elts:
        if not (isinstance(el, ast.Call) and (ast.get_source_segment(src, el.func) or "") in ("np.ravel", "np.ma.ravel") and len(el.args) == 1):
            raise Miss("gathered element is not np.ravel(image[…])")
        sub = el.args[0]
        if not (isinstance(sub, ast.Subscript) and isinstance(sub.value, ast.Name) and sub.value.id == img
                and isinstance(sub.slice, ast.Tuple) and len(sub.slice.elts) == 2 and all(isinstance(x, ast.Slice) and x.step is None for x in sub.slice.elts)):
            raise Miss("gathered element is not image[a:b, c:d]")
        r, c = sub.slice.elts
        slices.append([bound(r.lower), bound(r.upper), bound(c.lower), bound(c.upper)])
    # --- statistics are taken of the gathered array, the count is its size
    gname = body[1].targets[0].id if isinstance(body[1].targets[0], ast.Name) else None
    for st in body[2:4]:
        if not (isinstance(st.value, ast.Call) and len(st.value.args) == 1 and isinstance(st.value.args[0], ast.Name) and st.value.args[0].id == gname):
            raise Miss("a statistic is not taken of the gathered array directly")
    return dict(rule=rule, keeps=keeps, slices=slices)


@extractor("pixel_box")
def _(T):
    """`PixelRenderer.__init__`: the index arithmetic that places the oversampled box — `i_mid`, `j_mid`, `x_os_lo/hi`, `y_os_lo/hi` —
    translated into integer expressions of the image sides and `os_pixel_size`.  Values are tracked as numerators over 2 (image
    sides, halves, `x_mid = N/2 − 0.5`), so `int(…)`, `round(…)` (half to even) and `//` keep their Python meaning."""
    tree, src = T["rendering.py"]
    init = find_func(tree, "__init__", cls="PixelRenderer")
    base = find_func(tree, "__init__", cls="BaseRenderer")
    attrs = {}
    for st in base.body:
        if isinstance(st, ast.Assign) and len(st.targets) == 1 and (ast.get_source_segment(src, st.targets[0]) or "") in ("self.x_mid", "self.y_mid"):
            attrs[ast.get_source_segment(src, st.targets[0])] = st.value
    env = {}

    def half(e):
        """(Lean Int text of 2·value, value known to be an integer)"""
        seg = ast.get_source_segment(src, e) or ""
        if isinstance(e, ast.Constant) and isinstance(e.value, (int, float)) and not isinstance(e.value, bool):
            two = Fraction(seg if seg else repr(e.value)) * 2
            if two.denominator != 1:
                raise Miss(f"constant {seg} is not a multiple of 0.5")
            return f"({int(two)} : Int)", two.numerator % 2 == 0
        if seg in ("self.im_shape[0]", "im_shape[0]"):
            return "(2 * (N0 : Int))", True
        if seg in ("self.im_shape[1]", "im_shape[1]"):
            return "(2 * (N1 : Int))", True
        if seg in ("self.os_pixel_size", "os_pixel_size"):
            return "(2 * (os : Int))", True
        if seg in attrs:
            return half(attrs[seg])
        if isinstance(e, ast.Name) and e.id in env:
            return env[e.id]
        if isinstance(e, ast.BinOp) and isinstance(e.op, (ast.Add, ast.Sub)):
            (a, ia), (b, ib) = half(e.left), half(e.right)
            return f"({a} {'+' if isinstance(e.op, ast.Add) else '-'} {b})", ia and ib
        if isinstance(e, ast.BinOp) and isinstance(e.op, ast.Div) and isinstance(e.right, ast.Constant) and e.right.value in (2, 2.0):
            a, ia = half(e.left)
            if not ia:
                raise Miss("half of a half-integer")
            return f"({a} / 2)", False
        if isinstance(e, ast.BinOp) and isinstance(e.op, ast.FloorDiv) and isinstance(e.right, ast.Constant) and e.right.value == 2:
            a, ia = half(e.left)
            if not ia:
                raise Miss("// on a half-integer")
            return f"(2 * (({a} / 2) / 2))", True
        if isinstance(e, ast.BinOp) and isinstance(e.op, ast.Mult) and isinstance(e.right, ast.Constant) and isinstance(e.right.value, int):
            a, ia = half(e.left)
            return f"({a} * {e.right.value})", ia
        if isinstance(e, ast.Call) and isinstance(e.func, ast.Name) and e.func.id == "int" and len(e.args) == 1:
            a, _ = half(e.args[0])
            return f"(2 * Int.tdiv {a} 2)", True
        if isinstance(e, ast.Call) and isinstance(e.func, ast.Name) and e.func.id == "round" and len(e.args) == 1:
            a, _ = half(e.args[0])
            return f"(2 * Render.roundHalfEven {a})", True
        raise Miss(f"index expression {seg}")
    out = {}
    for st in init.body:
        if not (isinstance(st, ast.Assign) and len(st.targets) == 1):
            continue
        t, v = st.targets[0], st.value
        if isinstance(t, ast.Name) and t.id in ("i_mid", "j_mid"):
            env[t.id] = half(v)
        tseg = (ast.get_source_segment(src, t) or "").replace(" ", "").replace("\n", "")
        if isinstance(t, ast.Tuple) and isinstance(v, ast.Tuple) and len(t.elts) == len(v.elts) == 2:
            for te, ve in zip(t.elts, v.elts):
                name = (ast.get_source_segment(src, te) or "").replace("self.", "")
                if name in ("x_os_lo", "x_os_hi", "y_os_lo", "y_os_hi"):
                    h, isint = half(ve)
                    if not isint:
                        raise Miss(f"{name} is not an integer")
                    out[name] = f"({h} / 2)"
        elif tseg.replace("self.", "") in ("x_os_lo", "x_os_hi", "y_os_lo", "y_os_hi"):
            h, isint = half(v)
            if not isint:
                raise Miss(f"{tseg} is not an integer")
            out[tseg.replace("self.", "")] = f"({h} / 2)"
    if set(out) != {"x_os_lo", "x_os_hi", "y_os_lo", "y_os_hi"}:
        raise Miss(f"box bounds found: {sorted(out)}")
    return out


@extractor("parse_mask")
def _(T):
    """`parse_mask` (pysersic.py): what is stored when no mask is given, and how a given mask is turned into the stored
    "pixel is used" array.  Recognised forms only; anything else is a Miss."""
    tree, src = T["pysersic.py"]
    fn = find_func(tree, "parse_mask")
    args = [a.arg for a in fn.args.args]
    if len(args) != 2:
        raise Miss("parse_mask signature")
    mk, dt = args
    body = [st for st in fn.body if not (isinstance(st, ast.Expr) and isinstance(st.value, ast.Constant))]
    if len(body) != 1 or not isinstance(body[0], ast.If) or len(body[0].body) != 1 or len(body[0].orelse) != 1 \
            or not isinstance(body[0].body[0], ast.Return) or not isinstance(body[0].orelse[0], ast.Return):
        raise Miss("parse_mask is not `if mask is None: return … else: return …`")
    test = (ast.get_source_segment(src, body[0].test) or "").replace(" ", "")
    if test != f"{mk}isNone":
        raise Miss(f"parse_mask tests `{test}`")
    d = (ast.get_source_segment(src, body[0].body[0].value) or "").replace(" ", "")
    g = (ast.get_source_segment(src, body[0].orelse[0].value) or "").replace(" ", "").replace("\n", "")
    default = {f"jnp.ones_like({dt}).astype(jnp.bool_)": "allUsed", f"jnp.ones_like({dt}).astype(bool)": "allUsed",
               f"jnp.ones({dt}.shape,dtype=bool)": "allUsed", f"jnp.ones({dt}.shape).astype(bool)": "allUsed",
               f"jnp.asarray({dt}).astype(bool)": "dataNonzero", f"jnp.array({dt}).astype(bool)": "dataNonzero",
               f"jnp.asarray({dt}).astype(jnp.bool_)": "dataNonzero"}.get(d)
    given = {f"jnp.logical_not(jnp.array({mk}.astype(float))).astype(jnp.bool_)": "zeroUsed",
             f"jnp.logical_not(jnp.array({mk}.astype(float))).astype(bool)": "zeroUsed",
             f"jnp.logical_not(jnp.array({mk}.astype(bool)))": "zeroUsed",
             f"jnp.logical_not(jnp.asarray({mk}).astype(bool))": "zeroUsed",
             f"(1-jnp.array({mk}.astype(float))).astype(jnp.bool_)": "oneMinusNonzeroUsed",
             f"(1-{mk}.astype(float)).astype(bool)": "oneMinusNonzeroUsed",
             f"(1-jnp.array({mk}.astype(float))).astype(bool)": "oneMinusNonzeroUsed"}.get(g)
    if default is None or given is None:
        raise Miss(f"parse_mask returns `{d}` / `{g}`")
    return dict(default=default, given=given)


@extractor("map_init")
def _(T):
    """where `find_MAP` starts the optimisation: the `init_loc_fn` of its AutoDelta guide, and the rounding of the returned values"""
    tree, src = T["pysersic.py"]
    fn = find_func(tree, "find_MAP", cls="BaseFitter")
    init = None
    for call in ast.walk(fn):
        if isinstance(call, ast.Call) and (ast.get_source_segment(src, call.func) or "").endswith("AutoDelta"):
            for kw in call.keywords:
                if kw.arg == "init_loc_fn":
                    init = (ast.get_source_segment(src, kw.value) or "").split(".")[-1].split("(")[0]
            if init is None:
                init = "default"
    if init is None:
        raise Miss("AutoDelta guide of find_MAP not found")
    decimals = set()
    for call in ast.walk(fn):
        if isinstance(call, ast.Call) and (ast.get_source_segment(src, call.func) or "").endswith("round") and len(call.args) == 2 \
                and isinstance(call.args[1], ast.Constant) and isinstance(call.args[1].value, int):
            decimals.add(call.args[1].value)
    if len(decimals) != 1:
        raise Miss(f"rounding of the returned values: {sorted(decimals)}")
    return dict(init=init, decimals=decimals.pop())


@extractor("map_filter")
def _(T):
    """the if / elif / elif chain over site names in BaseFitter.find_MAP(purge_extra=True)"""
    tree, _ = T["pysersic.py"]
    fn = find_func(tree, "find_MAP", cls="BaseFitter")
    for node in ast.walk(fn):
        if isinstance(node, ast.If) and isinstance(node.test, ast.Name) and node.test.id == "purge_extra":
            for st in node.body:
                if isinstance(st, ast.For) and isinstance(st.target, ast.Name):
                    var = st.target.id
                    chain = st.body[0]
                    if not isinstance(chain, ast.If) or not (chain.body and isinstance(chain.body[0], ast.Continue)):
                        raise Miss("first branch of the purge chain is not `continue`")
                    skip = name_test(chain.test, var)
                    e1 = chain.orelse[0] if chain.orelse and isinstance(chain.orelse[0], ast.If) else None
                    e2 = e1.orelse[0] if e1 is not None and e1.orelse and isinstance(e1.orelse[0], ast.If) else None
                    if e1 is None or e2 is None or e2.orelse:
                        raise Miss("purge chain is not if / elif / elif")
                    return dict(skip=skip, model=name_test(e1.test, var), keep=name_test(e2.test, var))
    raise Miss("purge loop of find_MAP not found")


@extractor("mb_range_rules")
def _(T):
    """`if '<key>' in param: self.linked_params_range[param] = [lo, hi]` rules of BaseMultiBandFitter.__init__, in source order"""
    tree, src = T["multiband.py"]
    init = find_func(tree, "__init__", cls="BaseMultiBandFitter")
    rules = []
    for node in ast.walk(init):
        if isinstance(node, ast.For):
            for st in node.body:
                if isinstance(st, ast.If) and isinstance(st.test, ast.Compare) and isinstance(st.test.ops[0], ast.In) \
                        and isinstance(st.test.left, ast.Constant) and isinstance(st.test.left.value, str) and st.body \
                        and isinstance(st.body[0], ast.Assign) and isinstance(st.body[0].value, (ast.List, ast.Tuple)) \
                        and "linked_params_range" in (ast.get_source_segment(src, st.body[0].targets[0]) or ""):
                    lo, hi = st.body[0].value.elts
                    hv = _const_or_pi(hi, src)
                    if hv is None:
                        raise Miss("range bound is not a constant")
                    rules.append([st.test.left.value, fr(num(lo, src)), fr(hv[1]), hv[0] == "pi"])
    if not rules:
        raise Miss("no default range rules found")
    return rules


# ----------------------------------------------------------------------------
# Lean emission
# ----------------------------------------------------------------------------

def lean_str(s):
    return '"' + s.replace("\\", "\\\\").replace('"', '\\"') + '"'


def lean_q(p):
    n, d = p
    return f"⟨{n}, {d}⟩" if n >= 0 else f"⟨({n}), {d}⟩"


def lean_list(items):
    return "[" + ", ".join(items) + "]"


def emit(c):
    L = []
    A = L.append
    A("/- GENERATED by tools/extract.py from the /repo working tree — do not edit.")
    A("   Regenerated on every run of ./check; theorems in Props/ are re-checked against it. -/")
    A("import PysersicModel.Scalar")
    A("import PysersicModel.IO.Validate")
    A("import PysersicModel.IO.Results")
    A("import PysersicModel.IO.SkyEstimate")
    A("import PysersicModel.Prob.Loss")
    A("import PysersicModel.Render.Renderers")
    A("import PysersicModel.Prob.Prior")
    A("import PysersicModel.Prob.MultiBand")
    A("")
    A("namespace Pysersic.Gen")
    A("")
    se = c["sky_estimate"]
    A("/-- `estimate_sky` (priors.py): how a separately passed mask meets a masked-array image; does the gathering keep masks; the slices gathered -/")
    A(f"def skyMaskRule : SkyEstimate.MaskRule := .{se['rule']}")
    A(f"def skyGatherKeepsMask : Bool := {'true' if se['keeps'] else 'false'}")
    A("def skySlices : List (SkyEstimate.SB × SkyEstimate.SB × SkyEstimate.SB × SkyEstimate.SB) :=")
    A("  " + lean_list(["(" + ", ".join("." + b for b in sl) + ")" for sl in se["slices"]]))
    A("")
    es = c["early_stop_defaults"]
    A("/-- defaults of `train_numpyro_svi_early_stop` (pysersic.py) -/")
    A(f"def earlyStopNumRound : Nat := {es['num_round'][0]}")
    A(f"def earlyStopMaxTrain : Nat := {es['max_train'][0]}")
    A(f"def earlyStopPatience : Nat := {es['patience'][0]}")
    A(f"def earlyStopLrInit : Q := {lean_q(es['lr_init'])}")
    A(f"def earlyStopDecay : Q := {lean_q(es['frac_lr_decrease'])}")
    A("")
    A("/-- (call site, num_round, max_train, patience) of every in-package caller -/")
    A("def earlyStopCallSites : List (String × Nat × Nat × Nat) :=")
    A("  " + lean_list([f"({lean_str(s[0])}, {s[1]}, {s[2]}, {s[3]})" for s in c["early_stop_call_sites"]]))
    A("")
    for key, nm in (("render", "profileParamsRender"), ("priors", "profileParamsPriors")):
        A(f"/-- `base_profile_params` as written in {'rendering.py' if key == 'render' else 'priors.py'} -/")
        A(f"def {nm} : List (String × List String) :=")
        A("  " + lean_list([f"({lean_str(t)}, {lean_list([lean_str(x) for x in l])})" for t, l in c["profile_tables"][key]]))
        A("")
    A("/-- `base_sky_params` (priors.py) -/")
    A("def skyParams : List (String × List String) :=")
    A("  " + lean_list([f"({lean_str(t)}, {lean_list([lean_str(x) for x in l])})" for t, l in c["sky_table"]]))
    A("")
    vf = c["validate_facts"]
    A("/-- structural facts deciding the outcome of input validation (pysersic.py, rendering.py) -/")
    A("def validateFacts : Validate.Facts :=")
    A(f"  ⟨.{vf['fitterCmp']}, .{vf['rendererCmp']}, {'true' if vf['hybridSquareOnly'] else 'false'}⟩")
    A("")
    tl = c["type_lists"]
    A("def profileTypesRender : List String := " + lean_list([lean_str(x) for x in tl["profile_types_render"]]))
    A("def profileTypesPriors : List String := " + lean_list([lean_str(x) for x in tl["profile_types_priors"]]))
    A("def skyTypes : List String := " + lean_list([lean_str(x) for x in tl["sky_types"]]))
    A("")
    lc = c["loss_consts"]
    b = lambda x: "true" if x else "false"  # noqa: E731
    A("/-- constants and structural facts of loss.py -/")
    A("def lossConsts : Prob.LossConstsQ :=")
    A(f"  {{ nu := {lean_q(lc['nu'])}, nuSys := {lean_q(lc['nuSys'])}, delta := {lean_q(lc['delta'])}, huberDeltaSq := {b(lc['huberDeltaSq'])},")
    A(f"    c := {lean_q(lc['c'])}, fracLow := {lean_q(lc['fracLow'])}, fracHigh := {lean_q(lc['fracHigh'])},")
    A(f"    contamHigh := {lean_q(lc['contamHigh'])}, contamScale := {lean_q(lc['contamScale'])},")
    A(f"    sigFracLow := {lean_q(lc['sigFracLow'])}, sigFracHigh := {lean_q(lc['sigFracHigh'])}, sigFracScale := {lean_q(lc['sigFracScale'])},")
    A(f"    sysMeanOverGood := {b(lc['sysMeanOverGood'])} }}")
    A("")
    rt = c["results_tests"]
    A("/-- name tests of `_parse_injested_data` (results.py), translated from the source -/")
    A(f"def wrapTest : Results.NameTest := {lean_name_test(rt['wrap'])}")
    A(f"def dropTest : Results.NameTest := {lean_name_test(rt['drop'])}")
    A(f"def modelTest : Results.NameTest := {lean_name_test(rt['model'])}")
    A("")
    rc = c["render_consts"]
    ramp = lambda r: ".pi" if r[0] == "pi" else f".literal {lean_q(r[1:])}"  # noqa: E731
    A("/-- rendering.py: `bn = A*n - B` in render_sersic_2d and in sersic1D -/")
    A(f"def bn2d : Render.BnC := ⟨{lean_q(rc['bn2d'][0])}, {lean_q(rc['bn2d'][1])}⟩")
    A(f"def bn1d : Render.BnC := ⟨{lean_q(rc['bn1d'][0])}, {lean_q(rc['bn1d'][1])}⟩")
    A("/-- the constant standing for π in the two PSF phase ramps (BaseRenderer.__init__) -/")
    A(f"def rampX : Render.RampConst := {ramp(rc['rampX'])}")
    A(f"def rampY : Render.RampConst := {ramp(rc['rampY'])}")
    A("/-- how PixelRenderer.render_pointsource addresses the PSF stamp -/")
    A(f"def psConv : Render.PsConv := ⟨{b(rc['psRowsByY'])}, {b(rc['psCentreGeometric'])}⟩")
    A("/-- constructor defaults of the renderers -/")
    A(f"def defaultOs : Nat := {rc['os_pixel_size'][0]}")
    A(f"def defaultNumOs : Nat := {rc['num_os'][0]}")
    A(f"def defaultFracStart : Q := {lean_q(rc['frac_start'])}")
    A(f"def defaultFracEnd : Q := {lean_q(rc['frac_end'])}")
    A(f"def defaultNSigma : Nat := {rc['n_sigma'][0]}")
    A(f"def defaultNpr : Nat := {rc['num_pixel_render'][0]}")
    A(f"def defaultPrecision : Nat := {rc['precision'][0]}")
    A(f"def nAxLo : Q := {lean_q(rc['n_ax'][0])}")
    A(f"def nAxHi : Q := {lean_q(rc['n_ax'][1])}")
    A(f"def nAxNum : Nat := {rc['n_ax'][2][0]}")
    A("")
    A("/-- default physical ranges of linked parameters (multiband.py), substring rules in source order -/")
    A("def mbRangeRules : List MultiBand.RangeRule :=")
    A("  " + lean_list([f"⟨{lean_str(r[0])}, {lean_q(r[1])}, {lean_q(r[2])}, {b(r[3])}⟩" for r in c["mb_range_rules"]]))
    A("")
    pm = c["parse_mask"]
    A("/-- parse_mask (pysersic.py): the stored mask when none is given, and how a given mask value decides whether the pixel is used -/")
    A(f"def maskDefault : Validate.MaskDefault := .{pm['default']}")
    A(f"def maskGiven : Validate.MaskGiven := .{pm['given']}")
    A("")
    pb = c["pixel_box"]
    A("/-- PixelRenderer.__init__: the oversampled box `[x_os_lo, x_os_hi) × [y_os_lo, y_os_hi)` as integer expressions of the image sides and os_pixel_size -/")
    for k in ("x_os_lo", "x_os_hi", "y_os_lo", "y_os_hi"):
        A(f"def pix_{k} (N0 N1 os : Nat) : Int := {pb[k]}")
    A("")
    mi = c["map_init"]
    A("/-- BaseFitter.find_MAP: where the AutoDelta guide starts (`init_loc_fn`) and to how many decimals the returned values are rounded -/")
    A(f"def mapInitFn : String := {lean_str(mi['init'])}")
    A(f"def mapRoundDecimals : Nat := {mi['decimals']}")
    A("")
    mf = c["map_filter"]
    A("/-- the if / elif / elif chain over site names in BaseFitter.find_MAP (pysersic.py), translated from the source -/")
    A(f"def mapSkipTest : Results.NameTest := {lean_name_test(mf['skip'])}")
    A(f"def mapModelTest : Results.NameTest := {lean_name_test(mf['model'])}")
    A(f"def mapKeepTest : Results.NameTest := {lean_name_test(mf['keep'])}")
    A("")
    pc = c["prior_consts"]
    A("/-- constants of generate_prior, the SourceProperties setters and the sky priors (priors.py) -/")
    A("def priorConsts : Prob.PriorConsts :=")
    keys = ["posSigma", "rEffLow", "ellipLow", "ellipHigh", "thetaLow", "thetaHighPi", "nLow", "nHigh", "fracLow", "fracHigh",
            "splitFactor", "n1Loc", "n1Scale", "n2Loc", "n2Scale", "errFactor", "slopeFactor"]
    A("  { " + ", ".join(f"{k} := {lean_q(pc[k])}" for k in keys) + " }")
    A("/-- do the bounded helpers mask values outside the support (AffineTransform(domain=…) + validate_args=True)? -/")
    A(f"def priorSupportMasked : Bool := {b(pc['supportMasked'])}")
    A("")
    A("end Pysersic.Gen")
    return "\n".join(L) + "\n"


def regenerate(write=True):
    T = {}
    for f in ("pysersic.py", "rendering.py", "priors.py", "loss.py", "multiband.py", "results.py"):
        try:
            T[f] = parse(f"pysersic/{f}")
        except (SyntaxError, OSError) as e:
            T[f] = None
    fallback = json.loads(FALLBACK.read_text()) if FALLBACK.exists() else {}
    consts, failed = {}, {}
    for name, fn in EXTRACTORS.items():
        try:
            consts[name] = fn(T)
        except Exception as e:  # Miss, or anything a refactor can throw at the matcher
            failed[name] = f"{type(e).__name__}: {e}"
            if name not in fallback:
                raise
            consts[name] = fallback[name]
    text = emit(consts)
    status = "unchanged"
    if write:
        old = OUT.read_text() if OUT.exists() else None
        if old != text:
            OUT.parent.mkdir(parents=True, exist_ok=True)
            OUT.write_text(text)
            status = "rewritten"
    rep = dict(status=status, failed=failed, sha256=hashlib.sha256(text.encode()).hexdigest(),
               extracted=sorted(k for k in consts if k not in failed),
               differs_from_committed_fallback=sorted(k for k in consts if fallback.get(k) != consts[k]))
    try:
        REPORT.parent.mkdir(parents=True, exist_ok=True)
        REPORT.write_text(json.dumps(dict(rep, consts=consts), indent=1))
    except OSError:
        pass
    return rep


if __name__ == "__main__":
    if len(sys.argv) > 1 and sys.argv[1] == "--update-fallback":
        T = {f: parse(f"pysersic/{f}") for f in ("pysersic.py", "rendering.py", "priors.py", "loss.py", "multiband.py", "results.py")}
        FALLBACK.write_text(json.dumps({n: fn(T) for n, fn in EXTRACTORS.items()}, indent=1))
        print("fallback updated")
    print(json.dumps(regenerate(), indent=1))
