#!/bin/sh
# development helper: lake build under the same lock the checks use; trimmed output
cd "$(dirname "$0")/../lean"
flock .lake.lock lake build "$@" 2>&1 | grep -v "^✔\|^ℹ\|^⚠\|^warning\|^Hint\|^  \[apply\]\|^Note\|^$\|^trace:\|List.isPrefixOf" | cut -c1-240 | head -${LB_LINES:-70}
