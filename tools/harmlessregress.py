#!/venv/bin/python
"""False-alarm regression: apply each behaviour-preserving refactoring in seeded/harmless/ to /repo, run the checks of the
properties anchored in the touched code, undo it, record the outcome in seeded/harmless/REGRESSION.json.
Every run must end `OK`; anything else is a false alarm of the machinery.

usage: tools/harmlessregress.py [A1 …]      (default: all)
"""
from __future__ import annotations

import json
import subprocess
import sys
import time
from pathlib import Path

VERIF = Path(__file__).resolve().parent.parent
REPO = Path("/repo")
CHECKS = {
    "A1": ["C03", "C18", "C09", "C01"],
    "A2": ["C02", "C04", "C08", "C09", "C10", "C20"],
    "A3": ["C08", "C04", "C01", "C03"],
    "B1": ["C07", "C06", "C05"],
    "B2": ["C18", "C06", "C13", "C14"],
    "B3": ["C12", "C15", "C17", "C11", "C10", "C16"],
}


def sh(cmd, cwd=None, timeout=3600):
    p = subprocess.run(cmd, cwd=cwd, capture_output=True, text=True, timeout=timeout)
    return p.returncode, p.stdout + p.stderr


def main():
    rc, out = sh(["git", "status", "--porcelain", "--untracked-files=no"], cwd=REPO)
    if out.strip():
        print("refusing: /repo has local modifications")
        return 2
    want = sys.argv[1:] or sorted(CHECKS)
    res_file = VERIF / "seeded" / "harmless" / "REGRESSION.json"
    results = json.loads(res_file.read_text()) if res_file.exists() else {}
    head = sh(["git", "log", "--format=%h", "-1"], cwd=REPO)[1].strip()
    bad = 0
    for name in want:
        diff = VERIF / "seeded" / "harmless" / f"{name}.diff"
        rc, out = sh(["git", "apply", "--check", str(diff)], cwd=REPO)
        if rc != 0:
            results[name] = dict(repo_head=head, outcome="patch-does-not-apply", detail=out.strip()[-200:])
            print(name, "patch does not apply to the current tree")
            continue
        sh(["git", "apply", str(diff)], cwd=REPO)
        per = {}
        try:
            for prop in CHECKS[name]:
                t0 = time.time()
                rc, out = sh([str(VERIF / "check"), prop, "--tier", "quick"], cwd=VERIF, timeout=3000)
                lines = [l for l in out.splitlines() if l.startswith(("VIOLATION", "OK ", "INFRA", "  failing input", "  no longer checks", "KNOWN-FINDING"))]
                ev = json.loads((VERIF / "evidence" / f"{prop}.json").read_text()) if (VERIF / "evidence" / f"{prop}.json").exists() else {}
                cov = ev.get("coverage", ev)
                fell = dict(constants=sorted((cov.get("constants") or {}).get("failed", {})),
                            kernels=sorted((cov.get("translated_kernels") or {}).get("fell_back", {})))
                per[prop] = dict(rc=rc, wall_s=round(time.time() - t0), lines=lines[:4], fell_back=fell)
                print(name, prop, "OK" if rc == 0 else f"rc={rc}", fell, f"{time.time() - t0:.0f}s", flush=True)
                bad += rc != 0
        finally:
            sh(["git", "checkout", "--", "."], cwd=REPO)
        results[name] = dict(repo_head=head, outcome="all-ok" if all(v["rc"] == 0 for v in per.values()) else "FALSE-ALARM", checks=per)
        res_file.write_text(json.dumps(results, indent=1, sort_keys=True))
    return 1 if bad else 0


if __name__ == "__main__":
    sys.exit(main())
