#!/venv/bin/python
"""Regression over every kept seeded change: apply seeded/<PROP>-<i>/patch.diff to /repo, run ./check <PROP> --tier quick,
undo, and record the outcome in seeded/REGRESSION.json.  A seeded change counts as caught when the check exits 1 with a
VIOLATION line.  Patches that no longer apply to the current /repo (a later fix touched the same lines) are recorded as such.

usage: tools/seedregress.py [PROP-i …]      (default: all)
"""
from __future__ import annotations

import json
import subprocess
import sys
import time
from pathlib import Path

VERIF = Path(__file__).resolve().parent.parent
REPO = Path("/repo")


def sh(cmd, cwd=None, timeout=3600):
    p = subprocess.run(cmd, cwd=cwd, capture_output=True, text=True, timeout=timeout)
    return p.returncode, p.stdout + p.stderr


def main():
    rc, out = sh(["git", "status", "--porcelain", "--untracked-files=no"], cwd=REPO)
    if out.strip():
        print("refusing: /repo has local modifications")
        return 2
    want = set(sys.argv[1:])
    dirs = sorted(d for d in (VERIF / "seeded").iterdir() if d.is_dir() and (not want or d.name in want))
    res_file = VERIF / "seeded" / "REGRESSION.json"
    results = json.loads(res_file.read_text()) if res_file.exists() else {}
    head = sh(["git", "log", "--format=%h", "-1"], cwd=REPO)[1].strip()
    for d in dirs:
        prop = d.name.split("-")[0]
        rc, out = sh(["git", "apply", "--check", str(d / "patch.diff")], cwd=REPO)
        if rc != 0:
            results[d.name] = dict(repo_head=head, outcome="patch-does-not-apply", detail=out.strip()[-200:])
            print(d.name, "patch does not apply to the current tree")
            res_file.write_text(json.dumps(results, indent=1, sort_keys=True))
            continue
        sh(["git", "apply", str(d / "patch.diff")], cwd=REPO)
        t0 = time.time()
        try:
            rc, out = sh([str(VERIF / "check"), prop, "--tier", "quick"], cwd=VERIF, timeout=3000)
        finally:
            sh(["git", "checkout", "--", "."], cwd=REPO)
        lines = [l for l in out.splitlines() if l.startswith(("VIOLATION", "OK ", "INFRA", "  failing input"))]
        vio = [l for l in lines if l.startswith("VIOLATION")]
        outcome = ("caught-with-failing-input" if vio and "no-failing-input-found" not in vio[0] else
                   "caught-no-failing-input" if vio else "MISSED" if rc == 0 else f"infra-rc{rc}")
        results[d.name] = dict(repo_head=head, outcome=outcome, wall_s=round(time.time() - t0), lines=lines[:3])
        print(d.name, outcome, f"{time.time() - t0:.0f}s")
        res_file.write_text(json.dumps(results, indent=1, sort_keys=True))
    return 0


if __name__ == "__main__":
    sys.exit(main())
