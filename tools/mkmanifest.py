#!/usr/bin/env python3
"""Regenerates MANIFEST.json from the table below (single source of truth for the interface)."""
import json
from pathlib import Path

VERIF = Path(__file__).resolve().parent.parent
props = [json.loads(l) for l in (VERIF / "properties.jsonl").read_text().splitlines() if l.strip()]

NOTE = ("Trusted: Lean 4.33 kernel + Mathlib v4.33; axioms propext/Classical.choice/Quot.sound only (audited by "
        "#print axioms each run; no native_decide/bv_decide/sorry/own axioms); tools/extract.py (constants regenerated "
        "from /repo into Gen/Consts.lean); the harness + compiled driver (behavioural correspondence model vs code). "
        "Theorems are about the ideal (real/integer/string) semantics of the model; IEEE rounding, XLA/jit, numpyro "
        "handlers and third-party libraries are modelled, not verified. ")

# id -> (built?, text, note, technique)
CLAIMS = {
 "C14": dict(
   text=("Proof, full: the loop is modelled as a Lean function over an arbitrary loss history (ℕ → Loss with NaN/±inf/ties) and "
         "arbitrary (num_round, max_train, patience); 17 theorems (call budget, patience window, restart from previous best, "
         "learning-rate exponent per round, strict non-NaN adoption, first-argmin result, recorded losses) hold for all histories "
         "with no bound on length. The model is tied to the code by driving the real routine with a scripted SVI stand-in and "
         "comparing returned state, every call's (input state, learning rate) and recorded losses exactly (exhaustive over short "
         "histories + random long ones); extracted defaults/call-site configs are proof obligations. In addition the routine's source "
         "is TRANSLATED on every run (tools/translate_prog.py: assignments, if/elif/else, for-range loops with break, the update "
         "calls, the return) into a Lean program over a shallow imperative embedding, and gen_run_eq / gen_calls_eq prove that "
         "this program returns the model's result and makes the model's update calls for every history and configuration; the "
         "translated program is also run against the real routine."),
   note=NOTE + "C14: the SVI object is abstracted to (state identity, loss) per update; Adam/ELBO/jit not modelled.",
   technique="Lean 4 theorems by induction over the loop model; source-to-Lean translation of the routine proved equal to the model (simulation by induction over both loops); trace correspondence with the real routine (scripted SVI)",
   design="7/C14"),
 "C17": dict(
   text=("Proof, full: Python slice normalisation and the four-slice gathering of estimate_sky are modelled in Lean; for every shape "
         "H×W, every border width n≥1 with 2n≤H,W, every mask and every statistic it is proved that the gathered positions are "
         "exactly the pixels within n of an edge, each once (Nodup), that the count is H·W−(H−2n)(W−2n) minus masked border pixels, "
         "and that the (median, scatter, count) triple is invariant under any change of interior or masked pixels. Tie: the real "
         "estimate_sky on index-encoded images with the array reaching the statistics captured (and cross-checked black-box by ±BIG "
         "perturbation of every pixel) compared with the model's used set; all call styles incl. SourceProperties and a masked-array "
         "image combined with a separate mask. The slices and the guard that applies the separate mask are REGENERATED from the "
         "source on every run: repo_slices proves the source's slices gather the model's border for every shape, repo_mask_rule / "
         "repo_masks_honoured that a pixel masked either way is masked when the border is gathered (the two other guards the code "
         "has had are proved to violate this, with witnesses replayed on the implementation)."),
   note=NOTE + "C17: np.ma.median / astropy biweight_scale abstracted as arbitrary functions of the gathered values; photutils outside the model. Genuine defect found and fixed (0a4d9b4: mask argument dropped for masked-array images that carry masked pixels).",
   technique="Lean 4 theorems over list/slice model (all shapes, masks, statistics) + gathered-set correspondence with the real estimate_sky",
   design="7/C17"),
 "C18": dict(
   text=("Proof, full for the decision logic: construction outcome is modelled as a total function of (data, rms, PSF, mask shapes; "
         "negative-rms flag; renderer class) parameterised by structural facts regenerated from the source (how the PSF-size tests compare "
         "shapes, orientation of the hybrid renderer's PSF grid). Proved for all shapes: accepted ⇔ consistent; each inconsistency raises its "
         "documented exception; no other outcome; stored mask = inverted user mask; unknown profile/sky types refused. `repo_facts` is the "
         "obligation that the current source has the facts the theorems need (it fails to build on lexicographic comparison). Tie: real "
         "FitSingle/FitMulti/renderer constructors over the property's shape grid (±1 per axis, numpy/jax, bool/int/float masks) compared "
         "with the model outcome exactly; oracle checks value-for-value float32 storage."),
   note=NOTE + "C18: outcomes assumed to depend on inputs only through shapes/negativity/renderer class; float32 storage checked by the oracle bit-for-bit, not modelled; warnings not modelled.",
   technique="Lean 4 decision-logic theorems over all shapes + regenerated structural facts as proof obligations + constructor-outcome correspondence",
   design="7/C18"),
 "C19": dict(
   text=("Proof, full over the name grammar: the wrap is proved over ℝ to land in [0,π) and to be congruent modulo π for every real "
         "sample; the name tests of _parse_injested_data are *translated* from the source into a Lean NameTest and it is proved, for every "
         "parameter of the regenerated tables with any suffix made of trigger-free segments (source index, band name, both — unbounded), "
         "that exactly the position angles (theta…, theta…_at_wv) are wrapped, that poly_coeff / bspl_w link variables pass through, that "
         "every name containing base/auto/unwrapped is removed, and that the model image is removed but kept in .models. Key lemma: an "
         "underscore-free pattern cannot straddle an underscore of a joined name. Tie: the real routine on an xarray stand-in, per-variable "
         "fate and wrapped values compared with the model; oracle with ground-truth kinds."),
   note=NOTE + "C19: xarray stand-in for the inference-data container; suffix segments assumed trigger-free (examples show what a band called 'theta' does); float rounding of remainder observed only.",
   technique="Lean 4 theorems (real-analysis wrap + string/segment lemmas over all suffixes) on name tests translated from source + fate correspondence",
   design="7/C19"),
 "C07": dict(
   text=("Proof, full for the formulas over ℝ: loss.py is mirrored expression by expression (ten losses, generic scalar); for every model "
         "value, datum, positive rms and nuisance value the code-shaped per-pixel term equals the documented likelihood: Gaussian σ=rms, "
         "σ(1+f), σ²+σ_sys², Cash, pseudo-Huber δ²(√(1+(r/δ)²)−1) (obligation: the regenerated source carries the δ² prefactor), Student-t "
         "closed form with symmetry / scale law / ν=5, mixtures = log of the weighted Gaussian sum, outlier fraction ∈ [0,0.25], nuisance "
         "supports and names from the regenerated constants. Tie: every real loss traced in float64 (1e-9) and float32 (property tolerance) "
         "against the executable model: site names/kinds exact, per-pixel masked terms, nuisance priors, deterministic values."),
   note=NOTE + "C07: numpyro log_prob formulas (Normal, StudentT, TruncatedNormal, MixtureSameFamily) and handlers.mask are modelled by textbook formulas and validated per site; float32 evaluation observed at 1e-4/1e-5.",
   technique="Lean 4 real-analysis theorems (code-shaped formula = documented likelihood) + regenerated constants + per-site trace correspondence",
   design="7/C07"),
 "C06": dict(
   text=("Proof, full over ℝ: for all ten losses, every pixel list (any size), mask and nuisance value, the per-pixel terms and the "
         "log-likelihood depend on unmasked pixels only (obligation: the regenerated source averages rms over unmasked pixels), hence "
         "zero derivative at masked pixels; unmasked pixels matter (closed-form differences for Gaussian/Cash/Huber); polarity from the "
         "C18 mask model. Tie: real single/multi/multi-band fitters — stored mask and the set of pixels with non-zero d/d(data) equal the "
         "model's used set; oracle: bit-identical log-density and exactly zero d/d(data,rms) under replacement of data/rms/model at masked "
         "pixels (huge values, rms = 0 and 1e-25, sentinels with gradients), finite parameter gradients, non-zero derivatives on unmasked pixels "
         "(exact zeros in the data included). parse_mask's polarity rule and default are regenerated facts (repo_mask_polarity, repo_no_mask_all_used)."),
   note=NOTE + "C06: reverse-mode 0·∞ effects are outside the ℝ theorems and are covered by the oracle only (the rms=0 case was a genuine defect, fixed).",
   technique="Lean 4 theorems by induction over pixel lists + fitter-level gradient/used-set correspondence and exact perturbation oracle",
   design="7/C06"),
 "C08": dict(
   text=("Proof, full over ℝ for the structure: the three renderers (pixel with its oversampled box and bilinear point source, Fourier, "
         "hybrid with its real/Fourier component split, interpolated and direct amplitudes), the composites, render_for_model and the "
         "scene assembly (explicit DFT model of rfft2/irfft2, PSF transform, conv_img/conv_fft/combine_scene) are modelled in Lean. Proved "
         "for every image size, PSF, option set and every parameter value: each renderer's triple is homogeneous of degree one in flux "
         "(every profile type), zero flux gives the zero image, combine_scene is additive and homogeneous, a scene of any number of "
         "sources is the sum of the individually rendered sources, the three composites are the sums of their components with fractions "
         "f and 1-f at the same centre and angle, exp/dev are Sersic at n=1/4. Tie: real render_source/render_for_model vs the model image "
         "(float64 1e-9 of the peak, float32 2e-5) on mixed catalogues; the property's float32 identities (5e-6) and jax.linear_transpose "
         "in flux are run on the real code as the oracle. BaseRenderer's scene plumbing (the five composite profiles, render_for_model, "
         "combine_scene) is additionally TRANSLATED from the source on every run (tools/translate_scene.py) and each translated definition is "
         "proved equal to the model's (Proofs/GenScene.lean: gen_*_eq)."),
   note=NOTE + "C08: jnp.fft modelled as explicit DFT sums; interpax amplitudes enter as data; float32 identities observed, not proved.",
   technique="Lean 4 theorems (linearity of every renderer/profile/scene over all inputs, induction over catalogues) + render correspondence + float32 identity oracle",
   design="7/C08"),
 "C09": dict(
   text=("Proof over ℝ for the exact symmetries of the render model: θ → θ + kπ leaves every renderer's triple unchanged for every integer k and "
         "every profile type (so the angle reported after wrapping into [0,π) renders the same image — corollary with C19); round sources do "
         "not depend on θ (pixel, Fourier and real-space kernels; PSF broadening keeps q = 1); the Sersic/Gaussian kernels are covariant under "
         "transposition (xc↔yc, θ→π/2−θ) and mirroring (xc→N−1−xc, θ→−θ); the pixel renderer's whole intrinsic image is transposed by "
         "transposing the scene and, for even N, mirrored by mirroring it (oversampling box symmetric under transposition, under mirroring exactly "
         "for even N — counter-example for odd N proved; Gauss–Legendre rule symmetric as a hypothesis checked on the real data); a whole-pixel move "
         "of a Fourier-rendered point or Sersic source is an exact shift of the PSF-convolved image through the DFT synthesis model, for every PSF "
         "and image size (negative-frequency rows differ by whole turns). Not proved, observed only: the discretely synthesised Fourier image under "
         "transposition/mirroring (the c2r transform drops Nyquist imaginary parts) and all float32 tolerances — run on the real code as the oracle "
         "with the property's domain and tolerances. Tie: shared render correspondence."),
   note=NOTE + "C09: two genuine defects found by this check and fixed in /repo (3.1415 literal in the PSF ramps; transposed, half-pixel-shifted pixel point source).",
   technique="Lean 4 theorems (trigonometric/algebraic symmetry identities, sum exchange, DFT shift theorem termwise) + render correspondence + float32 transformed-pair oracle",
   design="7/C09"),
 "C03": dict(
   text=("Proof (ℝ) for the exact clauses, on a code-level model whose PSF conventions are regenerated from the source: obligations that both "
         "phase ramps use π and that the pixel renderer addresses the stamp rows-by-y centred on (s−1)/2 (both failed on the original tree: two "
         "genuine defects, fixed); under these facts a pixel-renderer point source at an integer pixel is exactly flux × the stamp embedded with its "
         "centre on that pixel, orientation preserved, zero elsewhere (all odd stamp sizes, all positions; zero-padded bilinear interpolation at "
         "integers reads the array entry), the unrepaired addressing provably violates it; a Fourier/hybrid point source at an integer pixel is an "
         "exact whole-pixel shift of the one at the origin for every PSF transform (DFT shift theorem proved termwise on the synthesis sum); a 1×1 "
         "unit PSF has transform ≡ 1 whatever the ramp constant and returns both the Fourier-space scene and the intrinsic image unchanged; "
         "PSF_fft(0,0) = ΣPSF; conv_img is linear; and the CONVOLUTION THEOREM for the code-level pipeline: for odd stamps (2h+1)² and π in the ramps, "
         "irfft2(rfft2(I)·PSF_fft) with the c2r half-plane weights equals Σ PSF[i,j]·I[(r+h−i) mod N, (c+h−j) mod N] for every N, image and stamp "
         "(complete sums over roots of unity, reflection of the half plane), hence irfft2∘rfft2 = id on real images and the pixel renderer's scene is "
         "exactly that convolution. Not proved: even-sized stamps (half-pixel Fourier shift; validated by the tie at 1e-9 and the centroid clause). Tie: PSF_fft element-wise, conv_img on random images, point sources of "
         "all renderers on integer/fractional positions, odd/even/non-square/1×1 stamps. Oracle: the property's embedded-stamp (2e-5), centroid "
         "(0.02 px), unit-PSF and direct-convolution criteria in float32."),
   note=NOTE + "C03: known finding recorded (Fourier/hybrid point sources with PSF stamps that are not band-limited ring and miss the centroid tolerance); map_coordinates modelled as zero-padded bilinear interpolation.",
   technique="Lean 4 theorems (bilinear interpolation at integers, DFT shift theorem, unit-PSF transform) on a model with regenerated PSF conventions as proof obligations + stage-wise correspondence (PSF_fft, conv_img, renders) + float32 oracle",
   design="7/C03"),
 "C01": dict(
   text=("Proof, partial. Proved over ℝ for every image size, PSF stamp (any size, normalised or not), ramp constant, position (integer, fractional, "
         "off-frame), angle, ellipticity and radius: the DC theorem of the DFT synthesis model (the pixels of irfft2(G) sum to Re G(0,0), by complete "
         "sums over roots of unity) and hence the pixel sum of any assembled scene = Re F(0,0)·ΣPSF + ΣI·ΣPSF + ΣO; Fourier/hybrid point source total = "
         "flux·ΣPSF exactly; Fourier-renderer Sersic total = (Σ_k amps_k)·ΣPSF = flux·(Σ_k A_k(n))·ΣPSF — which REDUCES the seven-parameter tolerance "
         "clause to the one-dimensional statement |Σ_k A_k(n) − 1| ≤ tol; pixel-renderer total = Σ(intrinsic)·ΣPSF; totals additive over components and "
         "sources and homogeneous in flux, composites split f : 1−f; the analytic normalisation 2π·a·b·∫₀^∞ I(z) z dz = flux for ANY b_n > 0 "
         "(Mathlib Gamma integral), with b_n > 0 on the prior support for the regenerated coefficients. Not proved (numerical, observed with the property's "
         "own bands against an independent float64 integration): how close Σ_k A_k(n) is to 1 (scanned densely on the real table, float32 and float64), "
         "footprint truncation of the hybrid renderer's real-space components, Gauss–Legendre accuracy of the pixel renderer. Tie: shared render "
         "correspondence with un-normalised PSFs + amplitude-table rows vs the Lean direct-decomposition model."),
   note=NOTE + "C01: two narrow known findings recorded (pixel renderer: sub-pixel minor axis reaching outside the oversampled box; hybrid: 3.5<n<=4 with an edge within 15 r_eff exceeds the tight band slightly).",
   technique="Lean 4 theorems (DFT DC theorem via roots of unity, scene totals, reduction of the Fourier flux clause to 1-D, Gamma-integral normalisation) + render/table correspondence + numerical residual with the property's bands",
   design="7/C01"),
 "C20": dict(
   text=("Proof (all N, all admissible option values) for the structural clauses: the pixel renderer's oversampled set is exactly "
         "rows/columns [N/2−os, N/2+os) (floor division, clipped at N; 2·os wide for os ≤ N/2; empty for os = 0) for even and odd N; outside it a "
         "pixel holds the centre-sampled profile, inside it the quadrature sum Σ w_i w_j·profile(X+d_j, Y+d_i); a rule with Σw = 1 reproduces a "
         "locally flat profile for every order; the hybrid renderer's Fourier and real parts partition the component list, the real part being "
         "the num_pixel_render widest (broadened) components; with num_pixel_render = 0 the hybrid triple is identical to the Fourier renderer's "
         "(exactly, every parameter value); point sources never depend on that choice; interpolated and direct amplitudes sit on the same σ grid, "
         "which runs from r_eff·frac_start to r_eff·frac_end; the regenerated defaults are admissible. Not proved (quantitative convergence between "
         "option settings): observed on the real code with the property's tolerances — outside pixels vs the point-sampled kernel (1e-6) and an "
         "independent float64 formula, inside pixels vs an independent 40-point float64 pixel integration (2e-5, num_os ≥ 3), hybrid vs Fourier "
         "(6e-3; exactly 0 for num_pixel_render = 0), n_sigma 15/20/30 (5e-3), interpolated vs direct amplitudes at tabulated indices (1e-3, float64). "
         "Tie: render correspondence over the whole option space, including the Lean model of the direct decomposition (use_interp_amps=False); "
         "the index arithmetic that places the oversampled box is regenerated from PixelRenderer.__init__ (int / round-half-even / // with "
         "their Python meaning) and proved to be the model's box for every image side (repo_pixel_box)."),
   note=NOTE + "C20: leggauss data enter as parameters (Σw = 1 checked on the real data); direct amplitudes compared in float64 only. Known finding recorded (num_os = 3: a box pixel next to the source exceeds 2e-5 by a hair).",
   technique="Lean 4 theorems (box membership by omega, class of each pixel, list partition of the hybrid split, hybrid(0)=Fourier, σ-grid end points) + option-space render correspondence + numerical oracle with the property's tolerances",
   design="7/C20"),
 "C16": dict(
   text=("Proof, full over ℝ for every image size and every sky value: 'none' adds nothing, 'flat' adds the constant to every pixel, 'tilted-plane' adds "
         "back + (x − N/2)·x_sl + (y − N/2)·y_sl with x the column and y the row (first index of the image = row); the plane with zero slopes is the flat "
         "sky; the stand-alone render_tilted_plane_sky is the same function; in the fitter's model image (single and multi) the sky is added to the "
         "PSF-convolved scene — pixel by pixel model − scene = sky, and a flat sky raises the image total by exactly N²·back whatever ΣPSF is (DC theorem) — "
         "and is independent of the source parameters; the installed priors are Normal(guess, err) for the level and Normal(0, k·err) for both slopes with "
         "k regenerated from the source (obligation k = 0.1); the sky parameter names per type agree with the regenerated table. Tie: the deterministic "
         "'model' site of the real build_model() (single/multi, suffixes, un-normalised PSFs, values forced through the unit-scale base latents) minus the "
         "real render of the same parameters vs the Lean sky image (float64 1e-9, float32 2e-5 of the image scale); installed hyper-parameters vs the model."),
   note=NOTE + "C16: square images only (both pivots are X.shape[0]/2); observation: PySersicMultiPrior builds its sky prior without the suffix (mirrored by the model).",
   technique="Lean 4 theorems (closed forms, sky outside the convolution via the DC theorem, prior entries) + model-site correspondence on real fitters",
   design="7/C16"),
 "C11": dict(
   text=("Proof over ℝ for every loc, every scale > 0 and every bound: the object the Gaussian helper installs has the textbook normal log-density in the "
         "parameter's own units; the uniform helper −log(high−low); the truncated helper the normal density renormalised by Φ((high−loc)/scale) − "
         "Φ((low−loc)/scale) (Φ abstract; one-sided cases included); the supports in the parameter's units are exactly [low, high], (low, ∞), (−∞, high); "
         "outside them the log-density is −∞ — under the obligation, regenerated from the source, that the bounded helpers hand the base support to the "
         "affine transform and validate arguments (false on the original tree: genuine defect, fixed); the exposed value is loc + scale·base and the plain "
         "log-density at it equals the base log-density minus log scale, so a whole reparameterised prior differs from the plain one by the constant Σ log "
         "scale_i. Tie: the real helpers' installed objects (family, loc, scale, rescaled bounds, reparam entry, keys) and log_prob inside and outside the "
         "support vs the Lean model (float64 1e-9). Oracle: scipy norm/uniform/truncnorm at the float32-rounded point (1e-2), 10⁴ samples inside the bounds, "
         "exposed value and constant Jacobian through real reparameterised traces."),
   note=NOTE + "C11: known finding recorded (numpyro's float32 TruncatedNormal normaliser cancels for two-sided windows more than 4.5σ above loc).",
   technique="Lean 4 real-analysis theorems (affine change of variables, supports, constant Jacobian) + regenerated structural fact as obligation + installed-object correspondence + scipy oracle",
   design="7/C11"),
 "C12": dict(
   text=("Proof, partial. Proved on the model of generate_prior / PySersicMultiPrior with all constants regenerated from the source: the parameter tables of "
         "rendering.py and priors.py list the same types and, per type, the same parameters; for each of the 7 × 3 types, any suffix and any guesses the "
         "prior defines exactly the table's parameters (+suffix) followed by the sky parameters, without duplicates (so check_vars holds); every r_eff "
         "prior is a normal truncated below at the regenerated bound with support (0.5, ∞) for every positive scale; the regenerated bounds are the "
         "physical ones (ellip [0,0.9], n [0.65,8], θ [0,2π], fractions [0,1], position σ = 1) and uniform priors expose values inside their bounds; the "
         "position prior is Normal(xc_guess,1)/Normal(yc_guess,1), x first; scales are positive given r_eff_guess > 0 and flux > 0 (and degenerate "
         "otherwise — hypothesis shown necessary); multi-source priors name source i's parameters p_i+suffix for its own catalogue type, in order, sky "
         "last without suffix. Not proved (external library): everything photutils measures — observed by the oracle (centre within 0.25 px at S/N ≥ 100, "
         "finite hyper-parameters on noisy / negative / pure-noise images, prior draws in range rendering to finite images). Tie: real setters + "
         "generate_prior and PySersicMultiPrior (dict / DataFrame / recarray, with and without theta) vs the model entries."),
   note=NOTE + "C12: genuine defect found and fixed (record-array catalogues without theta column raised ValueError).",
   technique="Lean 4 theorems (decidable table facts, completeness by cases over the 7 types, support lemmas) on regenerated constants + entry-wise prior correspondence + photutils oracle",
   design="7/C12"),
 "C05": dict(
   text=("Proof (ℝ) on the model of FitSingle/FitMulti.build_model: the joint log-density is exactly the sum of one prior term per prior entry (unit-scale "
         "base under TransformReparam), the loss's own nuisance priors and the per-pixel likelihood of the unmasked pixels — nothing else; in the user-facing "
         "parameters x_i = loc_i + scale_i·z_i it equals Σ log prior_i(x_i) + log-likelihood(render(x)+sky(x)) + the constant Σ log scale_i (induction over "
         "the entries with the C11 Jacobian lemma), i.e. the posterior over the user-facing parameters is prior × likelihood; the likelihood depends on the "
         "latents only through the exposed dictionary, each entry exposed under its own name; rms enters as σ (C07), masked pixels drop out (C06); the latent "
         "sites are exactly name_base for the prior's entries followed by the loss's nuisance latents, there is exactly one likelihood site, the model image is "
         "recorded under model+suffix; suffix stripping is the identity for the empty suffix, a decidable predicate states for which suffixes it recovers all "
         "parameter names (safe: _a, _7, _F444W, _Band_0; counter-example _e). Tie: real handlers.trace of build_model() with substituted latents over "
         "profiles/catalogues × skies × ten losses × three renderers × suffixes × masks: site set (names, kinds) exact; per-entry base log-density and exposed "
         "value; per-pixel likelihood recomputed by the Lean loss model from the real model image; nuisance priors; total vs numpyro log_density. Oracle: "
         "independent scipy recomputation per latent site and per observed pixel from the real renderer output + closed-form sky (1e-4 abs + 1e-5 rel)."),
   note=NOTE + "C05: numpyro handler semantics assumed and validated per site; the rendered image is taken from the real renderer (render layer tied separately).",
   technique="Lean 4 theorems (factorisation of the joint density, change of variables by induction over entries, site-list lemmas) + full trace correspondence (sites, prior terms, likelihood terms, total) + scipy oracle",
   design="7/C05"),
 "C13": dict(
   text=("Proof, partial. Proved on the purge chain of find_MAP translated from the source (if 'Loss' in key: skip / elif key == 'model': raw / elif not "
         "(base|auto|unwrapped|factor|loss in key): rounded), the regenerated parameter tables and the fitter site model: for all 7 × 3 × 10 (profile, sky, loss) "
         "configurations, with and without the model image, the returned key list is exactly the profile's parameters, the sky parameters, 'model' and the "
         "loss's exposed nuisance quantities (kernel-evaluated over the whole finite table); every unit-scale internal site p_base is removed for every "
         "parameter name p (string lemma, unbounded); 'model' is stored raw and scalars rounded (observation proved as an example: with a non-empty suffix "
         "'model_a' misses the equality test and is rounded like a scalar); the multi-source regrouping puts under source_i exactly the parameters of source "
         "i's catalogue type and leaves sky/nuisance/model at top level (all pairs of types); the returned image and parameters come from one conditioned "
         "trace, so image = render(returned parameters) + sky (C05), and the point is the first lowest-loss state of the last round (C14). Not proved "
         "(optimisation quality, outside any model): logp(MAP) ≥ logp(truth) − 0.5, ±2 % single-parameter moves, bitwise repeatability — observed on full-length "
         "real fits of synthetic images. Tie: the real find_MAP (optimiser shortened) over profile / sky / loss / renderer configurations, single and multi: "
         "the real trace's site names filtered and regrouped by the Lean model vs the returned dictionary; returned image vs re-render of the returned "
         "parameters (1e-3 of the peak). Where the guide starts (init_to_median) and the rounding are regenerated facts."),
   note=NOTE + "C13: Adam/ELBO/jit not modelled; optimisation-quality clauses are observations. FitMulti.find_MAP regrouping ignores prior.suffix (observation; the property's multi-source clause is un-suffixed).",
   technique="Lean 4 theorems (kernel-decided key sets over all configurations on a purge chain translated from source; string lemma for *_base; regroup partition) + structural correspondence with the real find_MAP + real-fit oracle",
   design="7/C13"),
 "C15": dict(
   text=("Proof for the link functions, ranges, relabelling and site structure: over ℝ the logistic restriction keeps every linked value inside [low, hi] for "
         "every input (strictly inside for low < hi), a polynomially linked parameter with a range stays inside it for all coefficients and wavelengths, a "
         "spline-linked value (row of non-negative weights summing to one applied to weights in [low, hi]) stays inside [low, hi]; the default-range rules "
         "regenerated from multiband.py, in source order, give [0.65, 8] to exactly the Sersic indices, [0, 0.9] to the ellipticities, [0, 2π] to theta and "
         "nothing to the other parameters (whole single-source table and multi-source names p_j, j ≤ 5, kernel-evaluated); relabelling with an empty old "
         "suffix appends _band, is injective in the key and, on the parameter tables, (parameter, band) ↦ key is injective for the band names tried "
         "(collision examples for bands beginning with a parameter tail are proved); site structure on concrete configurations: one shared latent per "
         "constant parameter whatever the number of bands, one independent latent per (unlinked parameter, band), deterministic per-band values for linked "
         "parameters, one likelihood site per band. Tie: real FitMultiBandPoly / FitMultiBandBSpline (2–6 bands, single and multi-source band fitters, "
         "random partitions, orders 0–4, adversarial band names, coefficients ×50): site list of build_model() exact; linked values from the real link "
         "latents vs the Lean polyLink / dot (float64 1e-9); default ranges; relabelled keys and unchanged distribution parameters; design-matrix rows "
         "convex. Oracle: values inside range, constant parameters single-site, independent unlinked latents, joint = Σ site log-densities."),
   note=NOTE + "C15: scipy design matrices and the prior-sample mean/scale enter as data; jnp.clip keyword shim for the spline constructor under the pinned JAX; the joint density per band is the C05 model with suffix _band.",
   technique="Lean 4 theorems (logistic/convex-combination bounds, kernel-decided range and relabelling tables on regenerated rules, site lists) + multi-band trace correspondence + structural oracle",
   design="7/C15"),
 "C02": dict(
   text=("Proof, partial. Proved over ℝ about the code-level kernels: the analytic profile is a function of the elliptical radius z alone, strictly "
         "decreasing in z (positive flux, b_n, n > 0); z = 0 exactly at (X, Y) = (xc, yc) with X the column and Y the row, so the isophotes are nested "
         "ellipses centred there; t·r_eff along u(θ) = (−sin θ, cos θ) — the +y axis rotated towards −x by θ — reaches z = |t| and t·(1−ellip)·r_eff along the "
         "perpendicular reaches z = |t|: r_eff is the semi-major axis of the z = 1 isophote, 1−ellip the axis ratio, θ the position angle from +y towards −x, "
         "defined modulo π (u(θ+π) = −u(θ)); point symmetry about the centre; each real-space Gaussian component is a function of the same z (σ = r_eff·s, "
         "q = 1−ellip), the Fourier-space components apply the same rotation to the frequency vector with phase −2π(fx·xc + fy·yc): one convention across "
         "the three paths; hybrid broadening σ_obs² = σ² + σ_p², (q_obs σ_obs)² = q²σ² + σ_p². Not proved: that z = 1 encloses half of the light (b_n approximate: "
         "observed 0.489…0.497 within 0.50 ± 0.02) and every moment-based clause on discretised PSF-convolved images — observed with the property's "
         "tolerances against an independent float64 reference renderer (exact b_n, pixel integration with recursive cusp refinement, spatial convolution), "
         "plus absolute checks of centre and angle. Tie: render correspondence on elongated sources."),
   note=NOTE + "C02: moments are Gaussian-weighted with adaptive centre; the automatic theta / position guesses are compared with the rendered convention on dedicated scenes. Known findings recorded (ellip >= 0.75 with n >= 3.5, Fourier/hybrid: axis ratio up to +6.8% against 5%, squared size 8.1% against 8%).",
   technique="Lean 4 theorems (trigonometric identities on the elliptical radius, monotonicity via rpow/exp, broadening algebra) + render correspondence + moment oracle vs independent reference renderer",
   design="7/C02"),
 "C04": dict(
   text=("Proof, partial. Proved over ℝ: the analytic profile equals flux/(r_eff²(1−ellip))·S_n(z) and the Gaussian mixture (amps = flux·A_k, σ_k = r_eff·s_k, "
         "q = 1−ellip) equals flux/(r_eff²(1−ellip))·M(z) with the SAME elliptical radius z, so mixture/analytic depends on (n, z) only — for every centre, "
         "angle, ellipticity, flux and radius: the 7-parameter approximation-error claim is reduced to a 2-parameter surface, which the residual scans; the "
         "real-space components of the hybrid renderer are the intrinsic Gaussians exactly broadened by a round Gaussian (C02); hybrid with "
         "num_pixel_render = 0 is identical to Fourier (C20). Not proved: every quantitative bound — observed with the property's tolerances against the "
         "independent float64 reference (12 %/10 %, 18 %/15 %, 2 %/2 %), hybrid vs Fourier 6e-3 for Gaussian PSFs near the image centre, amplitude table vs "
         "direct decomposition at the tabulated indices 1e-3 (measured 2e-14, float64). Tie: render correspondence + the Lean model of the Shajib "
         "decomposition vs the real sersic_gauss_decomp at random (n, r_eff, flux)."),
   note=NOTE + "C04: interpax interpolation enters as data; the reference renderer is independent of both the code and the Lean model. Known finding recorded (pixel renderer: sub-pixel minor axis reaching outside the oversampled box, the C01 design limit seen through the image comparison).",
   technique="Lean 4 theorems (factorisation of both profiles through the same elliptical radius; reduction to an (n, z) surface) + render/decomposition correspondence + numerical residual vs independent reference",
   design="7/C04"),
 "C10": dict(
   text=("Proof, partial (what ℝ can carry). Proved on the support defined by the REGENERATED prior bounds (r_eff ≥ 0.5, 0 ≤ ellip ≤ 0.9, 0.65 ≤ n ≤ 8): r_eff, "
         "1−ellip, n > 0; b_n > 0 for the regenerated coefficients; Γ(2n) > 0; the amplitude denominator positive; the radicand of z non-negative; the "
         "arguments of the σ-grid logarithms positive; every mixture width positive; broadened widths positive and axis-ratio radicands non-negative; z = 0 "
         "only at (X, Y) = (xc, yc); the radial law is differentiable at every z > 0 with derivative −(b/n)·z^{1/n−1}·exp(…), whose factor equals ε^{1−n} at "
         "z = ε^n (unbounded as z → 0⁺ for n > 1): the only candidates for singular gradients are pixel evaluations exactly on the source centre; the "
         "Gaussian kernels are differentiable everywhere. Not provable over ℝ (runtime): float32 overflow/underflow at the corners of the support and reverse-mode "
         "0·∞ — searched by the oracle: value and gradient of random functionals of the image, eager and jit, float32, all renderers and profile types, lattice "
         "(integers, half-integers, corners, up to 20 px off-frame) × corners of the support. The theorem told the search where to look; the defect it found "
         "(NaN gradients with the centre on a pixel centre) is fixed. Tie: render correspondence on lattice positions with NaN patterns compared."),
   note=NOTE + "C10: IEEE semantics are opaque to the kernel; this is why the claim is partial.",
   technique="Lean 4 theorems (positivity on the regenerated support, differentiability and singular factor of the radial law) + lattice render correspondence + value/gradient finiteness oracle",
   design="7/C10"),
}

checks, na = [], []
for p in props:
    pid = p["id"]
    if pid in CLAIMS:
        c = CLAIMS[pid]
        checks.append(dict(
            property_id=pid,
            quick_cmd=f"./check {pid} --tier quick",
            thorough_cmd=f"./check {pid} --tier thorough",
            evidence_file=f"evidence/{pid}.json",
            replay_cmd_template=f"./check {pid} --replay {{path}}",
            engine="lean-proof+correspondence",
            level_claimed=dict(category="proof", text=c["text"], design_ref=f"DESIGN.md section {c['design']}"),
            level_note=c["note"],
            technique=c["technique"],
        ))
    else:
        na.append(dict(property_id=pid, reason="check not built yet in this revision (planned as Lean proof + correspondence, see DESIGN.md section 7); not claimed until its check exists"))

m = dict(
    version=1,
    setup_cmd="./setup.sh",
    hooks=dict(guard="PYSERSIC_VERIF", enable="no source hooks: all observation points are reachable from outside (scripted SVI stand-in, numpyro traces, monkey-patching from the harness)",
               baseline_off_cmd="cd /repo && /venv/bin/python -m pytest -ra -q -p no:cacheprovider --timeout=900 --continue-on-collection-errors",
               source_commits=[], add_only=True),
    engines=[dict(name="lean-proof+correspondence", path="check", serves_properties=[c["property_id"] for c in checks],
                  kind_free_text="Lean 4 model + theorems (lean/), constants regenerated from /repo (tools/extract.py), compiled model driver compared with the real code in-process (harness/), property oracle for failing-input search")],
    checks=checks,
    notes="fix: commits in /repo are listed in known_findings.json under 'fixed'.",
    not_applicable=na,
)
(VERIF / "MANIFEST.json").write_text(json.dumps(m, indent=1))
print(f"{len(checks)} checks, {len(na)} not yet claimed")
