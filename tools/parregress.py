#!/venv/bin/python
"""Parallel regression over kept seeded changes (development tool; registered checks never use it).

Each change is checked in isolation: its own scratch worktree of /repo with the patch applied (PYSERSIC_REPO), its own copy
of the Lean tree (VERIF_LEAN_DIR — the generated files are regenerated from the changed tree there) and its own output
directory (VERIF_OUT_DIR), so /repo, /verif/lean and /verif/evidence are never touched and several run at once.  Everything
under the scratch root is removed as soon as a change has been judged.  Outcomes go to seeded/REGRESSION.json in the same
format as tools/seedregress.py.

usage: tools/parregress.py [-j N] [--dir DIR:PROP …] [PROP-i …]      (default: every kept change, 4 at a time)
       --dir DIR:PROP:NAME checks an unkept change (DIR/mutK.diff … not yet in seeded/): give patch path instead:
       tools/parregress.py --patch /tmp/wt3_C07/mut1.diff:C07:C07-r3-1 …   (results to --out FILE instead of REGRESSION.json)
"""
from __future__ import annotations

import argparse
import json
import os
import shutil
import subprocess
import sys
import time
from concurrent.futures import ThreadPoolExecutor
from pathlib import Path

VERIF = Path(__file__).resolve().parent.parent
REPO = Path("/repo")
ROOT = Path("/tmp/par")


def sh(cmd, cwd=None, env=None, timeout=3600):
    p = subprocess.run(cmd, cwd=cwd, env=env, capture_output=True, text=True, timeout=timeout)
    return p.returncode, p.stdout + p.stderr


def one(name, prop, patch, head, workers):
    base = ROOT / name
    if base.exists():
        sh(["git", "-C", str(REPO), "worktree", "remove", "--force", str(base / "repo")])
        shutil.rmtree(base, ignore_errors=True)
    base.mkdir(parents=True)
    wt = base / "repo"
    t0 = time.time()
    try:
        rc, out = sh(["git", "-C", str(REPO), "worktree", "add", "--detach", str(wt), "HEAD"])
        if rc != 0:
            return name, dict(repo_head=head, outcome="infra-worktree", detail=out[-300:])
        rc, out = sh(["git", "apply", str(patch)], cwd=wt)
        if rc != 0:
            return name, dict(repo_head=head, outcome="patch-does-not-apply", detail=out.strip()[-200:])
        sh(["rsync", "-a", str(VERIF / "lean") + "/", str(base / "lean") + "/"])
        env = dict(os.environ, PYSERSIC_REPO=str(wt), VERIF_LEAN_DIR=str(base / "lean"), VERIF_OUT_DIR=str(base / "out"),
                   VERIF_WORKERS=str(workers))
        rc, out = sh([str(VERIF / "check"), prop, "--tier", "quick"], cwd=VERIF, env=env, timeout=3000)
        lines = [l for l in out.splitlines() if l.startswith(("VIOLATION", "OK ", "INFRA", "  failing input", "  no longer checks"))]
        vio = [l for l in lines if l.startswith("VIOLATION")]
        outcome = ("caught-with-failing-input" if vio and "no-failing-input-found" not in vio[0] else
                   "caught-no-failing-input" if vio else "MISSED" if rc == 0 else f"infra-rc{rc}")
        res = dict(repo_head=head, outcome=outcome, wall_s=round(time.time() - t0), lines=lines[:3])
        if outcome.startswith("infra"):
            res["tail"] = out[-600:]
        return name, res
    except subprocess.TimeoutExpired:
        return name, dict(repo_head=head, outcome="infra-timeout", wall_s=round(time.time() - t0))
    finally:
        sh(["git", "-C", str(REPO), "worktree", "remove", "--force", str(wt)])
        shutil.rmtree(base, ignore_errors=True)


def main():
    ap = argparse.ArgumentParser()
    ap.add_argument("-j", type=int, default=4)
    ap.add_argument("--patch", action="append", default=[], help="PATH:PROP:NAME of a change not (yet) kept under seeded/")
    ap.add_argument("--out", default=None)
    ap.add_argument("names", nargs="*")
    a = ap.parse_args()
    head = sh(["git", "log", "--format=%h", "-1"], cwd=REPO)[1].strip()
    jobs = []
    if a.patch:
        for spec in a.patch:
            path, prop, name = spec.split(":")
            jobs.append((name, prop, Path(path)))
    else:
        want = set(a.names)
        for d in sorted(x for x in (VERIF / "seeded").iterdir() if x.is_dir() and (x / "patch.diff").exists() and (not want or x.name in want)):
            jobs.append((d.name, d.name.split("-")[0], d / "patch.diff"))
    res_file = Path(a.out) if a.out else VERIF / "seeded" / "REGRESSION.json"
    results = json.loads(res_file.read_text()) if res_file.exists() else {}
    workers = max(2, (os.cpu_count() or 8) // max(1, a.j))
    ROOT.mkdir(exist_ok=True)
    with ThreadPoolExecutor(max_workers=a.j) as ex:
        futs = [ex.submit(one, n, p, pa, head, workers) for n, p, pa in jobs]
        for f in futs:
            name, r = f.result()
            results[name] = r
            print(name, r["outcome"], f"{r.get('wall_s', 0)}s", flush=True)
            res_file.write_text(json.dumps(results, indent=1, sort_keys=True))
    return 0


if __name__ == "__main__":
    sys.exit(main())
