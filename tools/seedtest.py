#!/venv/bin/python
"""Confirm a seeded change and run the checks against it.

usage: tools/seedtest.py confirm <worktree> <i> [--full]   # demo passes clean / fails mutated; existing tests still pass
       tools/seedtest.py detect  <worktree> <i> <PROP> [<PROP>…]   # apply to /repo, run ./check quick, undo

Results are appended to <worktree>/seedtest_<i>.json.  Nothing is ever committed to /repo.
"""
from __future__ import annotations

import json
import os
import subprocess
import sys
import time
from pathlib import Path

VERIF = Path(__file__).resolve().parent.parent
REPO = Path("/repo")
PY = "/venv/bin/python"
KNOWN_FAIL = ["test_FitSingle_posterior", "test_FitMulti_posterior", "test_FitSingle_sample", "test_FitMulti_sample",
              "test_multiband", "test_PySersicMultiPrior", "test_PySersicSourcePrior"]


def sh(cmd, cwd=None, env=None, timeout=3600):
    p = subprocess.run(cmd, cwd=cwd, env=env, capture_output=True, text=True, timeout=timeout)
    return p.returncode, (p.stdout + p.stderr)


def envfor(tree):
    e = dict(os.environ)
    e["PYTHONPATH"] = str(tree)
    e["JAX_PLATFORMS"] = "cpu"
    e["TQDM_DISABLE"] = "1"
    return e


def load(wt, i):
    f = Path(wt) / f"seedtest_{i}.json"
    return json.loads(f.read_text()) if f.exists() else {}


def save(wt, i, d):
    (Path(wt) / f"seedtest_{i}.json").write_text(json.dumps(d, indent=1))


def confirm(wt, i, full):
    wt = Path(wt)
    res = load(wt, i)
    sh(["git", "checkout", "--", "pysersic"], cwd=wt)
    rc0, out0 = sh([PY, f"demo{i}.py"], cwd=wt, env=envfor(wt), timeout=1800)
    rc, out = sh(["git", "apply", f"mut{i}.diff"], cwd=wt)
    if rc != 0:
        res["confirm"] = dict(ok=False, why="diff does not apply: " + out[-300:])
        save(wt, i, res)
        return res
    try:
        rc1, out1 = sh([PY, f"demo{i}.py"], cwd=wt, env=envfor(wt), timeout=1800)
        _, where = sh([PY, "-c", "import pysersic; print(pysersic.__file__)"], cwd="/", env=envfor(wt))
        files = ["tests/test_loss.py", "tests/test_priors.py", "tests/test_renderers.py"]
        if full:
            files += ["tests/test_fitters.py"]
        deselect = " and ".join(f"not {k}" for k in KNOWN_FAIL)
        procs = [subprocess.Popen([PY, "-m", "pytest", "-q", "-p", "no:cacheprovider", "-x", "--timeout=1800", f, "-k", deselect],
                                  cwd=wt, env=envfor(wt), stdout=subprocess.PIPE, stderr=subprocess.STDOUT, text=True) for f in files]
        touts = []
        ok_tests = True
        for f, p in zip(files, procs):
            o, _ = p.communicate(timeout=3600)
            tail = o.strip().splitlines()[-1] if o.strip() else ""
            touts.append(f"{f}: rc={p.returncode} {tail}")
            ok_tests &= p.returncode == 0
    finally:
        sh(["git", "checkout", "--", "pysersic"], cwd=wt)
    res["confirm"] = dict(ok=(rc0 == 0 and rc1 != 0 and ok_tests), demo_clean_rc=rc0, demo_mutated_rc=rc1,
                          demo_mutated_tail=out1.strip()[-400:], imported_from=where.strip()[-80:], tests=touts, full=full)
    save(wt, i, res)
    return res


def detect(wt, i, props):
    wt = Path(wt)
    res = load(wt, i)
    rc, out = sh(["git", "status", "--porcelain", "--untracked-files=no"], cwd=REPO)
    if out.strip():
        print("refusing: /repo has local modifications")
        sys.exit(2)
    rc, out = sh(["git", "apply", str(wt / f"mut{i}.diff")], cwd=REPO)
    if rc != 0:
        print("diff does not apply to /repo:", out[-300:])
        sys.exit(2)
    det = res.setdefault("detect", {})
    try:
        for prop in props:
            t0 = time.time()
            rc, out = sh([str(VERIF / "check"), prop, "--tier", "quick"], cwd=VERIF, timeout=3600)
            lines = [l for l in out.splitlines() if l.startswith(("VIOLATION", "OK ", "KNOWN-FINDING", "INFRA", "  failing input", "  no longer checks"))]
            det[prop] = dict(rc=rc, wall_s=round(time.time() - t0), lines=lines[:8])
    finally:
        sh(["git", "checkout", "--", "."], cwd=REPO)
    save(wt, i, res)
    return res


if __name__ == "__main__":
    cmd = sys.argv[1]
    if cmd == "confirm":
        r = confirm(sys.argv[2], int(sys.argv[3]), "--full" in sys.argv)
        print(json.dumps(r.get("confirm"), indent=1))
    elif cmd == "detect":
        r = detect(sys.argv[2], int(sys.argv[3]), sys.argv[4:])
        print(json.dumps(r.get("detect"), indent=1))
