"""Tie 1, third part: translate an imperative routine of /repo into a Lean program.

`tools/translate.py` handles straight-line formulas.  This translator handles *control flow*: it reads
`train_numpyro_svi_early_stop` (pysersic/pysersic.py) with `ast` and prints it, statement by statement, as a term of the
shallow imperative embedding `PysersicModel/Imp.lean` (statements are state transformers that may signal `break`; `for … in
range(…)` is bounded iteration), into lean/PysersicModel/Gen/EarlyStopProg.lean.  `lean/Proofs/GenEarlyStop.lean` proves, for
every loss history and every configuration, that the translated program returns exactly what the hand-written model
`EarlyStop.run` returns — so the C14 theorems (which are about that model) are re-checked against what the source says now.

What the translation does, and nothing more:
  local variables              → fields of a generated structure `St` (type inferred from what is assigned: state identity,
                                 loss, natural number, learning-rate exponent, list of losses, list of lists)
  `a, b = update_func(x, svi_class, lr)` → `update`: the k-th call returns loss `script k` and the state with identity k+1, and
                                 records (learning-rate exponent, identity of x); `svi_class.init(rkey)` is the state 0
  learning rates               → only their exponent e in `lr_init * frac_lr_decrease ** e` is kept (`lr_init` ↦ 0)
  `x = e`, `x += e`, `xs.append(e)` → `assign`;   `if / elif / else` → `ite`;   `break` → `brk`
  `for v in range(a, b)` (also through `with tqdm.trange(a, b) as t: for v in t`) → `loop` with `b - a` iterations from a
  `<`, `>`, `<=`, `>=` on losses → IEEE comparisons (`Loss.lt`, `Loss.le`: false when a NaN is involved); on naturals → `decide`
  `jnp.isnan(x)` → `x == Loss.nan`;  `jnp.inf` → `Loss.pinf`;  `copy.copy(x)` → `x`;  `[]` → `[]`
  a call whose value is not used (`t.set_postfix_str(…)`) → `skip`
  `return SVIRunResult(svi_class.get_params(a), b, c)` → the result ⟨a, b, c, number of calls⟩; a returned variable that is
                                 not definitely assigned where it is read gets a `bound_<x>` flag (unset ⇒ `none` = NameError)
Statements that set up the abstracted SVI object (the optimiser, `__setattr__`, the jitted `update_func` closure — whose body
is checked to be "set the optimiser, `stable_update`, return state and loss") are listed in the report as abstracted.
Anything else raises `Miss`: the committed text (tools/prog_fallback.lean) is kept and the miss recorded — never a verdict.
"""
from __future__ import annotations

import ast
import hashlib
import json
import os
import sys
import warnings
from pathlib import Path

warnings.filterwarnings("ignore", category=SyntaxWarning)
VERIF = Path(__file__).resolve().parent.parent
REPO = Path(os.environ.get("PYSERSIC_REPO", "/repo"))
LEAN_DIR = Path(os.environ.get("VERIF_LEAN_DIR", str(VERIF / "lean")))
OUT = LEAN_DIR / "PysersicModel" / "Gen" / "EarlyStopProg.lean"
FALLBACK = VERIF / "tools" / "prog_fallback.lean"
REPORT = LEAN_DIR / ".lake" / "gen_prog_report.json"
FUNC = "train_numpyro_svi_early_stop"


class Miss(Exception):
    pass


NAT_PARAMS = ("num_round", "max_train", "patience")
PROOF_VOCABULARY = {"best_state", "best_loss", "svi_state", "losses", "wait_counter", "lr_cur", "r", "j", "loss"}
LEAN_TYPE = dict(state="Nat", loss="Loss", nat="Nat", lr="Nat", list_loss="List Loss", list_list_loss="List (List Loss)", bool="Bool")
LEAN_DEFAULT = dict(state="0", loss=".nan", nat="0", lr="0", list_loss="[]", list_list_loss="[]", bool="false")


def seg(node):
    return ast.unparse(node)


class Translator:
    def __init__(self, fn: ast.FunctionDef):
        self.fn = fn
        self.params = [a.arg for a in fn.args.args]
        if not self.params or any(p not in self.params for p in NAT_PARAMS + ("lr_init", "frac_lr_decrease")):
            raise Miss("signature of " + FUNC)
        self.svi = self.params[0]
        self.types: dict[str, str] = {}          # local variable -> kind
        self.order: list[str] = []               # first-assignment order
        self.update_name = None                  # name of the nested update closure
        self.range_alias: dict[str, tuple] = {}  # `with tqdm.trange(a, b) as t` -> t: (a, b)
        self.abstracted: list[str] = []
        self.bound: set[str] = set()             # variables needing a bound_ flag
        self.loops = 0
        self.defs: list[str] = []                # emitted loop-body definitions
        self.list_elem: dict[str, str] = {}

    # ------------------------------------------------------------------ types
    def declare(self, name, kind):
        if name in self.params:
            raise Miss(f"assignment to parameter {name}")
        old = self.types.get(name)
        if old is None:
            self.types[name] = kind
            self.order.append(name)
        elif old != kind:
            if {old, kind} == {"nat", "lr"}:
                raise Miss(f"{name} is used both as a number and as a learning rate")
            raise Miss(f"{name} changes type ({old} → {kind})")

    def prepass(self):
        """element types of lists, from their `.append(x)` calls (needs the types of x: two sweeps)"""
        for _ in range(3):
            for node in ast.walk(self.fn):
                if isinstance(node, ast.Assign) and len(node.targets) == 1 and isinstance(node.targets[0], ast.Tuple) \
                        and isinstance(node.value, ast.Call) and isinstance(node.value.func, ast.Name) and node.value.func.id == self.update_name:
                    a, b = node.targets[0].elts
                    self.pre_types[a.id], self.pre_types[b.id] = "state", "loss"
                if isinstance(node, ast.Expr) and isinstance(node.value, ast.Call) and isinstance(node.value.func, ast.Attribute) \
                        and node.value.func.attr == "append" and isinstance(node.value.func.value, ast.Name) and len(node.value.args) == 1:
                    arg = node.value.args[0]
                    if isinstance(arg, ast.Name) and arg.id in self.pre_types:
                        k = self.pre_types[arg.id]
                        lk = {"loss": "list_loss", "list_loss": "list_list_loss"}.get(k)
                        if lk:
                            self.pre_types[node.value.func.value.id] = lk

    # ------------------------------------------------------------------ expressions
    def nat(self, e) -> str:
        if isinstance(e, ast.Constant) and isinstance(e.value, int) and not isinstance(e.value, bool) and e.value >= 0:
            return str(e.value)
        if isinstance(e, ast.Name):
            if e.id in NAT_PARAMS:
                return f"P.{e.id}"
            if self.types.get(e.id) == "nat":
                return f"s.{e.id}"
            raise Miss(f"{e.id} is not a natural-number variable")
        if isinstance(e, ast.BinOp) and isinstance(e.op, (ast.Add, ast.Sub, ast.Mult)):
            op = {ast.Add: "+", ast.Sub: "-", ast.Mult: "*"}[type(e.op)]
            return f"({self.nat(e.left)} {op} {self.nat(e.right)})"
        raise Miss(f"natural-number expression {seg(e)}")

    def decay(self, e):
        """exponent of a pure power of frac_lr_decrease, or None"""
        if isinstance(e, ast.Name) and e.id == "frac_lr_decrease":
            return "1"
        if isinstance(e, ast.BinOp) and isinstance(e.op, ast.Pow) and isinstance(e.left, ast.Name) and e.left.id == "frac_lr_decrease":
            return self.nat(e.right)
        return None

    def lr(self, e) -> str:
        if isinstance(e, ast.IfExp):
            return f"(if {self.cond(e.test)} then {self.lr(e.body)} else {self.lr(e.orelse)})"
        if isinstance(e, ast.Name):
            if e.id == "lr_init":
                return "0"
            if self.types.get(e.id) == "lr":
                return f"s.{e.id}"
        if isinstance(e, ast.BinOp) and isinstance(e.op, ast.Mult):
            for base, other in ((e.left, e.right), (e.right, e.left)):
                d = self.decay(other)
                if d is not None:
                    try:
                        b = self.lr(base)
                    except Miss:
                        continue
                    return d if b == "0" else f"({b} + {d})"
        raise Miss(f"learning-rate expression {seg(e)}")

    def is_inf(self, e):
        return seg(e) in ("jnp.inf", "np.inf", "numpy.inf", "math.inf", "float('inf')", 'float("inf")')

    def kind_of(self, e) -> str:
        if isinstance(e, ast.IfExp):
            a, b = self.kind_of(e.body), self.kind_of(e.orelse)
            if a != b:
                raise Miss(f"conditional expression of two kinds ({a}, {b})")
            return a
        if isinstance(e, (ast.Compare, ast.BoolOp)) or (isinstance(e, ast.UnaryOp) and isinstance(e.op, ast.Not)) \
                or (isinstance(e, ast.Call) and seg(e.func) in ("jnp.isnan", "np.isnan", "math.isnan")):
            return "bool"
        if isinstance(e, ast.Name):
            if e.id in NAT_PARAMS:
                return "nat"
            if e.id == "lr_init":
                return "lr"
            if e.id in self.types:
                return self.types[e.id]
            raise Miss(f"unknown name {e.id}")
        if self.is_inf(e) or (isinstance(e, ast.UnaryOp) and isinstance(e.op, ast.USub) and self.is_inf(e.operand)):
            return "loss"
        if isinstance(e, ast.Constant) and isinstance(e.value, int):
            return "nat"
        if isinstance(e, ast.Call) and seg(e.func) in ("copy.copy", "copy.deepcopy") and len(e.args) == 1:
            return self.kind_of(e.args[0])
        if isinstance(e, ast.BinOp):
            try:
                self.lr(e)
                return "lr"
            except Miss:
                self.nat(e)
                return "nat"
        raise Miss(f"expression {seg(e)}")

    def expr(self, e, kind) -> str:
        if isinstance(e, ast.IfExp) and kind != "lr":
            return f"(if {self.cond(e.test)} then {self.expr(e.body, kind)} else {self.expr(e.orelse, kind)})"
        if kind == "bool":
            return self.cond(e)
        if kind == "nat":
            return self.nat(e)
        if kind == "lr":
            return self.lr(e)
        if isinstance(e, ast.Call) and seg(e.func) in ("copy.copy", "copy.deepcopy") and len(e.args) == 1:
            return self.expr(e.args[0], kind)
        if kind == "loss":
            if self.is_inf(e):
                return "Loss.pinf"
            if isinstance(e, ast.UnaryOp) and isinstance(e.op, ast.USub) and self.is_inf(e.operand):
                return "Loss.ninf"
            if seg(e) in ("jnp.nan", "np.nan", "float('nan')"):
                return "Loss.nan"
        if isinstance(e, ast.Name) and self.types.get(e.id) == kind:
            return f"s.{e.id}"
        if kind.startswith("list") and isinstance(e, ast.List) and not e.elts:
            return "[]"
        raise Miss(f"{kind} expression {seg(e)}")

    def cond(self, e) -> str:
        if isinstance(e, ast.Name) and self.types.get(e.id) == "bool":
            return f"s.{e.id}"
        if isinstance(e, ast.BoolOp):
            op = " && " if isinstance(e.op, ast.And) else " || "
            return "(" + op.join(self.cond(v) for v in e.values) + ")"
        if isinstance(e, ast.UnaryOp) and isinstance(e.op, ast.Not):
            return f"(!{self.cond(e.operand)})"
        if isinstance(e, ast.Call) and seg(e.func) in ("jnp.isnan", "np.isnan", "math.isnan") and len(e.args) == 1:
            return f"({self.expr(e.args[0], 'loss')} == Loss.nan)"
        if isinstance(e, ast.Compare) and len(e.ops) == 1:
            a, b, op = e.left, e.comparators[0], e.ops[0]
            ka, kb = self.kind_of(a), self.kind_of(b)
            if ka == kb == "loss":
                x, y = self.expr(a, "loss"), self.expr(b, "loss")
                if isinstance(op, ast.Lt):
                    return f"({x}).lt ({y})"
                if isinstance(op, ast.Gt):
                    return f"({y}).lt ({x})"
                if isinstance(op, ast.LtE):
                    return f"({x}).le ({y})"
                if isinstance(op, ast.GtE):
                    return f"({y}).le ({x})"
            if ka == kb == "nat":
                x, y = self.nat(a), self.nat(b)
                sym = {ast.Lt: "<", ast.Gt: ">", ast.LtE: "≤", ast.GtE: "≥", ast.Eq: "=", ast.NotEq: "≠"}.get(type(op))
                if sym:
                    return f"decide ({x} {sym} {y})"
        raise Miss(f"condition {seg(e)}")

    # ------------------------------------------------------------------ statements
    def upd(self, name, value, binds=True):
        """`binds`: a plain assignment binds the name; `x += e` and `x.append(e)` read it first (they raise on an unbound name)"""
        extra = f", bound_{name} := true" if binds and name in self.bound else ""
        return f"assign fun s => {{ s with {name} := {value}{extra} }}"

    def stmt(self, st) -> str | None:
        """Lean statement text, or None for an abstracted set-up statement"""
        if isinstance(st, ast.Expr) and isinstance(st.value, ast.Constant):
            return None
        if isinstance(st, ast.Break):
            return "brk"
        if isinstance(st, ast.Pass):
            return "skip"
        if isinstance(st, ast.FunctionDef):
            self.check_update_closure(st)
            return None
        if isinstance(st, ast.Assign) and len(st.targets) == 1:
            t, v = st.targets[0], st.value
            if isinstance(t, ast.Attribute) and isinstance(t.value, ast.Name) and t.value.id == self.svi and t.attr == "optim":
                self.abstracted.append(seg(st))          # `svi_class.optim = optimizer(lr)`: same as the __setattr__ form
                return None
            if isinstance(t, ast.Tuple):
                if not (len(t.elts) == 2 and all(isinstance(x, ast.Name) for x in t.elts) and isinstance(v, ast.Call)
                        and isinstance(v.func, ast.Name) and v.func.id == self.update_name and len(v.args) == 3
                        and isinstance(v.args[1], ast.Name) and v.args[1].id == self.svi):
                    raise Miss(f"tuple assignment {seg(st)}")
                a, b = t.elts[0].id, t.elts[1].id
                self.declare(a, "state")
                self.declare(b, "loss")
                arg = self.expr(v.args[0], "state")
                lr = self.lr(v.args[2])
                binds = [f"{a} := st"] + ([f"bound_{a} := true"] if a in self.bound else []) + [f"{b} := l"] \
                    + ([f"bound_{b} := true"] if b in self.bound else [])
                return (f"update script (fun s => {lr}) (fun s => {arg}) fun st l s => {{ s with {', '.join(binds)} }}")
            if isinstance(t, ast.Name):
                src = seg(v)
                if src.startswith(f"{self.svi}.init("):
                    self.declare(t.id, "state")
                    self.abstracted.append(seg(st) + "   [the initial state has identity 0]")
                    return self.upd(t.id, "0")
                if isinstance(v, ast.Call) and isinstance(v.func, ast.Name) and v.func.id == "optimizer":
                    self.abstracted.append(seg(st))
                    return None
                if isinstance(v, ast.List) and not v.elts:
                    kind = self.pre_types.get(t.id)
                    if kind is None:
                        raise Miss(f"list {t.id} is never appended to")
                else:
                    kind = self.kind_of(v)
                self.declare(t.id, kind)
                return self.upd(t.id, self.expr(v, kind))
            raise Miss(f"assignment {seg(st)}")
        if isinstance(st, ast.AugAssign) and isinstance(st.target, ast.Name) and isinstance(st.op, (ast.Add, ast.Sub)):
            if self.types.get(st.target.id) != "nat":
                raise Miss(f"augmented assignment to {st.target.id}")
            op = "+" if isinstance(st.op, ast.Add) else "-"
            return self.upd(st.target.id, f"s.{st.target.id} {op} {self.nat(st.value)}", binds=False)
        if isinstance(st, ast.Expr) and isinstance(st.value, ast.Call):
            c = st.value
            if isinstance(c.func, ast.Attribute) and c.func.attr == "append" and isinstance(c.func.value, ast.Name) and len(c.args) == 1:
                xs = c.func.value.id
                kind = self.types.get(xs)
                if kind not in ("list_loss", "list_list_loss"):
                    raise Miss(f"append to {xs}")
                ek = "loss" if kind == "list_loss" else "list_loss"
                return self.upd(xs, f"s.{xs} ++ [{self.expr(c.args[0], ek)}]", binds=False)
            if isinstance(c.func, ast.Attribute) and c.func.attr == "__setattr__" and isinstance(c.func.value, ast.Name) and c.func.value.id == self.svi:
                self.abstracted.append(seg(st))
                return None
            if isinstance(c.func, ast.Attribute) and isinstance(c.func.value, ast.Name) and c.func.value.id in self.range_alias:
                return "skip"        # progress-bar decoration: no effect on the program's variables
            raise Miss(f"call statement {seg(st)}")
        if isinstance(st, ast.If):
            c = self.cond(st.test)
            t = self.block(st.body)
            e = self.block(st.orelse) if st.orelse else "skip"
            return f"Imp.ite (fun s => {c})\n({t})\n({e})"
        if isinstance(st, ast.With):
            if len(st.items) != 1 or st.items[0].optional_vars is None or not isinstance(st.items[0].optional_vars, ast.Name):
                raise Miss(f"with statement {seg(st.items[0])}")
            ce = st.items[0].context_expr
            if not (isinstance(ce, ast.Call) and seg(ce.func) in ("tqdm.trange", "trange")):
                raise Miss(f"with statement {seg(ce)}")
            self.range_alias[st.items[0].optional_vars.id] = self.range_args(ce)
            return self.block(st.body)
        if isinstance(st, ast.For):
            if st.orelse or not isinstance(st.target, ast.Name):
                raise Miss("for … else / tuple loop variable")
            it = st.iter
            if isinstance(it, ast.Name) and it.id in self.range_alias:
                lo, n = self.range_alias[it.id]
            elif isinstance(it, ast.Call) and seg(it.func) in ("range", "tqdm.trange", "trange"):
                lo, n = self.range_args(it)
            else:
                raise Miss(f"loop over {seg(it)}")
            v = st.target.id
            self.declare(v, "nat")
            name = f"body_{v}"
            if any(d.startswith(f"def {name} ") for d in self.defs):
                raise Miss(f"two loops over {v}")
            body = self.block(st.body)
            self.defs.append(f"def {name} (script : Nat → Loss) (P : Params) : Stmt St :=\n{indent(body, 1)}")
            return f"loop (fun v s => {{ s with {v} := v }}) ({name} script P) {lo} {n}"
        raise Miss(f"statement {seg(st).splitlines()[0]}")

    def range_args(self, call):
        if call.keywords or not 1 <= len(call.args) <= 2:
            raise Miss(f"range arguments {seg(call)}")
        if len(call.args) == 1:
            return "0", f"({self.nat(call.args[0])} - 0)"
        lo = self.nat(call.args[0])
        return lo, f"({self.nat(call.args[1])} - {lo})"

    def block(self, stmts) -> str:
        out = [t for t in (self.stmt(s) for s in stmts) if t is not None]
        if not out:
            return "skip"
        text = out[-1]
        for t in reversed(out[:-1]):
            text = f"seq ({t})\n({text})"
        return text

    def check_update_closure(self, f: ast.FunctionDef):
        """`def update_func(state, svi_class, lr)`: set the optimiser, one `stable_update`, return (state, loss)"""
        names = [a.arg for a in f.args.args]
        body = [s for s in f.body if not (isinstance(s, ast.Expr) and isinstance(s.value, ast.Constant))]
        ok = len(names) == 3 and len(body) in (2, 3)
        if ok:
            first = body[0]
            sets = ((isinstance(first, ast.Expr) and "__setattr__" in seg(first))
                    or (isinstance(first, ast.Assign) and seg(first.targets[0]) == f"{names[1]}.optim"))
            ok = sets and "optimizer(" + names[2] + ")" in seg(first)
        if ok and len(body) == 3:
            ok = (isinstance(body[1], ast.Assign) and seg(body[1].value) == f"{names[1]}.stable_update({names[0]})"
                  and isinstance(body[1].targets[0], ast.Tuple) and isinstance(body[2], ast.Return)
                  and seg(body[2].value).strip("()") == ", ".join(x.id for x in body[1].targets[0].elts))
        elif ok:
            ok = isinstance(body[1], ast.Return) and seg(body[1].value) == f"{names[1]}.stable_update({names[0]})"
        if not ok:
            raise Miss(f"the update closure {f.name} is not `set optimiser; stable_update; return state, loss`")
        self.update_name = f.name
        self.abstracted.append(f"def {f.name}({', '.join(names)}): … stable_update …   [abstracted: k-th call ↦ (state k+1, script k)]")

    # ------------------------------------------------------------------ definite assignment (for the returned reads)
    def definitely(self, stmts, have: set) -> set:
        have = set(have)
        for st in stmts:
            if isinstance(st, ast.Assign):
                for t in st.targets:
                    for n in ([t] if isinstance(t, ast.Name) else list(getattr(t, "elts", []))):
                        if isinstance(n, ast.Name):
                            have.add(n.id)
            elif isinstance(st, ast.If):
                have |= self.definitely(st.body, have) & self.definitely(st.orelse, have)
            elif isinstance(st, ast.With):
                have = self.definitely(st.body, have)
            # a loop body may run zero times: nothing it assigns is definite afterwards
        return have

    # ------------------------------------------------------------------ whole function
    def run(self) -> str:
        body = list(self.fn.body)
        if not isinstance(body[-1], ast.Return):
            raise Miss("the function does not end in a return")
        ret = body[-1].value
        if not (isinstance(ret, ast.Call) and len(ret.args) == 3 and not ret.keywords and seg(ret.func).endswith("SVIRunResult")
                and isinstance(ret.args[0], ast.Call) and seg(ret.args[0].func) == f"{self.svi}.get_params" and len(ret.args[0].args) == 1):
            raise Miss(f"return value {seg(ret)}")
        reads = [ret.args[0].args[0], ret.args[1], ret.args[2]]
        if not all(isinstance(r, ast.Name) for r in reads):
            raise Miss("returned expressions are not plain variables")
        # the nested closure must be known before the prepass
        for st in body:
            if isinstance(st, ast.FunctionDef):
                self.update_name = st.name
        self.pre_types: dict[str, str] = {}
        self.prepass()
        have = self.definitely(body[:-1], set(self.params))
        self.bound = {r.id for r in reads if r.id not in have}
        prog = self.block(body[:-1])
        kinds = [self.types.get(r.id) for r in reads]
        if kinds != ["state", "state", "list_loss"]:
            raise Miss(f"returned variables have kinds {kinds}")
        # the equivalence proof (Proofs/GenEarlyStop.lean) speaks about the routine's variables by name: a renaming is outside
        # what it can follow — keep the committed text (behavioural tie alone) rather than break an obligation for it
        missing = sorted(PROOF_VOCABULARY - set(self.order))
        if missing or not all(n.isidentifier() and not n.startswith("_") for n in self.order):
            raise Miss(f"local variables differ from the proof's vocabulary (missing {missing})")
        if [r.id for r in reads] != ["best_state", "svi_state", "losses"]:
            raise Miss(f"returned variables {[r.id for r in reads]}")
        fields = [f"  {n} : {LEAN_TYPE[self.types[n]]} := {LEAN_DEFAULT[self.types[n]]}" for n in self.order]
        fields += [f"  bound_{n} : Bool := false" for n in sorted(self.bound)]
        guard = " && ".join(f"s.bound_{n}" for n in sorted(self.bound)) or "true"
        L = []
        A = L.append
        A(f"/- GENERATED by tools/translate_prog.py from pysersic/pysersic.py `{FUNC}` — do not edit.")
        A("   Regenerated on every run of ./check; Proofs/GenEarlyStop.lean proves it equal to the model `EarlyStop.run`. -/")
        A("import PysersicModel.Imp")
        A("import PysersicModel.Opt.EarlyStop")
        A("")
        A("namespace Pysersic.Gen.EarlyStopProg")
        A("open Pysersic.EarlyStop Pysersic.Imp")
        A("")
        A("/-- the function's local variables as typed fields, in order of first assignment; `bound_<x>` records whether a returned")
        A("variable that is not definitely assigned where it is read has been bound; `calls` and `trace` instrument the abstracted")
        A("SVI object -/")
        A("structure St where")
        L.extend(fields)
        A("  calls : Nat := 0")
        A("  trace : List (Nat × Nat) := []")
        A("")
        A("structure Params where")
        for p in NAT_PARAMS:
            A(f"  {p} : Nat")
        A("")
        A("/-- `X, Y = update_func(A, svi_class, LR)`: the k-th call returns loss `script k` and the state with identity `k+1` -/")
        A("def update (script : Nat → Loss) (lr arg : St → Nat) (bind : Nat → Loss → St → St) : Stmt St :=")
        A("  assign fun s => bind (s.calls + 1) (script s.calls) { s with calls := s.calls + 1, trace := s.trace ++ [(lr s, arg s)] }")
        A("")
        for d in self.defs:
            A(d)
            A("")
        A("def prog (script : Nat → Loss) (P : Params) : Stmt St :=")
        A(indent(prog, 1))
        A("")
        A(f"/-- `{seg(body[-1])}`; `none` = NameError (a returned variable unbound) -/")
        A("def run (script : Nat → Loss) (P : Params) : Option Result :=")
        A("  let s := (prog script P {}).1")
        A(f"  if {guard} then some ⟨s.{reads[0].id}, s.{reads[1].id}, s.{reads[2].id}, s.calls⟩ else none")
        A("")
        A("/-- (learning-rate exponent, identity of the state passed in) of every `update_func` call, in order -/")
        A("def calls (script : Nat → Loss) (P : Params) : List (Nat × Nat) := (prog script P {}).1.trace")
        A("")
        A("end Pysersic.Gen.EarlyStopProg")
        return "\n".join(L) + "\n"


def indent(text, k):
    pad = "  " * k
    return "\n".join(pad + ln for ln in text.splitlines())


def find_func(tree, name):
    for node in tree.body:
        if isinstance(node, ast.FunctionDef) and node.name == name:
            return node
    raise Miss(f"function {name} not found")


def translate_source():
    src = (REPO / "pysersic" / "pysersic.py").read_text()
    tr = Translator(find_func(ast.parse(src), FUNC))
    text = tr.run()
    return text, tr


def use_fallback_text():
    OUT.write_text(FALLBACK.read_text())


def regenerate(write=True):
    failed = {}
    abstracted = []
    try:
        text, tr = translate_source()
        abstracted = tr.abstracted
        status = "translated"
    except Exception as e:  # Miss, or anything a refactor can throw at the matcher
        failed[FUNC] = f"{type(e).__name__}: {e}"
        text = FALLBACK.read_text()
        status = "fallback-text"
    differs = text != FALLBACK.read_text() if FALLBACK.exists() else None
    if write:
        old = OUT.read_text() if OUT.exists() else None
        if old != text:
            OUT.parent.mkdir(parents=True, exist_ok=True)
            OUT.write_text(text)
            status = "rewritten" if status == "translated" else status
        elif status == "translated":
            status = "unchanged"
    rep = dict(status=status, failed=failed, abstracted=abstracted, differs_from_committed_fallback=differs,
               sha256=hashlib.sha256(text.encode()).hexdigest())
    try:
        REPORT.parent.mkdir(parents=True, exist_ok=True)
        REPORT.write_text(json.dumps(rep, indent=1))
    except OSError:
        pass
    return rep


if __name__ == "__main__":
    if "--update-fallback" in sys.argv:
        text, _ = translate_source()
        FALLBACK.write_text(text)
        print("fallback updated")
    if "--print" in sys.argv:
        print(translate_source()[0])
    else:
        print(json.dumps(regenerate(), indent=1))
