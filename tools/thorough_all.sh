#!/bin/bash
# development helper (vp run): build, then the thorough tier of the given properties; outcomes to stdout
cd "$(dirname "$0")/.."
./setup.sh >/dev/null 2>&1 || echo "setup failed"
for p in "$@"; do
  s=$(date +%s)
  out=$(TQDM_DISABLE=1 VERIF_OUT_DIR=$PWD/thor_out ./check $p --tier thorough 2>&1 | grep -v "^KNOWN" | tail -4 | tr '\n' '|')
  echo "$p $(( $(date +%s) - s ))s $out"
done
echo ALLDONE
