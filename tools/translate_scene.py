"""Tie 1, fourth part: translate the *scene plumbing* of pysersic/rendering.py into Lean.

Between the renderers' kernels (translated by tools/translate.py) and the image sit a handful of methods of `BaseRenderer` that
only move parameters and planes around: the composite profiles (`render_doublesersic`, `render_sersic_exp`,
`render_sersic_pointsource`, `render_exp`, `render_dev`) build parameter dictionaries for `render_sersic` / `render_pointsource`
and add the returned (Fourier, intrinsic, observed) triples slot by slot; `render_for_model` accumulates the triples of a
catalogue; `combine_scene` turns a triple into the image.  A swapped slot, a wrong key, a dropped term there changes every model
that is fitted.  This translator reads those methods with `ast` and prints them as Lean definitions
(lean/PysersicModel/Gen/Scene.lean) over the model's dictionary type `PDict` and triple type; `lean/Proofs/GenScene.lean` proves
each equal to the corresponding piece of the hand-written model (`Renderer.profileOf`, `catalogueTriple`, `combineScene`).

What the translation does, and nothing more:
  `self.render_X(d)`                     → the parameter `render_X : PDict α → Triple α` applied to d
  `{"k": e, …}`, `{}`                    → association lists;   `params["k"]` → `params.get "k"`
  `d = params.copy()`, `dict(params, k=e)`, `d["k"] = e`, `d.pop("k")` → `PDict.set` / `PDict.erase` (a `pop` inside an expression
                                           is hoisted: value first, then the erasure)
  float / int literals, + − * on scalars → the same arithmetic (`((k : Nat) : α)`, `dec p q`)
  `a, b, c = self.render_X(d)`           → one triple, its components addressed by position (.F, .int, .obs)
  `return e1, e2, e3` / `return self.render_X(d)` → the triple ⟨e1, e2, e3⟩ with `+` on planes read as `fadd` (slot 1) / `iadd` (slots 2, 3)
  `render_for_model`: zero-initialised accumulators (`jnp.zeros(self.fft_shape | self.im_shape)`), `for j, t in enumerate(types)`,
      the dictionary comprehension over `base_profile_params[t]` with its f-string key, `self.profile_func_dict[t](d)`,
      `acc = acc + cur`, `return self.combine_scene(a, b, c)` → a left fold over the catalogue
  `combine_scene`: `self.conv_fft(F) + self.conv_img(I) + O` → `iadd (iadd (convFft N P F) (convImg N P I)) O`
Anything else raises `Miss`: the committed text (tools/scene_fallback.lean) is kept and the miss recorded — never a verdict.
"""
from __future__ import annotations

import ast
import hashlib
import json
import os
import sys
import warnings
from fractions import Fraction
from pathlib import Path

warnings.filterwarnings("ignore", category=SyntaxWarning)
VERIF = Path(__file__).resolve().parent.parent
REPO = Path(os.environ.get("PYSERSIC_REPO", "/repo"))
LEAN_DIR = Path(os.environ.get("VERIF_LEAN_DIR", str(VERIF / "lean")))
OUT = LEAN_DIR / "PysersicModel" / "Gen" / "Scene.lean"
FALLBACK = VERIF / "tools" / "scene_fallback.lean"
REPORT = LEAN_DIR / ".lake" / "gen_scene_report.json"

COMPOSITES = ["render_doublesersic", "render_sersic_exp", "render_sersic_pointsource", "render_exp", "render_dev"]
SLOT = ["F", "int", "obs"]


class Miss(Exception):
    pass


def seg(n):
    return ast.unparse(n)


def lit(v, src):
    if isinstance(v, bool):
        raise Miss("boolean literal")
    if isinstance(v, int):
        return f"(({v} : Nat) : α)" if v >= 0 else f"(-(({-v} : Nat) : α))"
    fr = Fraction(src) if src else Fraction(repr(v))
    if fr.denominator == 1 and fr >= 0:
        return f"(({fr.numerator} : Nat) : α)"
    if fr < 0:
        raise Miss("negative float literal")
    return f"(dec {fr.numerator} {fr.denominator} : α)"


class Method:
    """one composite method: straight-line dictionary plumbing ending in a triple"""

    def __init__(self, fn, src):
        self.fn, self.src = fn, src
        args = [a.arg for a in fn.args.args]
        if len(args) != 2 or args[0] != "self":
            raise Miss(f"{fn.name}: signature")
        self.param = args[1]
        self.dicts = {self.param}          # names bound to dictionaries
        self.triples = {}                  # unpacked plane name -> (triple variable, slot index)
        self.callbacks = []                # render_* methods called, in order of first use
        self.lines = []
        self.tmp = 0

    def cb(self, call):
        """`self.render_X(arg)` → (callback name, translated dict argument)"""
        f = call.func
        if not (isinstance(f, ast.Attribute) and isinstance(f.value, ast.Name) and f.value.id == "self" and f.attr.startswith("render_")
                and len(call.args) == 1 and not call.keywords):
            raise Miss(f"{self.fn.name}: call {seg(call)}")
        if f.attr not in self.callbacks:
            self.callbacks.append(f.attr)
        return f.attr, self.dict_expr(call.args[0])

    def scalar(self, e):
        if isinstance(e, ast.Constant) and isinstance(e.value, (int, float)):
            return lit(e.value, ast.get_source_segment(self.src, e))
        if isinstance(e, ast.Subscript) and isinstance(e.value, ast.Name) and e.value.id in self.dicts \
                and isinstance(e.slice, ast.Constant) and isinstance(e.slice.value, str):
            return f'{e.value.id}.get "{e.slice.value}"'
        if isinstance(e, ast.Call) and isinstance(e.func, ast.Attribute) and e.func.attr == "pop" and isinstance(e.func.value, ast.Name) \
                and e.func.value.id in self.dicts and len(e.args) == 1 and isinstance(e.args[0], ast.Constant):
            d, k = e.func.value.id, e.args[0].value
            self.tmp += 1
            v = f"popped_{self.tmp}"
            self.lines.append(f'let {v} : α := {d}.get "{k}"')
            self.lines.append(f'let {d} : PDict α := {d}.erase "{k}"')
            return v
        if isinstance(e, ast.BinOp) and isinstance(e.op, (ast.Add, ast.Sub, ast.Mult, ast.Div)):
            op = {ast.Add: "+", ast.Sub: "-", ast.Mult: "*", ast.Div: "/"}[type(e.op)]
            a = self.scalar(e.left)      # left first: Python evaluates (and pops) left to right
            b = self.scalar(e.right)
            return f"({a} {op} {b})"
        if isinstance(e, ast.UnaryOp) and isinstance(e.op, ast.USub):
            return f"(-{self.scalar(e.operand)})"
        raise Miss(f"{self.fn.name}: scalar expression {seg(e)}")

    def dict_expr(self, e):
        if isinstance(e, ast.Name) and e.id in self.dicts:
            return e.id
        if isinstance(e, ast.Dict):
            items = []
            for k, v in zip(e.keys, e.values):
                if not (isinstance(k, ast.Constant) and isinstance(k.value, str)):
                    raise Miss(f"{self.fn.name}: dictionary key {seg(k) if k else '**'}")
                items.append(f'("{k.value}", {self.scalar(v)})')
            return "([" + ", ".join(items) + "] : PDict α)"
        if isinstance(e, ast.Call) and isinstance(e.func, ast.Attribute) and e.func.attr == "copy" and not e.args:
            return self.dict_expr(e.func.value)
        if isinstance(e, ast.Call) and isinstance(e.func, ast.Name) and e.func.id == "dict" and len(e.args) == 1:
            out = self.dict_expr(e.args[0])
            for kw in e.keywords:
                if kw.arg is None:
                    raise Miss(f"{self.fn.name}: dict(**…)")
                out = f'({out}).set "{kw.arg}" ({self.scalar(kw.value)})'
            return out
        raise Miss(f"{self.fn.name}: dictionary expression {seg(e)}")

    def plane(self, e, slot):
        """an expression denoting plane number `slot` of a triple"""
        if isinstance(e, ast.Name) and e.id in self.triples:
            tv, k = self.triples[e.id]
            return f"{tv}.{SLOT[k]}"
        if isinstance(e, ast.BinOp) and isinstance(e.op, ast.Add):
            add = "fadd" if slot == 0 else "iadd"
            return f"{add} ({self.plane(e.left, slot)}) ({self.plane(e.right, slot)})"
        raise Miss(f"{self.fn.name}: plane expression {seg(e)}")

    def translate(self):
        body = [s for s in self.fn.body if not (isinstance(s, ast.Expr) and isinstance(s.value, ast.Constant))]
        if not body or not isinstance(body[-1], ast.Return):
            raise Miss(f"{self.fn.name}: no final return")
        for st in body[:-1]:
            if not (isinstance(st, ast.Assign) and len(st.targets) == 1):
                raise Miss(f"{self.fn.name}: statement {seg(st).splitlines()[0]}")
            t, v = st.targets[0], st.value
            if isinstance(t, ast.Tuple):
                if not (len(t.elts) == 3 and all(isinstance(x, ast.Name) for x in t.elts) and isinstance(v, ast.Call)):
                    raise Miss(f"{self.fn.name}: tuple assignment {seg(st)}")
                name, arg = self.cb(v)
                tv = "t_" + t.elts[0].id
                self.lines.append(f"let {tv} : Triple α := {name} ({arg})")
                for k, x in enumerate(t.elts):
                    self.triples[x.id] = (tv, k)
            elif isinstance(t, ast.Name):
                val = self.dict_expr(v)
                self.dicts.add(t.id)
                self.lines.append(f"let {t.id} : PDict α := {val}")
            elif isinstance(t, ast.Subscript) and isinstance(t.value, ast.Name) and t.value.id in self.dicts \
                    and isinstance(t.slice, ast.Constant) and isinstance(t.slice.value, str):
                val = self.scalar(v)
                self.lines.append(f'let {t.value.id} : PDict α := {t.value.id}.set "{t.slice.value}" ({val})')
            else:
                raise Miss(f"{self.fn.name}: assignment target {seg(t)}")
        r = body[-1].value
        if isinstance(r, ast.Tuple) and len(r.elts) == 3:
            res = "⟨" + ", ".join(self.plane(x, k) for k, x in enumerate(r.elts)) + "⟩"
        elif isinstance(r, ast.Call):
            name, arg = self.cb(r)
            res = f"{name} ({arg})"
        else:
            raise Miss(f"{self.fn.name}: return value {seg(r)}")
        cbs = " ".join(f"({c} : PDict α → Triple α)" for c in self.callbacks)
        head = f"/-- translated from `BaseRenderer.{self.fn.name}` -/\ndef {self.fn.name} {cbs} ({self.param} : PDict α) : Triple α :="
        return head + "\n" + "\n".join("  " + ln for ln in self.lines + [res])


def fstring(node, names):
    """f-string → Lean string concatenation; `names` maps Python names to Lean string expressions"""
    if not isinstance(node, ast.JoinedStr):
        raise Miss(f"key suffix {seg(node)}")
    parts = []
    for v in node.values:
        if isinstance(v, ast.Constant) and isinstance(v.value, str):
            parts.append('"' + v.value.replace('"', '\\"') + '"')
        elif isinstance(v, ast.FormattedValue) and isinstance(v.value, ast.Name) and v.value.id in names and v.conversion == -1:
            spec = seg(v.format_spec).strip("f'\"") if v.format_spec is not None else ""
            if spec not in ("", "d"):
                raise Miss(f"format spec {spec}")
            parts.append(names[v.value.id])
        else:
            raise Miss(f"f-string part {seg(v)}")
    return " ++ ".join(parts) if parts else '""'


def translate_for_model(fn, src):
    args = [a.arg for a in fn.args.args]
    if len(args) != 4 or args[0] != "self":
        raise Miss("render_for_model: signature")
    pd, types, suffix = args[1:]
    body = [s for s in fn.body if not (isinstance(s, ast.Expr) and isinstance(s.value, ast.Constant))]
    accs = []       # (name, slot kind 'F' | 'I')
    i = 0
    while i < len(body) and isinstance(body[i], ast.Assign):
        st = body[i]
        v = seg(st.value).replace(" ", "")
        if not (len(st.targets) == 1 and isinstance(st.targets[0], ast.Name)):
            raise Miss("render_for_model: accumulator initialisation")
        if v == "jnp.zeros(self.fft_shape)":
            accs.append((st.targets[0].id, "F"))
        elif v == "jnp.zeros(self.im_shape)":
            accs.append((st.targets[0].id, "I"))
        else:
            raise Miss(f"render_for_model: accumulator initialised with {v}")
        i += 1
    if len(accs) != 3 or i + 2 != len(body) or not isinstance(body[i], ast.For) or not isinstance(body[i + 1], ast.Return):
        raise Miss("render_for_model: shape zeros / for / return")
    loop, ret = body[i], body[i + 1]
    if not (isinstance(loop.iter, ast.Call) and seg(loop.iter.func) == "enumerate" and len(loop.iter.args) == 1 and seg(loop.iter.args[0]) == types
            and isinstance(loop.target, ast.Tuple) and len(loop.target.elts) == 2 and all(isinstance(x, ast.Name) for x in loop.target.elts)):
        raise Miss("render_for_model: loop header")
    jv, tv = loop.target.elts[0].id, loop.target.elts[1].id
    lines = []
    cur = {}            # unpacked name -> slot index
    dname = None
    kind = dict(accs)
    state = {n: n for n, _ in accs}
    for st in loop.body:
        if not (isinstance(st, ast.Assign) and len(st.targets) == 1):
            raise Miss(f"render_for_model: loop statement {seg(st).splitlines()[0]}")
        t, v = st.targets[0], st.value
        if isinstance(v, ast.DictComp):
            g = v.generators[0]
            if not (len(v.generators) == 1 and not g.ifs and isinstance(g.target, ast.Name) and isinstance(v.key, ast.Name) and v.key.id == g.target.id
                    and seg(g.iter) == f"base_profile_params[{tv}]" and isinstance(v.value, ast.Subscript) and seg(v.value.value) == pd
                    and isinstance(v.value.slice, ast.BinOp) and isinstance(v.value.slice.op, ast.Add)
                    and isinstance(v.value.slice.left, ast.Name) and v.value.slice.left.id == g.target.id and isinstance(t, ast.Name)):
                raise Miss("render_for_model: dictionary comprehension")
            key = fstring(v.value.slice.right, {jv: f"toString {jv}", suffix: suffix})
            dname = t.id
            lines.append(f"let {dname} : PDict α := (paramsOf {tv}).map fun param => (param, {pd}.get (param ++ {key}))")
        elif isinstance(t, ast.Tuple):
            if not (len(t.elts) == 3 and all(isinstance(x, ast.Name) for x in t.elts) and isinstance(v, ast.Call)
                    and seg(v.func) == f"self.profile_func_dict[{tv}]" and len(v.args) == 1 and seg(v.args[0]) == dname):
                raise Miss(f"render_for_model: {seg(st)}")
            lines.append(f"let cur : Triple α := profile {tv} {dname}")
            for k, x in enumerate(t.elts):
                cur[x.id] = k
        elif isinstance(t, ast.Name) and t.id in kind:
            if not (isinstance(v, ast.BinOp) and isinstance(v.op, ast.Add)):
                raise Miss(f"render_for_model: {seg(st)}")

            def operand(e):
                if isinstance(e, ast.Name) and e.id in state:
                    return f"acc.{e.id}", kind[e.id]
                if isinstance(e, ast.Name) and e.id in cur:
                    return f"cur.{SLOT[cur[e.id]]}", "F" if cur[e.id] == 0 else "I"
                raise Miss(f"render_for_model: operand {seg(e)}")
            (a, ka), (b, kb) = operand(v.left), operand(v.right)
            if not (ka == kb == kind[t.id]):
                raise Miss("render_for_model: a Fourier plane added to an image plane")
            add = "fadd" if ka == "F" else "iadd"
            lines.append(f"let acc : Acc α := {{ acc with {t.id} := {add} ({a}) ({b}) }}")
        else:
            raise Miss(f"render_for_model: {seg(st)}")
    if not (isinstance(ret.value, ast.Call) and seg(ret.value.func) == "self.combine_scene" and len(ret.value.args) == 3
            and all(isinstance(a, ast.Name) and a.id in kind for a in ret.value.args)):
        raise Miss(f"render_for_model: return {seg(ret.value)}")
    rargs = [a.id for a in ret.value.args]
    if [kind[a] for a in rargs] != ["F", "I", "I"]:
        raise Miss("render_for_model: combine_scene receives planes of the wrong kind")
    L = []
    L.append("/-- the running totals of `render_for_model` -/")
    L.append("structure Acc (α : Type) where")
    for n, k in accs:
        L.append(f"  {n} : {'FImg' if k == 'F' else 'Img'} α")
    L.append("")
    L.append("/-- the totals in the order `combine_scene` receives them -/")
    L.append(f"def Acc.toTriple (a : Acc α) : Triple α := ⟨a.{rargs[0]}, a.{rargs[1]}, a.{rargs[2]}⟩")
    L.append("")
    L.append("/-- the body of the loop of `BaseRenderer.render_for_model` -/")
    L.append(f"def render_for_model_step (profile : String → PDict α → Triple α) (paramsOf : String → List String) ({pd} : PDict α) ({suffix} : String)")
    L.append(f"    (acc : Acc α) ({jv} : Nat) ({tv} : String) : Acc α :=")
    L.extend("  " + ln for ln in lines + ["acc"])
    L.append("")
    L.append("/-- `for j, prof_type in enumerate(types)` from index `j` on -/")
    L.append(f"def render_for_model_loop (profile : String → PDict α → Triple α) (paramsOf : String → List String) ({pd} : PDict α) ({suffix} : String) :")
    L.append("    Nat → List String → Acc α → Acc α")
    L.append("  | _, [], acc => acc")
    L.append(f"  | j, t :: ts, acc => render_for_model_loop profile paramsOf {pd} {suffix} (j + 1) ts (render_for_model_step profile paramsOf {pd} {suffix} acc j t)")
    L.append("")
    L.append("/-- translated from `BaseRenderer.render_for_model`: the triple handed to `combine_scene` -/")
    L.append(f"def render_for_model_triple (profile : String → PDict α → Triple α) (paramsOf : String → List String) ({pd} : PDict α) ({types} : List String) ({suffix} : String) : Triple α :=")
    L.append(f"  (render_for_model_loop profile paramsOf {pd} {suffix} 0 {types} ⟨{', '.join('fzero' if k == 'F' else 'izero' for _, k in accs)}⟩).toTriple")
    return "\n".join(L)


def translate_combine(fn):
    args = [a.arg for a in fn.args.args]
    body = [s for s in fn.body if not (isinstance(s, ast.Expr) and isinstance(s.value, ast.Constant))]
    if len(args) != 4 or len(body) != 1 or not isinstance(body[0], ast.Return):
        raise Miss("combine_scene: shape")
    F, I, O = args[1:]

    def term(e):
        if isinstance(e, ast.BinOp) and isinstance(e.op, ast.Add):
            return f"iadd ({term(e.left)}) ({term(e.right)})"
        s = seg(e).replace(" ", "")
        if s == f"self.conv_fft({F})":
            return "convFft N P t.F"
        if s == f"self.conv_img({I})":
            return "convImg N P t.int"
        if s == O:
            return "t.obs"
        raise Miss(f"combine_scene: term {seg(e)}")
    return ("/-- translated from `BaseRenderer.combine_scene` (N and the transformed PSF P are the renderer's) -/\n"
            "def combine_scene (N : Nat) (P : FImg α) (t : Triple α) : Img α :=\n  " + term(body[0].value))


def find_method(tree, cls, name):
    for node in tree.body:
        if isinstance(node, ast.ClassDef) and node.name == cls:
            for sub in node.body:
                if isinstance(sub, ast.FunctionDef) and sub.name == name:
                    return sub
    raise Miss(f"{cls}.{name} not found")


def translate_source():
    src = (REPO / "pysersic" / "rendering.py").read_text()
    tree = ast.parse(src)
    parts = []
    for name in COMPOSITES:
        parts.append(Method(find_method(tree, "BaseRenderer", name), src).translate())
    parts.append(translate_for_model(find_method(tree, "BaseRenderer", "render_for_model"), src))
    parts.append(translate_combine(find_method(tree, "BaseRenderer", "combine_scene")))
    head = ["/- GENERATED by tools/translate_scene.py from pysersic/rendering.py (BaseRenderer's scene plumbing) — do not edit.",
            "   Regenerated on every run of ./check; Proofs/GenScene.lean proves each definition equal to the model's. -/",
            "import PysersicModel.Render.Renderers", "", "namespace Pysersic.Gen.Scene", "open Pysersic Pysersic.Render", "",
            "section", "variable {α : Type} [Add α] [Sub α] [Mul α] [Div α] [Neg α] [NatCast α] [Transc α]", "", ""]
    return "\n".join(head) + "\n\n".join(parts) + "\n\nend\nend Pysersic.Gen.Scene\n"


def use_fallback_text():
    OUT.write_text(FALLBACK.read_text())


def regenerate(write=True):
    failed = {}
    try:
        text = translate_source()
        status = "translated"
    except Exception as e:
        failed["scene"] = f"{type(e).__name__}: {e}"
        text = FALLBACK.read_text()
        status = "fallback-text"
    differs = text != FALLBACK.read_text() if FALLBACK.exists() else None
    if write:
        old = OUT.read_text() if OUT.exists() else None
        if old != text:
            OUT.parent.mkdir(parents=True, exist_ok=True)
            OUT.write_text(text)
            status = "rewritten" if status == "translated" else status
        elif status == "translated":
            status = "unchanged"
    rep = dict(status=status, failed=failed, differs_from_committed_fallback=differs, sha256=hashlib.sha256(text.encode()).hexdigest())
    try:
        REPORT.parent.mkdir(parents=True, exist_ok=True)
        REPORT.write_text(json.dumps(rep, indent=1))
    except OSError:
        pass
    return rep


if __name__ == "__main__":
    if "--update-fallback" in sys.argv:
        FALLBACK.write_text(translate_source())
        print("fallback updated")
    if "--print" in sys.argv:
        print(translate_source())
    else:
        print(json.dumps(regenerate(), indent=1))
