#!/venv/bin/python
"""Copy confirmed seeded changes from a scratch worktree into /verif/seeded/<PROP>-<i>/."""
import json, shutil, sys
from pathlib import Path
VERIF = Path(__file__).resolve().parent.parent
prop, wt = sys.argv[1], Path(sys.argv[2])
offset = int(sys.argv[3]) if len(sys.argv) > 3 else 0      # later rounds: seeded/<PROP>-<i + offset>
for i in (1, 2, 3):
    st = wt / f"seedtest_{i}.json"
    if not st.exists():
        continue
    t = json.loads(st.read_text())
    if not t.get("confirm", {}).get("ok"):
        print(prop, i, "not confirmed: skipped")
        continue
    dst = VERIF / "seeded" / f"{prop}-{i + offset}"
    dst.mkdir(parents=True, exist_ok=True)
    shutil.copy(wt / f"mut{i}.diff", dst / "patch.diff")
    shutil.copy(wt / f"demo{i}.py", dst / "demo.py")
    m = json.loads((wt / f"mut{i}.json").read_text()) if (wt / f"mut{i}.json").exists() else {}
    det = t.get("detect", {})
    meta = dict(property=prop, breaks=m.get("summary"), needs=m.get("needs"),
                author_tests=m.get("tests_run"),
                confirmed=dict(demo_clean_rc=t["confirm"]["demo_clean_rc"], demo_mutated_rc=t["confirm"]["demo_mutated_rc"],
                               demo_output_with_change=t["confirm"]["demo_mutated_tail"][-300:],
                               existing_tests=t["confirm"]["tests"],
                               how="tools/seedtest.py confirm: demo run on the clean and on the changed scratch worktree; the test files that pass on the clean tree re-run with the change (known-failing tests deselected)"),
                checks={p: dict(exit=d["rc"], wall_s=d["wall_s"], output=d["lines"][:4]) for p, d in det.items()},
                ran="tools/seedtest.py detect: git -C /repo apply patch.diff; ./check <PROP> --tier quick; git -C /repo checkout -- .")
    (dst / "meta.json").write_text(json.dumps(meta, indent=1))
    print(prop, i, "->", dst, {p: d["rc"] for p, d in det.items()})
