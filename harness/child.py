"""Run `harness.<mod>.<func>(payload)` in a fresh interpreter (e.g. with JAX in x64 mode).

stdin: pickle (mod, func, payload); stdout: pickle result.  Anything the callee
prints goes to stderr so the result stream stays clean.
"""
import importlib
import os
import pickle
import sys
import warnings


def main():
    warnings.filterwarnings("ignore")
    os.environ.setdefault("TQDM_DISABLE", "1")
    out = sys.stdout.buffer
    sys.stdout = sys.stderr
    mod, func, payload = pickle.load(sys.stdin.buffer)
    m = importlib.import_module(f"harness.{mod}")
    res = getattr(m, func)(payload)
    pickle.dump(res, out)
    out.flush()


if __name__ == "__main__":
    main()
