"""C13 — find_MAP returns the best state it visited, consistently and repeatably.

Theorems (Props/C13.lean): on the purge chain translated from the source, the returned key set for all 7×3×10 configurations is
exactly parameters ∪ sky ∪ exposed nuisance ∪ {model}; `*_base` sites removed for every name; `model` raw, scalars rounded;
multi-source regrouping is a partition.
Tie: the real find_MAP (optimiser shortened to a few steps — the structure of the result does not depend on convergence) over
profile / sky / loss / renderer configurations, single and multi: the real trace's site names go through the Lean `mapkeys` /
`regroup` and the predicted dictionary structure is compared with the returned one; the returned image vs a re-render of the
returned parameters.
Oracle (full-length real fits on synthetic images drawn from the model): logp(MAP) ≥ logp(truth) − 0.5, no single-parameter ±2 %
(of the prior scale) move gains 0.5, bitwise repeatability.
"""
from __future__ import annotations

import numpy as np

from .common import Violation, run_children

PROP = "C13"
LEAN_TARGETS = ["Props.C13", "Props.C05", "Props.C14", "driver"]
AUDIT_IMPORTS = ["Props.C13", "Props.C05", "Props.C14"]
NS = "Pysersic.Props.C13."
OBLIGATIONS = [NS + t for t in ["purge_keys_with_model", "purge_keys_without_model", "base_sites_removed", "model_raw", "regroup_partition",
                                "regroup_partition_one", "repo_map_init_median", "repo_map_round_decimals"]] + ["Pysersic.Props.C05.likelihood_through_exposed", "Pysersic.Props.C14.result_first_argmin"]
MIRRORED_FILES = ["pysersic/pysersic.py"]
ASSUMPTIONS = [
    "optimisation quality (posterior density at the returned point, local optimality, repeatability) is outside any model: observed on real fits",
    "for the structural tie the optimiser is shortened (max_train small): the structure of the returned dictionary does not depend on convergence",
]
PTYPES = ["sersic", "doublesersic", "sersic_exp", "sersic_pointsource", "pointsource", "exp", "dev"]
SKY = ["none", "flat", "tilted-plane"]
LOSSES = ["gaussian_loss", "cash_loss", "gaussian_loss_w_frac", "gaussian_loss_w_sys", "student_t_loss", "student_t_loss_free_sys",
          "pseudo_huber_loss", "gaussian_mixture", "gaussian_mixture_w_sys", "gaussian_mixture_w_frac"]


def struct_child(payload):
    """shortened find_MAP: structure of the returned dictionary"""
    import jax
    import jax.numpy as jnp
    import pysersic.pysersic as PP
    from numpyro import handlers
    from . import pyutil as U
    orig = PP.train_numpyro_svi_early_stop

    def short(svi, rkey=None, **kw):
        kw.update(max_train=int(payload.get("max_train", 3)), patience=1, num_round=1)
        return orig(svi, rkey=rkey, **kw)
    PP.train_numpyro_svi_early_stop = short
    out = []
    try:
        for c in payload["cases"]:
            try:
                rng = np.random.default_rng(c["seed"])
                N = 12
                positive = c["loss"] == "cash_loss"
                data, rms, psf = U.make_images(rng, N, positive=positive)
                sky = c["sky"] if not positive else "flat"
                loss = getattr(U.L, c["loss"])
                Rcls = U.RENDERERS[c["renderer"]]
                if c["kind"] == "single":
                    prior = U.source_prior(c["types"][0], sky_type=sky, xc=N / 2, yc=N / 2, flux=80.0, r_eff=1.8, sky_guess=3.0 if positive else 0.4)
                    if sky == "tilted-plane":
                        # distinct, clearly non-zero slopes at the optimiser's starting point: the image clause then sees the plane's orientation
                        prior.sky_prior.update_prior("sky_x_sl", 0.4, 0.05)
                        prior.sky_prior.update_prior("sky_y_sl", -0.2, 0.05)
                    f = PP.FitSingle(data, rms, psf, prior, loss_func=loss, renderer=Rcls)
                    res = f.find_MAP(jax.random.PRNGKey(1), return_model=c["return_model"])
                else:
                    prior, _ = U.multi_prior(c["types"], N, rng, sky_type=sky)
                    if sky == "tilted-plane":
                        prior.sky_prior.update_prior("sky_x_sl", 0.4, 0.05)
                        prior.sky_prior.update_prior("sky_y_sl", -0.2, 0.05)
                    f = PP.FitMulti(data, rms, psf, prior, loss_func=loss, renderer=Rcls)
                    res = f.find_MAP(return_model=c["return_model"], rkey=jax.random.PRNGKey(1))
                model = f.build_model(return_model=c["return_model"])
                lat, tr = U.sample_latents(model, seed=0)
                site_names = list(tr.keys())
                # structure of the result
                def shape(v):
                    return list(np.shape(v))
                if c["kind"] == "single":
                    struct = {k: shape(v) for k, v in res.items()}
                    flat = dict(res)
                else:
                    struct = {k: ({kk: shape(vv) for kk, vv in v.items()} if isinstance(v, dict) else shape(v)) for k, v in res.items()}
                    flat = {}
                    for k, v in res.items():
                        if isinstance(v, dict):
                            i = int(k.split("_")[1])
                            flat.update({f"{kk}_{i}": vv for kk, vv in v.items()})
                        else:
                            flat[k] = v
                # image consistency: re-render the returned parameters
                img_diff = None
                rounded_ok = True
                if c["return_model"] and "model" in flat:
                    params = {k: jnp.asarray(v) for k, v in flat.items() if k in prior.dist_dict}
                    if c["kind"] == "single":
                        bare = f.renderer.render_source(params, c["types"][0])
                    else:
                        bare = f.renderer.render_for_model(params, list(c["types"]), "")
                    X, Y = f.renderer.X, f.renderer.Y
                    skyimg = 0.0
                    if sky == "flat":
                        skyimg = float(flat["sky_back"])
                    elif sky == "tilted-plane":
                        skyimg = float(flat["sky_back"]) + (np.asarray(X) - N / 2) * float(flat["sky_x_sl"]) + (np.asarray(Y) - N / 2) * float(flat["sky_y_sl"])
                    ref = np.asarray(bare, dtype=np.float64) + skyimg
                    img = np.asarray(flat["model"], dtype=np.float64)
                    img_diff = float(np.abs(img - ref).max() / max(float(np.abs(ref).max()), 1e-30))
                for k, v in flat.items():
                    if k != "model" and np.ndim(v) == 0:
                        rounded_ok &= bool(abs(float(v) - round(float(v), 5)) <= 1e-6 * max(1.0, abs(float(v))))
                out.append(dict(struct=struct, sites=site_names, img_diff=img_diff, rounded_ok=rounded_ok, prior_keys=sorted(prior.dist_dict), sky=sky))
            except Exception as e:
                import traceback
                out.append(dict(error=f"{type(e).__name__}: {e}", tb=traceback.format_exc()[-600:]))
    finally:
        PP.train_numpyro_svi_early_stop = orig
    return out


def gen_cases(rng, n):
    cases = []
    for k in range(n):
        multi = k % 3 == 2
        cases.append(dict(kind="multi" if multi else "single", types=[str(rng.choice(PTYPES)) for _ in range(int(rng.integers(1, 4)))] if multi else [PTYPES[k % 7]],
                          sky=SKY[(k // 3) % 3], loss=LOSSES[k % 10], renderer=["pixel", "hybrid", "fourier"][0 if k % 3 else int(rng.integers(0, 3))],
                          return_model=bool(k % 4 != 3), seed=int(rng.integers(0, 2 ** 31))))
    return cases


def exposed_nuisance(loss):
    return {"gaussian_loss_w_frac": ["frac_rms_increase"], "gaussian_loss_w_sys": ["sys_rms"], "student_t_loss_free_sys": ["sys_rms"],
            "gaussian_mixture": ["outlier_frac"], "gaussian_mixture_w_sys": ["outlier_frac", "sys_rms"],
            "gaussian_mixture_w_frac": ["rms_frac", "outlier_frac"]}.get(loss, [])


def evaluate_struct(ctx, cases):
    from . import render_common as RC
    import pysersic.rendering as RD
    w = min(ctx.workers, 6)
    res = RC.unchunk(run_children("c13", "struct_child", [dict(cases=ch) for ch in RC.chunked(cases, w)], x64=False, workers=w, timeout=3000), len(cases))
    lines = []
    for c, r in zip(cases, res):
        if "error" in r:
            lines += ["ping", "ping"]
            continue
        lines.append(f"mapkeys {len(r['sites'])} " + " ".join(r["sites"]))
        kept_guess = r["sites"]
        lines.append("ping")
    rep = ctx.driver.ask(lines)
    dis, viol = [], []
    # second round for the multi regroup (needs the kept keys)
    rg_lines, rg_idx = [], []
    pred = {}
    for i, (c, r) in enumerate(zip(cases, res)):
        if "error" in r:
            continue
        fates = dict(tok.rsplit(":", 1) for tok in rep[2 * i].split(" ") if tok)
        kept = [k for k in r["sites"] if fates.get(k) in ("raw", "rounded")]
        pred[i] = (fates, kept)
        if c["kind"] == "multi":
            rg_lines.append(f"regroup {len(c['types'])} " + " ".join(c["types"]) + f" {len(kept)} " + " ".join(kept))
            rg_idx.append(i)
    rg = dict(zip(rg_idx, ctx.driver.ask(rg_lines))) if rg_lines else {}
    for i, (c, r) in enumerate(zip(cases, res)):
        def v(clause, msg):
            return Violation(f"C13:{clause}:{c['kind']}", f"{c['kind']} fitter {c['types']}, sky {c['sky']}, {c['loss']}, {c['renderer']}, return_model={c['return_model']}: {msg}",
                             dict(kind="oracle-struct", case=c))
        if "error" in r:
            viol.append(v("exception", r["error"]))
            continue
        fates, kept = pred[i]
        if c["kind"] == "single":
            model_struct = sorted(kept)
            real_struct = sorted(r["struct"])
        else:
            groups_s, rest_s = rg[i].split(" | rest=")
            model_top = {}
            for g in groups_s.split(" "):
                if g:
                    nm, ps = g.split("=")
                    model_top[nm] = sorted(p for p in ps.split(",") if p)
            for k in rest_s.split(","):
                if k:
                    model_top[k] = None
            model_struct = sorted((k, tuple(vv) if vv is not None else None) for k, vv in model_top.items())
            real_struct = sorted((k, tuple(sorted(vv)) if isinstance(vv, dict) else None) for k, vv in r["struct"].items())
        if model_struct != real_struct:
            dis.append(dict(case=c, diffs=[f"returned structure: real {real_struct} model {model_struct}"]))
        # oracle: the property's key-set clause from independent ground truth
        sky_params = dict(zip(SKY, [[], ["sky_back"], ["sky_back", "sky_x_sl", "sky_y_sl"]]))[r["sky"]]
        extra = sky_params + exposed_nuisance(c["loss"]) + (["model"] if c["return_model"] else [])
        if c["kind"] == "single":
            want = sorted(RD.base_profile_params[c["types"][0]] + extra)
            got = sorted(r["struct"])
            if want != got:
                viol.append(v("keys", f"returned keys {got}, expected the user-facing parameters {want}"))
        else:
            want = sorted([(f"source_{j}", tuple(sorted(RD.base_profile_params[t]))) for j, t in enumerate(c["types"])] + [(k, None) for k in extra])
            got = sorted((k, tuple(sorted(vv)) if isinstance(vv, dict) else None) for k, vv in r["struct"].items())
            if want != got:
                viol.append(v("grouping", f"returned structure {got}, expected {want}"))
        if r["img_diff"] is not None and not r["img_diff"] <= 1e-3:
            viol.append(v("image", f"returned model image differs from render(returned parameters) + sky by {r['img_diff']:.2e} of the peak"))
        if not r["rounded_ok"]:
            viol.append(v("rounding", "a returned scalar is not rounded to 5 decimals"))
    return dis, viol


def correspondence(ctx):
    rng = ctx.rng("corr")
    cases = gen_cases(rng, 18 if ctx.tier == "quick" else 210)
    dis, viol = evaluate_struct(ctx, cases)
    stats = dict(single=sum(c["kind"] == "single" for c in cases), multi=sum(c["kind"] == "multi" for c in cases),
                 losses=sorted({c["loss"] for c in cases}), renderers=sorted({c["renderer"] for c in cases}), without_model=sum(not c["return_model"] for c in cases))
    return dict(name="find_MAP result structure vs Pysersic.MapDict.{purgeKeys, regroup} on the real trace's site names", evaluations=len(cases),
                distinct_nontrivial=len({(c['kind'], tuple(c['types']), c['sky'], c['loss'], c['return_model']) for c in cases}),
                rule="seeded configurations (7 profile types / catalogues of 1–3 sources, 3 skies, 10 losses, 3 renderers, with/without model) through the real find_MAP "
                     "with a shortened optimiser; the real trace's site names are filtered and regrouped by the Lean model and compared with the returned dictionary",
                samples=[{k: c[k] for k in ("kind", "types", "sky", "loss")} for c in cases[:3]], distribution=stats, disagreements=dis, violations=viol)


# ----------------------------------------------------------------------------
# optimisation quality on real full-length fits (observed only)
# ----------------------------------------------------------------------------

def fit_child(payload):
    import jax
    import jax.numpy as jnp
    from numpyro.infer.util import log_density
    from numpyro import handlers
    import pysersic.pysersic as PP
    import pysersic.priors as PR
    import pysersic.rendering as RD
    import pysersic.loss as L
    out = []
    for c in payload["cases"]:
        fails = []
        try:
            rng = np.random.default_rng(c["seed"])
            N = c["N"]
            ps_, sg_ = (9, 1.5) if c.get("auto_prior") else (7, 1.3)
            psf = np.exp(-((np.mgrid[:ps_, :ps_][0] - ps_ // 2) ** 2 + (np.mgrid[:ps_, :ps_][1] - ps_ // 2) ** 2) / (2 * sg_ ** 2))
            psf /= psf.sum()
            R = RD.HybridRenderer((N, N), jnp.asarray(psf, dtype=jnp.float32))
            truth = c["truth"]
            img = np.asarray(R.render_source({k: jnp.float32(v) for k, v in truth.items()}, c["ptype"]), dtype=np.float64)
            sigma = float(img.max()) / c["snr"]
            data = img + rng.normal(0, sigma, img.shape)
            rms = np.full_like(data, sigma)
            props = PR.SourceProperties(-99)
            props.set_sky_guess(sky_guess=0.0, sky_guess_err=sigma)
            props.set_flux_guess(truth["flux"] * 1.1)
            props.set_r_eff_guess(r_eff_guess=truth.get("r_eff", 2.0) * 1.2)
            props.set_position_guess((truth["xc"] + 0.3, truth["yc"] - 0.3))
            props.set_theta_guess(truth.get("theta", 0.0))
            prior = props.generate_prior(c["ptype"], sky_type="none")
            if c.get("auto_prior"):
                prior = PR.SourceProperties(data).generate_prior(c["ptype"], sky_type="none")     # the documented one-line route
            f = PP.FitSingle(data, rms, psf, prior, loss_func=getattr(L, c["loss"]), renderer=RD.HybridRenderer)
            res1 = f.find_MAP(jax.random.PRNGKey(c["key"]))
            res2 = f.find_MAP(jax.random.PRNGKey(c["key"]))
            same = all(np.array_equal(np.asarray(res1[k]), np.asarray(res2[k])) for k in res1)
            if not same:
                fails.append(("repeat", "two find_MAP calls with the same inputs and key returned different results"))
            # log posterior as a function of the user-facing parameters: through the unit-scale bases
            model = f.build_model(return_model=False)

            def logp(x):
                z = {}
                for k, d in prior.dist_dict.items():
                    t = d.transforms[0]
                    z[k + "_base"] = (jnp.asarray(x[k], dtype=jnp.float32) - t.loc) / t.scale
                return float(log_density(model, (), {}, z)[0])
            xm = {k: float(res1[k]) for k in prior.dist_dict}
            lm, lt = logp(xm), logp(truth)
            if not lm >= lt - 0.5:
                fails.append(("below-truth", f"logp(MAP) = {lm:.3f} < logp(truth) − 0.5 = {lt - 0.5:.3f}"))
            for k, d in prior.dist_dict.items():
                sc = float(d.transforms[0].scale)
                for sgn in (+1, -1):
                    xp = dict(xm)
                    xp[k] = xm[k] + sgn * 0.02 * sc
                    lp = logp(xp)
                    if np.isfinite(lp) and lp > lm + 0.5:
                        fails.append(("not-local-max", f"moving {k} by {sgn * 0.02 * sc:+.4g} raises logp by {lp - lm:.3f}"))
                        break
        except Exception as e:
            fails.append(("exception", f"{type(e).__name__}: {str(e)[:200]}"))
        out.append(dict(fails=fails))
    return out


def gen_fit_cases(rng, n):
    cases = []
    for k in range(n):
        N = 32
        pt = ["sersic", "exp", "pointsource", "dev"][k % 4]
        truth = dict(xc=float(rng.uniform(14, 18)), yc=float(rng.uniform(14, 18)), flux=float(rng.uniform(200, 2000)))
        if pt != "pointsource":
            truth.update(r_eff=float(rng.uniform(1.5, 2.6)), ellip=float(rng.uniform(0.1, 0.6)), theta=float(rng.uniform(0.3, 2.8)))
        if pt == "sersic":
            truth["n"] = float(rng.uniform(1.0, 3.0))
        cases.append(dict(N=N, ptype=pt, truth=truth, snr=float(rng.choice([20, 100, 1000])), loss=str(rng.choice(["gaussian_loss", "student_t_loss"])),
                          key=int(rng.integers(0, 1000)), seed=int(rng.integers(0, 2 ** 31))))
    return cases


def multimodal_cases():
    """two-component fits: the posterior has a second mode with the components swapped; the fit must still end at least as
    high as the generating parameters, for every key (used by the search for a failing input)"""
    truth = dict(xc=23.3, yc=24.6, flux=800.0, f_1=0.4, r_eff_1=2.5, n_1=3.5, ellip_1=0.2, r_eff_2=7.0, n_2=1.0, ellip_2=0.6, theta=2.2)
    return [dict(N=48, ptype="doublesersic", truth=truth, snr=400.0, loss="gaussian_loss", key=k, seed=5, auto_prior=True) for k in (0, 1, 2)]


def fit_run(ctx, cases):
    from . import render_common as RC
    w = min(ctx.workers, 8, max(1, len(cases)))
    res = RC.unchunk(run_children("c13", "fit_child", [dict(cases=ch) for ch in RC.chunked(cases, w)], x64=False, workers=w, timeout=7200), len(cases))
    out = []
    for c, r in zip(cases, res):
        for clause, msg in r["fails"]:
            out.append(Violation(f"C13:{clause}:{c['ptype']}", f"find_MAP on a synthetic {c['ptype']} (S/N {c['snr']:g}, {c['loss']}, key {c['key']}): {msg}",
                                 dict(kind="oracle-fit", case=c)))
    return out


def residual(ctx):
    rng = ctx.rng("fit")
    cases = gen_fit_cases(rng, 4 if ctx.tier == "quick" else 36)
    return dict(name="full-length find_MAP on synthetic images: logp(MAP) ≥ logp(truth) − 0.5, ±2 % moves, bitwise repeat", cases=len(cases),
                violations=fit_run(ctx, cases))


def oracle_search(ctx, hints):
    rng = ctx.rng("search")
    cases = [h["case"] for h in hints[:10] if isinstance(h.get("case"), dict) and "kind" in h["case"]] + gen_cases(rng, 30)
    return evaluate_struct(ctx, cases)[1] + fit_run(ctx, multimodal_cases() + gen_fit_cases(ctx.rng("fit-search"), 4))


def replay(ctx, payload):
    if payload.get("kind") == "oracle-fit":
        return fit_run(ctx, [payload["case"]])
    return evaluate_struct(ctx, [payload["case"]])[1]
