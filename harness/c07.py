"""C07 — each loss function is the likelihood its documentation states.
(also serves C06: the same traces carry the per-pixel masked terms.)

Tie: every real loss function is traced (numpyro.handlers) on random
(model, data, rms, mask, nuisance values, suffix); site names and kinds are
compared exactly, per-pixel log-prob arrays, nuisance priors and deterministic
values with the Lean model `Prob.lossTerms` — in float64 mode at 1e-9 (pins the
formula) and in the library's default float32 mode at the property's tolerance.
Oracle: scipy float64 formulas transcribed from the documentation.
"""
from __future__ import annotations

import math

import numpy as np

from .common import Violation, f2h, h2f, run_children

PROP = "C07"
LEAN_TARGETS = ["Props.C07", "driver"]
AUDIT_IMPORTS = ["Props.C07"]
NS = "Pysersic.Props.C07."
OBLIGATIONS = [NS + t for t in [
    "gaussian_doc", "gaussian_w_frac_doc", "gaussian_w_sys_doc", "cash_doc", "pseudo_huber_doc",
    "repo_huber_prefactor", "pseudo_huber_zero", "studentT_form", "studentT_symmetric", "studentT_scale",
    "repo_student_df", "repo_student_scale_pos", "mix2_doc", "mixture_components", "mixture_w_sys_components",
    "mixture_w_frac_components", "contam_range", "repo_outlier_width", "repo_nuisance_supports", "nuisance_names",
]]
# kernels whose translated source text (Gen/Kernels.lean) is proved equal to the model kernel this property's theorems are about
GEN_KERNELS = ["cash_loss_factor", "pseudo_huber_loss_factor", "losses"]
MIRRORED_FILES = ["pysersic/loss.py"]
ASSUMPTIONS = [
    "numpyro distributions' log_prob are modelled by the textbook formulas numpyro implements (Normal, StudentT, TruncatedNormal, MixtureSameFamily); validated per site by the correspondence",
    "handlers.mask zeroes the log-prob of masked elements (numpyro semantics, validated by the correspondence)",
    "theorems are over ℝ; float32 evaluation is observed at the property's tolerance (1e-4 abs + 1e-5 rel)",
]

LOSSES = ["gaussian_loss", "cash_loss", "gaussian_loss_w_frac", "gaussian_loss_w_sys", "student_t_loss",
          "student_t_loss_free_sys", "pseudo_huber_loss", "gaussian_mixture", "gaussian_mixture_w_sys",
          "gaussian_mixture_w_frac"]
NUIS_ORDER = ["frac_rms_increase", "sys_rms_base", "outlier_frac_base", "rms_frac"]


# keyword options a caller may set (functools.partial(loss, c=…)); exact rationals so that the model sees the same number
C_OPTS = [(5, 1), (3, 2), (5, 2), (10, 1), (3, 1)]  # first = the source default; 3/2 and 5/2 are below the widest core (1 + rms_frac ≤ 3)
DELTA_OPTS = [(3, 1), (1, 1), (1, 2), (7, 1)]
HAS_C = ("gaussian_mixture", "gaussian_mixture_w_sys", "gaussian_mixture_w_frac")
SCALES = [1.0, 1e-5, 1e3, 1e-3, 1e-19, 1e19]          # flux units: the likelihoods are stated for any positive rms
SQUARES_RMS = ("gaussian_loss_w_sys", "student_t_loss_free_sys", "gaussian_mixture_w_sys")   # rms² + σ_sys² leaves float32 at the last two


def gen_cases(rng, n):
    cases = []
    for i in range(n):
        loss = LOSSES[i % len(LOSSES)]
        rnd = i // len(LOSSES)                          # how often this loss has been drawn so far
        # few distinct shapes (every new shape recompiles each primitive): vectors and square images (a loss sees 2-D arrays in a fit)
        shape = [(1,), (6,), (12,), (3, 3), (4, 4)][rnd % 5]
        npix = int(np.prod(shape))
        m = rng.uniform(0.2, 50, size=npix) if loss == "cash_loss" or rng.random() < 0.5 else rng.normal(0, 20, size=npix)
        r = np.exp(rng.uniform(np.log(0.05), np.log(20), size=npix))
        z = rng.normal(0, 1, size=npix) * rng.choice([0.0, 0.5, 1, 3, 8], size=npix)
        d = m + r * z
        style = rng.integers(0, 5)
        good = (np.ones(npix, bool) if style == 0 else rng.random(npix) < 0.7 if style < 3
                else (np.arange(npix) == rng.integers(0, npix)) if style == 3 else np.zeros(npix, bool))
        if not good.any():
            good[int(rng.integers(0, npix))] = True   # mean over zero pixels is a separate corner
        nuis = dict(frac_rms_increase=float(rng.uniform(-0.5, 2)), sys_rms_base=float(abs(rng.normal(0, 1))),
                    outlier_frac_base=float(rng.uniform(0.01, 5)), rms_frac=float(rng.uniform(-0.6, 2)))
        scale = SCALES[rnd % len(SCALES)]
        if loss in SQUARES_RMS and not 1e-9 < scale < 1e9:
            scale = 1e-5 if scale < 1 else 1e3
        m, d, r = m * scale, d * scale, r * scale
        if rnd % 3 == 1 and not good.all():
            # what masked pixels of real images hold: NaN / inf data (the fitters sanitise rms only)
            d = d.copy()
            d[~good] = rng.choice([np.nan, np.inf, -np.inf], size=int((~good).sum()))
        opts = dict(c=C_OPTS[(rnd // 2) % len(C_OPTS)] if loss in HAS_C and rnd % 2 == 1 else C_OPTS[0],
                    delta=DELTA_OPTS[(rnd // 2) % len(DELTA_OPTS)] if loss == "pseudo_huber_loss" and rnd % 2 == 1 else DELTA_OPTS[0])
        cases.append(dict(loss=loss, m=m, d=d, r=r, good=good, nuis=nuis, opts=opts, scale=scale, shape=list(shape),
                          suffix=str(rng.choice(["", "_a", "_7", "_F444W"]))))
    return cases


def opt_kwargs(c):
    """the keyword arguments the case passes beyond the defaults"""
    o = c.get("opts") or {}
    kw = {}
    if c["loss"] in HAS_C and tuple(o.get("c", C_OPTS[0])) != C_OPTS[0]:
        kw["c"] = o["c"][0] / o["c"][1]
    if c["loss"] == "pseudo_huber_loss" and tuple(o.get("delta", DELTA_OPTS[0])) != DELTA_OPTS[0]:
        kw["delta"] = o["delta"][0] / o["delta"][1]
    return kw


def real_eval(payload):
    """Child-process entry: trace the real loss functions. payload = dict(cases=[...])."""
    import jax
    import jax.numpy as jnp
    from numpyro import handlers
    import pysersic.loss as L
    x64 = bool(jax.config.jax_enable_x64)
    ft = jnp.float64 if x64 else jnp.float32
    out = []
    for c in payload["cases"]:
        fn = getattr(L, c["loss"])
        sfx = c["suffix"]
        shp = tuple(c.get("shape") or (len(c["m"]),))
        m, d, r = (jnp.asarray(c[k], dtype=ft).reshape(shp) for k in ("m", "d", "r"))
        good = jnp.asarray(c["good"]).reshape(shp)
        subst = {k + sfx: jnp.asarray(v, dtype=ft) for k, v in c["nuis"].items()}
        kw = opt_kwargs(c)
        model = lambda: fn(m, d, r, good, suffix=sfx, **kw)  # noqa: E731
        try:
            tr = handlers.trace(handlers.substitute(handlers.seed(model, 0), data=subst)).get_trace()
        except Exception as e:
            out.append(dict(error=f"{type(e).__name__}: {e}"))
            continue
        sites = {}
        for name, s in tr.items():
            if s["type"] == "sample":
                lp = np.asarray(s["fn"].log_prob(s["value"]), dtype=np.float64)
                if s["is_observed"]:
                    lp = lp.reshape(-1)          # row-major, the order of the case's pixel list
                sup = None
                if not s["is_observed"]:
                    su = s["fn"].support
                    sup = (float(getattr(su, "lower_bound", -np.inf)), float(getattr(su, "upper_bound", np.inf)))
                sites[name] = dict(kind="observed" if s["is_observed"] else "latent", logp=lp,
                                   value=np.asarray(s["value"], dtype=np.float64), support=sup,
                                   dist=type(getattr(s["fn"], "base_dist", s["fn"])).__name__)
            elif s["type"] == "deterministic":
                sites[name] = dict(kind="deterministic", value=np.asarray(s["value"], dtype=np.float64))
        out.append(dict(sites=sites, total=float(sum(np.sum(v["logp"]) for v in sites.values() if v["kind"] == "observed"))))
    return out


def model_line(c):
    n = c["nuis"]
    px = []
    for m, d, r, g in zip(c["m"], c["d"], c["r"], c["good"]):
        px += [f2h(m), f2h(d), f2h(r), "1" if g else "0"]
    o = c.get("opts") or dict(c=C_OPTS[0], delta=DELTA_OPTS[0])
    return "lossopt %d %d %d %d %s %s %s %s %s %s" % (o["c"][0], o["c"][1], o["delta"][0], o["delta"][1],
                                                      c["loss"], f2h(n["frac_rms_increase"]), f2h(n["sys_rms_base"]),
                                                      f2h(n["outlier_frac_base"]), f2h(n["rms_frac"]), " ".join(px))


def parse_model(reply):
    # terms=<…> nuis=<…> det=<…> site=<name>:<kind>
    parts = {}
    cur = None
    for tok in reply.split(" "):
        for key in ("terms=", "nuis=", "det=", "site="):
            if tok.startswith(key):
                cur = key[:-1]
                parts[cur] = []
                tok = tok[len(key):]
                break
        if tok != "":
            parts[cur].append(tok)
    terms = np.array([h2f(t) for t in parts.get("terms", [])])
    nuis = {t.split("=")[0]: h2f(t.split("=")[1]) for t in parts.get("nuis", [])}
    det = {t.split("=")[0]: h2f(t.split("=")[1]) for t in parts.get("det", [])}
    sname, skind = parts["site"][0].split(":")
    return terms, nuis, det, sname, skind


def cast32(c):
    """what the float32 run actually sees"""
    c2 = dict(c)
    for k in ("m", "d", "r"):
        c2[k] = np.asarray(c[k], dtype=np.float32).astype(np.float64)
    c2["nuis"] = {k: float(np.float32(v)) for k, v in c["nuis"].items()}
    return c2


def compare(c, reply, real, tol_abs, tol_rel):
    """Returns list of difference strings."""
    if "error" in real:
        return [f"real raised {real['error']}"]
    terms, nuis, det, sname, skind = parse_model(reply)
    sfx = c["suffix"]
    sites = real["sites"]
    diffs = []
    lk = sname + sfx
    if lk not in sites:
        return [f"likelihood site {lk} missing; real sites {sorted(sites)}"]
    exp_kind = "observed"
    if sites[lk]["kind"] != exp_kind:
        diffs.append(f"site {lk} kind {sites[lk]['kind']}")
    rl = sites[lk]["logp"]
    if rl.shape != terms.shape:
        diffs.append(f"per-pixel shape {rl.shape} vs {terms.shape}")
    else:
        bad = ~(np.abs(rl - terms) <= tol_abs + tol_rel * np.abs(terms))
        bad &= ~(np.isnan(rl) & np.isnan(terms))
        if bad.any():
            i = int(np.argmax(bad))
            diffs.append(f"per-pixel log-prob differs at pixel {i}: real {rl[i]!r} model {terms[i]!r} (good={bool(c['good'][i])})")
    exp_latent = {k + sfx for k in nuis}
    real_latent = {k for k, s in sites.items() if s["kind"] == "latent"}
    if exp_latent != real_latent:
        diffs.append(f"latent sites real {sorted(real_latent)} model {sorted(exp_latent)}")
    for k, v in nuis.items():
        if k + sfx in sites:
            rv = float(sites[k + sfx]["logp"])
            if not abs(rv - v) <= tol_abs + tol_rel * abs(v):
                diffs.append(f"prior log-prob of {k}: real {rv!r} model {v!r}")
    exp_det = {k + sfx for k in det}
    real_det = {k for k, s in sites.items() if s["kind"] == "deterministic"}
    if exp_det != real_det:
        diffs.append(f"deterministic sites real {sorted(real_det)} model {sorted(exp_det)}")
    for k, v in det.items():
        if k + sfx in sites:
            rv = float(sites[k + sfx]["value"])
            if not abs(rv - v) <= tol_abs + tol_rel * abs(v):
                diffs.append(f"deterministic {k}: real {rv!r} model {v!r}")
    return diffs


# ----------------------------------------------------------------------------
# oracle: documentation formulas in scipy float64
# ----------------------------------------------------------------------------

def doc_logpdf(c, sites):
    from scipy import stats
    from scipy.special import logsumexp
    m, d, r = (np.asarray(c[k], float) for k in ("m", "d", "r"))
    sfx = c["suffix"]
    n = c["nuis"]
    loss = c["loss"]

    good = np.asarray(c["good"], bool)

    def det(name):
        # C07's own cases: recomputed from what the caller passed in (the nuisance values and the rms map), never read back from
        # the trace; other checks (C05, C15) hand in deterministic values they have recomputed themselves
        if not c.get("recompute_det"):
            return float(sites[name + sfx]["value"])
        if name == "sys_rms":
            return float(n["sys_rms_base"]) * float(np.mean(r[good]))
        if name == "outlier_frac":
            return 0.05 * float(n["outlier_frac_base"])
        return float(sites[name + sfx]["value"])
    if loss == "gaussian_loss":
        return stats.norm.logpdf(d, m, r)
    if loss == "gaussian_loss_w_frac":
        return stats.norm.logpdf(d, m, (1 + n["frac_rms_increase"]) * r)
    if loss == "gaussian_loss_w_sys":
        return stats.norm.logpdf(d, m, np.sqrt(r ** 2 + det("sys_rms") ** 2))
    if loss == "cash_loss":
        return -(m - d * np.log(m))
    o = c.get("opts") or dict(c=C_OPTS[0], delta=DELTA_OPTS[0])
    cw = o["c"][0] / o["c"][1]                # "outlier component c times wider"
    if loss == "pseudo_huber_loss":
        delta = o["delta"][0] / o["delta"][1]
        a = (d - m) / r
        return -(delta ** 2) * (np.sqrt(1 + (a / delta) ** 2) - 1)
    if loss.startswith("gaussian_mixture"):
        cfrac = det("outlier_frac")
        if loss == "gaussian_mixture":
            s1, s2 = r, cw * r
        elif loss == "gaussian_mixture_w_sys":
            s1 = np.sqrt(r ** 2 + det("sys_rms") ** 2)
            s2 = cw * s1
        else:
            s1, s2 = (1 + n["rms_frac"]) * r, cw * r
        return logsumexp([np.log(1 - cfrac) + stats.norm.logpdf(d, m, s1), np.log(cfrac) + stats.norm.logpdf(d, m, s2)], axis=0)
    if loss == "student_t_loss":
        # ν = 5 and scale √((ν−2)/2)·rms (pinned by Props.C07.repo_student_df / studentT_form); documented σ = rms
        return stats.t.logpdf(d, 5.0, m, np.sqrt(1.5) * r)
    if loss == "student_t_loss_free_sys":
        # documented: σ_new² = σ_old² + σ_sys² — the same law as student_t_loss at the quadrature-summed rms
        return stats.t.logpdf(d, 5.0, m, np.sqrt(1.5) * np.sqrt(r ** 2 + det("sys_rms") ** 2))
    return None


def oracle_case(c, real, tol_abs=1e-4, tol_rel=1e-5):
    out = []
    if "error" in real:
        return [Violation(f"C07:exception:{c['loss']}", f"{c['loss']} raised {real['error']}", dict(kind="oracle", case=ser(c)))]
    sites = real["sites"]
    sfx = c["suffix"]
    lk = [k for k, s in sites.items() if s["kind"] == "observed"]
    if len(lk) != 1:
        return [Violation(f"C07:sites:{c['loss']}", f"{c['loss']}: expected one likelihood site, got {lk}", dict(kind="oracle", case=ser(c)))]
    rl = sites[lk[0]]["logp"]
    good = np.asarray(c["good"], bool)
    doc = doc_logpdf(dict(c, recompute_det=True), sites)

    def v(clause, msg):
        return Violation(f"C07:{clause}:{c['loss']}", f"{c['loss']}: {msg}", dict(kind="oracle", case=ser(c), clause=clause))
    if doc is not None:
        with np.errstate(all="ignore"):
            exp = np.where(good, doc, 0.0)
            bad = ~(np.abs(rl - exp) <= tol_abs + tol_rel * np.abs(exp))
        if bad.any():
            i = int(np.argmax(bad))
            out.append(v("formula", f"per-pixel log-density {rl[i]:.8g} differs from the documented likelihood {exp[i]:.8g} "
                                    f"(m={c['m'][i]:.6g}, d={c['d'][i]:.6g}, rms={c['r'][i]:.6g}, unmasked={bool(good[i])})"))
    if np.any(rl[~good] != 0):
        out.append(v("masked-nonzero", "masked pixel contributes to the log-density"))
    if good.any() and np.all(np.isfinite(np.asarray(doc if doc is not None else 0.0)[good])) and not np.isfinite(real.get("total", 0.0)):
        out.append(v("masked-poison", f"the summed log-density of the site is {real.get('total')} although every unmasked pixel is finite "
                                      f"(data under the mask: {[float(x) for x in np.asarray(c['d'])[~good][:4]]})"))
    # documented supports of nuisance parameters
    doc_sup = {"frac_rms_increase": (-0.5, 2.0), "sys_rms_base": (0.0, np.inf), "outlier_frac_base": (0.0, 5.0), "rms_frac": (-2.0 / 3.0, 2.0)}
    for k, (lo, hi) in doc_sup.items():
        if k + sfx in sites and sites[k + sfx]["support"] is not None:
            slo, shi = sites[k + sfx]["support"]
            if abs(slo - lo) > 1e-6 or (np.isfinite(hi) and abs(shi - hi) > 1e-6) or (not np.isfinite(hi) and np.isfinite(shi)):
                out.append(v("support", f"nuisance {k} has support [{slo}, {shi}], documented [{lo}, {hi}]"))
    if "outlier_frac" + sfx in sites:
        f = float(sites["outlier_frac" + sfx]["value"])
        if not (0 <= f <= 0.25 + 1e-6):
            out.append(v("outlier-frac", f"outlier fraction {f} outside [0, 0.25]"))
    return out


def ser(c):
    return dict(loss=c["loss"], m=[float(x) for x in c["m"]], d=[float(x) for x in c["d"]], r=[float(x) for x in c["r"]],
                good=[bool(x) for x in c["good"]], nuis=c["nuis"], suffix=c["suffix"])


def deser(c):
    return dict(loss=c["loss"], m=np.array(c["m"]), d=np.array(c["d"]), r=np.array(c["r"]), good=np.array(c["good"], bool),
                nuis=c["nuis"], suffix=c["suffix"])


def student_structure(ctx):
    """Student-t structural clauses on the real function (float64 child)."""
    rng = ctx.rng("student")
    cases = []
    for _ in range(20):
        m = float(rng.normal(0, 5))
        r = float(np.exp(rng.uniform(-14, 8)))     # any flux unit: 1e-6 … 3e3
        t = float(rng.uniform(0.1, 30))
        a = float(np.exp(rng.uniform(-2, 2)))
        m = m * r
        base = dict(loss="student_t_loss", good=np.ones(4, bool), nuis=dict(frac_rms_increase=0., sys_rms_base=0.5, outlier_frac_base=1., rms_frac=0.), suffix="")
        cases.append(dict(base, m=np.full(4, m), d=np.array([m + t * r, m - t * r, m + a * t * r, m]), r=np.array([r, r, a * r, r]), meta=(m, r, t, a)))
    res = run_children("c07", "real_eval", [dict(cases=cases)], x64=True)[0]
    out = []
    for c, rr in zip(cases, res):
        lp = rr["sites"]["Loss"]["logp"]
        m, r, t, a = c["meta"]
        if abs(lp[0] - lp[1]) > 1e-9:
            out.append(Violation("C07:student-symmetry", f"student_t_loss not symmetric in the residual: {lp[0]} vs {lp[1]}", dict(kind="oracle-student")))
        if abs((lp[2] + math.log(a)) - lp[0]) > 1e-9:
            out.append(Violation("C07:student-scale", "student_t_loss depends on (d-m, rms) other than through (d-m)/rms and -log rms", dict(kind="oracle-student")))
        if not lp[3] > lp[0]:
            out.append(Violation("C07:student-location", "student_t_loss not peaked at the model value", dict(kind="oracle-student")))
    # tail exponent: d logp / d log t → -(nu+1) = -6
    m, r = 0.0, 1.0
    ts = np.array([1e4, 2e4])
    c = dict(loss="student_t_loss", m=np.zeros(2), d=ts, r=np.ones(2), good=np.ones(2, bool),
             nuis=dict(frac_rms_increase=0., sys_rms_base=0.5, outlier_frac_base=1., rms_frac=0.), suffix="")
    lp = run_children("c07", "real_eval", [dict(cases=[c])], x64=True)[0][0]["sites"]["Loss"]["logp"]
    slope = (lp[1] - lp[0]) / math.log(2.0)
    if abs(slope + 6.0) > 1e-3:
        out.append(Violation("C07:student-tail", f"student_t_loss tail exponent {slope:.4f}, expected -6 (5 d.o.f.)", dict(kind="oracle-student")))
    return out


def run_passes(ctx, cases):
    nchunk = max(1, min(4, len(cases) // 150 or 1))
    chunks = [cases[i::nchunk] for i in range(nchunk)]
    # float64 pass
    r64 = run_children("c07", "real_eval", [dict(cases=ch) for ch in chunks], x64=True, workers=ctx.workers)
    r32 = run_children("c07", "real_eval", [dict(cases=ch) for ch in chunks], x64=False, workers=ctx.workers)
    real64 = [None] * len(cases)
    real32 = [None] * len(cases)
    for k, ch in enumerate(chunks):
        for j, _ in enumerate(ch):
            real64[k + j * nchunk] = r64[k][j]
            real32[k + j * nchunk] = r32[k][j]
    return real64, real32


def correspondence(ctx):
    rng = ctx.rng("corr")
    cases = gen_cases(rng, 300 if ctx.tier == "quick" else 5000)
    real64, real32 = run_passes(ctx, cases)
    m64 = ctx.driver.ask([model_line(c) for c in cases])
    c32 = [cast32(c) for c in cases]
    m32 = ctx.driver.ask([model_line(c) for c in c32])
    disagreements, violations = [], []
    stats = dict(by_loss={}, masked_pixels=0, pixels=0, suffixes={})
    distinct = set()
    for c, a, b, ra, rb, cc in zip(cases, m64, m32, real64, real32, c32):
        stats["by_loss"][c["loss"]] = stats["by_loss"].get(c["loss"], 0) + 1
        stats["pixels"] += len(c["m"])
        stats["masked_pixels"] += int((~c["good"]).sum())
        stats["suffixes"][c["suffix"]] = stats["suffixes"].get(c["suffix"], 0) + 1
        if (~c["good"]).any():
            distinct.add((c["loss"], len(c["m"]), tuple(c["good"])))
        d64 = compare(c, a, ra, 1e-9, 1e-9)
        d32 = compare(cc, b, rb, 1e-4, 1e-5)
        if d64 or d32:
            disagreements.append(dict(case=ser(c), x64=d64[:3], f32=d32[:3]))
        violations += oracle_case(cc, rb)
    violations += student_structure(ctx)
    samples = [dict(loss=c["loss"], npix=len(c["m"]), suffix=c["suffix"], model=a[:90]) for c, a in list(zip(cases, m64))[:3]]
    return dict(
        name="loss_traces_vs_Pysersic.Prob.lossTerms",
        evaluations=2 * len(cases), distinct_nontrivial=len(distinct),
        rule="seeded random (loss, 1/6/12 pixels, model/data/rms, mask pattern, nuisance values in support, suffix), each traced in "
             "float64 (tolerance 1e-9) and float32 (1e-4 abs + 1e-5 rel); non-trivial = at least one masked pixel; "
             "distinct = distinct (loss, size, mask pattern)",
        samples=samples, distribution=stats, disagreements=disagreements, violations=violations)


def oracle_search(ctx, hints):
    rng = ctx.rng("oracle")
    cases = [deser(h["case"]) for h in hints[:100] if isinstance(h.get("case"), dict) and "loss" in h["case"]]
    cases += gen_cases(rng, 400)
    c32 = [cast32(c) for c in cases]
    res = run_children("c07", "real_eval", [dict(cases=cases)], x64=False)[0]
    out = []
    for cc, rr in zip(c32, res):
        out += oracle_case(cc, rr)
    out += student_structure(ctx)
    best = {}
    for v in out:
        n = len(v.replay.get("case", {}).get("m", [])) if isinstance(v.replay.get("case"), dict) else 0
        if v.signature not in best or n < best[v.signature][0]:
            best[v.signature] = (n, v)
    return [v for _, v in best.values()]


def replay(ctx, payload):
    if payload.get("kind") == "oracle-student":
        return student_structure(ctx)
    c = deser(payload["case"])
    res = run_children("c07", "real_eval", [dict(cases=[c])], x64=False)[0]
    return oracle_case(cast32(c), res[0])
