"""C11 — prior-setting helpers install exactly the stated distribution.

Theorems (Props/C11.lean, ℝ): textbook log-densities of the objects the three helpers build, truncation window in the
parameter's units, exposed value loc + scale·base, constant Jacobian of the re-parameterisation.
Tie: the real helpers' installed objects (family, loc, scale, rescaled bounds, reparam entry) and their log_prob on random
(loc, scale, bounds, x) vs the Lean `helper` command (float64 1e-9, float32 at the property's tolerance), the exposed value
through a real reparameterised trace.
Oracle: scipy.stats norm / uniform / truncnorm at the float32-rounded point (1e-2 abs), inside and outside the support;
10^4 samples inside the bounds; reparameterised vs plain model log-density difference constant (1e-3).
"""
from __future__ import annotations

import numpy as np

from .common import Violation, f2h, h2f, run_children

PROP = "C11"
LEAN_TARGETS = ["Props.C11", "driver"]
AUDIT_IMPORTS = ["Props.C11"]
NS = "Pysersic.Props.C11."
OBLIGATIONS = [NS + t for t in [
    "gaussian_logpdf", "uniform_logpdf", "trunc_logpdf", "window_low", "window_high", "uniform_window", "exposed_value",
    "reparam_constant_jacobian", "prior_reparam_constant", "repo_support_masked", "masked_outside", "masked_inside",
    "uniform_support", "trunc_support", "trunc_support_low", "trunc_support_high",
]]
MIRRORED_FILES = ["pysersic/priors.py"]
ASSUMPTIONS = [
    "numpyro's Normal/Uniform/TruncatedNormal log_prob and AffineTransform/TransformedDistribution are modelled by the textbook formulas (validated by the tie); Φ is abstract in the theorems",
    "sampling (numpyro's sampler) is observed only",
]


def gen_cases(rng, n):
    cases = []
    for k in range(n):
        kind = ["gaussian", "uniform", "trunc"][k % 3]
        scale = float(np.exp(rng.uniform(np.log(1e-2), np.log(1e3))))
        loc = float(rng.uniform(-100, 100) * scale)
        sfx = str(rng.choice(["", "_a", "_3_F444W"]))
        c = dict(kind=kind, loc=loc, scale=scale, suffix=sfx, low=None, high=None, name="flux", ptype="pointsource")
        if k % 5 == 3:
            # a parameter whose own name ends like the suffix (what PySersicMultiPrior produces for source 1 / 2 of a catalogue)
            c["ptype"] = "doublesersic"
            c["name"] = ["f_1", "r_eff_1", "n_1", "ellip_1", "r_eff_2", "n_2", "ellip_2"][(k // 5) % 7]
            c["suffix"] = sfx = c["name"][-2:]
        if kind == "uniform":
            c["low"] = loc
            c["high"] = loc + scale * float(rng.uniform(0.2, 18))
            lo, hi = c["low"], c["high"]
        elif kind == "trunc":
            a = float(rng.uniform(-6, 11.5))
            b = a + float(rng.uniform(0.2, 12 - a)) if a < 11.8 else a + 0.2
            style = int(rng.integers(0, 4))
            if style == 0:
                c["low"], c["high"] = loc + a * scale, loc + min(b, 12.0) * scale
            elif style == 1:
                c["low"] = loc + float(rng.uniform(-6, 4)) * scale
            elif style == 2:
                c["high"] = loc + float(rng.uniform(-4, 12)) * scale
            else:
                c["low"], c["high"] = loc + float(rng.uniform(-2, 0)) * scale, loc + float(rng.uniform(0.2, 3)) * scale
            lo = c["low"] if c["low"] is not None else loc - 6 * scale
            hi = c["high"] if c["high"] is not None else loc + 8 * scale
        else:
            lo, hi = loc - 5 * scale, loc + 5 * scale
        if kind == "trunc" and k % 7 == 1:
            # a truncation bound of exactly zero (one-sided and as one edge of a window)
            c["loc"] = loc = float(rng.uniform(-2, 2)) * scale
            if k % 2:
                c["low"], c["high"] = 0.0, (None if k % 4 == 1 else abs(loc) + float(rng.uniform(0.5, 3)) * scale)
            else:
                c["low"], c["high"] = (None if k % 4 == 0 else -abs(loc) - float(rng.uniform(0.5, 3)) * scale), 0.0
            lo = c["low"] if c["low"] is not None else loc - 6 * scale
            hi = c["high"] if c["high"] is not None else loc + 8 * scale
        if kind == "trunc" and k % 9 == 2:
            # a one-sided bound far in the upper tail (10–12 σ above loc): the stated bound, not a rounder one, is the support's edge
            c["loc"] = loc = float(rng.uniform(-3, 3)) * scale
            c["low"], c["high"] = loc + float(rng.uniform(10.2, 11.8)) * scale, None
            lo, hi = c["low"], c["low"] + 3 * scale
            c["far_tail"] = True
        if kind == "gaussian" and k % 6 == 0:
            # an integer-typed location with a non-integer width
            c["loc"] = loc = int(rng.integers(-50, 50))
            c["scale"] = scale = float(rng.choice([0.3, 1.5, 24.5, 2.25]))
            c["int_loc"] = True
            lo, hi = loc - 5 * scale, loc + 5 * scale
        w = hi - lo
        xs = [float(rng.uniform(lo, hi)) for _ in range(3)] + [lo - float(rng.uniform(0.05, 2)) * w, hi + float(rng.uniform(0.05, 2)) * w]
        if kind == "trunc" and k % 9 == 2:
            xs[3] = lo - 0.1 * scale            # just outside the stated support, still more than 10 σ above loc
        c["xs"] = xs
        cases.append(c)
    return cases


def real_eval(payload):
    import jax
    import jax.numpy as jnp
    import numpyro
    from numpyro import handlers
    from numpyro.infer.util import log_density
    import pysersic.priors as PR
    ft = jnp.float64 if jax.config.jax_enable_x64 else jnp.float32
    out = []
    for c in payload["cases"]:
        try:
            prior = PR.PySersicSourcePrior(c.get("ptype", "pointsource"), suffix=c["suffix"])
            name = c.get("name", "flux")
            if c["kind"] == "gaussian":
                prior.set_gaussian_prior(name, (np.int64(c["loc"]) if c.get("int_loc") and c["seed"] % 2 else c["loc"]), c["scale"])
            elif c["kind"] == "uniform":
                prior.set_uniform_prior(name, c["low"], c["high"])
            else:
                prior.set_truncated_gaussian_prior(name, c["loc"], c["scale"], low=c["low"], high=c["high"])
            key = name + c["suffix"]
            keys = sorted(prior.dist_dict)
            d = prior.dist_dict[key]
            base = d.base_dist
            t = d.transforms[0]
            xs = jnp.asarray(c["xs"], dtype=ft)
            lp = np.asarray(d.log_prob(xs), dtype=np.float64)
            ent = dict(family=type(base).__name__, loc=float(t.loc), scale=float(t.scale),
                       low=(None if getattr(base, "low", None) is None else float(base.low)) if "Truncated" in type(base).__name__ else None,
                       high=(None if getattr(base, "high", None) is None else float(base.high)) if "Truncated" in type(base).__name__ else None)
            reparam = type(prior.reparam_dict.get(key)).__name__
            res = dict(keys=keys, entry=ent, logp=lp, reparam=reparam, support=str(d.support))
            if payload.get("deep"):
                # samples, exposed value, constant Jacobian
                smp = np.asarray(d.sample(jax.random.PRNGKey(c.get("seed", 0)), (10000,)), dtype=np.float64)
                res["sample_min"], res["sample_max"], res["sample_nan"] = float(smp.min()), float(smp.max()), bool(np.isnan(smp).any())

                def plain():
                    numpyro.sample(key, d)

                rmodel = handlers.reparam(plain, config=prior.reparam_dict)
                zs = np.asarray(base.sample(jax.random.PRNGKey(7), (6,)), dtype=np.float64)
                diffs, exposed = [], []
                tr0 = handlers.trace(handlers.seed(rmodel, 0)).get_trace()
                res["base_site"] = (key + "_base" in tr0 and tr0[key + "_base"]["type"] == "sample" and tr0[key]["type"] == "deterministic")
                if not res["base_site"]:
                    out.append(res)
                    continue
                for z in zs:
                    tr = handlers.trace(handlers.substitute(rmodel, data={key + "_base": jnp.asarray(z, dtype=ft)})).get_trace()
                    xv = tr[key]["value"]
                    exposed.append((float(z), float(xv)))
                    lr = float(log_density(rmodel, (), {}, {key + "_base": jnp.asarray(z, dtype=ft)})[0])
                    lpn = float(log_density(plain, (), {}, {key: xv})[0])
                    diffs.append(lr - lpn)
                res["exposed"], res["jac"] = exposed, diffs
                if c.get("seed", 0) % 2 == 0:
                    res["sky"] = sky_helper_eval(c, ft)
            out.append(res)
        except Exception as e:
            out.append(dict(error=f"{type(e).__name__}: {e}"))
    return out


SKY_NAMES = {"flat": ["sky_back"], "tilted-plane": ["sky_back", "sky_x_sl", "sky_y_sl"]}


def sky_stated(c):
    """(sky type, {parameter: (mu, sigma)}) the sub-case asks the sky prior's helper for: a different law per parameter"""
    sky_type = ["flat", "tilted-plane", "tilted-plane"][(c.get("seed", 0) // 2) % 3]
    return sky_type, {nm: (c["loc"] * (0.37 + 0.61 * i), c["scale"] * (1.0 + 1.7 * i)) for i, nm in enumerate(SKY_NAMES[sky_type])}


def sky_helper_eval(c, ft):
    """The sky prior's own helper (`update_prior`, the one FitMultiBand uses between its stages) followed by the trace of the
    model a fitter builds: every sky parameter must be exposed as mu + sigma·base with its OWN mu and sigma."""
    import jax.numpy as jnp
    from numpyro import handlers
    import pysersic
    import pysersic.priors as PR
    sfx = c["suffix"]
    sky_type, stated = sky_stated(c)
    N = 12
    prior = PR.PySersicSourcePrior("pointsource", sky_type=sky_type, sky_guess=0.02, sky_guess_err=0.004, suffix=sfx)
    for nm, mu, sg in (("xc", 6.0, 1.0), ("yc", 6.0, 1.0), ("flux", 50.0, 5.0)):
        prior.set_gaussian_prior(nm, mu, sg)
    for nm, (mu, sg) in stated.items():
        prior.sky_prior.update_prior(nm, mu, sg)
    rng = np.random.default_rng(c.get("seed", 0))
    data = rng.normal(0, 0.1, (N, N)).astype(np.float32)
    psf = np.zeros((3, 3), np.float32)
    psf[1, 1] = 1.0
    fitter = pysersic.FitSingle(data, np.full((N, N), 0.1, np.float32), psf, prior)
    model = fitter.build_model()
    zs = {nm: float(z) for nm, z in zip(stated, rng.normal(0, 1, len(stated)))}
    sub = {nm + sfx + "_base": jnp.asarray(z, dtype=ft) for nm, z in zs.items()}
    tr = handlers.trace(handlers.substitute(handlers.seed(model, 0), data=sub)).get_trace()
    out = dict(sky_type=sky_type, sites={})
    for nm in stated:
        k = nm + sfx
        out["sites"][nm] = dict(present=k in tr, kind=tr[k]["type"] if k in tr else None,
                                base=(k + "_base" in tr and tr[k + "_base"]["type"] == "sample"),
                                value=float(tr[k]["value"]) if k in tr else None, z=zs[nm])
    return out


def helper_line(c, x):
    if c["kind"] == "gaussian":
        return f"helper gaussian {f2h(c['loc'])} {f2h(c['scale'])} {f2h(x)}"
    if c["kind"] == "uniform":
        return f"helper uniform {f2h(c['low'])} {f2h(c['high'])} {f2h(x)}"
    lo = "-" if c["low"] is None else f2h(c["low"])
    hi = "-" if c["high"] is None else f2h(c["high"])
    return f"helper trunc {f2h(c['loc'])} {f2h(c['scale'])} {lo} {hi} {f2h(x)}"


def parse_helper(rep):
    d = dict(tok.split("=", 1) for tok in rep.split(" ") if "=" in tok)
    nm, fam, loc, sc, lo, hi = d["entry"].split("|")
    return dict(logp=(-np.inf if d["logp"] == "-inf" else h2f(d["logp"])), inside=d.get("inside") == "1", base=h2f(d["base"]), value=h2f(d["value"]), family=fam, loc=h2f(loc), scale=h2f(sc),
                low=None if lo == "-" else h2f(lo), high=None if hi == "-" else h2f(hi))


FAM = dict(Normal="normal", Uniform="uniform", TruncatedNormal="truncnormal", LeftTruncatedDistribution="truncnormal",
           RightTruncatedDistribution="truncnormal", TwoSidedTruncatedDistribution="truncnormal")


def scipy_logpdf(c, x):
    from scipy import stats
    if c["kind"] == "gaussian":
        return stats.norm.logpdf(x, c["loc"], c["scale"])
    if c["kind"] == "uniform":
        return stats.uniform.logpdf(x, c["low"], c["high"] - c["low"])
    a = -np.inf if c["low"] is None else (c["low"] - c["loc"]) / c["scale"]
    b = np.inf if c["high"] is None else (c["high"] - c["loc"]) / c["scale"]
    return stats.truncnorm.logpdf(x, a, b, c["loc"], c["scale"])


def close(a, b, rel, ab=0.0):
    return abs(a - b) <= ab + rel * max(abs(a), abs(b))


def evaluate(ctx, cases, deep_every=4):
    for i, c in enumerate(cases):
        c["seed"] = i
    r64 = run_children("c11", "real_eval", [dict(cases=cases)], x64=True)[0]
    deep = cases[::deep_every]
    r32 = run_children("c11", "real_eval", [dict(cases=cases)], x64=False)[0]
    r32d = run_children("c11", "real_eval", [dict(cases=deep, deep=True)], x64=False)[0]
    lines = [helper_line(c, x) for c in cases for x in c["xs"]]
    rep = iter(ctx.driver.ask(lines))
    dis, viol = [], []
    stats = dict(kinds={}, one_sided=0, outside_points=0)
    for c, a, b in zip(cases, r64, r32):
        stats["kinds"][c["kind"]] = stats["kinds"].get(c["kind"], 0) + 1
        if c["kind"] == "trunc" and (c["low"] is None) != (c["high"] is None):
            stats["one_sided"] += 1
        ms = [parse_helper(next(rep)) for _ in c["xs"]]
        if "error" in a or "error" in b:
            dis.append(dict(case=c, diffs=[a.get("error") or b.get("error")]))
            continue
        diffs = []
        e, m0 = a["entry"], ms[0]
        if FAM.get(e["family"], e["family"]) != m0["family"]:
            diffs.append(f"installed base family {e['family']}, model {m0['family']}")
        for fld in ("loc", "scale", "low", "high"):
            rv, mv = e[fld], m0[fld]
            if (rv is None) != (mv is None) or (rv is not None and not close(rv, mv, 1e-12, 1e-300)):
                diffs.append(f"installed {fld} = {rv!r}, model {mv!r}")
        if a["reparam"] != "TransformReparam":
            diffs.append(f"reparam entry {a['reparam']}")
        if a["keys"] != [c.get("name", "flux") + c["suffix"]]:
            diffs.append(f"helper defined keys {a['keys']}")
        for x, m, l64 in zip(c["xs"], ms, a["logp"]):
            if (c["kind"] == "trunc" and c["low"] is not None and c["high"] is not None and (c["low"] - c["loc"]) / c["scale"] > 7.0
                    and m["inside"] and not np.isfinite(l64)):
                # two-sided window more than 7 σ above loc: the pinned numpyro's normaliser cancels in float64 as well (the float32
                # case is the known finding); the 64-bit pass cannot pin the formula there, the float32 oracle judges these points
                continue
            if c.get("far_tail") and m["inside"]:
                # the model's Float evaluation forms 1 − Φ(z) and loses the upper tail beyond ~8 σ (a limit of the executable
                # instance, not of the theorems, which are over ℝ): these points are judged by the scipy oracle below only
                continue
            if np.isfinite(l64) and np.isfinite(m["logp"]):
                if not close(l64, m["logp"], 1e-9, 1e-9):
                    diffs.append(f"log_prob({x:.6g}) real {l64!r} model {m['logp']!r}")
            elif not (l64 == m["logp"]):
                diffs.append(f"log_prob({x:.6g}) real {l64!r} model {m['logp']!r} (model says the point is {'inside' if m['inside'] else 'outside'} the support)")
        if diffs:
            dis.append(dict(case=c, diffs=diffs[:4]))
        # oracle: scipy at the float32-rounded point, 1e-2 absolute — inside and outside the support
        lo = c["low"] if c["low"] is not None else -np.inf
        hi = c["high"] if c["high"] is not None else np.inf
        if c["kind"] == "gaussian":
            lo, hi = -np.inf, np.inf
        for x, l32 in zip(c["xs"], b["logp"]):
            x32 = float(np.float32(x))
            ref = float(scipy_logpdf(c, x32))
            inside = lo <= x32 <= hi
            stats["outside_points"] += 0 if inside else 1
            ok = (abs(l32 - ref) <= 1e-2) if np.isfinite(ref) else (l32 == ref)
            if not ok:
                cls = "inside" if inside else "outside-support"
                if inside and c["kind"] == "trunc" and c["low"] is not None and c["high"] is not None and (c["low"] - c["loc"]) / c["scale"] > 4.5:
                    cls = "inside-upper-tail-window-float32"
                viol.append(Violation(f"C11:logpdf:{c['kind']}:{cls}",
                                      f"{c['kind']} helper (loc={c['loc']:.5g}, scale={c['scale']:.5g}, low={c['low']}, high={c['high']}): log_prob({x32:.7g}) = {l32:.6g}, "
                                      f"scipy {ref:.6g} ({cls})", dict(kind="oracle", case={k: v for k, v in c.items()})))
                break
    for c, r in zip(deep, r32d):
        if "error" in r:
            viol.append(Violation(f"C11:exception:{c['kind']}", f"{c['kind']} helper (loc={c['loc']:.5g}, scale={c['scale']:.5g}, low={c['low']}, high={c['high']}, "
                                  f"suffix '{c['suffix']}'): sampling / tracing the installed prior raised {r['error'][:200]}", dict(kind="oracle", case=c)))
            continue
        if not r.get("base_site", True):
            viol.append(Violation(f"C11:not-reparameterised:{c['kind']}", f"{c['kind']} helper with suffix '{c['suffix']}': the parameter is not re-parameterised to unit scale "
                                  f"(no '<name>{c['suffix']}_base' latent with '<name>{c['suffix']}' exposed as loc + scale·base)", dict(kind="oracle", case=c)))
            continue
        lo = c["low"] if c["low"] is not None else -np.inf
        hi = c["high"] if c["high"] is not None else np.inf
        if c["kind"] != "gaussian":
            eps = 1e-5 * max(abs(lo) if np.isfinite(lo) else 0, abs(hi) if np.isfinite(hi) else 0, c["scale"])
            if r["sample_nan"] or r["sample_min"] < lo - eps or r["sample_max"] > hi + eps:
                viol.append(Violation(f"C11:samples:{c['kind']}", f"{c['kind']} helper: samples [{r['sample_min']:.6g}, {r['sample_max']:.6g}] leave the bounds [{lo:.6g}, {hi:.6g}]",
                                      dict(kind="oracle", case=c)))
        loc, sc = (c["low"], c["high"] - c["low"]) if c["kind"] == "uniform" else (c["loc"], c["scale"])
        for z, xv in r["exposed"]:
            if not close(xv, loc + sc * z, 2e-6, 1e-6 * sc):
                viol.append(Violation(f"C11:exposed:{c['kind']}", f"{c['kind']} helper: exposed value {xv!r} ≠ loc + scale·base = {loc + sc * z!r}", dict(kind="oracle", case=c)))
                break
        if r.get("sky"):
            _, stated = sky_stated(c)
            for nm, (mu, sg) in stated.items():
                st = r["sky"]["sites"][nm]
                if not st["present"] or not st["base"] or st["kind"] != "deterministic":
                    viol.append(Violation("C11:sky-not-reparameterised", f"sky helper update_prior('{nm}', …) with suffix '{c['suffix']}', sky {r['sky']['sky_type']}: in the fitter's model "
                                          f"the parameter is not exposed as loc + scale·base (present={st['present']}, kind={st['kind']}, base latent={st['base']})",
                                          dict(kind="oracle", case=c)))
                    break
                exp = float(np.float32(mu)) + float(np.float32(sg)) * st["z"]
                if not close(st["value"], exp, 5e-6, 2e-6 * sg):
                    viol.append(Violation("C11:sky-exposed", f"sky helper update_prior('{nm}', mu={mu:.6g}, sigma={sg:.6g}), sky {r['sky']['sky_type']}: the fitter's model exposes "
                                          f"{st['value']!r}, stated mu + sigma·base = {exp!r}", dict(kind="oracle", case=c)))
                    break
        j = np.asarray(r["jac"])
        if np.all(np.isfinite(j)) and not (j.max() - j.min() <= 1e-3 and abs(j.mean() - np.log(sc)) <= 1e-3 * max(1, abs(np.log(sc)))):
            viol.append(Violation(f"C11:jacobian:{c['kind']}", f"{c['kind']} helper: reparameterised − plain log-density = {j.tolist()}, expected the constant log(scale) = {np.log(sc):.6g}",
                                  dict(kind="oracle", case=c)))
    return dis, viol, stats


def correspondence(ctx):
    rng = ctx.rng("corr")
    cases = gen_cases(rng, 120 if ctx.tier == "quick" else 3000)
    dis, viol, stats = evaluate(ctx, cases, deep_every=2 if ctx.tier == "quick" else 10)
    return dict(name="installed prior objects and log_prob vs Pysersic.Prob.{gaussianPrior, uniformPrior, truncGaussianPrior}",
                evaluations=len(cases) * 5 * 2, distinct_nontrivial=stats["one_sided"] + stats["kinds"].get("trunc", 0),
                rule="seeded (helper, loc, scale ∈ [1e-2,1e3], |loc| ≤ 100·scale, windows from 6σ below to 12σ above, one- and two-sided, suffixes), 3 points inside "
                     "and 2 outside the support; float64 1e-9; non-trivial = truncated cases",
                samples=[{k: c[k] for k in ("kind", "loc", "scale", "low", "high")} for c in cases[:3]], distribution=stats, disagreements=dis, violations=viol)


def oracle_search(ctx, hints):
    rng = ctx.rng("search")
    cases = [h["case"] for h in hints[:20] if isinstance(h.get("case"), dict) and "xs" in h["case"]] + gen_cases(rng, 90)
    return evaluate(ctx, cases)[1]


def replay(ctx, payload):
    return evaluate(ctx, [payload["case"]], deep_every=1)[1]
