"""C04 — the pixel, Fourier and hybrid renderers agree with each other and with the truth.

Theorems (Props/C04.lean): both the analytic profile and the Gaussian mixture equal flux/(r_eff²(1−ellip)) × a function of (n, z)
with the same elliptical radius z, so their ratio depends on (n, z) only; hybrid(0) = Fourier.
Tie: shared render tie + the direct decomposition (Lean model of Shajib's formula vs the real table rows, float64).
Residual: (R) the (n, z) error surface of the decomposition against the analytic profile, scanned in 2-D instead of 7-D;
(O) the property's image-level bounds against the independent float64 reference renderer; hybrid vs Fourier; table vs direct.
"""
from __future__ import annotations

import numpy as np

from . import render_common as RC
from .common import Violation, f2h, run_children

PROP = "C04"
LEAN_TARGETS = ["Props.C04", "driver"]
AUDIT_IMPORTS = ["Props.C04"]
NS = "Pysersic.Props.C04."
OBLIGATIONS = [NS + t for t in ["sersic_factor", "mixture_factor", "ratio_depends_on_n_z", "mogComps_form", "hybrid_zero_eq_fourier"]] + \
    ["Pysersic.Props.C02.hybrid_broadening", "Pysersic.Props.C02.gaussPixelTerm_of_z"]
# kernels whose translated source text (Gen/Kernels.lean) is proved equal to the model kernel this property's theorems are about
GEN_KERNELS = ["render_sersic_2d", "render_gaussian_pixel_term", "render_gaussian_fourier_term", "sersic1D_cx"]
MIRRORED_FILES = ["pysersic/rendering.py"]
ASSUMPTIONS = [
    "every quantitative agreement bound is observed (independent float64 reference: exact b_n, pixel integration with cusp refinement, spatial convolution), not proved",
    "interpax cubic interpolation of the amplitude table enters as data",
]
EXT = ["sersic", "exp", "dev", "doublesersic", "sersic_exp"]


def correspondence(ctx):
    rng = ctx.rng("corr")
    quick = ctx.tier == "quick"
    scenes = []
    ALL = EXT + ["sersic_pointsource", "pointsource"]
    for ci, (kind, N, psf, opts) in enumerate(RC.standard_configs(rng, ctx.tier, sizes=[(16, 5), (19, 7), (15, 4)] if quick else None)):
        for i in range(3 if quick else 10):
            scenes.append(RC.gen_scene(rng, kind, N, psf, types=[ALL[(3 * ci + i) % 7]], mode="single", **opts))
    dis, stats = RC.render_tie(ctx, scenes)
    # the direct decomposition: Lean model vs real sersic_gauss_decomp at random (n, r_eff, flux), float64
    cases = [(float(rng.uniform(0.65, 8)), float(rng.uniform(0.5, 20)), float(rng.uniform(1, 1000))) for _ in range(6 if quick else 60)]
    real = run_children("c04", "decomp_child", [dict(cases=cases)], x64=True)[0]
    rep = ctx.driver.ask([f"decompd 10 {f2h(1e-2)} {f2h(15.0)} 15 {f2h(f)} {f2h(r)} {f2h(n)}" for n, r, f in cases])
    for (n, r, f), a, rr in zip(cases, real, rep):
        m = RC.parse_floats(rr)
        a = np.asarray(a)
        d = float(np.abs(m - a).max())
        if not d <= 1e-6 * max(float(np.abs(a).max()), 1e-30):
            dis.append(dict(case=dict(n=n, r_eff=r, flux=f), diffs=[f"sersic_gauss_decomp amplitudes differ by {d:.2e} (scale {np.abs(a).max():.3g})"]))
    stats["direct_decompositions"] = len(cases)
    return dict(name="render_source vs Pysersic.Render.sceneArr + sersic_gauss_decomp vs Pysersic.Render.directAmps", evaluations=2 * len(scenes) + len(cases),
                distinct_nontrivial=len({(s['kind'], s['types'][0]) for s in scenes}) + len(cases),
                rule="seeded extended sources, three renderers (float64 1e-9, float32 2e-5 of the peak); direct decomposition at random (n, r_eff, flux) in float64 at 1e-6 of the amplitude scale",
                samples=[RC.scene_summary(s) for s in scenes[:3]], distribution=stats, disagreements=dis, violations=[])


def decomp_child(payload):
    import jax.numpy as jnp
    import pysersic.rendering as RD
    etas, betas = RD.calculate_etas_betas(10)
    out = []
    for n, r, f in payload["cases"]:
        a, _ = RD.sersic_gauss_decomp(f, r, n, etas, betas, 1e-2 * r, 15.0 * r, 15)
        out.append(np.asarray(a, dtype=np.float64).tolist())
    return out


def surface_child(payload):
    """(R): relative error of the mixture profile vs the analytic profile on an (n, z) grid — position/shape independent by the theorems"""
    import jax
    import jax.numpy as jnp
    from interpax import interp1d
    import pysersic.rendering as RD
    R = RD.FourierRenderer((8, 8), jnp.ones((1, 1)))
    ns, zs = np.asarray(payload["ns"]), np.asarray(payload["zs"])
    s = np.logspace(-2, np.log10(15.0), 15)
    worst = []
    for n in ns:
        A = np.asarray(interp1d(jnp.asarray(n), R.n_ax, R.amps_n_ax, method="cubic2"), dtype=np.float64)
        mix = (A[:, None] / (2 * np.pi * s[:, None] ** 2) * np.exp(-zs[None, :] ** 2 / (2 * s[:, None] ** 2))).sum(0)
        bn = 1.9992 * n - 0.3271
        from scipy.special import gammaln
        ser = bn ** (2 * n) / (np.exp(bn + gammaln(2 * n)) * np.pi * 2 * n) * np.exp(-bn * (zs ** (1 / n) - 1))
        # light-weighted relative deviation: |mix − ser|·z (area element) relative to the peak of ser·z
        w = np.abs(mix - ser) * zs
        worst.append(float(w.max() / (ser * zs).max()))
    return worst


def gen_cases(ctx, n_per_kind):
    rng = ctx.rng("oracle")
    cases = []
    for kind in ("pixel", "fourier", "hybrid"):
        for i in range(n_per_kind):
            N = [48, 49, 64, 65][(i + int(rng.integers(0, 4))) % 4]     # even and odd image sides
            t = EXT[i % 5]
            if kind == "pixel" and t == "dev":
                t = "sersic"          # the pixel renderer's tolerance is stated for n ≤ 2.5; `dev` fixes n = 4
            # odd and even square stamps (an even stamp is centred on its geometric centre, between pixels)
            j = (i + (i // 5)) % 5
            if kind == "pixel" and j in (2, 4):
                j = {2: 0, 4: 1}[j]   # the 2 % pixel tolerance is calibrated on stamps that need no half-pixel shift (odd sizes)
            psf = [RC.gauss_psf(11, float(rng.uniform(1.1, 1.6))), RC.smooth_asym_psf(rng, 11), RC.gauss_psf(12, float(rng.uniform(1.1, 1.6))),
                   RC.gauss_psf(13, 1.3, q=0.85), RC.smooth_asym_psf(rng, 12)][j]
            nr = (0.8, 2.5) if kind == "pixel" else (0.8, 6.0)
            sc = RC.gen_scene(rng, kind, N, psf, types=[t], mode="single", suffix="", pos_styles=("frac",), n_range=nr)
            p = sc["params"]
            for k in p:
                if k.startswith("r_eff"):
                    p[k] = float(rng.uniform(1.5 if kind == "pixel" else 1.0, N / 12))
                if k.startswith("ellip"):
                    p[k] = float(rng.uniform(0, 0.8))
            p["flux"] = float(rng.uniform(50, 500))
            lo, hi = (N // 2 - 5, N // 2 + 4)
            p["xc"], p["yc"] = float(rng.uniform(lo, hi)), float(rng.uniform(lo, hi))
            if kind == "pixel" and i % 3 == 0:
                # every residue of N mod 4 (the box is placed with integer arithmetic on N/2), a compact source near the box edge
                N2 = [50, 54, 66, 52][(i // 3) % 4]
                sc["N"] = N2
                for k in p:
                    if k.startswith("r_eff"):
                        p[k] = float(rng.uniform(1.5, 2.0))
                    if k.startswith("n"):
                        p[k] = float(rng.uniform(2.0, 2.5))
                    if k.startswith("ellip"):
                        p[k] = float(rng.uniform(0.0, 0.15))       # minor axis ≥ 1 px: the pixel next to the box is point-sampled
                side = [1, -1][(i // 3) % 2]
                u = float(rng.uniform(4.0, 4.5))            # 4.5 … 5 px from the image centre (N−1)/2, still one pixel inside the box
                off = u if side > 0 else -1.0 - u
                p["xc"], p["yc"] = N2 // 2 + off, float(N2 // 2 + rng.uniform(-2.5, 1.5))     # one coordinate near the edge, not the corner
            sc = RC.cast32_scene(sc)
            sc["gaussian_psf"] = j in (0, 2, 3)
            cases.append(sc)
        # the two profile types with a point source ("for all profile types"): circular Gaussian PSF of known width, so that the
        # point source has an analytic reference. The pixel renderer interpolates the stamp bilinearly at the sub-pixel offset between
        # (xc, yc) and the stamp's geometric centre (up to 15 % of the peak for these widths — its documented approximation); with an
        # odd stamp and an integer centre no interpolation takes place, and the property's pixel tolerance applies.
        for i in range(max(2, n_per_kind // 2)):
            N = [48, 49, 64, 65][(i + int(rng.integers(0, 4))) % 4]     # even and odd image sides
            t = ["sersic_pointsource", "pointsource"][i % 2]
            sig = float(rng.uniform(1.1, 1.6))
            size = int(rng.choice([11, 13])) if kind == "pixel" else int(rng.choice([11, 12, 13]))
            psf = RC.gauss_psf(size, sig)
            nr = (0.8, 2.5) if kind == "pixel" else (0.8, 6.0)
            sc = RC.gen_scene(rng, kind, N, psf, types=[t], mode="single", suffix="", pos_styles=("frac",), n_range=nr)
            p = sc["params"]
            for k in p:
                if k.startswith("r_eff"):
                    p[k] = float(rng.uniform(1.5 if kind == "pixel" else 1.0, N / 12))
                if k.startswith("ellip"):
                    p[k] = float(rng.uniform(0, 0.8))
            p["flux"] = float(rng.uniform(50, 500))
            if "f_ps" in p:
                p["f_ps"] = float(rng.uniform(0.05, 0.7))
            lo, hi = (N // 2 - 5, N // 2 + 4)
            if kind == "pixel":
                p["xc"], p["yc"] = float(rng.integers(lo, hi)), float(rng.integers(lo, hi))
            else:
                p["xc"], p["yc"] = float(rng.uniform(lo, hi)), float(rng.uniform(lo, hi))
            sc = RC.cast32_scene(sc)
            sc["gaussian_psf"] = True
            sc["psf_sigma"] = sig
            cases.append(sc)
        if kind != "pixel":
            # amplitudes decomposed per call (use_interp_amps=False, judged in 64-bit mode), radii far from the 1 px the table is built for
            for i in range(max(1, n_per_kind // 4)):
                N = [96, 80][i % 2]
                sc = RC.gen_scene(rng, kind, N, RC.gauss_psf(11, float(rng.uniform(1.1, 1.6))), types=[["sersic", "exp"][i % 2]], mode="single", suffix="",
                                  pos_styles=("frac",), n_range=(1.0, 3.0), interp=False)
                p = sc["params"]
                p["r_eff"], p["ellip"], p["flux"] = float(rng.uniform(0.75 * N / 12, N / 12)), float(rng.uniform(0, 0.6)), float(rng.uniform(50, 500))
                p["xc"], p["yc"] = float(rng.uniform(N // 2 - 4, N // 2 + 3)), float(rng.uniform(N // 2 - 4, N // 2 + 3))
                sc = RC.cast32_scene(sc)
                sc["gaussian_psf"] = True
                cases.append(sc)
    # hybrid against Fourier where the PSF matters most for the real-space components: broad Gaussian PSF, compact flattened high-n source
    for i in range(max(2, n_per_kind // 3)):
        N = [64, 65][i % 2]
        sig = [2.5, 1.7][i % 2]
        sc = RC.gen_scene(rng, "hybrid", N, RC.gauss_psf(21 if sig > 2 else 15, sig), types=[["sersic", "dev"][i % 2]], mode="single", suffix="", pos_styles=("frac",))
        p = sc["params"]
        if "n" in p:
            p["n"] = [4.0, 5.5][(i // 2) % 2]
        p["r_eff"], p["ellip"], p["flux"] = float(rng.uniform(1.0, 1.5)), 0.8, float(rng.uniform(50, 500))
        p["xc"], p["yc"] = float(rng.uniform(N // 2 - 4, N // 2 + 3)), float(rng.uniform(N // 2 - 4, N // 2 + 3))
        sc = RC.cast32_scene(sc)
        sc["gaussian_psf"] = True
        sc["hvf_only"] = True
        cases.append(sc)
    # the pixel renderer's point source with a PSF that has no symmetry at all: at an integer centre with an odd stamp nothing is
    # interpolated, the image is the stamp itself
    for i in range(max(2, n_per_kind // 3)):
        N = [48, 49][i % 2]
        psf = RC.smooth_asym_psf(rng, [11, 9][i % 2])
        sc = RC.gen_scene(rng, "pixel", N, psf, types=["pointsource"], mode="single", suffix="", pos_styles=("frac",))
        p = sc["params"]
        p["flux"] = float(rng.uniform(50, 500))
        p["xc"], p["yc"] = float(rng.integers(N // 2 - 5, N // 2 + 4)), float(rng.integers(N // 2 - 5, N // 2 + 4))
        sc = RC.cast32_scene(sc)
        sc["gaussian_psf"] = False
        sc["stamp_ref"] = True
        cases.append(sc)
    # the renderers as a user builds them — no options at all: hybrid against Fourier with whatever defaults each class has
    for i in range(max(3, n_per_kind // 2)):
        N = [48, 64, 49][i % 3]
        sc = RC.gen_scene(rng, "hybrid", N, RC.gauss_psf(11, float(rng.uniform(1.1, 1.6))), types=["sersic"], mode="single", suffix="", pos_styles=("frac",))
        p = sc["params"]
        p["n"] = [0.8, 1.0, 0.9, 2.0, 4.0][i % 5]
        p["r_eff"], p["ellip"], p["flux"] = float(rng.uniform(1.5, N / 12)), float(rng.uniform(0, 0.8)), float(rng.uniform(50, 500))
        p["xc"], p["yc"] = float(rng.uniform(N // 2 - 4, N // 2 + 3)), float(rng.uniform(N // 2 - 4, N // 2 + 3))
        sc = RC.cast32_scene(sc)
        sc["gaussian_psf"] = True
        sc["defaults"] = True
        cases.append(sc)
    return cases


def oracle_child(payload):
    import jax.numpy as jnp
    out = []
    for sc in payload["scenes"]:
        fails = []
        try:
            N, kind, t = sc["N"], sc["kind"], sc["types"][0]
            P = sc["params"]
            ft = jnp.float32 if sc.get("interp", True) else jnp.float64
            J = {k: ft(v) for k, v in P.items()}
            if sc.get("defaults"):
                import pysersic.rendering as RD
                import warnings
                with warnings.catch_warnings():
                    warnings.simplefilter("ignore")
                    Rh = RD.HybridRenderer((N, N), jnp.asarray(np.asarray(sc["psf"], float)))
                    Rf = RD.FourierRenderer((N, N), jnp.asarray(np.asarray(sc["psf"], float)))
                h = np.asarray(Rh.render_source(J, t), dtype=np.float64)
                f = np.asarray(Rf.render_source(J, t), dtype=np.float64)
                d = float(np.abs(h - f).max()) / float(np.abs(f).max())
                if not d <= 6e-3:
                    fails.append(("hybrid-vs-fourier", f"HybridRenderer(shape, psf) vs FourierRenderer(shape, psf), both with their default options, n = {P['n']:.2f}: "
                                                       f"{d:.2e} of the peak (tolerance 6e-3)"))
                out.append(dict(fails=fails))
                continue
            R = RC.build_renderer(sc)
            img = np.asarray(R.render_source(J, t), dtype=np.float64)
            if sc.get("hvf_only"):
                Rf = RC.build_renderer(dict(sc, kind="fourier"))
                f = np.asarray(Rf.render_source(J, t), dtype=np.float64)
                d = float(np.abs(img - f).max()) / float(np.abs(f).max())
                if not d <= 6e-3:
                    fails.append(("hybrid-vs-fourier", f"hybrid vs Fourier, Gaussian PSF σ = {np.sqrt((np.asarray(sc['psf']) * (np.arange(np.asarray(sc['psf']).shape[0])[:, None] - (np.asarray(sc['psf']).shape[0] - 1) / 2) ** 2).sum() / np.asarray(sc['psf']).sum()):.2f} px, "
                                                       f"n = {P.get('n', 4.0):.1f}, r_eff = {P['r_eff']:.2f}, ellip = {P['ellip']:.2f}: {d:.2e} of the peak (tolerance 6e-3)"))
                out.append(dict(fails=fails))
                continue
            if sc.get("stamp_ref"):
                psf = np.asarray(sc["psf"], float)
                s0, s1 = psf.shape
                ref = np.zeros((N, N))
                r0, c0 = int(P["yc"]) - (s0 - 1) // 2, int(P["xc"]) - (s1 - 1) // 2
                ref[r0:r0 + s0, c0:c0 + s1] = P["flux"] * psf
                peak, tot = float(ref.max()), float(np.abs(ref).sum())
                dmax, l1 = float(np.abs(img - ref).max()) / peak, float(np.abs(img - ref).sum()) / tot
                if not (dmax <= 0.02 and l1 <= 0.02):
                    fails.append(("vs-truth", f"point source at an integer centre vs the PSF stamp placed there: max|diff| = {dmax:.3%} of the peak, L1 = {l1:.3%} (tolerances 2% / 2%)"))
                out.append(dict(fails=fails))
                continue
            if t in ("sersic_pointsource", "pointsource"):
                # analytic point source (circular Gaussian PSF of known width) + the reference of the Sersic part
                yy, xx = np.mgrid[:N, :N].astype(float)
                sg = sc["psf_sigma"]
                fps = P["flux"] * P["f_ps"] if t == "sersic_pointsource" else P["flux"]
                ref = fps * np.exp(-((xx - P["xc"]) ** 2 + (yy - P["yc"]) ** 2) / (2 * sg ** 2)) / (2 * np.pi * sg ** 2)
                ns = [1.0]
                if t == "sersic_pointsource":
                    ref = ref + RC.reference_image(N, sc["psf"], "sersic", dict(P, flux=P["flux"] * (1 - P["f_ps"])))
                    ns = [P["n"]]
            else:
                ref = RC.reference_image(N, sc["psf"], t, P)
                ns = [c["n"] for c in RC.extended_components(t, P) if c["flux"] > 0]
            peak, tot = float(ref.max()), float(np.abs(ref).sum())
            dmax, l1 = float(np.abs(img - ref).max()) / peak, float(np.abs(img - ref).sum()) / tot
            if kind == "pixel":
                tm, tl = 0.02, 0.02
            elif max(ns) <= 4:
                tm, tl = 0.12, 0.10
            else:
                tm, tl = 0.18, 0.15
            if not (dmax <= tm and l1 <= tl) and kind == "pixel" and t not in ("pointsource",):
                # the design limit C01 records as well: pixels outside the central box are point-sampled; a component whose minor axis is
                # below a pixel and whose half-light ellipse reaches outside the box is mis-rendered there
                os_ = int(sc["os"])
                lo_b, hi_b = N // 2 - os_ - 0.5, N // 2 + os_ - 0.5
                tr_ = P["theta"] + np.pi / 2
                beyond = False
                for cmp_ in (RC.extended_components(t, P) if t != "sersic_pointsource" else RC.extended_components("sersic", dict(P, flux=P["flux"] * (1 - P["f_ps"])))):
                    a_, b_ = cmp_["r_eff"], (1 - cmp_["ellip"]) * cmp_["r_eff"]
                    ex = np.hypot(a_ * np.cos(tr_), b_ * np.sin(tr_))
                    ey = np.hypot(a_ * np.sin(tr_), b_ * np.cos(tr_))
                    if b_ < 1.0 and (P["xc"] - ex < lo_b or P["xc"] + ex > hi_b or P["yc"] - ey < lo_b or P["yc"] + ey > hi_b):
                        beyond = True
                if beyond:
                    fails.append(("vs-truth-subpixel-minor-axis-beyond-box", f"max|diff| = {dmax:.3%} of the reference peak, L1 = {l1:.3%} of the total (tolerances {tm:.0%} / {tl:.0%}); "
                                  f"minor axis below 1 px and the half-light ellipse reaches outside the oversampled box"))
                    out.append(dict(fails=fails))
                    continue
            if not (dmax <= tm and l1 <= tl):
                fails.append(("vs-truth", f"max|diff| = {dmax:.3%} of the reference peak, L1 = {l1:.3%} of the total (tolerances {tm:.0%} / {tl:.0%}; n = {[round(x, 2) for x in ns]})"))
            if kind == "hybrid" and abs(P["xc"] - (N - 1) / 2) <= 5 and abs(P["yc"] - (N - 1) / 2) <= 5 and payload.get("hvf", True):
                Rf = RC.build_renderer(dict(sc, kind="fourier"))
                f = np.asarray(Rf.render_source(J, t), dtype=np.float64)
                d = float(np.abs(img - f).max()) / float(np.abs(f).max())
                if not d <= 6e-3 and sc["gaussian_psf"]:
                    fails.append(("hybrid-vs-fourier", f"hybrid vs Fourier: {d:.2e} of the peak (tolerance 6e-3)"))
        except Exception as e:
            fails.append(("exception", f"{type(e).__name__}: {str(e)[:200]}"))
        out.append(dict(fails=fails))
    return out


def table_child(payload):
    """amplitude table vs direct decomposition at the tabulated indices, float64"""
    import jax.numpy as jnp
    from interpax import interp1d
    import pysersic.rendering as RD
    R = RD.FourierRenderer((8, 8), jnp.ones((1, 1)))
    etas, betas = RD.calculate_etas_betas(10)
    worst = 0.0
    at = None
    for k in payload["knots"]:
        n = R.n_ax[k]
        a_t = np.asarray(interp1d(n, R.n_ax, R.amps_n_ax, method="cubic2"), dtype=np.float64)
        a_d = np.asarray(RD.sersic_gauss_decomp(1.0, 1.0, n, etas, betas, 1e-2, 15.0, 15)[0], dtype=np.float64)
        d = float(np.abs(a_t - a_d).max())
        if d > worst:
            worst, at = d, float(n)
    return dict(worst=worst, at=at)


def oracle_run(ctx, scenes):
    w = min(ctx.workers, 8)
    for s in scenes:
        s.setdefault("gaussian_psf", True)
    std = [s for s in scenes if s.get("interp", True)]
    direct = [s for s in scenes if not s.get("interp", True)]
    res = RC.unchunk(run_children("c04", "oracle_child", [dict(scenes=ch) for ch in RC.chunked(std, w)], x64=False, workers=w, timeout=3000), len(std)) if std else []
    if direct:
        res = res + RC.unchunk(run_children("c04", "oracle_child", [dict(scenes=ch) for ch in RC.chunked(direct, min(w, len(direct)))], x64=True, workers=w, timeout=3000), len(direct))
    scenes = std + direct
    out = []
    for s, r in zip(scenes, res):
        for clause, msg in r["fails"]:
            out.append(Violation(f"C04:{clause}:{s['kind']}", f"{s['kind']} renderer, {s['types'][0]}, N={s['N']}: {msg}", dict(kind="oracle", scene=RC.ser_scene(s))))
    return out


def residual(ctx):
    quick = ctx.tier == "quick"
    scenes = gen_cases(ctx, 5 if quick else 60)
    viol = oracle_run(ctx, scenes)
    tb = run_children("c04", "table_child", [dict(knots=list(range(2, 37, 5 if quick else 1)))], x64=True)[0]
    if not tb["worst"] <= 1e-3:
        viol.append(Violation("C04:table-vs-direct", f"amplitude table differs from the direct decomposition by {tb['worst']:.2e} of the flux at n = {tb['at']:.4f}", dict(kind="table")))
    ns = np.linspace(0.8, 6.0, 30 if quick else 300)
    zs = np.exp(np.linspace(np.log(0.05), np.log(8.0), 120 if quick else 2000))
    surf = run_children("c04", "surface_child", [dict(ns=ns.tolist(), zs=zs.tolist())], x64=True)[0]
    return dict(name="image-level agreement vs independent reference; hybrid vs Fourier; table vs direct; (n, z) error surface", cases=len(scenes),
                table_vs_direct=tb, nz_surface=dict(n_grid=len(ns), z_grid=len(zs), worst_light_weighted_rel_error=float(max(surf)),
                                                    at_n=float(ns[int(np.argmax(surf))])), violations=viol)


def oracle_search(ctx, hints):
    return oracle_run(ctx, gen_cases(ctx, 10))


def replay(ctx, payload):
    if payload.get("kind") == "table":
        tb = run_children("c04", "table_child", [dict(knots=list(range(2, 37)))], x64=True)[0]
        return [] if tb["worst"] <= 1e-3 else [Violation("C04:table-vs-direct", f"table vs direct {tb['worst']:.2e}", payload)]
    return oracle_run(ctx, [RC.deser_scene(payload["scene"])])
