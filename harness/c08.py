"""C08 — rendering is linear in flux and additive over components and sources.

Theorems (Props/C08.lean, over ℝ): every renderer's triple is homogeneous in flux, the
composites are the stated sums, exp/dev are Sersic at n = 1/4, combine_scene is linear, a
scene is the sum of its sources.
Tie: shared render tie (model vs real renderers) on mixed catalogues, composites with
fractions at 0/1, negative and zero flux.
Oracle (run routinely, float32, the property's tolerance 5e-6 of the peak): the identities
themselves on the real code + jax.linear_transpose with respect to flux.
"""
from __future__ import annotations

import numpy as np

from . import render_common as RC
from .common import Violation, run_children

PROP = "C08"
LEAN_TARGETS = ["Props.C08", "Proofs.RenderTab", "Proofs.GenScene", "driver"]
AUDIT_IMPORTS = ["Props.C08", "Proofs.RenderTab", "Proofs.GenScene"]
NS = "Pysersic.Props.C08."
OBLIGATIONS = [NS + t for t in [
    "sersic2d_flux_smul", "gaussPixel_scale", "gaussFourier_scale", "pointFourier_flux_smul",
    "pixelPointSource_flux_smul", "decompAmp_flux_smul", "ampsFor_flux_smul", "sersic_flux_smul",
    "pointsource_flux_smul", "doublesersic_is_sum", "sersic_exp_is_sum", "sersic_pointsource_is_sum",
    "exp_is_sersic_n1", "dev_is_sersic_n4", "repo_profile_types", "profileOf_flux_smul", "profile_flux_smul",
    "image_flux_smul", "zero_flux_zero", "renderForModel_eq_sum",
]] + ["Pysersic.Render.combineScene_add", "Pysersic.Render.combineScene_smul", "Pysersic.Render.combineScene_zero",
     "Pysersic.Render.sceneArr_eq", "Pysersic.Render.tabI_get", "Pysersic.Render.tabF_get"] + [
    # BaseRenderer's scene plumbing as TRANSLATED from the source on this run (Gen/Scene.lean, tools/translate_scene.py) is the model's
    "Pysersic.Proofs.GenScene." + t for t in ["gen_exp_eq", "gen_dev_eq", "gen_doublesersic_eq", "gen_sersic_exp_eq", "gen_sersic_pointsource_eq",
                                              "gen_combine_eq", "gen_for_model_eq", "gen_render_for_model_image"]]
# kernels whose translated source text (Gen/Kernels.lean) is proved equal to the model kernel this property's theorems are about
GEN_KERNELS = ["render_sersic_2d", "render_gaussian_pixel_term", "render_gaussian_fourier_term", "render_pointsource_fourier", "sersic1D_cx"]
MIRRORED_FILES = ["pysersic/rendering.py"]
ASSUMPTIONS = [
    "jnp.fft.rfft2/irfft2 are modelled as the explicit DFT sums (validated by the tie at 1e-9 of the peak in float64)",
    "interpax.interp1d(cubic2) amplitudes enter the model as data read from the real renderer's own table",
    "theorems are over ℝ; the float32 identities are observed at the property's tolerance (5e-6 of the peak)",
]
TOL = 5e-6


def gen_scenes(ctx, n_per_cfg):
    rng = ctx.rng("corr")
    scenes = []
    seen = {}
    for kind, N, psf, opts in RC.standard_configs(rng, ctx.tier):
        for i in range(n_per_cfg):
            mode = "multi" if i % 2 else "single"
            k = int(rng.integers(1, 6)) if mode == "multi" else 1
            # the first type cycles through all seven per renderer kind (each renderer has its own methods per type), the rest are random
            j = seen.get(kind, 0)
            seen[kind] = j + 1
            types = [RC.PROFILE_TYPES[j % len(RC.PROFILE_TYPES)]] + [str(rng.choice(RC.PROFILE_TYPES)) for _ in range(k - 1)]
            s = RC.gen_scene(rng, kind, N, psf, types=types, mode=mode, **opts)
            # zero / negative fluxes
            for key in list(s["params"]):
                if key.split("_")[0] == "flux" and rng.random() < 0.15:
                    s["params"][key] = 0.0
            scenes.append(s)
    return scenes


def correspondence(ctx):
    scenes = gen_scenes(ctx, 3 if ctx.tier == "quick" else 12)
    dis, stats = RC.render_tie(ctx, scenes)
    return dict(
        name="render_source/render_for_model_vs_Pysersic.Render.sceneArr",
        evaluations=2 * len(scenes), distinct_nontrivial=sum(1 for s in scenes if len(s["types"]) > 1 or s["types"][0] in ("doublesersic", "sersic_exp", "sersic_pointsource")),
        rule="seeded scenes over renderer configurations (odd/even N, odd/even/asymmetric stamps, options) × single sources and catalogues of 1–5 mixed "
             "types, lattice positions, fractions at 0/1, zero/negative flux; float64 pass 1e-9·peak, float32 pass 2e-5·peak; "
             "non-trivial = composite or multi-source",
        samples=[RC.scene_summary(s) for s in scenes[:3]], distribution=stats, disagreements=dis, violations=[])


# ----------------------------------------------------------------------------
# oracle: the property's identities on the real code (float32)
# ----------------------------------------------------------------------------

def oracle_child(payload):
    import jax
    import jax.numpy as jnp
    import pysersic.rendering as RD
    out = []
    for sc in payload["scenes"]:
        res = dict(fails=[])
        try:
            R = RC.build_renderer(sc)
            N = sc["N"]
            sfx = sc["suffix"]
            ft = jnp.float64 if jax.config.jax_enable_x64 else jnp.float32
            P = {k: jnp.asarray(v, dtype=ft) for k, v in sc["params"].items()}

            def img(params, types=None, mode=None):
                types = types or sc["types"]
                mode = mode or sc["mode"]
                if mode == "single":
                    return np.asarray(R.render_source(params, types[0], suffix=sfx), dtype=np.float64)
                return np.asarray(R.render_for_model(params, list(types), sfx), dtype=np.float64)

            base = img(P)
            peak = max(float(np.abs(base).max()), 1e-30)
            fk = [k for k in P if k.split("_")[0] == "flux"]
            # 1. scaling every flux by k scales the image
            for kk in payload["ks"]:
                Q = dict(P)
                for k in fk:
                    Q[k] = P[k] * kk
                d = np.abs(img(Q) - kk * base).max() / (peak * max(1.0, abs(kk)))
                if not d <= TOL:
                    res["fails"].append(("flux-scale", f"render(k·flux) ≠ k·render(flux) for k={kk}: {d:.2e} of peak"))
            # 2. zero flux → zero image
            Q = dict(P)
            for k in fk:
                Q[k] = P[k] * 0.0
            z = np.abs(img(Q)).max()
            if not z <= TOL * peak:
                res["fails"].append(("zero-flux", f"zero-flux scene renders {z:.2e} (peak {peak:.2e})"))
            # 3. scene = sum of individually rendered sources
            if sc["mode"] == "multi":
                tot = np.zeros((N, N))
                for j, t in enumerate(sc["types"]):
                    d1 = {p + sfx: P[f"{p}_{j}{sfx}"] for p in RD.base_profile_params[t]}
                    tot += np.asarray(R.render_source(d1, t, suffix=sfx), dtype=np.float64)
                pk = max(peak, float(np.abs(tot).max()))
                d = np.abs(tot - base).max() / pk
                if not d <= TOL * max(1, len(sc["types"])):
                    res["fails"].append(("additivity", f"scene ≠ Σ sources: {d:.2e} of peak ({len(sc['types'])} sources)"))
            # 4. composites / exp / dev (single-source scenes)
            if sc["mode"] == "single":
                t = sc["types"][0]
                g = lambda k: P[k + sfx]  # noqa: E731
                comp = None
                if t == "doublesersic":
                    a = dict(xc=g("xc"), yc=g("yc"), flux=g("flux") * g("f_1"), r_eff=g("r_eff_1"), n=g("n_1"), ellip=g("ellip_1"), theta=g("theta"))
                    b = dict(xc=g("xc"), yc=g("yc"), flux=g("flux") * (1 - g("f_1")), r_eff=g("r_eff_2"), n=g("n_2"), ellip=g("ellip_2"), theta=g("theta"))
                    comp = [("sersic", a), ("sersic", b)]
                elif t == "sersic_exp":
                    a = dict(xc=g("xc"), yc=g("yc"), flux=g("flux") * g("f_1"), r_eff=g("r_eff_1"), n=g("n"), ellip=g("ellip_1"), theta=g("theta"))
                    b = dict(xc=g("xc"), yc=g("yc"), flux=g("flux") * (1 - g("f_1")), r_eff=g("r_eff_2"), n=jnp.asarray(1.0, dtype=ft), ellip=g("ellip_2"), theta=g("theta"))
                    comp = [("sersic", a), ("sersic", b)]
                elif t == "sersic_pointsource":
                    a = dict(xc=g("xc"), yc=g("yc"), flux=g("flux") * (1 - g("f_ps")), r_eff=g("r_eff"), n=g("n"), ellip=g("ellip"), theta=g("theta"))
                    b = dict(xc=g("xc"), yc=g("yc"), flux=g("flux") * g("f_ps"))
                    comp = [("sersic", a), ("pointsource", b)]
                elif t in ("exp", "dev"):
                    a = dict(xc=g("xc"), yc=g("yc"), flux=g("flux"), r_eff=g("r_eff"), n=jnp.asarray(1.0 if t == "exp" else 4.0, dtype=ft), ellip=g("ellip"), theta=g("theta"))
                    comp = [("sersic", a)]
                if comp:
                    tot = sum(np.asarray(R.render_source(d, tt), dtype=np.float64) for tt, d in comp)
                    pk = max(peak, float(np.abs(tot).max()))
                    d = np.abs(tot - base).max() / pk
                    if not d <= TOL:
                        res["fails"].append(("composite", f"{t} ≠ sum of its components: {d:.2e} of peak"))
            # 5. structural linearity in flux: linear_transpose succeeds only for linear programs
            if payload.get("transpose", True):
                keys = sorted(fk)

                def f(fl):
                    Q = dict(P)
                    for k, v in zip(keys, fl):
                        Q[k] = v
                    if sc["mode"] == "single":
                        return R.render_source(Q, sc["types"][0], suffix=sfx)
                    return R.render_for_model(Q, list(sc["types"]), sfx)
                try:
                    fl0 = [jnp.asarray(1.0, dtype=ft) for _ in keys]
                    jax.linear_transpose(f, fl0)(jnp.ones((N, N), dtype=ft))
                except Exception as e:
                    res["fails"].append(("not-linear", f"program is not linear in flux: {type(e).__name__}: {str(e)[:120]}"))
        except Exception as e:
            res["fails"].append(("exception", f"{type(e).__name__}: {str(e)[:200]}"))
        out.append(res)
    return out


def oracle_run(ctx, scenes):
    ks = [-2.5, 0.5, 3.0]
    out = []
    # the direct-decomposition branch is only meaningful in 64-bit mode (the library warns otherwise)
    for group, x64 in (([s for s in scenes if s["interp"]], False), ([s for s in scenes if not s["interp"]], True)):
        if not group:
            continue
        chunks = RC.chunked(group, min(ctx.workers, 8))
        res = RC.unchunk(run_children("c08", "oracle_child", [dict(scenes=ch, ks=ks) for ch in chunks], x64=x64,
                                      workers=min(ctx.workers, 8)), len(group))
        for s, r in zip(group, res):
            for clause, msg in r["fails"]:
                out.append(Violation(f"C08:{clause}:{s['kind']}:{'+'.join(sorted(set(s['types'])))}",
                                     f"{s['kind']} renderer{'' if s['interp'] else ' (direct amplitudes, x64)'}, {s['mode']} {s['types']}: {msg}",
                                     dict(kind="oracle", scene=RC.ser_scene(s))))
    return out


def residual(ctx):
    rng = ctx.rng("oracle")
    scenes = []
    for kind, N, psf, opts in RC.standard_configs(rng, ctx.tier, sizes=[(16, 5), (21, 4)] if ctx.tier == "quick" else None):
        for i in range(3 if ctx.tier == "quick" else 10):
            mode = "multi" if i % 3 == 2 else "single"
            types = None if mode == "multi" else [RC.PROFILE_TYPES[(i * 3 + N) % 7]]
            scenes.append(RC.cast32_scene(RC.gen_scene(rng, kind, N, psf, types=types, mode=mode, **opts)))
    # the non-interpolated (direct decomposition) amplitude branch, incl. zero flux and fractions at 0 / 1
    for kind in ("fourier", "hybrid"):
        for t in (["sersic", "sersic_pointsource", "doublesersic"] if ctx.tier == "quick" else RC.EXTENDED):
            sc = RC.gen_scene(rng, kind, 12, RC.asym_psf(rng, 3), types=[t], mode="single", interp=False, n_range=(0.8, 5.0), pos_styles=("frac",))
            for k in sc["params"]:
                if k.startswith("f_"):
                    sc["params"][k] = float(rng.choice([0.0, 1.0]))
            scenes.append(RC.cast32_scene(sc))
    v = oracle_run(ctx, scenes)
    return dict(name="float32 linearity identities on the real renderers", cases=len(scenes), tolerance=TOL, violations=v)


def oracle_search(ctx, hints):
    rng = ctx.rng("search")
    scenes = [RC.cast32_scene(RC.deser_scene(h["scene"])) for h in hints[:40] if "scene" in h]
    for kind, N, psf, opts in RC.standard_configs(rng, "quick"):
        for t in RC.PROFILE_TYPES:
            scenes.append(RC.cast32_scene(RC.gen_scene(rng, kind, N, psf, types=[t], mode="single", **opts)))
        scenes.append(RC.cast32_scene(RC.gen_scene(rng, kind, N, psf, mode="multi", **opts)))
    return oracle_run(ctx, scenes)


def replay(ctx, payload):
    return oracle_run(ctx, [RC.cast32_scene(RC.deser_scene(payload["scene"]))])
