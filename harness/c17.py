"""C17 — sky estimate uses only unmasked border pixels.

Tie: `estimate_sky` is run on index-encoded images (pixel (i,j) holds i*W+j) with
`pysersic.priors.bws` / `np.ma.median` wrapped so the harness sees the array that
reaches the statistics; the set of gathered pixels and the returned count are
compared with the Lean model `usedIdx`.  A black-box cross-check (±BIG
perturbation of every pixel, watching median and scatter) validates that the
captured array is really what determines the outputs.
Oracle: the property's criterion on random-valued images, with an explicit
boolean border mask and numpy/astropy statistics of the gathered set.
"""
from __future__ import annotations

import numpy as np

from .common import Violation

PROP = "C17"
LEAN_TARGETS = ["Props.C17", "driver"]
AUDIT_IMPORTS = ["Props.C17"]
NS = "Pysersic.Props.C17."
OBLIGATIONS = [NS + t for t in [
    "border_mem_iff", "border_nodup", "border_length", "used_iff", "count_eq",
    "estimate_invariant", "interior_not_used", "masked_not_used",
    "repo_slices", "repo_gather_keeps_mask", "effMask_combine", "masks_honoured_combine", "repo_mask_rule",
    "repo_masks_honoured", "either_masked_not_used", "argIfImageUnmasked_violates", "argIfNotMaskedArray_violates",
]]
MIRRORED_FILES = ["pysersic/priors.py"]
ASSUMPTIONS = [
    "numpy basic slicing follows CPython slice normalisation (modelled by normBound/pySlice)",
    "np.ma.median and astropy biweight_scale are functions of the unmasked values they are given (abstracted as arbitrary statistics)",
    "photutils data_properties (used by SourceProperties before the sky estimate) is outside the model",
]

_pri = None


def _load():
    global _pri
    if _pri is None:
        import pysersic.priors as pri
        _pri = pri
    return _pri


def make_mask(rng, H, W, n, style):
    m = np.zeros((H, W), dtype=bool)
    if style == "none":
        return None
    if style == "empty":
        return m
    if style == "random":
        return rng.random((H, W)) < rng.uniform(0.05, 0.6)
    if style == "most-border":
        b = border_bool(H, W, n)
        m = b & (rng.random((H, W)) < 0.9)
        return m
    if style == "rows":
        r0 = int(rng.integers(0, H))
        m[r0: r0 + int(rng.integers(1, 4)), :] = True
        return m
    if style == "corner":
        m[0, 0] = True
        return m
    if style == "interior":
        m[n:H - n, n:W - n] = True
        return m
    raise ValueError(style)


def border_bool(H, W, n):
    I, J = np.meshgrid(np.arange(H), np.arange(W), indexing="ij")
    return (I < n) | (I >= H - n) | (J < n) | (J >= W - n)


STYLES = ["none", "empty", "random", "random", "most-border", "rows", "corner", "interior"]
CALLS = ["arg", "masked_array", "arg", "masked_array", "arg-int", "arg-float", "both", "both-empty", "arg-frac"]


def split_mask(mask):
    """call style `both`: part of the mask travels with the image (numpy masked array), the rest is passed separately"""
    mask = np.asarray(mask, dtype=bool)
    own = mask & ((np.arange(mask.size).reshape(mask.shape) % 2) == 0)
    return own, mask & ~own


def call_real(image, mask, n, how):
    """Run estimate_sky, returning (median, scatter, count, captured array or None)."""
    pri = _load()
    cap = {}
    orig_bws = pri.bws

    def spy(x, *a, **k):
        cap["x"] = x
        return orig_bws(x, *a, **k)

    pri.bws = spy
    try:
        if mask is None:
            out = pri.estimate_sky(image, n_pix_sample=n)
        elif how == "masked_array":
            out = pri.estimate_sky(np.ma.masked_array(image, mask), n_pix_sample=n)
        elif how == "both":
            own, arg = split_mask(mask)
            out = pri.estimate_sky(np.ma.masked_array(image, own), mask=arg, n_pix_sample=n)
        elif how == "both-empty":
            out = pri.estimate_sky(np.ma.masked_array(image), mask=mask, n_pix_sample=n)
        elif how == "arg-int":
            out = pri.estimate_sky(image, mask=mask.astype(int), n_pix_sample=n)
        elif how == "arg-float":
            out = pri.estimate_sky(image, mask=mask.astype(float), n_pix_sample=n)
        elif how == "arg-frac":
            # soft-edged masks (resampled, smoothed): any non-zero value masks the pixel
            out = pri.estimate_sky(image, mask=mask.astype(float) * 0.4, n_pix_sample=n)
        else:
            out = pri.estimate_sky(image, mask=mask, n_pix_sample=n)
    finally:
        pri.bws = orig_bws
    x = cap.get("x")
    used = None
    if x is not None:
        used = np.ma.compressed(np.ma.asarray(x)) if isinstance(x, np.ma.MaskedArray) else np.asarray(x).ravel()
    med, sc, cnt = out
    return float(med), float(sc), int(cnt), used


def gen_cases(rng, n_cases):
    cases = []
    for k in range(n_cases):
        n = int(rng.integers(1, 11)) if rng.random() < 0.5 else int(rng.integers(1, 4))
        H = 2 * n + int(rng.integers(1, 12)) if rng.random() < 0.8 else 2 * n + int(rng.integers(0, 40))
        W = H if rng.random() < 0.4 else 2 * n + int(rng.integers(1, 14))
        style = STYLES[int(rng.integers(0, len(STYLES)))]
        how = CALLS[int(rng.integers(0, len(CALLS)))]
        mask = make_mask(rng, H, W, n, style)
        cases.append(dict(H=H, W=W, n=n, style=style, how=how if mask is not None else "nomask", mask=mask, ties=(k % 3 == 0), k=k))
    return cases


def _tok(m):
    if m is None:
        return "none"
    idx = [str(int(i)) for i in np.flatnonzero(np.asarray(m).ravel())]
    return ",".join(idx) if idx else "-"


def model_line(c):
    """what the image carries as a numpy masked array (`own`) and what is passed separately (`arg`)"""
    m, how = c["mask"], c["how"]
    if m is None:
        own, arg = None, None
    elif how == "masked_array":
        own, arg = m, None
    elif how == "both":
        own, arg = split_mask(m)
    elif how == "both-empty":
        own, arg = np.zeros_like(np.asarray(m, dtype=bool)), m
    else:
        own, arg = None, m
    return "sky2 %d %d %d %s %s" % (c["H"], c["W"], c["n"], _tok(own), _tok(arg))


def expected_stats(image, mask, n):
    """The property's criterion: statistics of the explicitly gathered unmasked border set."""
    from astropy.stats import biweight_scale
    H, W = image.shape
    b = border_bool(H, W, n)
    keep = b if mask is None else (b & ~np.asarray(mask, dtype=bool))
    vals = image[keep]
    cnt = H * W - max(H - 2 * n, 0) * max(W - 2 * n, 0) - (0 if mask is None else int((b & np.asarray(mask, dtype=bool)).sum()))
    if vals.size == 0:
        return float("nan"), float("nan"), cnt, keep
    return float(np.median(vals)), float(biweight_scale(vals)), cnt, keep


def close(a, b):
    if np.isnan(a) and np.isnan(b):
        return True
    return abs(a - b) <= 1e-9 * max(1.0, abs(a), abs(b))


def oracle_case(rng, c):
    """Property criterion on the real code for one configuration; returns list of Violation."""
    H, W, n, mask, how = c["H"], c["W"], c["n"], c["mask"], c["how"]
    if c.get("ties"):
        # photon counts / clipped or padded borders: many equal values ("arbitrary pixel values")
        image = rng.integers(0, 4, size=(H, W)).astype(float) + (10.0 if rng.random() < 0.5 else 0.0)
    else:
        image = rng.normal(0, 1, size=(H, W)) * 3 + 10
    out = []
    try:
        med, sc, cnt, _ = call_real(image, mask, n, how)
    except Exception as e:  # a crash on valid input is a failure of the clause too
        return [Violation(f"C17:exception:{type(e).__name__}:{how}", f"estimate_sky raised {type(e).__name__}: {e} (H={H},W={W},n={n},{c['style']},{how})",
                          dict(kind="oracle", H=H, W=W, n=n, style=c["style"], how=how, mask=None if mask is None else np.asarray(mask).astype(int).tolist()))]
    emed, esc, ecnt, keep = expected_stats(image, mask, n)

    def viol(clause, msg):
        nm = 0 if mask is None else int((np.asarray(mask, bool) & border_bool(H, W, n)).sum())
        sig = f"C17:{clause}:masked-border={'yes' if nm else 'no'}:call={'masked_array' if how == 'masked_array' else 'mask-arg' if how.startswith('arg') else 'both' if how.startswith('both') else 'nomask'}"
        return Violation(sig, f"{clause}: {msg} (H={H}, W={W}, n={n}, mask style {c['style']}, call {how}, masked border pixels {nm})",
                         dict(kind="oracle", H=H, W=W, n=n, style=c["style"], how=how, clause=clause, ties=bool(c.get("ties")),
                              mask=None if mask is None else np.asarray(mask).astype(int).tolist()))
    if cnt != ecnt:
        out.append(viol("count", f"returned count {cnt}, unmasked border pixels {ecnt}"))
    if not close(med, emed):
        out.append(viol("median", f"median {med} != median of unmasked border set {emed}"))
    if not close(sc, esc):
        out.append(viol("scatter", f"scatter {sc} != biweight scale of unmasked border set {esc}"))
    # a call must not leave anything behind in the caller's arrays: the same masked-array object, used again without the
    # separate mask, gives the statistics of its own mask only
    if how == "both" and mask is not None:
        pri = _load()
        own, arg = split_mask(mask)
        obj = np.ma.masked_array(image.copy(), own.copy())
        try:
            pri.estimate_sky(obj, mask=arg, n_pix_sample=n)
            m2, s2, c2 = pri.estimate_sky(obj, n_pix_sample=n)
            e2 = expected_stats(image, own, n)
            if int(c2) != e2[2] or not close(float(m2), e2[0]) or not close(float(s2), e2[1]):
                out.append(viol("second-call", f"after a call with a separate mask, the same masked-array image evaluated again WITHOUT it gives "
                                               f"(median, scatter, count) = ({float(m2):.6g}, {float(s2):.6g}, {int(c2)}), its own mask alone gives ({e2[0]:.6g}, {e2[1]:.6g}, {e2[2]})"))
        except Exception as e:
            out.append(viol("second-call", f"second call raised {type(e).__name__}: {e}"))
    # invariance under interior / masked perturbations
    img2 = image.copy()
    pert = ~keep
    img2[pert] = rng.choice([-1e12, 1e12, 12345.0], size=int(pert.sum()))
    if pert.any():
        med2, sc2, cnt2, _ = call_real(img2, mask, n, how)
        if not (close(med, med2) and close(sc, sc2) and cnt == cnt2):
            out.append(viol("invariance", f"changing interior/masked pixels changed (median, scatter, count) from ({med:.6g},{sc:.6g},{cnt}) to ({med2:.6g},{sc2:.6g},{cnt2})"))
    return out


def blackbox_used(c):
    """Which pixels influence (median, scatter)? ±BIG perturbation of each pixel."""
    H, W, n, mask, how = c["H"], c["W"], c["n"], c["mask"], c["how"]
    image = np.arange(H * W, dtype=float).reshape(H, W) * 1.37 + 0.5
    base = call_real(image, mask, n, how)[:2]
    used = []
    for i in range(H):
        for j in range(W):
            hit = False
            for big in (1e9, -1e9):
                im = image.copy()
                im[i, j] = big
                r = call_real(im, mask, n, how)[:2]
                if not (close(r[0], base[0]) and close(r[1], base[1])):
                    hit = True
                    break
            if hit:
                used.append(i * W + j)
    return used


CORPUS = [
    dict(H=3, W=3, n=1, style="corner", how="arg"),
    dict(H=30, W=30, n=5, style="rows3", how="arg"),
    dict(H=30, W=30, n=5, style="rows3", how="masked_array"),
    dict(H=30, W=30, n=5, style="rows3", how="both"),          # the witness of Props.C17.argIfImageUnmasked_violates, at size
    dict(H=12, W=9, n=2, style="random", how="both-empty", ties=True),
    dict(H=7, W=12, n=2, style="most-border", how="masked_array"),
]


def corpus_cases(rng):
    out = []
    for c in CORPUS:
        c = dict(c)
        if c["style"] == "rows3":
            m = np.zeros((c["H"], c["W"]), bool)
            m[:3, :] = True
            c["mask"] = m
        else:
            c["mask"] = make_mask(rng, c["H"], c["W"], c["n"], c["style"])
        out.append(c)
    return out


def correspondence(ctx):
    rng = ctx.rng("corr")
    cases = corpus_cases(rng) + gen_cases(rng, 300 if ctx.tier == "quick" else 5000)
    model_out = ctx.driver.ask([model_line(c) for c in cases])
    disagreements, violations = [], []
    stats = dict(by_call={}, by_style={}, capture_missing=0, blackbox_checked=0, rect=0, masked_border_cases=0)
    distinct = set()
    n_bb = 0
    bb_budget = 12 if ctx.tier == "quick" else 120
    for c, m in zip(cases, model_out):
        H, W, n = c["H"], c["W"], c["n"]
        stats["by_call"][c["how"]] = stats["by_call"].get(c["how"], 0) + 1
        stats["by_style"][c["style"]] = stats["by_style"].get(c["style"], 0) + 1
        stats["rect"] += int(H != W)
        image = np.arange(H * W, dtype=float).reshape(H, W)
        try:
            med, sc, cnt, used = call_real(image, c["mask"], n, c["how"])
        except Exception as e:
            disagreements.append(dict(H=H, W=W, n=n, style=c["style"], how=c["how"], model=m, real=f"exception {type(e).__name__}: {e}"))
            continue
        if used is None:
            stats["capture_missing"] += 1
            used_sorted = None
        else:
            used_sorted = sorted(int(round(v)) for v in used)
        mm = m.split(" used=")
        mcount = int(mm[0].split("=")[1])
        mused = sorted(int(x) for x in mm[1].strip("[]").split()) if mm[1].strip("[]") else []
        key = (H, W, n, c["how"], tuple(mused))
        if c["mask"] is not None and (np.asarray(c["mask"], bool) & border_bool(H, W, n)).any():
            stats["masked_border_cases"] += 1
            distinct.add(key)
        real_desc = f"count={cnt} used={used_sorted}"
        bad = cnt != mcount or (used_sorted is not None and used_sorted != mused)
        if used_sorted is None or (n_bb < bb_budget and H * W <= 200):
            bb = blackbox_used(c)
            n_bb += 1
            stats["blackbox_checked"] += 1
            # every pixel that influences the statistics must be in the model's set and vice versa
            if sorted(bb) != mused:
                bad = True
                real_desc += f" blackbox_used={sorted(bb)}"
        if bad:
            disagreements.append(dict(H=H, W=W, n=n, style=c["style"], how=c["how"],
                                      mask=None if c["mask"] is None else np.asarray(c["mask"]).astype(int).tolist(),
                                      model=f"count={mcount} used={mused}"[:400], real=real_desc[:400]))
        violations += oracle_case(rng, c)
    # SourceProperties path (photutils in the loop; fewer cases)
    sp_n = 6 if ctx.tier == "quick" else 60
    stats["source_properties_cases"] = 0
    for c in gen_cases(rng, sp_n):
        violations += oracle_source_properties(rng, c)
        stats["source_properties_cases"] += 1
    samples = [dict(H=c["H"], W=c["W"], n=c["n"], style=c["style"], how=c["how"], model=m[:80]) for c, m in list(zip(cases, model_out))[:3]]
    return dict(
        name="estimate_sky_gathered_set_vs_Pysersic.SkyEstimate.usedIdx",
        evaluations=len(cases), distinct_nontrivial=len(distinct),
        rule="corpus + seeded random (H, W, n, mask style, call style) with 2n+1 ≤ H, W; index-encoded images; "
             "non-trivial = at least one masked border pixel; distinct = distinct (H, W, n, call style, used set)",
        samples=samples, distribution=stats, disagreements=disagreements, violations=violations)


def oracle_source_properties(rng, c):
    pri = _load()
    H, W, mask = max(c["H"], 16), max(c["W"], 16), None
    n = 5
    if H < 2 * n + 1 or W < 2 * n + 1:
        return []
    image = rng.normal(0, 1, size=(H, W)) + 5
    yy, xx = np.mgrid[:H, :W]
    image += 50 * np.exp(-((xx - W / 2) ** 2 + (yy - H / 2) ** 2) / 8.0)
    if c["mask"] is not None:
        mask = make_mask(rng, H, W, n, c["style"] if c["style"] not in ("none",) else "random")
    mask_given = mask
    if mask is not None:
        # the documented ways of writing a mask: boolean, 0/1 integers or floats, and soft-edged floats (non-zero = masked)
        form = ["frac", "bool", "int", "float"][c.get("k", H + W) % 4]
        mask_given = {"bool": mask, "int": mask.astype(int), "float": mask.astype(float), "frac": mask.astype(float) * 0.4}[form]
    try:
        sp = pri.SourceProperties(image, mask=mask_given)
    except Exception:
        return []  # photutils could not measure this image: outside this property
    emed, esc, ecnt, keep = expected_stats(image, mask, n)
    out = []
    if not close(float(sp.sky_guess), emed) or not close(float(sp.sky_guess_err), 2 * esc / np.sqrt(ecnt)):
        nm = 0 if mask is None else int((np.asarray(mask, bool) & border_bool(H, W, n)).sum())
        out.append(Violation(
            f"C17:source-properties:masked-border={'yes' if nm else 'no'}",
            f"SourceProperties sky_guess/sky_guess_err ({float(sp.sky_guess):.6g}, {float(sp.sky_guess_err):.6g}) differ from statistics of the unmasked border set ({emed:.6g}, {2 * esc / np.sqrt(ecnt):.6g}) (H={H}, W={W}, masked border pixels {nm})",
            dict(kind="oracle-sp", H=H, W=W, n=n, style=c["style"], k=c.get("k", H + W), mask=None if mask is None else np.asarray(mask).astype(int).tolist())))
    # a border width other than the default, through both public entry points
    for entry in ("set_sky_guess", "measure_properties"):
        m = int(rng.integers(1, max(2, min(H, W) // 2 - 1)))
        if m == 5:
            m = 3
        try:
            getattr(sp, entry)(n_pix_sample=m)
        except Exception:
            continue
        emed, esc, ecnt, keep = expected_stats(image, mask, m)
        if not close(float(sp.sky_guess), emed) or not close(float(sp.sky_guess_err), 2 * esc / np.sqrt(ecnt)):
            out.append(Violation(
                f"C17:source-properties-width:{entry}",
                f"SourceProperties.{entry}(n_pix_sample={m}): sky_guess/sky_guess_err ({float(sp.sky_guess):.6g}, {float(sp.sky_guess_err):.6g}) are not the statistics "
                f"of the {m}-pixel unmasked border ({emed:.6g}, {2 * esc / np.sqrt(ecnt):.6g}) (H={H}, W={W})",
                dict(kind="oracle-sp", H=H, W=W, n=n, style=c["style"], k=c.get("k", H + W), mask=None if mask is None else np.asarray(mask).astype(int).tolist())))
    return out


def oracle_search(ctx, hints):
    rng = ctx.rng("oracle")
    cases = []
    for h in hints[:100]:
        if "H" in h:
            m = None if h.get("mask") is None else np.asarray(h["mask"], dtype=bool)
            cases.append(dict(H=h["H"], W=h["W"], n=h["n"], style=h.get("style", "hint"), how=h.get("how", "arg"), mask=m, ties=bool(h.get("ties"))))
    cases += corpus_cases(rng) + gen_cases(rng, 1500)
    out = []
    for c in cases:
        out += oracle_case(rng, c)
    for c in gen_cases(rng, 30):
        out += oracle_source_properties(rng, c)
    # keep the smallest example per signature
    best = {}
    for v in out:
        size = v.replay.get("H", 0) * v.replay.get("W", 0)
        if v.signature not in best or size < best[v.signature][0]:
            best[v.signature] = (size, v)
    return [v for _, v in best.values()]


def replay(ctx, payload):
    rng = ctx.rng("replay")
    m = None if payload.get("mask") is None else np.asarray(payload["mask"], dtype=bool)
    c = dict(H=payload["H"], W=payload["W"], n=payload["n"], style=payload.get("style", "replay"),
             how=payload.get("how", "arg"), mask=m, ties=bool(payload.get("ties")), k=payload.get("k", payload["H"] + payload["W"]))
    if payload.get("kind") == "oracle-sp":
        return oracle_source_properties(rng, c)
    return oracle_case(rng, c)
