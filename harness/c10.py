"""C10 — model and gradients are finite everywhere in the prior support.

Theorems (Props/C10.lean, partial): on the support given by the regenerated prior bounds every partial operation of the ideal model
is applied inside its domain; z = 0 only at the source centre; the radial law is differentiable for z > 0 with an unbounded
derivative factor z^{1/n−1} as z → 0⁺ for n > 1; Gaussian kernels differentiable everywhere.
Tie: shared render tie on lattice positions (integers, half-integers, edges, off-frame), NaN patterns included.
Oracle (runtime behaviour, cannot be exhibited over ℝ): value and reverse-mode gradient of a random linear functional of the image,
eager and jit, float32, all renderers and profile types, lattice × corners of the support.
"""
from __future__ import annotations

import numpy as np

from . import render_common as RC
from .common import Violation, run_children

PROP = "C10"
LEAN_TARGETS = ["Props.C10", "driver"]
AUDIT_IMPORTS = ["Props.C10"]
NS = "Pysersic.Props.C10."
OBLIGATIONS = [NS + t for t in ["support_facts", "domain_safe", "repo_bn1d_eq", "sigma_pos", "log_args_pos", "broaden_safe", "radial_differentiable",
                                "radial_deriv", "singular_factor", "singular_only_at_centre", "gaussPixelTerm_differentiable"]]
# kernels whose translated source text (Gen/Kernels.lean) is proved equal to the model kernel this property's theorems are about
GEN_KERNELS = ["render_sersic_2d", "render_gaussian_pixel_term", "render_gaussian_fourier_term", "generate_prior"]
MIRRORED_FILES = ["pysersic/rendering.py", "pysersic/priors.py"]
ASSUMPTIONS = [
    "IEEE overflow/underflow and reverse-mode 0·∞ are runtime effects outside the ℝ theorems: searched by the oracle only",
    "a smooth scalar function of the image is represented by random linear functionals Σ w·image (and Σ image²)",
]


def correspondence(ctx):
    rng = ctx.rng("corr")
    scenes = []
    for kind, N, psf, opts in RC.standard_configs(rng, ctx.tier, sizes=[(16, 5), (15, 4)] if ctx.tier == "quick" else None):
        for style in ("int", "half", "edge", "outside") * (1 if ctx.tier == "quick" else 3):
            scenes.append(RC.gen_scene(rng, kind, N, psf, types=[str(rng.choice(RC.PROFILE_TYPES))], mode="single", pos_styles=(style,), **opts))
    dis, stats = RC.render_tie(ctx, scenes)
    return dict(name="render_source vs Pysersic.Render.sceneArr on lattice positions (NaN patterns compared)", evaluations=2 * len(scenes),
                distinct_nontrivial=len({(s['kind'], s['types'][0]) for s in scenes}),
                rule="seeded sources centred on exact integers, half-integers, the frame edge and up to 6 px outside the frame; three renderers; float64 1e-9, float32 2e-5 of the peak",
                samples=[RC.scene_summary(s) for s in scenes[:3]], distribution=stats, disagreements=dis, violations=[])


def grad_child(payload):
    import jax
    import jax.numpy as jnp
    out = []
    cache = {}
    for c in payload["cases"]:
        fails = []
        try:
            N, kind, t = c["N"], c["kind"], c["ptype"]
            sc = RC.default_scene(kind=kind, N=N, psf=RC.gauss_psf(5, 1.1))
            R = RC.build_renderer(sc)
            rngw = np.random.default_rng(c["wseed"])
            w = jnp.asarray(rngw.normal(0, 1, (N, N)), dtype=jnp.float32)
            key = (kind, N, t)
            if key not in cache:
                def f(p, R=R, t=t, w=w):
                    im = R.render_source(p, t)
                    return jnp.sum(w * im) + 1e-12 * jnp.sum(im * im)
                cache[key] = (jax.value_and_grad(f), jax.jit(jax.value_and_grad(f)), jax.jit(lambda p, R=R, t=t: R.render_source(p, t)))
            vg, vgj, rj = cache[key]
            P = {k: jnp.asarray(v, dtype=jnp.float32) for k, v in c["params"].items()}
            img = np.asarray(rj(P))
            if not np.isfinite(img).all():
                fails.append(("value", f"image has {int((~np.isfinite(img)).sum())} non-finite pixels (jit)"))
            for name, fn in (("eager", vg), ("jit", vgj)):
                if name == "eager" and not c.get("eager"):
                    continue
                val, g = fn(P)
                bad = [k for k, x in g.items() if not bool(np.isfinite(np.asarray(x)))]
                if not bool(np.isfinite(np.asarray(val))):
                    fails.append(("functional", f"Σ w·image is not finite ({name})"))
                if bad:
                    fails.append(("gradient", f"non-finite derivative w.r.t. {sorted(bad)} ({name})"))
        except Exception as e:
            fails.append(("exception", f"{type(e).__name__}: {str(e)[:200]}"))
        out.append(dict(fails=fails))
    return out


def support_child(payload):
    """supports of the real auto-generated priors, per profile type: name -> (low, high) in the parameter's own units"""
    import numpy as np
    import pysersic.priors as PR
    out = {}
    for t in RC.PROFILE_TYPES:
        props = PR.SourceProperties(-99)
        props.set_sky_guess(sky_guess=0.0, sky_guess_err=1.0)
        props.set_flux_guess(100.0)
        props.set_r_eff_guess(r_eff_guess=3.0)
        props.set_position_guess((16.0, 16.0))
        props.set_theta_guess(0.3)
        prior = props.generate_prior(t)
        sup = {}
        for k, d in prior.dist_dict.items():
            s_ = d.support
            lo = float(getattr(s_, "lower_bound", -np.inf))
            hi = float(getattr(s_, "upper_bound", np.inf))
            sup[k] = (lo, hi)
        out[t] = sup
    return out


def gen_cases(ctx, n):
    rng = ctx.rng("oracle")
    cases = []
    real_sup = run_children("c10", "support_child", [dict()], x64=False)[0]
    N = 32
    lattice = [(16.0, 16.0), (5.0, 7.0), (15.5, 16.5), (16.0, 15.5), (0.0, 0.0), (31.0, 12.0), (-20.0, 10.0), (40.5, 51.0), (16.25, 16.75), (-0.5, 31.5)]

    def corner(lo, hi, log=False):
        r = rng.random()
        if r < 0.3:
            return lo
        if r < 0.6:
            return hi
        return float(np.exp(rng.uniform(np.log(lo), np.log(hi)))) if log else float(rng.uniform(lo, hi))
    for k in range(n):
        kind = ("pixel", "fourier", "hybrid")[k % 3]
        t = RC.PROFILE_TYPES[(k // 3) % 7]
        xc, yc = lattice[k % len(lattice)] if k % 4 else (float(rng.uniform(-20, 52)), float(rng.uniform(-20, 52)))
        p = dict(xc=xc, yc=yc, flux=float(rng.choice([-1e6, 1e6, 1.0, 0.0, rng.uniform(-1e6, 1e6)])))
        rr = lambda: corner(0.5, 1000.0, log=True)  # noqa: E731
        nn = lambda: corner(0.65, 8.0)  # noqa: E731
        ee = lambda: corner(0.0, 0.9)  # noqa: E731
        ff = lambda: corner(0.0, 1.0)  # noqa: E731
        th = corner(0.0, 2 * np.pi)
        if t in ("sersic", "sersic_pointsource"):
            p.update(r_eff=rr(), n=nn(), ellip=ee(), theta=th)
            if t == "sersic_pointsource":
                p["f_ps"] = ff()
        elif t in ("exp", "dev"):
            p.update(r_eff=rr(), ellip=ee(), theta=th)
        elif t == "doublesersic":
            p.update(f_1=ff(), r_eff_1=rr(), n_1=nn(), ellip_1=ee(), r_eff_2=rr(), n_2=nn(), ellip_2=ee(), theta=th)
        elif t == "sersic_exp":
            p.update(f_1=ff(), r_eff_1=rr(), n=nn(), ellip_1=ee(), r_eff_2=rr(), ellip_2=ee(), theta=th)
        # the property quantifies over what the priors can produce: clip to / push onto the supports of the REAL auto-generated priors
        for name, (lo, hi) in real_sup.get(t, {}).items():
            if name in p and name not in ("xc", "yc", "flux"):
                if np.isfinite(lo) and (p[name] < lo or rng.random() < 0.15):
                    p[name] = lo + (1e-6 * max(1.0, abs(lo)) if name.startswith("r_eff") else 0.0)
                if np.isfinite(hi) and p[name] > hi:
                    p[name] = hi
        cases.append(dict(kind=kind, N=N, ptype=t, params=p, wseed=int(rng.integers(0, 1000)), eager=(k % 7 == 0)))
    return cases


def classify(c):
    p = c["params"]
    on_pixel_centre = float(p["xc"]).is_integer() and float(p["yc"]).is_integer() and 0 <= p["xc"] < c["N"] and 0 <= p["yc"] < c["N"]
    return "centre-on-pixel-centre" if on_pixel_centre else "other"


def oracle_run(ctx, cases):
    w = min(ctx.workers, 8)
    # same (kind, type) together: one compilation per child
    order = sorted(range(len(cases)), key=lambda i: (cases[i]["kind"], cases[i]["ptype"]))
    sorted_cases = [cases[i] for i in order]
    res = RC.unchunk(run_children("c10", "grad_child", [dict(cases=ch) for ch in RC.chunked(sorted_cases, w)], x64=False, workers=w, timeout=3000), len(cases))
    out = []
    for c, r in zip(sorted_cases, res):
        for clause, msg in r["fails"]:
            out.append(Violation(f"C10:{clause}:{c['kind']}:{classify(c)}",
                                 f"{c['kind']} renderer, {c['ptype']}, centre ({c['params']['xc']:g},{c['params']['yc']:g}): {msg} "
                                 f"[{', '.join(f'{k}={v:.4g}' for k, v in c['params'].items() if k not in ('xc', 'yc'))}]",
                                 dict(kind="oracle", case=c)))
    return out


def residual(ctx):
    cases = gen_cases(ctx, 126 if ctx.tier == "quick" else 4200)
    return dict(name="finite values and reverse-mode gradients (eager and jit, float32) on the lattice × corners of the support", cases=len(cases),
                violations=oracle_run(ctx, cases))


def oracle_search(ctx, hints):
    return oracle_run(ctx, gen_cases(ctx, 210))


def replay(ctx, payload):
    return oracle_run(ctx, [payload["case"]])
