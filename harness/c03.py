"""C03 — the model is the intrinsic scene convolved with the PSF exactly as supplied.

Theorems (Props/C03.lean): obligations on the extracted facts (ramps use π; pixel point source
addresses rows by y, centred on (s−1)/2); pixel point source at an integer pixel = flux × embedded
stamp; Fourier point source at an integer pixel = exact shift; 1×1 unit PSF transform ≡ 1.
Tie: PSF_fft element-wise, conv_img on random images, point sources of all renderers on integer and
fractional positions with asymmetric odd/even stamps — model vs code (float64 1e-9, float32 2e-5).
Oracle (float32, the property's tolerances): embedded-stamp comparison (2e-5 of the peak),
flux-weighted centroid (0.02 px), unit PSF identity, direct spatial convolution of the renderer's own
intrinsic image (2e-5).
"""
from __future__ import annotations

import numpy as np

from . import render_common as RC
from .common import Violation, f2h, run_children

PROP = "C03"
LEAN_TARGETS = ["Props.C03", "driver"]
AUDIT_IMPORTS = ["Props.C03"]
NS = "Pysersic.Props.C03."
OBLIGATIONS = [NS + t for t in [
    "repo_ramp_is_pi", "repo_ps_conv", "hat_int", "bilinear_int", "pixel_pointsource_integer", "old_addressing_violates",
    "psfFft_unit", "unit_psf_convFft", "fourier_pointsource_integer", "psfFft_dc", "conv_img_is_circular_convolution",
    "repo_conv_img_is_circular_convolution", "unit_psf_returns_intrinsic", "pixel_scene_is_convolution",
]] + ["Pysersic.Props.C09.synth_shift", "Pysersic.Props.C09.pointsource_translate", "Pysersic.Render.convImg_add",
      "Pysersic.Render.convImg_smul"]
# kernels whose translated source text (Gen/Kernels.lean) is proved equal to the model kernel this property's theorems are about
GEN_KERNELS = ["render_pointsource_fourier", "render_gaussian_fourier_term"]
MIRRORED_FILES = ["pysersic/rendering.py"]
ASSUMPTIONS = [
    "the convolution theorem is proved for odd stamps with π in the ramps (Proofs/RenderConv.lean); for even-sized stamps (half-pixel Fourier shift) the pipeline is validated numerically by the tie (1e-9) and the oracle only",
    "jax.scipy.ndimage.map_coordinates(order=1, mode='constant') is modelled as zero-padded bilinear interpolation (validated by the tie)",
    "even-sized stamps and fractional positions: only the centroid clause (0.02 px) is checked, as the property states",
]


# ----------------------------------------------------------------------------
# tie
# ----------------------------------------------------------------------------

def correspondence(ctx):
    rng = ctx.rng("corr")
    quick = ctx.tier == "quick"
    dis = []
    # (a) PSF_fft element-wise, (b) conv_img of random images: float64
    cases = []
    for N, s0, s1 in ([(8, 3, 3), (9, 4, 4), (12, 5, 4), (16, 9, 9), (15, 15, 15), (10, 1, 1), (14, 6, 7)] if quick else
                      [(8, 3, 3), (9, 4, 4), (12, 5, 4), (16, 9, 9), (15, 15, 15), (10, 1, 1), (14, 6, 7), (21, 8, 8), (24, 11, 11), (32, 15, 15),
                       (33, 16, 16), (20, 20, 20), (7, 2, 3)]):
        psf = RC.asym_psf(rng, s0, s1) if s0 * s1 > 1 else np.ones((1, 1))
        cases.append((N, psf, rng.normal(0, 1, (N, N)) + 5 * (rng.random((N, N)) < 0.05)))
    real_f = run_children("render_common", "real_psffft", [dict(cases=[(N, p) for N, p, _ in cases])], x64=True)[0]
    real_c = run_children("render_common", "real_conv", [dict(cases=cases)], x64=True)[0]
    lines = []
    for N, psf, img in cases:
        s0, s1 = psf.shape
        head = f"{N} {s0} {s1} " + " ".join(f2h(x) for x in psf.ravel())
        lines.append("psffft " + head)
        lines.append("conv " + head + " " + " ".join(f2h(x) for x in img.ravel()))
    rep = ctx.driver.ask(lines)
    n_stage = 0
    for k, (N, psf, img) in enumerate(cases):
        n_stage += 2
        rf, rc = real_f[k], real_c[k]
        if isinstance(rf, str) or isinstance(rc, str):
            dis.append(dict(case=dict(N=N, psf=psf.tolist()), diffs=[f"real code raised: {rf if isinstance(rf, str) else rc}"]))
            continue
        toks = [t for t in rep[2 * k].split(" ") if t]
        mf = RC.parse_fimg(toks, N)
        scale = max(float(np.abs(rf).max()), 1e-300)
        d = float(np.abs(mf - rf).max()) / scale
        diffs = []
        if not d <= 1e-10:
            i = np.unravel_index(int(np.argmax(np.abs(mf - rf))), rf.shape)
            diffs.append(f"PSF_fft differs by {d:.2e} (relative to max) at (v,u)={tuple(int(x) for x in i)}: real {rf[i]!r} model {mf[i]!r}")
        mc = RC.parse_image(rep[2 * k + 1], N)
        m = RC.compare_images(rc, mc, 1e-9, "conv_img")
        if m:
            diffs.append(m)
        if diffs:
            dis.append(dict(case=dict(N=N, psf=psf.tolist(), img=img.tolist()), diffs=diffs))
    # (c) point sources and extended sources through the three renderers
    scenes = []
    for kind, N, psf, opts in RC.standard_configs(rng, ctx.tier, sizes=[(16, 5), (15, 4), (12, 7), (13, 13)] if quick else None):
        for style in ("int", "half", "frac") * (1 if quick else 3):
            scenes.append(RC.gen_scene(rng, kind, N, psf, types=["pointsource"], mode="single", pos_styles=(style,), **opts))
        scenes.append(RC.gen_scene(rng, kind, N, psf, types=[str(rng.choice(RC.EXTENDED))], mode="single", **opts))
        # the catalogue path (render_for_model): an extended source and a point source in one scene
        scenes.append(RC.gen_scene(rng, kind, N, psf, types=[str(rng.choice(RC.EXTENDED)), "pointsource"], mode="multi", **opts))
        # non-square stamps: only the pixel renderer accepts them by design of the default renderer
    for N, s0, s1 in [(14, 5, 3), (13, 4, 7)]:
        psf = RC.asym_psf(rng, s0, s1)
        for style in ("int", "frac"):
            scenes.append(RC.gen_scene(rng, "pixel", N, psf, types=["pointsource"], mode="single", pos_styles=(style,), os=2, num_os=3))
            scenes.append(RC.gen_scene(rng, "fourier", N, psf, types=["pointsource"], mode="single", pos_styles=(style,)))
    d2, stats = RC.render_tie(ctx, scenes)
    dis += d2
    stats["stage_cases"] = n_stage
    return dict(
        name="PSF_fft / conv_img / point-source renders vs Pysersic.Render (psfFft, sceneArr, pixelPointSource, pointF)",
        evaluations=n_stage + 2 * len(scenes), distinct_nontrivial=len(cases) + len({(s['kind'], s['N'], np.shape(s['psf'])) for s in scenes}),
        rule="PSF_fft compared element-wise (1e-10 of max) and conv_img of random images (1e-9 of peak) in float64 for odd/even/non-square/1×1 asymmetric "
             "stamps; point sources of the three renderers on integer, half-integer and fractional positions + one extended source per configuration "
             "(float64 1e-9, float32 2e-5 of the peak)",
        samples=[RC.scene_summary(s) for s in scenes[:3]], distribution=stats, disagreements=dis, violations=[])


# ----------------------------------------------------------------------------
# oracle
# ----------------------------------------------------------------------------

def circ_conv(img, psf):
    """direct spatial-domain circular convolution with the stamp centred on its geometric centre (odd sizes)"""
    s0, s1 = psf.shape
    c0, c1 = (s0 - 1) // 2, (s1 - 1) // 2
    out = np.zeros_like(img, dtype=np.float64)
    for i in range(s0):
        for j in range(s1):
            out += psf[i, j] * np.roll(np.roll(img, i - c0, axis=0), j - c1, axis=1)
    return out


def oracle_child(payload):
    import jax.numpy as jnp
    out = []
    for case in payload["cases"]:
        fails = []
        try:
            kind, N, psf = case["kind"], case["N"], np.asarray(case["psf"], np.float32).astype(np.float64)
            s0, s1 = psf.shape
            sc = RC.default_scene(kind=kind, N=N, psf=psf, os=min(4, N // 2))
            R = RC.build_renderer(sc)

            def ps(x, y, f):
                return np.asarray(R.render_source(dict(xc=jnp.float32(x), yc=jnp.float32(y), flux=jnp.float32(f)), "pointsource"), dtype=np.float64)
            pc_y = float((psf * np.arange(s0)[:, None]).sum() / psf.sum() - (s0 - 1) / 2)
            pc_x = float((psf * np.arange(s1)[None, :]).sum() / psf.sum() - (s1 - 1) / 2)
            for (x, y, f) in case["positions"]:
                img = ps(x, y, f)
                is_int = float(x).is_integer() and float(y).is_integer()
                if is_int and s0 % 2 == 1 and s1 % 2 == 1:
                    emb = np.zeros((N, N))
                    r0, c0 = int(y) - (s0 - 1) // 2, int(x) - (s1 - 1) // 2
                    emb[r0:r0 + s0, c0:c0 + s1] = f * psf
                    peak = float(np.abs(emb).max())
                    d = float(np.abs(img - emb).max()) / peak
                    if not d <= 2e-5:
                        i = np.unravel_index(int(np.argmax(np.abs(img - emb))), img.shape)
                        fails.append(("embedded-stamp", f"point source at integer ({x:g},{y:g}) differs from f·PSF centred there by {d:.2e} of the peak at pixel {tuple(int(v) for v in i)}"))
                tot = img.sum()
                cy = float((img * np.arange(N)[:, None]).sum() / tot)
                cx = float((img * np.arange(N)[None, :]).sum() / tot)
                if not (abs(cx - (x + pc_x)) <= 0.02 and abs(cy - (y + pc_y)) <= 0.02):
                    fails.append(("centroid", f"point source at ({x:g},{y:g}): centroid ({cx:.4f},{cy:.4f}) ≠ position + PSF centroid offset ({x + pc_x:.4f},{y + pc_y:.4f})"))
            # unit PSF returns the intrinsic image; extended source vs direct spatial convolution of that intrinsic image
            if kind in ("pixel", "fourier") and s0 % 2 == 1 and s1 % 2 == 1 and s0 == s1:
                scu = RC.default_scene(kind=kind, N=N, psf=np.ones((1, 1)), os=min(4, N // 2))
                Ru = RC.build_renderer(scu)
                p = {k: jnp.float32(v) for k, v in case["ext"].items()}
                intr = np.asarray(Ru.render_source(p, "sersic"), dtype=np.float64)
                if kind == "pixel":
                    own = np.asarray(Ru.render_int_sersic(p["xc"], p["yc"], p["flux"], p["r_eff"], p["n"], p["ellip"], p["theta"]), dtype=np.float64)
                    d = float(np.abs(intr - own).max()) / max(float(np.abs(own).max()), 1e-30)
                    if not d <= 2e-5:
                        fails.append(("unit-psf", f"1×1 unit PSF does not return the intrinsic image: {d:.2e} of the peak"))
                obs = np.asarray(R.render_source(p, "sersic"), dtype=np.float64)
                ref = circ_conv(intr, psf)
                d = float(np.abs(obs - ref).max()) / max(float(np.abs(ref).max()), 1e-30)
                if not d <= 2e-5:
                    fails.append(("direct-conv", f"extended source differs from the direct spatial convolution of the intrinsic image by {d:.2e} of the peak"))
                # the same source as the only entry of a catalogue (the multi-source path used by FitMulti and the multi-band fitters)
                pm = {f"{k}_0": v for k, v in p.items()}
                obs_m = np.asarray(R.render_for_model(pm, ["sersic"], ""), dtype=np.float64)
                d = float(np.abs(obs_m - ref).max()) / max(float(np.abs(ref).max()), 1e-30)
                if not d <= 2e-5:
                    fails.append(("direct-conv-multi", f"a one-source catalogue rendered through render_for_model differs from the direct spatial convolution of "
                                                       f"the intrinsic image by {d:.2e} of the peak"))
            # integer-typed stamps (a delta-function PSF written as [[1]], a small integer kernel): the same law
            if kind == "pixel":
                import pysersic.rendering as RD
                import warnings
                for ip in (np.ones((1, 1), dtype=np.int32), np.array([[0, 1, 0], [1, 4, 1], [0, 1, 0]], dtype=np.int64)):
                    with warnings.catch_warnings():
                        warnings.simplefilter("ignore")
                        Ri = RD.PixelRenderer((N, N), jnp.asarray(ip))
                    (x, y, f) = case["positions"][1]
                    im_i = np.asarray(Ri.render_source(dict(xc=jnp.float32(x), yc=jnp.float32(y), flux=jnp.float32(f)), "pointsource"), dtype=np.float64)
                    want = f * float(ip.sum())
                    if not abs(im_i.sum() - want) <= 1e-4 * abs(want):
                        fails.append(("integer-psf", f"point source at ({x:.2f},{y:.2f}) with an integer-typed {ip.shape} PSF: total {im_i.sum():.6g}, flux × ΣPSF = {want:.6g}"))
            # every band of a multi-band fit is convolved with ITS OWN PSF
            if case.get("multiband"):
                fails += multiband_psf_clause(case, N)
            # a Sersic profile with a point source on top: the point-source part is the PSF stamp at the SAME centre (xc, yc)
            pe = dict(case["ext"])
            fps = 0.4
            pe["xc"], pe["yc"] = pe["xc"] - 2.25, pe["yc"] + 1.5          # off the diagonal
            comp = np.asarray(R.render_source({**{k: jnp.float32(v) for k, v in pe.items()}, "f_ps": jnp.float32(fps)}, "sersic_pointsource"), dtype=np.float64)
            part_s = np.asarray(R.render_source({k: jnp.float32(v if k != "flux" else (1 - fps) * v) for k, v in pe.items()}, "sersic"), dtype=np.float64)
            part_p = ps(pe["xc"], pe["yc"], fps * pe["flux"])
            d = float(np.abs(comp - (part_s + part_p)).max()) / max(float(np.abs(comp).max()), 1e-30)
            if not d <= 2e-5:
                fails.append(("composite-pointsource", f"sersic_pointsource at ({pe['xc']:.2f},{pe['yc']:.2f}) differs from its Sersic part + the PSF-convolved point source at the "
                                                       f"same centre by {d:.2e} of the peak"))
        except Exception as e:
            fails.append(("exception", f"{type(e).__name__}: {str(e)[:200]}"))
        out.append(dict(fails=fails))
    return out


def multiband_psf_clause(case, N):
    """two bands with different PSFs through FitMultiBandPoly: each band's recorded model image is what that band's own
    renderer gives for that band's parameters"""
    import jax
    import jax.numpy as jnp
    from numpyro import handlers
    import pysersic.multiband as MB
    from . import pyutil as U
    rng = np.random.default_rng(case.get("mb_seed", 0))
    fitters, psfs = [], []
    for b in range(2):
        data, rms, _ = U.make_images(rng, N)
        psf = RC.smooth_asym_psf(rng, [5, 7][b])
        prior = U.source_prior("pointsource", sky_type="none", xc=N / 2 + 0.3, yc=N / 2 - 0.4, flux=60.0 + 30 * b)
        fitters.append(U.pysersic.FitSingle(data, rms, psf, prior, renderer=U.RD.FourierRenderer))
        psfs.append(psf)
    top = MB.FitMultiBandPoly(fitter_list=fitters, wavelengths=jnp.asarray([1.0, 2.0]), linked_params=["flux"], const_params=["xc", "yc"],
                              band_names=["g", "r"], wv_to_save=jnp.asarray([1.5]), poly_order=1)
    tr = handlers.trace(handlers.seed(top.build_model(return_model=True), jax.random.PRNGKey(1))).get_trace()
    out = []
    ims = [np.asarray(v["value"], dtype=np.float64) for k, v in tr.items() if k.startswith("model") and v["type"] == "deterministic"]
    stack = ims[0] if len(ims) == 1 and ims[0].ndim == 3 else (np.stack(ims) if len(ims) == 2 else None)
    if stack is None or stack.shape[0] != 2:
        return [("multiband-psf", f"the multi-band model records {[np.shape(i) for i in ims]} instead of one image per band")]
    for b, band in enumerate(["g", "r"]):
        pb = {k: tr[f"{k}_{band}"]["value"] if f"{k}_{band}" in tr else tr[k]["value"] for k in ("xc", "yc", "flux")}
        own = np.asarray(top.fitter_list[b].renderer.render_source(pb, "pointsource"), dtype=np.float64)
        d = float(np.abs(stack[b] - own).max()) / max(float(np.abs(own).max()), 1e-30)
        if not d <= 2e-5:
            out.append(("multiband-psf", f"band {band} of a two-band fit (PSF stamps {psfs[0].shape} and {psfs[1].shape}) differs from the band's own renderer by {d:.2e} of the peak"))
    return out


def gen_oracle_cases(ctx, n):
    rng = ctx.rng("oracle")
    cases = []
    for k in range(n):
        kind = ("pixel", "fourier", "hybrid")[k % 3]
        N = int(rng.choice([32, 40, 41]))
        s = int(rng.choice([1, 5, 9, 8, 12, 15])) if k % 5 else int(rng.choice([9, 15]))
        psf = RC.smooth_asym_psf(rng, s)
        if k % 4 == 1 and s >= 8:
            # empirical PSFs have noisy / ringing wings: a smooth stamp with a shallow negative ring ("exactly as supplied")
            yy, xx = np.mgrid[:s, :s] - (s - 1) / 2.0
            r2 = xx ** 2 + yy ** 2
            ring = np.exp(-r2 / (2 * (0.33 * s) ** 2)) - np.exp(-r2 / (2 * (0.2 * s) ** 2))
            psf = psf - 0.004 * psf.max() * ring / np.abs(ring).max()      # a few pixels at −0.1 … −0.4 % of the peak
            psf = psf / psf.sum()
        if rng.random() < 0.3:
            psf = psf * float(rng.uniform(0.5, 2.0))        # not normalised
        m = s // 2 + 2
        pos = []
        for _ in range(3):
            pos.append((float(rng.integers(m, N - m)), float(rng.integers(m, N - m)), float(rng.uniform(1, 100) * rng.choice([1, -1]))))
            pos.append((float(rng.uniform(m, N - m - 1)), float(rng.uniform(m, N - m - 1)), float(rng.uniform(1, 100))))
        ext = dict(xc=float(rng.uniform(N / 2 - 3, N / 2 + 3)), yc=float(rng.uniform(N / 2 - 3, N / 2 + 3)), flux=100.0,
                   r_eff=float(rng.uniform(1.0, 2.5)), n=float(rng.uniform(0.8, 2.5)), ellip=float(rng.uniform(0, 0.6)), theta=float(rng.uniform(0, 3)))
        cases.append(dict(kind=kind, N=N, psf=psf.tolist(), positions=pos, ext=ext, multiband=(k % 6 == 2), mb_seed=int(rng.integers(0, 1000))))
    return cases


def psf_class(psf):
    """'bandlimited' if the stamp (zero-padded) has at most 1 % of its DC amplitude at |f| ≥ 0.45 cycles/px along either
    axis, else 'not-bandlimited' (under-sampled or truncated stamp: Fourier-space shifting then rings)."""
    psf = np.asarray(psf, float)
    F = np.abs(np.fft.fft2(psf, s=(64, 64)))
    f = np.abs(np.fft.fftfreq(64))
    hi = (f[:, None] >= 0.45) | (f[None, :] >= 0.45)
    return "bandlimited" if F[hi].max() <= 0.01 * F[0, 0] else "not-bandlimited"


def oracle_run(ctx, cases):
    w = min(ctx.workers, 8)
    chunks = RC.chunked(cases, w)
    res = RC.unchunk(run_children("c03", "oracle_child", [dict(cases=ch) for ch in chunks], x64=False, workers=w), len(cases))
    out = []
    for c, r in zip(cases, res):
        for clause, msg in r["fails"]:
            sig = f"C03:{clause}:{c['kind']}"
            if clause == "centroid":
                sig += ":psf-" + psf_class(c["psf"])
            out.append(Violation(sig, f"{c['kind']} renderer, N={c['N']}, PSF {np.shape(c['psf'])}: {msg}", dict(kind="oracle", case=c)))
    return out


def residual(ctx):
    cases = gen_oracle_cases(ctx, 18 if ctx.tier == "quick" else 240)
    return dict(name="float32 point-source / unit-PSF / direct-convolution criteria on the real renderers", cases=len(cases),
                violations=oracle_run(ctx, cases))


def oracle_search(ctx, hints):
    return oracle_run(ctx, gen_oracle_cases(ctx, 45))


def replay(ctx, payload):
    return oracle_run(ctx, [payload["case"]])
