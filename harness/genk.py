"""Tie between the *translated* kernels (lean/PysersicModel/Gen/Kernels.lean, regenerated from /repo on every run by
tools/translate.py) and the real Python functions they were translated from.

The theorems of Proofs/GenKernels.lean say `translated kernel = hand-written model kernel` over ℝ; this check says
`translated kernel at Float = real function in x64` on generated arguments, which validates the translator itself
(its reading of operator precedence, of re-assignment, of broadcasting subscripts, of complex literals) on every run.
A kernel the translator could not read (a refactor) is reported as `missed`, evaluated from the committed fallback
text, and is by itself neither a disagreement nor a violation.
"""
from __future__ import annotations

import json
import math

import numpy as np

from . import common as C
from .common import run_child

REPORT = C.LEAN_DIR / ".lake" / "gen_kernels_report.json"


PTYPES = ["sersic", "doublesersic", "sersic_exp", "sersic_pointsource", "pointsource", "exp", "dev"]
PROGRAMS = {"generate_prior"}
NO_FLOAT_TIE = {"losses"}


def _u(rng, lo, hi):
    return float(rng.uniform(lo, hi))


def gen_args(name, rng, i):
    """named arguments of one evaluation (names as in the Python signature at the pinned commit)"""
    if name == "render_sersic_2d":
        xc, yc = _u(rng, 5, 25), _u(rng, 5, 25)
        on_centre = i % 7 == 0
        return dict(X=xc if on_centre else _u(rng, 0, 30), Y=yc if on_centre else _u(rng, 0, 30), xc=xc, yc=yc,
                    flux=_u(rng, -50, 500), r_eff=_u(rng, 0.5, 12), n=_u(rng, 0.65, 8), ellip=_u(rng, 0, 0.9),
                    theta=_u(rng, -7, 7))
    if name == "sersic1D":
        return dict(r=_u(rng, 0.0, 40), flux=_u(rng, -5, 500), re=_u(rng, 0.5, 12), n=_u(rng, 0.65, 8))
    if name == "sersic1D_cx":
        return dict(r=(_u(rng, 0.01, 40), _u(rng, -40, 40)), flux=_u(rng, -5, 500), re=_u(rng, 0.5, 12), n=_u(rng, 0.65, 8))
    if name == "render_gaussian_pixel_term":
        return dict(X=_u(rng, 0, 30), Y=_u(rng, 0, 30), amps=_u(rng, -3, 80), sigmas=_u(rng, 0.3, 9), xc=_u(rng, 5, 25),
                    yc=_u(rng, 5, 25), theta=_u(rng, -7, 7), q=_u(rng, 0.1, 1))
    if name == "render_gaussian_fourier_term":
        return dict(FX=_u(rng, -0.5, 0.5), FY=_u(rng, 0, 0.5), amps=_u(rng, -3, 80), sigmas=_u(rng, 0.3, 9),
                    xc=_u(rng, 0, 30), yc=_u(rng, 0, 30), theta=_u(rng, -7, 7), q=_u(rng, 0.1, 1))
    if name == "render_pointsource_fourier":
        return dict(FX=_u(rng, -0.5, 0.5), FY=_u(rng, 0, 0.5), xc=_u(rng, 0, 30), yc=_u(rng, 0, 30), flux=_u(rng, -5, 500))
    if name == "render_tilted_plane_sky":
        H, W = int(rng.integers(3, 12)), int(rng.integers(3, 12))
        return dict(_H=H, _W=W, _i=int(rng.integers(0, H)), _j=int(rng.integers(0, W)), back=_u(rng, -3, 3),
                    x_sl=_u(rng, -0.2, 0.2), y_sl=_u(rng, -0.2, 0.2))
    if name == "tilted_plane_sky_sample":
        H, W = int(rng.integers(3, 12)), int(rng.integers(3, 12))
        return dict(_H=H, _W=W, _i=int(rng.integers(0, H)), _j=int(rng.integers(0, W)), back=_u(rng, -3, 3),
                    x_sl=_u(rng, -0.2, 0.2), y_sl=_u(rng, -0.2, 0.2), _suffix=["", "_a"][i % 2])
    if name == "generate_prior":
        return dict(profile_type=PTYPES[i % 7], flux_guess=_u(rng, 1, 5000), flux_guess_err=_u(rng, 0.5, 100), r_eff_guess=_u(rng, 0.6, 25),
                    r_eff_guess_err=_u(rng, 0.3, 6), xc_guess=_u(rng, 0, 60), yc_guess=_u(rng, 0, 60))
    if name == "restrict_func":
        lo = _u(rng, -5, 5)
        return dict(x=_u(rng, -12, 12), hi=lo + _u(rng, 0.1, 10), low=lo)
    if name == "hybrid_broaden":
        return dict(xc=_u(rng, 4, 12), yc=_u(rng, 4, 12), flux=_u(rng, 1, 500), r_eff=_u(rng, 0.6, 4), n=_u(rng, 0.8, 6), ellip=_u(rng, 0, 0.9),
                    theta=_u(rng, -3, 3), _k=int(rng.integers(0, 15)), _psf_sigma=_u(rng, 0.8, 2.0))
    if name == "cash_loss_factor":
        return dict(mod=_u(rng, 0.05, 60), data=_u(rng, 0, 80))
    if name == "pseudo_huber_loss_factor":
        return dict(mod=_u(rng, -5, 60), data=_u(rng, -5, 80), rms=_u(rng, 0.1, 5), delta=_u(rng, 0.5, 6))
    raise KeyError(name)


def real_child(payload):
    """child entry (x64): the real functions on the generated arguments"""
    import jax.numpy as jnp
    import pysersic.rendering as RD
    out = []
    for name, a in payload["cases"]:
        try:
            if name == "render_sersic_2d":
                v = RD.render_sersic_2d(jnp.asarray([[a["X"]]]), jnp.asarray([[a["Y"]]]), a["xc"], a["yc"], a["flux"],
                                        a["r_eff"], a["n"], a["ellip"], a["theta"])
                out.append([float(np.asarray(v).ravel()[0])])
            elif name == "sersic1D":
                out.append([float(RD.sersic1D(jnp.asarray(a["r"]), a["flux"], a["re"], a["n"]))])
            elif name == "sersic1D_cx":
                v = complex(RD.sersic1D(jnp.asarray(complex(*a["r"])), a["flux"], a["re"], a["n"]))
                out.append([v.real, v.imag])
            elif name == "render_gaussian_pixel_term":
                v = RD.render_gaussian_pixel(jnp.asarray([[a["X"]]]), jnp.asarray([[a["Y"]]]), jnp.asarray([a["amps"]]),
                                             jnp.asarray([a["sigmas"]]), a["xc"], a["yc"], a["theta"], jnp.asarray([a["q"]]))
                out.append([float(np.asarray(v).ravel()[0])])
            elif name == "render_gaussian_fourier_term":
                v = RD.render_gaussian_fourier(jnp.asarray([[a["FX"]]]), jnp.asarray([[a["FY"]]]), jnp.asarray([a["amps"]]),
                                               jnp.asarray([a["sigmas"]]), a["xc"], a["yc"], a["theta"], a["q"])
                v = complex(np.asarray(v).ravel()[0])
                out.append([v.real, v.imag])
            elif name == "render_pointsource_fourier":
                v = RD.render_pointsource_fourier(jnp.asarray([[a["FX"]]]), jnp.asarray([[a["FY"]]]), a["xc"], a["yc"], a["flux"])
                v = complex(np.asarray(v).ravel()[0])
                out.append([v.real, v.imag])
            elif name == "render_tilted_plane_sky":
                import pysersic.priors as PR
                X, Y = jnp.meshgrid(jnp.arange(a["_W"], dtype=float), jnp.arange(a["_H"], dtype=float))
                v = PR.render_tilted_plane_sky(X, Y, a["back"], a["x_sl"], a["y_sl"])
                out.append([float(np.asarray(v)[a["_i"], a["_j"]])])
            elif name == "tilted_plane_sky_sample":
                import numpyro.handlers as H
                import pysersic.priors as PR
                sfx = a["_suffix"]
                sky = PR.TiltedPlaneSkyPrior(0.0, 1.0, suffix=sfx)
                X, Y = jnp.meshgrid(jnp.arange(a["_W"], dtype=float), jnp.arange(a["_H"], dtype=float))
                vals = {"sky_back" + sfx: jnp.asarray(a["back"]), "sky_x_sl" + sfx: jnp.asarray(a["x_sl"]), "sky_y_sl" + sfx: jnp.asarray(a["y_sl"])}
                v = H.substitute(H.seed(sky.sample, 0), data=vals)(X, Y)
                out.append([float(np.asarray(v)[a["_i"], a["_j"]])])
            elif name == "generate_prior":
                import pysersic.priors as PR
                from .c12 import describe
                props = PR.SourceProperties(-99)
                props.set_sky_guess(sky_guess=0.0, sky_guess_err=1.0)
                for k, v in a.items():
                    if k != "profile_type":
                        if not hasattr(props, k) and k not in ("flux_guess", "flux_guess_err", "r_eff_guess", "r_eff_guess_err", "xc_guess", "yc_guess"):
                            raise KeyError(k)
                        setattr(props, k, v)
                prior = props.generate_prior(a["profile_type"])
                out.append([[k, describe(d)] for k, d in prior.dist_dict.items()])
            elif name == "hybrid_broaden":
                # the two locals are observed where the method hands them on: the arguments of render_gaussian_pixel, with every
                # component drawn in real space (num_pixel_render = n_sigma)
                import warnings
                import pysersic.rendering as RD
                g = np.arange(7) - 3.0
                psf = np.exp(-(g[:, None] ** 2 + g[None, :] ** 2) / (2 * a["_psf_sigma"] ** 2))
                with warnings.catch_warnings():
                    warnings.simplefilter("ignore")
                    R = RD.HybridRenderer((16, 16), jnp.asarray(psf / psf.sum()), num_pixel_render=15)
                seen = {}
                orig = RD.render_gaussian_pixel

                def spy(X, Y, amps, sigmas, xc, yc, theta, q):
                    seen.update(amps=np.asarray(amps, float), so=np.asarray(sigmas, float), qo=np.asarray(q, float) * np.ones_like(np.asarray(sigmas, float)))
                    return orig(X, Y, amps, sigmas, xc, yc, theta, q)
                RD.render_gaussian_pixel = spy
                try:
                    R.render_sersic_hybrid(*(jnp.asarray(a[k]) for k in ("xc", "yc", "flux", "r_eff", "n", "ellip", "theta")))
                finally:
                    RD.render_gaussian_pixel = orig
                _, sig = R.get_amps_sigmas(jnp.asarray(a["flux"]), jnp.asarray(a["r_eff"]), jnp.asarray(a["n"]))
                sig = np.asarray(sig, float)[np.asarray(R.w_real)]
                k = a["_k"] % len(sig)
                out.append([float(seen["so"][k]), float(seen["qo"][k]), float(sig[k]), float(seen["amps"][k]), float(R.sig_psf_approx)])
            elif name == "restrict_func":
                import pysersic.multiband as MB
                out.append([float(MB.FitMultiBandPoly.restrict_func(None, jnp.asarray(a["x"]), a["hi"], a["low"]))])
            elif name in ("cash_loss_factor", "pseudo_huber_loss_factor"):
                import numpyro.handlers as H
                import pysersic.loss as L
                mod, data = jnp.asarray([[a["mod"]]]), jnp.asarray([[a["data"]]])
                rms = jnp.asarray([[a.get("rms", 1.0)]])
                mask = jnp.asarray([[True]])
                if name == "cash_loss_factor":
                    tr = H.trace(L.cash_loss).get_trace(mod, data, rms, mask)
                else:
                    tr = H.trace(L.pseudo_huber_loss).get_trace(mod, data, rms, mask, delta=a["delta"])
                site = [s for s in tr.values() if s["type"] == "sample"][0]
                fn = site["fn"]
                while not hasattr(fn, "log_factor") and hasattr(fn, "base_dist"):
                    fn = fn.base_dist
                out.append([float(np.asarray(fn.log_factor).ravel()[0])])
            else:
                out.append(f"KeyError: {name}")
        except Exception as e:  # a refactor may change a signature: reported, not a disagreement
            out.append(f"{type(e).__name__}: {e}")
    return out


def _num_eq(x, y):
    if x is None or y is None:
        return x is None and y is None
    return abs(x - y) <= 2e-6 * max(abs(x), abs(y)) + 1e-12


def lean_args(name, a, params):
    """the argument vector in the order of the translated definition's parameters"""
    if name in ("render_tilted_plane_sky", "tilted_plane_sky_sample"):
        a = dict(a, X=float(a["_j"]), Y=float(a["_i"]), X_shape0=float(a["_H"]), Y_shape0=float(a["_H"]))
    vec = []
    for p in (params[1:] if name in PROGRAMS else params):
        v = a[p]
        vec += list(v) if isinstance(v, (tuple, list)) else [v]
    return [float(x) for x in vec]


def tie(ctx, names, per_kernel=None):
    """→ dict(evaluations, disagreements=[…], missed=[…], unevaluable=[…], by_kernel={…})"""
    per_kernel = per_kernel or (60 if ctx.tier == "quick" else 600)
    rep = json.loads(REPORT.read_text()) if REPORT.exists() else {}
    kernels = rep.get("kernels", {})
    rng = ctx.rng("genk")
    cases = []
    for name in names:
        if name not in kernels or name in NO_FLOAT_TIE:
            continue
        for i in range(per_kernel):
            cases.append((name, gen_args(name, rng, i)))
    real = run_child("genk", "real_child", dict(cases=cases), x64=True)
    lines, keep, uneval = [], [], []
    for (name, a), r in zip(cases, real):
        if isinstance(r, str):
            uneval.append(dict(kernel=name, error=r[:200]))
            continue
        if name == "hybrid_broaden":
            # the inputs of the per-component formula that only the real renderer knows (its σ grid, its PSF width estimate)
            a = dict(a, sigmas=r[2], amps=r[3], sig_psf_approx=r[4])
            r = r[:2]
        try:
            vec = lean_args(name, a, kernels[name]["params"])
        except KeyError as e:
            uneval.append(dict(kernel=name, error=f"parameter {e} of the translated definition is not generated"))
            continue
        if name in PROGRAMS:
            lines.append(f"genprog {name} {a[kernels[name]['params'][0]]} " + " ".join(C.f2h(x) for x in vec))
        else:
            lines.append("genk " + name + " " + " ".join(C.f2h(x) for x in vec))
        keep.append((name, a, r))
    out = ctx.driver.ask(lines) if lines else []
    dis, by = [], {}
    for (name, a, r), o in zip(keep, out):
        st = by.setdefault(name, dict(evaluated=0, worst_rel=0.0))
        if name in PROGRAMS:
            # ordered list of (name, family, loc, scale, low, high); the real objects hold float32 parameters
            from .c12 import parse_entries
            try:
                toks = [t for t in o.split(" ") if t]
                m = [[t.split("|")[0], parse_entries(t)[t.split("|")[0]]] for t in toks]
            except Exception:
                dis.append(dict(kernel=name, args=a, real=r, model=o))
                continue
            st["evaluated"] += 1
            same = len(m) == len(r) and all(
                mk == rk and md["family"] == rd["family"] and all(_num_eq(md[f], rd[f]) for f in ("loc", "scale", "low", "high"))
                for (mk, md), (rk, rd) in zip(m, r))
            if not same:
                dis.append(dict(kernel=name, args=a, real=r, model=m))
            continue
        try:
            m = [C.h2f(t) for t in o.split()]
        except Exception:
            dis.append(dict(kernel=name, args=a, real=r, model=o))
            continue
        st["evaluated"] += 1
        scale = max(max(abs(x) for x in r), 1e-300)
        ok = len(m) == len(r)
        for x, y in zip(m, r):
            if math.isnan(x) and math.isnan(y):
                continue
            if math.isinf(x) or math.isinf(y):
                ok = ok and x == y
                continue
            err = abs(x - y)
            if not err <= 1e-9 * scale + 1e-300:
                ok = False
            if math.isfinite(err):
                st["worst_rel"] = max(st["worst_rel"], err / scale)
        if not ok:
            dis.append(dict(kernel=name, args=a, real=r, model=m))
    # each kernel's unevaluable cases are listed once
    seen, ulist = set(), []
    for u in uneval:
        if (u["kernel"], u["error"][:60]) not in seen:
            seen.add((u["kernel"], u["error"][:60]))
            ulist.append(u)
    return dict(evaluations=len(keep), disagreements=dis, missed=sorted(rep.get("failed", {})), unevaluable=ulist, by_kernel=by,
                translated=rep.get("translated", []))


# which proof module and which theorems carry each translated kernel
_NS = "Pysersic.GenProofs."
MODULE = {
    "render_sersic_2d": "Proofs.GenK.Sersic2d",
    "sersic1D_cx": "Proofs.GenK.Sersic1d",
    "render_gaussian_pixel_term": "Proofs.GenK.GaussPixel",
    "render_gaussian_fourier_term": "Proofs.GenK.GaussFourier",
    "render_pointsource_fourier": "Proofs.GenK.PointFourier",
    "render_tilted_plane_sky": "Proofs.GenK.TiltedPlane",
    "tilted_plane_sky_sample": "Proofs.GenK.TiltedSample",
    "generate_prior": "Proofs.GenK.GeneratePrior",
    "restrict_func": "Proofs.GenK.Restrict",
    "hybrid_broaden": "Proofs.GenK.HybridBroaden",
    "cash_loss_factor": "Proofs.GenK.Cash",
    "pseudo_huber_loss_factor": "Proofs.GenK.Huber",
    "losses": "Proofs.GenK.Losses",
}
THEOREMS = {
    "render_sersic_2d": [_NS + "gen_sersic2d_eq"],
    "sersic1D_cx": [_NS + "gen_sersic1d_cx_eq"],
    "render_gaussian_pixel_term": [_NS + "gen_gauss_pixel_eq", _NS + "repo_gauss_pixel_reduce"],
    "render_gaussian_fourier_term": [_NS + "gen_gauss_fourier_eq", _NS + "repo_gauss_fourier_reduce"],
    "render_pointsource_fourier": [_NS + "gen_point_fourier_eq"],
    "render_tilted_plane_sky": [_NS + "gen_tilted_plane_eq"],
    "tilted_plane_sky_sample": [_NS + "gen_tilted_sample_eq"],
    "generate_prior": [_NS + "gen_generate_prior_eq"],
    "restrict_func": [_NS + "gen_restrict_eq"],
    "hybrid_broaden": [_NS + "gen_hybrid_broaden_eq"],
    "cash_loss_factor": [_NS + "gen_cash_eq"],
    "pseudo_huber_loss_factor": [_NS + "gen_huber_eq"],
    # all ten loss programs (loss.py): per-pixel term, latent sites, site structure; tied to the real traces through the
    # model (C07's correspondence compares the model with real traces, these theorems equate the model with the translation)
    "losses": [_NS + t for t in [
        "gen_loss_gaussian_eq", "gen_loss_cash_eq", "gen_loss_w_frac_eq", "gen_loss_w_sys_eq", "gen_loss_student_t_eq",
        "gen_loss_student_t_free_sys_eq", "gen_loss_huber_eq", "gen_loss_mixture_eq", "gen_loss_mixture_w_sys_eq",
        "gen_loss_mixture_w_frac_eq", "gen_sites_gaussian", "gen_sites_cash", "gen_sites_student_t", "gen_sites_huber",
        "gen_sites_w_frac", "gen_sites_w_sys", "gen_sites_student_t_free_sys", "gen_sites_mixture", "gen_sites_mixture_w_sys",
        "gen_sites_mixture_w_frac", "gen_loss_meta", "gen_loss_site_names"]],
}
