"""C09 — rendering respects the symmetries of the model.

Theorems (Props/C09.lean, over ℝ): θ → θ + kπ invariance of every renderer's triple for every
integer k (+ the C19 wrap corollary), θ-independence of round sources, covariance of the
kernels and of the pixel renderer's intrinsic image under transposition and (even N) mirroring,
exact whole-pixel shift of Fourier-rendered sources through the DFT synthesis.
Tie: shared render tie.  Oracle (float32, the property's tolerances): pairs of renders of
transformed scenes on the real code.
"""
from __future__ import annotations

import numpy as np

from . import render_common as RC
from .common import Violation, run_children

PROP = "C09"
LEAN_TARGETS = ["Props.C09", "driver"]
AUDIT_IMPORTS = ["Props.C09"]
NS = "Pysersic.Props.C09."
OBLIGATIONS = [NS + t for t in [
    "sersic2d_theta_add_pi", "gaussPixelTerm_theta_add_pi", "gaussFourierTerm_theta_add_pi", "sersic_theta_add_pi",
    "profileOf_theta_add_pi", "sersic_theta_add_nat_mul_pi", "sersic_theta_add_int_mul_pi", "wrapped_angle_same_image",
    "sersic2d_round_theta_free", "gaussPixelTerm_round_theta_free", "gaussFourierTerm_round_theta_free", "broaden_round",
    "sersic2d_transpose", "sersic2d_mirror", "gaussPixelTerm_transpose", "gaussFourierTerm_transpose",
    "inBox_transpose", "inBox_mirror_even", "renderIntSersic_transpose", "renderIntSersic_mirror",
    "shift_kernel", "synth_shift", "pointF_shift", "gaussFourierTerm_shift", "fourierSersicF_shift", "convFft_shift",
    "pointsource_translate", "sersic_fourier_translate", "gaussPixelTerm_translate",
]]
# kernels whose translated source text (Gen/Kernels.lean) is proved equal to the model kernel this property's theorems are about
GEN_KERNELS = ["render_sersic_2d", "render_gaussian_pixel_term", "render_gaussian_fourier_term", "render_pointsource_fourier", "hybrid_broaden"]
MIRRORED_FILES = ["pysersic/rendering.py", "pysersic/results.py"]
ASSUMPTIONS = [
    "jnp.fft modelled as explicit DFT sums; the discretely synthesised Fourier image under transposition/mirroring is only observed (the c2r transform drops the imaginary part of the Nyquist column)",
    "numpy leggauss nodes/weights are symmetric (hypothesis GLSym of renderIntSersic_mirror; checked on the real data each run)",
    "float32 tolerances of the property (1e-5 / 2e-5 / 1e-4 of the peak) are observed on the real code, not proved",
]

EXT = [t for t in RC.PROFILE_TYPES if t != "pointsource"]


def gl_symmetric():
    for n in range(1, 17):
        x, w = np.polynomial.legendre.leggauss(n)
        if not (np.array_equal(x[::-1], -x) and np.array_equal(w[::-1], w)):
            return False, n
    return True, None


def correspondence(ctx):
    rng = ctx.rng("corr")
    scenes = []
    for kind, N, psf, opts in RC.standard_configs(rng, ctx.tier, sizes=[(16, 7), (13, 6), (18, 9)] if ctx.tier == "quick" else None):
        for i in range(3 if ctx.tier == "quick" else 10):
            scenes.append(RC.gen_scene(rng, kind, N, psf, types=[str(rng.choice(EXT))], mode="single",
                                       pos_styles=("int", "half", "frac"), **opts))
    dis, stats = RC.render_tie(ctx, scenes)
    ok, n = gl_symmetric()
    if not ok:
        dis.append(dict(scene=None, diffs=[f"numpy leggauss({n}) is not symmetric: hypothesis GLSym does not hold for the real data"]))
    return dict(
        name="render_source_vs_Pysersic.Render.sceneArr (extended profiles, lattice positions) + leggauss symmetry",
        evaluations=2 * len(scenes) + 16, distinct_nontrivial=len({(s['kind'], s['N'], s['types'][0]) for s in scenes}),
        rule="seeded single-source scenes of the six extended/composite types on integer / half-integer / fractional positions, three renderers, "
             "odd and even N; float64 1e-9·peak and float32 2e-5·peak; leggauss(1..16) symmetric exactly",
        samples=[RC.scene_summary(s) for s in scenes[:3]], distribution=stats, disagreements=dis, violations=[])


# ----------------------------------------------------------------------------
# oracle: transformed pairs on the real code, float32
# ----------------------------------------------------------------------------

def wellsampled_psf(rng, s):
    """asymmetric stamp, FWHM ≥ 3.5 px along every axis, negligible at the stamp edge (≥ 3.5σ)"""
    q = float(rng.uniform(0.85, 1.0))
    sig = float(rng.uniform(1.5, 1.75)) / q
    p = RC.gauss_psf(s, sig, dx=float(rng.uniform(-0.5, 0.5)), dy=float(rng.uniform(-0.5, 0.5)), q=q)
    p = p + 0.25 * RC.gauss_psf(s, sig, dx=float(rng.uniform(-1.0, 1.0)), dy=float(rng.uniform(-1.0, 1.0)))
    return p / p.sum()


def gen_oracle_scenes(ctx, n_per_kind):
    rng = ctx.rng("oracle")
    out = []
    for kind in ("pixel", "fourier", "hybrid"):
        for i in range(n_per_kind):
            N = [42, 32, 41, 50, 48, 33][i % 6]     # every residue of N mod 4 (the oversampled box is placed by integer division)
            s = int(rng.choice([15, 16, 17]))
            psf = wellsampled_psf(rng, s)
            t = EXT[i % len(EXT)]
            sc = RC.gen_scene(rng, kind, N, psf, types=[t], mode="single", suffix="", pos_styles=("frac",),
                              n_range=(0.65, 8.0) if kind != "pixel" else (0.65, 4.0))
            # keep the source well inside the frame and, for the pixel renderer, inside its box
            lo, hi = (N / 2 - 4, N / 2 + 4) if kind == "pixel" else (N / 2 - 6, N / 2 + 6)
            sc["params"]["xc"] = float(rng.uniform(lo, hi))
            sc["params"]["yc"] = float(rng.uniform(lo, hi))
            for k in sc["params"]:
                if k.startswith("r_eff"):
                    sc["params"][k] = float(rng.uniform(0.8, N / 12))
                if k == "flux":
                    sc["params"][k] = float(abs(sc["params"][k]))
                if k == "f_ps":
                    sc["params"][k] = float(rng.uniform(0.2, 0.7))      # the point-source part is really there
            out.append(RC.cast32_scene(sc))
    return out


def _transform_params(P, how, N):
    Q = dict(P)
    if how == "theta+pi":
        Q["theta"] = P["theta"] + np.float32(np.pi)
    elif how == "transpose":
        Q["xc"], Q["yc"] = P["yc"], P["xc"]
        Q["theta"] = np.float32(np.pi / 2) - P["theta"]
    elif how == "mirror":
        Q["xc"] = np.float32(N - 1) - P["xc"]
        Q["theta"] = -P["theta"]
    return Q


def oracle_child(payload):
    import jax.numpy as jnp
    out = []
    for sc in payload["scenes"]:
        fails = []
        try:
            N = sc["N"]
            kind = sc["kind"]
            t = sc["types"][0]
            R = RC.build_renderer(sc)
            P = {k: np.float32(v) for k, v in sc["params"].items()}

            def render(Rr, params):
                return np.asarray(Rr.render_source({k: jnp.asarray(v, dtype=jnp.float32) for k, v in params.items()}, t), dtype=np.float64)
            base = render(R, P)
            peak = max(float(np.abs(base).max()), 1e-30)

            def rel(a, b):
                return float(np.abs(a - b).max()) / peak
            # theta + pi
            d = rel(render(R, _transform_params(P, "theta+pi", N)), base)
            if not d <= 1e-5:
                fails.append(("theta+pi", f"theta+π changes the image by {d:.2e} of the peak"))
            # ellip = 0 → independent of theta
            P0 = dict(P)
            for k in P0:
                if k.startswith("ellip"):
                    P0[k] = np.float32(0.0)
            P1 = dict(P0)
            P1["theta"] = P0["theta"] + np.float32(payload["dtheta"])
            d = rel(render(R, P1), render(R, P0))
            if not d <= 1e-5:
                fails.append(("round-theta", f"with ellip=0 the image depends on theta: {d:.2e} of the peak"))
            # transpose (PSF transposed)
            scT = dict(sc, psf=np.asarray(sc["psf"]).T.copy())
            RT = RC.build_renderer(scT)
            d = rel(render(RT, _transform_params(P, "transpose", N)).T, base)
            if not d <= 1e-5:
                fails.append(("transpose", f"transposed scene is not the transposed image: {d:.2e} of the peak"))
            # mirror (even N; PSF mirrored)
            if N % 2 == 0:
                scM = dict(sc, psf=np.asarray(sc["psf"])[:, ::-1].copy())
                RM = RC.build_renderer(scM)
                d = rel(render(RM, _transform_params(P, "mirror", N))[:, ::-1], base)
                tol = 1e-4 if kind == "pixel" else 2e-5
                if not d <= tol:
                    fails.append(("mirror", f"mirrored scene is not the mirrored image: {d:.2e} of the peak (tolerance {tol:g})"))
            # whole-pixel translation (Fourier, hybrid): compare on the overlapping interior
            if kind != "pixel":
                for dx, dy in payload["shifts"]:
                    Q = dict(P)
                    Q["xc"] = P["xc"] + np.float32(dx)
                    Q["yc"] = P["yc"] + np.float32(dy)
                    moved = render(R, Q)
                    m = 6
                    a = moved[m + max(dy, 0):N - m + min(dy, 0), m + max(dx, 0):N - m + min(dx, 0)]
                    b = base[m + max(dy, 0) - dy:N - m + min(dy, 0) - dy, m + max(dx, 0) - dx:N - m + min(dx, 0) - dx]
                    d = float(np.abs(a - b).max()) / peak
                    if not d <= 1e-5:
                        fails.append(("translate", f"moving the source by ({dx},{dy}) px does not move the image: {d:.2e} of the peak"))
                        break
        except Exception as e:
            fails.append(("exception", f"{type(e).__name__}: {str(e)[:200]}"))
        out.append(dict(fails=fails))
    return out


def oracle_run(ctx, scenes):
    w = min(ctx.workers, 8)
    chunks = RC.chunked(scenes, w)
    res = RC.unchunk(run_children("c09", "oracle_child", [dict(scenes=ch, dtheta=0.7, shifts=[(1, 0), (0, -2), (3, 2)]) for ch in chunks],
                                  x64=False, workers=w), len(scenes))
    out = []
    for s, r in zip(scenes, res):
        for clause, msg in r["fails"]:
            out.append(Violation(f"C09:{clause}:{s['kind']}", f"{s['kind']} renderer, {s['types'][0]}, N={s['N']}, PSF {np.shape(s['psf'])}: {msg}",
                                 dict(kind="oracle", scene=RC.ser_scene(s))))
    return out


def residual(ctx):
    scenes = gen_oracle_scenes(ctx, 6 if ctx.tier == "quick" else 60)
    v = oracle_run(ctx, scenes)
    return dict(name="float32 symmetry pairs on the real renderers (θ+π, ellip=0, transpose, mirror, whole-pixel translation)",
                cases=len(scenes), violations=v)


def oracle_search(ctx, hints):
    scenes = gen_oracle_scenes(ctx, 12)
    return oracle_run(ctx, scenes)


def replay(ctx, payload):
    return oracle_run(ctx, [RC.deser_scene(payload["scene"])])
