"""C16 — the sky background model is the stated constant or plane, added unconvolved.

Theorems (Props/C16.lean): closed forms of the three sky types, plane(0 slopes) = flat, stand-alone function = class, the sky is
added to the PSF-convolved scene (flat sky raises the total by N²·back whatever ΣPSF), independent of the source; priors
Normal(guess, err) / Normal(0, 0.1·err) with the factor regenerated from the source.
Tie: the deterministic 'model' site of the real build_model() (single and multi fitters, with and without suffix) minus the
real render of the same parameters vs the Lean `skyimg`; installed sky priors vs `skysites`.
Oracle: the same difference against the closed form in numpy (1e-6 relative), with un-normalised PSFs.
"""
from __future__ import annotations

import numpy as np

from .common import Violation, f2h, h2f, run_children

PROP = "C16"
LEAN_TARGETS = ["Props.C16", "driver"]
AUDIT_IMPORTS = ["Props.C16"]
NS = "Pysersic.Props.C16."
OBLIGATIONS = [NS + t for t in [
    "sky_none", "sky_flat", "sky_plane", "plane_zero_slopes", "standalone_eq_class", "plane_dx", "plane_dy", "skyImg_index",
    "sky_outside_conv", "sky_outside_conv_multi", "none_adds_nothing", "flat_total", "sky_free_of_source",
    "flat_sites", "tilted_sites", "none_sites", "repo_slope_factor", "repo_sky_table", "sites_names",
]]
# kernels whose translated source text (Gen/Kernels.lean) is proved equal to the model kernel this property's theorems are about
GEN_KERNELS = ["render_tilted_plane_sky", "tilted_plane_sky_sample"]
MIRRORED_FILES = ["pysersic/priors.py", "pysersic/pysersic.py"]
ASSUMPTIONS = [
    "numpyro's reparam/substitute/trace handlers are used to read the model image (modelled semantics, validated by this tie)",
    "square images (the package's renderers assume them); both pivots are X.shape[0]/2 = N/2",
]
SKY = ["none", "flat", "tilted-plane"]


def gen_cases(rng, n):
    cases = []
    for k in range(n):
        # stratified: every sky type meets odd and even side lengths within the first dozen cases
        N = [9, 8, 15, 12, 11, 20][(k // 3) % 6]
        sky = SKY[k % 3]
        cases.append(dict(N=N, sky=sky, kind=["single", "multi"][int(rng.integers(0, 2))], suffix=str(rng.choice(["", "_a", "_7"])),
                          back=float(rng.normal(0, 5)), xsl=float(rng.normal(0, 0.5)) if (k < 6 or rng.random() < 0.8) else 0.0,
                          ysl=float(rng.normal(0, 0.5)) if (k < 6 or rng.random() < 0.8) else 0.0, guess=float(rng.normal(0, 3)) if k % 4 else 0.0,
                          mask=str(rng.choice(["none", "random", "half"])),
                          # any flux unit: every third round the image is in units where the sky uncertainty is ~1e-8
                          err=float(np.exp(rng.uniform(-3, 1))) * (1e-7 if (k // 3) % 3 == 2 else 1.0), psf_sum=float(rng.choice([1.0, 0.7, 1.6])), seed=int(rng.integers(0, 2 ** 31))))
    for k, c in enumerate(cases):
        # a plane tilted along one axis only
        if k % 5 == 3:
            c["xsl"], c["ysl"] = 0.0, float(rng.normal(0, 0.5)) or 0.3
        elif k % 5 == 4:
            c["xsl"], c["ysl"] = float(rng.normal(0, 0.5)) or 0.3, 0.0
    return cases


def real_eval(payload):
    import jax
    import jax.numpy as jnp
    from . import pyutil as U
    x64 = bool(jax.config.jax_enable_x64)
    out = []
    for c in payload["cases"]:
        try:
            rng = np.random.default_rng(c["seed"])
            N, sfx = c["N"], c["suffix"]
            data, rms, psf = U.make_images(rng, N)
            psf = psf * c["psf_sum"]
            mask = U.make_mask(rng, N, c.get("mask", "none"))
            if c["kind"] == "single":
                prior = U.source_prior("sersic", sky_type=c["sky"], suffix=sfx, xc=N / 2, yc=N / 2, sky_guess=c["guess"], sky_guess_err=c["err"])
                f = U.pysersic.FitSingle(data, rms, psf, prior, mask=mask, renderer=U.RD.PixelRenderer)
                sky_sfx = sfx
            else:
                cat = dict(x=[N / 2 - 1.0, N / 2 + 1.5], y=[N / 2 + 1.0, N / 2 - 2.0], flux=[50.0, 20.0], r=[1.5, 2.0], type=["sersic", "pointsource"])
                kw = dict(sky_guess=c["guess"], sky_guess_err=c["err"]) if c["sky"] != "none" else {}
                prior = U.PR.PySersicMultiPrior(cat, sky_type=c["sky"], suffix=sfx, **kw)
                f = U.pysersic.FitMulti(data, rms, psf, prior, mask=mask, renderer=U.RD.PixelRenderer)
                sky_sfx = ""        # the multi-source prior builds its sky prior without the suffix
            model = f.build_model(return_model=True)
            lat, _ = U.sample_latents(model, seed=1)
            # force the sky values through the unit-scale base latents
            want = dict(sky_back=c["back"], sky_x_sl=c["xsl"], sky_y_sl=c["ysl"])
            hyper = {}
            for name, d in prior.sky_prior.dist_dict.items():
                t = d.transforms[0]
                hyper[name] = (float(t.loc), float(t.scale), type(d.base_dist).__name__)
                key = name[: len(name) - len(sky_sfx)] if sky_sfx else name
                if float(t.scale) != 0:
                    lat[name + "_base"] = jnp.asarray((want[key] - float(t.loc)) / float(t.scale))
            tr = U.trace_with(model, lat)
            img = np.asarray(tr["model" + sfx]["value"], dtype=np.float64)
            # the same parameters rendered without sky by the real renderer
            params = {k: v["value"] for k, v in tr.items() if v["type"] in ("sample", "deterministic") and k in prior.dist_dict}
            if c["kind"] == "single":
                bare = f.renderer.render_source(params, "sersic", suffix=sfx)
            else:
                bare = f.renderer.render_for_model(params, cat["type"], sfx)
            skyv = {k: float(tr[k + sky_sfx]["value"]) for k in ("sky_back", "sky_x_sl", "sky_y_sl") if k + sky_sfx in tr}
            X, Y = f.renderer.X, f.renderer.Y
            standalone = np.asarray(U.PR.render_tilted_plane_sky(X, Y, skyv.get("sky_back", 0.0), skyv.get("sky_x_sl", 0.0), skyv.get("sky_y_sl", 0.0)), dtype=np.float64)
            # the stand-alone function on the caller's own numpy grids (float and integer), twice: same plane, grids untouched
            sv = (skyv.get("sky_back", 0.0), skyv.get("sky_x_sl", 0.0), skyv.get("sky_y_sl", 0.0))
            Xn, Yn = np.array(X, dtype=np.float64), np.array(Y, dtype=np.float64)
            Xc, Yc = Xn.copy(), Yn.copy()
            s1 = np.asarray(U.PR.render_tilted_plane_sky(Xn, Yn, *sv), dtype=np.float64)
            s2 = np.asarray(U.PR.render_tilted_plane_sky(Xn, Yn, *sv), dtype=np.float64)
            try:
                s3 = np.asarray(U.PR.render_tilted_plane_sky(np.array(X, dtype=np.int64), np.array(Y, dtype=np.int64), *sv), dtype=np.float64)
                int_err = None
            except Exception as e:
                s3, int_err = s1, f"{type(e).__name__}: {str(e)[:120]}"
            repeat = dict(second_call=float(np.abs(s2 - s1).max()), vs_model_grids=float(np.abs(s1 - standalone).max()), int_grids=float(np.abs(s3 - s1).max()),
                          grids_changed=bool(not (np.array_equal(Xn, Xc) and np.array_equal(Yn, Yc))), int_error=int_err,
                          scale=float(np.abs(standalone).max()))
            # a second source configuration: the sky must not change
            lat2 = dict(lat)
            for k in lat2:
                if k.startswith("flux") or k.startswith("xc"):
                    lat2[k] = lat2[k] + 0.37
            tr2 = U.trace_with(model, lat2)
            params2 = {k: v["value"] for k, v in tr2.items() if v["type"] in ("sample", "deterministic") and k in prior.dist_dict}
            bare2 = f.renderer.render_source(params2, "sersic", suffix=sfx) if c["kind"] == "single" else f.renderer.render_for_model(params2, cat["type"], sfx)
            diff2 = np.asarray(tr2["model" + sfx]["value"], dtype=np.float64) - np.asarray(bare2, dtype=np.float64)
            out.append(dict(diff=img - np.asarray(bare, dtype=np.float64), diff2=diff2, skyv=skyv, hyper=hyper, standalone=standalone,
                            scale=float(np.abs(img).max()), sky_site_names=sorted(k for k in tr if k.startswith("sky") and not k.endswith("_base")), x64=x64, repeat=repeat))
        except Exception as e:
            import traceback
            out.append(dict(error=f"{type(e).__name__}: {e}", tb=traceback.format_exc()[-600:]))
    return out


def expected_np(c, skyv, N):
    yy, xx = np.mgrid[:N, :N].astype(float)
    if c["sky"] == "none":
        return np.zeros((N, N))
    if c["sky"] == "flat":
        return np.full((N, N), skyv["sky_back"])
    return skyv["sky_back"] + (xx - N / 2) * skyv["sky_x_sl"] + (yy - N / 2) * skyv["sky_y_sl"]


def evaluate(ctx, cases):
    r64 = run_children("c16", "real_eval", [dict(cases=cases)], x64=True)[0]
    r32 = run_children("c16", "real_eval", [dict(cases=cases)], x64=False)[0]
    lines = []
    for c, r in zip(cases, r64):
        v = r.get("skyv", {}) if "error" not in r else {}
        lines.append(f"skyimg {c['sky']} {c['N']} {f2h(v.get('sky_back', 0.0))} {f2h(v.get('sky_x_sl', 0.0))} {f2h(v.get('sky_y_sl', 0.0))}")
        lines.append(f"skysites {c['sky']} {f2h(c['guess'])} {f2h(c['err'])}")
    rep = ctx.driver.ask(lines)
    dis, viol = [], []
    for k, (c, a, b) in enumerate(zip(cases, r64, r32)):
        if "error" in a or "error" in b:
            dis.append(dict(case=c, diffs=[a.get("error") or b.get("error")], tb=a.get("tb") or b.get("tb")))
            continue
        N = c["N"]
        m = np.array([h2f(t) for t in rep[2 * k].split(" ") if t]).reshape(N, N)
        diffs = []
        tol64 = 1e-9 * max(a["scale"], 1.0)
        if not np.abs(a["diff"] - m).max() <= tol64:
            diffs.append(f"x64: model image − rendered scene differs from the Lean sky by {np.abs(a['diff'] - m).max():.2e}")
        if c["sky"] == "tilted-plane" and not np.abs(a["standalone"] - m).max() <= 1e-12 * max(1.0, np.abs(m).max()):
            diffs.append(f"x64: render_tilted_plane_sky differs from the Lean plane by {np.abs(a['standalone'] - m).max():.2e}")
        # float32 pass: recompute the Lean sky for the float32 values actually used
        vb = b["skyv"]
        mb = expected_np(c, {k2: vb.get(k2, 0.0) for k2 in ("sky_back", "sky_x_sl", "sky_y_sl")}, N)
        if not np.abs(b["diff"] - mb).max() <= 2e-5 * max(b["scale"], 1.0):
            diffs.append(f"f32: model image − rendered scene differs from the sky by {np.abs(b['diff'] - mb).max():.2e} (scale {b['scale']:.3g})")
        # installed priors vs the model's entries
        ents = {}
        for tok in rep[2 * k + 1].split(" "):
            if tok:
                nm, fam, loc, sc, _, _ = tok.split("|")
                ents[nm] = (fam, h2f(loc), h2f(sc))
        sky_sfx = c["suffix"] if c["kind"] == "single" else ""
        real_h = {(k2[: len(k2) - len(sky_sfx)] if sky_sfx else k2): v for k2, v in a["hyper"].items()}
        if set(real_h) != set(ents):
            diffs.append(f"sky parameters: real {sorted(real_h)} model {sorted(ents)}")
        else:
            for nm, (loc, sc, fam) in real_h.items():
                mf, ml, ms = ents[nm]
                if fam.lower() != mf or abs(loc - ml) > 1e-12 * max(1, abs(ml)) or abs(sc - ms) > 1e-12 * max(1, abs(ms)):
                    diffs.append(f"prior of {nm}: real {fam}({loc}, {sc}) model {mf}({ml}, {ms})")
        if diffs:
            dis.append(dict(case=c, diffs=diffs))
        # oracle: the property's closed form, float64 numpy, 1e-6 relative (on the float32 run)
        exp = expected_np(c, {k2: vb.get(k2, 0.0) for k2 in ("sky_back", "sky_x_sl", "sky_y_sl")}, N)
        tol = 1e-6 * max(b["scale"], float(np.abs(exp).max()), 1e-30) * 20      # float32 subtraction of two images of that scale
        def v(clause, msg):
            return Violation(f"C16:{clause}:{c['sky']}:{c['kind']}", f"{c['sky']} sky, {c['kind']} fitter, N={N}, suffix '{c['suffix']}', ΣPSF={c['psf_sum']}: {msg}",
                             dict(kind="oracle", case=c))
        d = float(np.abs(b["diff"] - exp).max())
        if not d <= tol:
            viol.append(v("closed-form", f"(model with sky) − (rendered scene) differs from the stated sky term by {d:.3e} (tolerance {tol:.1e})"))
        d2 = float(np.abs(b["diff2"] - exp).max())
        if not d2 <= tol:
            viol.append(v("source-dependence", f"the sky term changed by {d2:.3e} when only source parameters changed"))
        ds = float(np.abs(b["standalone"] - exp).max())
        if not ds <= tol:
            viol.append(v("standalone", f"render_tilted_plane_sky(X, Y, back, x_sl, y_sl) differs from the stated plane by {ds:.3e} (tolerance {tol:.1e}; "
                                        f"slopes {vb.get('sky_x_sl', 0.0):.4g}, {vb.get('sky_y_sl', 0.0):.4g})"))
        rp = b.get("repeat")
        if rp:
            rt = 2e-6 * max(rp["scale"], 1e-30)
            if rp["grids_changed"] or not rp["second_call"] <= rt or not rp["vs_model_grids"] <= rt or rp["int_error"] or not rp["int_grids"] <= rt:
                viol.append(v("standalone-repeat", f"render_tilted_plane_sky on the caller's numpy grids: second call differs by {rp['second_call']:.3e}, "
                                                   f"float grids vs the renderer's by {rp['vs_model_grids']:.3e}, integer grids by {rp['int_grids']:.3e} "
                                                   f"(error: {rp['int_error']}), grids modified in place: {rp['grids_changed']}"))
        want = dict(none=[], flat=["sky_back"], **{"tilted-plane": ["sky_back", "sky_x_sl", "sky_y_sl"]})[c["sky"]]
        if sorted(x[: len(x) - len(sky_sfx)] if sky_sfx else x for x in a["sky_site_names"]) != sorted(want):
            viol.append(v("sky-sites", f"sky sites {a['sky_site_names']}, expected {want} (+suffix)"))
        for nm, (loc, sc, fam) in real_h.items():
            eloc, esc = (c["guess"], c["err"]) if nm == "sky_back" else (0.0, 0.1 * c["err"])
            if abs(loc - eloc) > 1e-9 * max(1, abs(eloc)) or abs(sc - esc) > 1e-9 * max(1, abs(esc)) or fam != "Normal":
                viol.append(v("hyper", f"prior of {nm} is {fam}({loc:.6g}, {sc:.6g}), constructor arguments give Normal({eloc:.6g}, {esc:.6g})"))
    return dis, viol


def correspondence(ctx):
    rng = ctx.rng("corr")
    cases = gen_cases(rng, 24 if ctx.tier == "quick" else 300)
    dis, viol = evaluate(ctx, cases)
    stats = dict(by_sky={s: sum(1 for c in cases if c["sky"] == s) for s in SKY}, multi=sum(1 for c in cases if c["kind"] == "multi"),
                 with_suffix=sum(1 for c in cases if c["suffix"]), unnormalised_psf=sum(1 for c in cases if c["psf_sum"] != 1.0))
    return dict(name="model site − real render vs Pysersic.Prob.skyAt; installed sky priors vs Pysersic.Prob.skySites",
                evaluations=2 * len(cases), distinct_nontrivial=sum(1 for c in cases if c["sky"] != "none"),
                rule="seeded (N, sky type, sky values, single/multi fitter, suffix, ΣPSF ∈ {1, 0.7, 1.6}); float64 1e-9 and float32 2e-5 of the image scale; "
                     "non-trivial = a sky is present",
                samples=[{k: c[k] for k in ("N", "sky", "kind", "suffix")} for c in cases[:3]], distribution=stats, disagreements=dis, violations=viol)


def oracle_search(ctx, hints):
    rng = ctx.rng("search")
    cases = [h["case"] for h in hints[:20] if isinstance(h.get("case"), dict) and "sky" in h["case"]] + gen_cases(rng, 36)
    return evaluate(ctx, cases)[1]


def replay(ctx, payload):
    return evaluate(ctx, [payload["case"]])[1]
