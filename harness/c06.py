"""C06 — masked pixels carry no information; mask polarity is 'True = ignore'.

Tie: for real single-, multi-source and multi-band fitters the set of pixels with a
non-zero derivative of the joint log-density w.r.t. the data is compared with the
model's used-pixel set (`Validate.parseMask` applied to the user's mask); the
loss-level behaviour (per-pixel masked terms, where `mean(rms)` runs) is tied by
the C07 traces that this check re-runs on masked inputs.
Oracle: the property's exact criterion on the real code: log-density bit-identical
under replacement of data / rms / model values at masked pixels, derivatives w.r.t.
data and rms identically zero there, non-zero on every unmasked pixel.
"""
from __future__ import annotations

import numpy as np

from .common import Violation, run_children

PROP = "C06"
LEAN_TARGETS = ["Props.C06", "driver"]
AUDIT_IMPORTS = ["Props.C06"]
NS = "Pysersic.Props.C06."
OBLIGATIONS = [NS + t for t in [
    "masked_invariant", "repo_sys_mean_over_good", "masked_invariant_no_sys", "masked_deriv_zero",
    "gaussian_data_matters", "gaussian_rms_matters", "cash_data_matters", "huber_data_matters", "polarity",
    "agree_filter", "meanRms_agree", "repo_mask_polarity", "repo_no_mask_all_used", "oneMinus_violates", "dataNonzero_violates",
]]
# translated source text proved equal to the model definitions this property's theorems are about
GEN_KERNELS = ["losses"]
MIRRORED_FILES = ["pysersic/loss.py", "pysersic/pysersic.py", "pysersic/multiband.py"]
ASSUMPTIONS = [
    "handlers.mask zeroes masked elements of observed/factor sites (numpyro semantics; observed through real traces)",
    "theorems are over ℝ: 0·∞ effects of reverse-mode AD when a masked pixel holds rms = 0 or a non-positive Cash model are outside them (observed only)",
]

LOSSES = ["gaussian_loss", "cash_loss", "gaussian_loss_w_frac", "gaussian_loss_w_sys", "student_t_loss",
          "student_t_loss_free_sys", "pseudo_huber_loss", "gaussian_mixture", "gaussian_mixture_w_sys",
          "gaussian_mixture_w_frac"]
USES_RMS = {l: l != "cash_loss" for l in LOSSES}
MASK_STYLES = ["none", "empty", "random", "random", "all-but-one", "half"]


def gen_cases(rng, n):
    cases = []
    for i in range(n):
        loss = LOSSES[i % len(LOSSES)]
        kind = ["single", "single", "multi", "multiband"][int(rng.integers(0, 4))]
        cases.append(dict(loss=loss, kind=kind, mask_style=MASK_STYLES[int(rng.integers(0, len(MASK_STYLES)))],
                          mask_dtype=["bool", "int", "float"][int(rng.integers(0, 3))],
                          seed=int(rng.integers(0, 2 ** 31)), N=10))
    return cases


def real_eval(payload):
    """Child: build the fitter, evaluate log-density, its gradients and perturbed variants."""
    from . import pyutil as U
    import jax
    import jax.numpy as jnp
    from numpyro.infer.util import log_density
    out = []
    for c in payload["cases"]:
        try:
            out.append(_one(c, U, jax, jnp, log_density))
        except Exception as e:  # report, do not die
            import traceback
            out.append(dict(error=f"{type(e).__name__}: {e}", tb=traceback.format_exc()[-1500:]))
    return out


def _one(c, U, jax, jnp, log_density):
    rng = np.random.default_rng(c["seed"])
    N = c["N"]
    loss = getattr(U.L, c["loss"])
    positive = c["loss"] == "cash_loss"
    nb = 2 if c["kind"] == "multiband" else 1
    fitters, masks = [], []
    for b in range(nb):
        data, rms, psf = U.make_images(rng, N, positive=positive)
        if not positive:
            # counts images, zero padding: pixels that are exactly 0 are data like any other
            zi = rng.integers(0, N, size=(4, 2))
            data[zi[:, 0], zi[:, 1]] = 0.0
        # multi-band: every other case the LAST band comes without a mask while the first one has the case's mask
        style_b = c["mask_style"] if (b == 0 or nb == 1 or c["seed"] % 2 == 0) else "none"
        mask = U.make_mask(rng, N, style_b, c["mask_dtype"])
        if mask is not None and (c["seed"] // 2) % 2 == 0:
            rms[np.asarray(mask) != 0] = 0.0          # weight maps hold 0 where there is no data: a valid input when those pixels are masked
        sky = "flat" if positive else ["none", "flat", "tilted-plane"][int(rng.integers(0, 3))]
        if c["kind"] == "multi":
            prior, _ = U.multi_prior(["sersic", "pointsource"], N, rng, sky_type=sky)
            f = U.pysersic.FitMulti(data, rms, psf, prior, mask=mask, loss_func=loss, renderer=U.RD.PixelRenderer)
        else:
            prior = U.source_prior("sersic", sky_type=sky, xc=N / 2, yc=N / 2, sky_guess=3.0 if positive else 0.5)
            f = U.pysersic.FitSingle(data, rms, psf, prior, mask=mask, loss_func=loss, renderer=U.RD.PixelRenderer)
        fitters.append(f)
        masks.append(mask)
    if c["kind"] == "multiband":
        from pysersic.multiband import FitMultiBandPoly
        top = FitMultiBandPoly(fitter_list=fitters, wavelengths=jnp.array([1.0, 2.0]), linked_params=["n", "r_eff"],
                               const_params=["xc", "yc", "theta"], band_names=["g", "r"], wv_to_save=jnp.array([1.5]),
                               poly_order=1)
        inner = top.fitter_list
        build = lambda: top.build_model()  # noqa: E731
    else:
        inner = fitters
        build = lambda: fitters[0].build_model(return_model=False)  # noqa: E731
    params, _ = U.sample_latents(build(), seed=c["seed"] % 1000)
    data0 = [np.asarray(f.data) for f in inner]
    rms0 = [np.asarray(f.rms) for f in inner]
    stored = [np.asarray(f.mask) for f in inner]
    user_nonzero = [None if m is None else (np.asarray(m) != 0) for m in masks]
    # ground truth for the oracle: the user's mask decides (True / non-zero = ignore), not what the fitter stored
    good = [np.ones_like(st, dtype=bool) if un is None else ~un for st, un in zip(stored, user_nonzero)]

    def ld(ds, rs):
        for f, d, r in zip(inner, ds, rs):
            f.data, f.rms = d, r
        return log_density(build(), (), {}, params)[0]

    d_in = [jnp.asarray(d) for d in data0]
    r_in = [jnp.asarray(r) for r in rms0]
    base = np.asarray(ld(d_in, r_in))
    gd, gr = jax.grad(ld, argnums=(0, 1))(d_in, r_in)
    gd = [np.asarray(g) for g in gd]
    gr = [np.asarray(g) for g in gr]
    # replacement at masked pixels
    variants = []
    for big in (1e30, -3.0e4, 12345.678):
        ds, rs = [], []
        for d, r, g in zip(data0, rms0, good):
            d2, r2 = d.copy(), r.copy()
            d2[~g] = big
            r2[~g] = abs(big) if big != 1e30 else 7.5e3
            ds.append(jnp.asarray(d2))
            rs.append(jnp.asarray(r2))
        variants.append(np.asarray(ld(ds, rs)))
    # rms = 0 or a tiny positive number at masked pixels (finite values; weight maps often hold them where there is no data)
    def ldp(p):
        return log_density(build(), (), {}, p)[0]
    rms_zero = []
    for tiny, dval in ((0.0, None), (1e-25, None), (7.5e3, 1e30)):
        rz, dz = [], []
        for d, r, g in zip(data0, rms0, good):
            r2, d2 = r.copy(), d.copy()
            r2[~g] = tiny
            if dval is not None:
                d2[~g] = dval            # a bad-pixel sentinel under the mask
            rz.append(jnp.asarray(r2))
            dz.append(jnp.asarray(d2))
        base_rz = np.asarray(ld(dz, rz))
        gdz, grz = jax.grad(ld, argnums=(0, 1))(dz, rz)
        # gradient w.r.t. the latent parameters must stay finite as well
        for f, d, r in zip(inner, dz, rz):
            f.data, f.rms = d, r
        gp = jax.grad(ldp)(params)
        gp_finite = bool(all(np.all(np.isfinite(np.asarray(x))) for x in gp.values()))
        rms_zero.append(dict(value=tiny, data_value=dval, base=base_rz, gd=[np.asarray(x) for x in gdz], gr=[np.asarray(x) for x in grz], gp_finite=gp_finite))
    # changing an unmasked pixel must change the density
    changed = []
    for b, g in enumerate(good):
        idx = np.argwhere(g)
        if len(idx):
            i, j = idx[int(rng.integers(0, len(idx)))]
            d2 = data0[b].copy()
            d2[i, j] += 3.0 * rms0[b][i, j]
            ds = [jnp.asarray(d2) if k == b else jnp.asarray(x) for k, x in enumerate(data0)]
            changed.append(bool(np.asarray(ld(ds, r_in)) != base))
    for f, d, r in zip(inner, data0, rms0):
        f.data, f.rms = jnp.asarray(d), jnp.asarray(r)
    return dict(base=base, variants=variants, gd=gd, gr=gr, good=good, stored=stored, user_nonzero=user_nonzero, changed=changed,
                finite=bool(np.isfinite(base)), rms_zero=rms_zero)


def loss_level_eval(payload):
    """Child: call the loss functions directly and replace the *model* value at masked pixels."""
    import jax.numpy as jnp
    from numpyro import handlers
    from numpyro.infer.util import log_density
    import pysersic.loss as L
    out = []
    for c in payload["cases"]:
        rng = np.random.default_rng(c["seed"])
        n = 12
        fn = getattr(L, c["loss"])
        m = rng.uniform(1, 20, n)
        r = np.exp(rng.uniform(-1, 1, n))
        d = m + r * rng.normal(0, 1, n)
        good = rng.random(n) < 0.6
        good[0] = True
        good[1] = False

        def total(mm, dd, rr):
            model = lambda: fn(jnp.asarray(mm, jnp.float32), jnp.asarray(dd, jnp.float32), jnp.asarray(rr, jnp.float32), jnp.asarray(good))  # noqa: E731
            tr = handlers.trace(handlers.seed(model, 3)).get_trace()
            params = {k: v["value"] for k, v in tr.items() if v["type"] == "sample" and not v["is_observed"]}
            return np.asarray(log_density(model, (), {}, params)[0])
        base = total(m, d, r)
        res = []
        for big in (1e30, 5e3, 0.123):
            m2, d2, r2 = m.copy(), d.copy(), r.copy()
            m2[~good] = big
            res.append(("model", big, total(m2, d, r)))
            d2[~good] = -big
            res.append(("data", big, total(m, d2, r)))
            r2[~good] = big
            res.append(("rms", big, total(m, d, r2)))
        out.append(dict(base=base, res=res))
    return out


def describe(c):
    return f"loss={c['loss']} fitter={c['kind']} mask={c['mask_style']}/{c['mask_dtype']} seed={c['seed']}"


def oracle_case(c, r):
    out = []

    def v(clause, msg):
        return Violation(f"C06:{clause}:{c['loss']}:{c['kind']}", f"{clause}: {msg} [{describe(c)}]",
                         dict(kind="oracle", case=c, clause=clause))
    if "error" in r:
        return [v("exception", r["error"])]
    if not r["finite"]:
        return out   # not a meaningful point (e.g. Cash with a negative model): skip, counted in stats
    any_masked = any((~g).any() for g in r["good"])
    if any_masked:
        for val in r["variants"]:
            if not (val == r["base"]):
                out.append(v("density-changed", f"log-density changed from {r['base']!r} to {val!r} when masked pixels were replaced"))
                break
    for b, (gd, gr, g) in enumerate(zip(r["gd"], r["gr"], r["good"])):
        if (gd[~g] != 0).any():
            out.append(v("grad-data-masked", f"d(log-density)/d(data) non-zero on {int((gd[~g] != 0).sum())} masked pixels (band {b})"))
        if (gr[~g] != 0).any() or np.isnan(gr[~g]).any():
            out.append(v("grad-rms-masked", f"d(log-density)/d(rms) non-zero on {int((gr[~g] != 0).sum())} masked pixels (band {b})"))
        if (gd[g] == 0).any():
            out.append(v("grad-data-unmasked-zero", f"d(log-density)/d(data) is zero on {int((gd[g] == 0).sum())} unmasked pixels (band {b})"))
        if USES_RMS[c["loss"]] and (gr[g] == 0).any():
            out.append(v("grad-rms-unmasked-zero", f"d(log-density)/d(rms) is zero on {int((gr[g] == 0).sum())} unmasked pixels (band {b})"))
    if any_masked:
        for z in r["rms_zero"]:
            if not (z["base"] == r["base"]):
                out.append(v("rms-zero-density", f"log-density changed from {r['base']!r} to {z['base']!r} with rms = {z['value']:g}"
                                                 f"{'' if z.get('data_value') is None else ' and data = %g' % z['data_value']} at masked pixels"))
            bad = any((~np.isfinite(a[~g])).any() or (a[~g] != 0).any() for a, g in zip(z["gd"] + z["gr"], r["good"] + r["good"]))
            if bad or not z["gp_finite"]:
                out.append(v("rms-zero-grad", f"rms = {z['value']:g}{'' if z.get('data_value') is None else ' and data = %g' % z['data_value']} at masked pixels gives NaN / non-zero derivatives "
                             f"(d/d(data,rms) at masked pixels clean: {not bad}; gradient w.r.t. the model parameters finite: {z['gp_finite']})"))
    if not all(r["changed"]):
        out.append(v("unmasked-ignored", "changing an unmasked pixel left the log-density unchanged"))
    return out


def correspondence(ctx):
    rng = ctx.rng("corr")
    cases = gen_cases(rng, 40 if ctx.tier == "quick" else 600)
    nchunk = 4 if ctx.tier == "quick" else ctx.workers
    chunks = [cases[i::nchunk] for i in range(nchunk)]
    res = run_children("c06", "real_eval", [dict(cases=ch) for ch in chunks], workers=nchunk)
    real = [None] * len(cases)
    for k, ch in enumerate(chunks):
        for j in range(len(ch)):
            real[k + j * nchunk] = res[k][j]
    disagreements, violations = [], []
    stats = dict(by_loss={}, by_kind={}, by_mask={}, nonfinite=0, errors=0)
    distinct = set()
    pm_lines, pm_meta = [], []
    for c, r in zip(cases, real):
        stats["by_loss"][c["loss"]] = stats["by_loss"].get(c["loss"], 0) + 1
        stats["by_kind"][c["kind"]] = stats["by_kind"].get(c["kind"], 0) + 1
        stats["by_mask"][c["mask_style"]] = stats["by_mask"].get(c["mask_style"], 0) + 1
        if "error" in r:
            stats["errors"] += 1
            disagreements.append(dict(case=c, real=r["error"], tb=r.get("tb")))
            continue
        if not r["finite"]:
            stats["nonfinite"] += 1
        violations += oracle_case(c, r)
        if c["mask_style"] not in ("none", "empty"):
            distinct.add((c["loss"], c["kind"], c["mask_style"], c["mask_dtype"]))
        # used set on the real code vs the model's parse of the user's mask
        for b, (gd, g, un) in enumerate(zip(r["gd"], r["stored"], r["user_nonzero"])):
            n = g.size
            if un is None:
                pm_lines.append(f"pm {n} -")
            else:
                pm_lines.append(f"pm {n} " + " ".join("1" if x else "0" for x in un.ravel()))
            pm_meta.append((c, b, (gd != 0).ravel() if r["finite"] else None, g.ravel()))
    for ln, mo, (c, b, used, stored) in zip(pm_lines, ctx.driver.ask(pm_lines), pm_meta):
        model_used = np.array([ch == "1" for ch in mo])
        if not np.array_equal(model_used, stored):
            disagreements.append(dict(case=c, band=b, what="stored mask differs from model parse of the user mask"))
        elif used is not None and not np.array_equal(model_used, used):
            disagreements.append(dict(case=c, band=b, what="pixels with non-zero d/d(data) differ from the model's used set",
                                      real=int(used.sum()), model=int(model_used.sum())))
    # loss-level: model values at masked pixels
    lcases = [dict(loss=l, seed=int(rng.integers(0, 2 ** 31))) for l in LOSSES for _ in range(1 if ctx.tier == "quick" else 6)]
    for lc, rr in zip(lcases, run_children("c06", "loss_level_eval", [dict(cases=lcases)])[0]):
        for what, big, val in rr["res"]:
            if not (val == rr["base"]):
                violations.append(Violation(f"C06:loss-level-{what}:{lc['loss']}",
                                            f"loss-level: replacing the {what} value at masked pixels by {big} changed the joint log-density of {lc['loss']} from {rr['base']!r} to {val!r}",
                                            dict(kind="oracle-loss", loss=lc["loss"], seed=lc["seed"], what=what)))
                break
    samples = [describe(c) for c in cases[:3]]
    return dict(
        name="fitter_used_pixels_vs_Pysersic.Validate.parseMask",
        evaluations=len(cases) + len(lcases), distinct_nontrivial=len(distinct),
        rule="seeded random (loss × fitter kind single/multi/multiband × mask pattern × mask dtype) on 10×10 images; "
             "non-trivial = a mask with masked pixels; distinct = distinct (loss, fitter kind, mask pattern, dtype); plus "
             "loss-level replacement of model/data/rms at masked pixels for all ten losses",
        samples=samples, distribution=stats, disagreements=disagreements, violations=violations)


def oracle_search(ctx, hints):
    rng = ctx.rng("oracle")
    cases = [h["case"] for h in hints[:20] if isinstance(h.get("case"), dict) and "loss" in h["case"] and "kind" in h["case"]]
    for l in LOSSES:
        for kind in ("single", "multiband"):
            cases.append(dict(loss=l, kind=kind, mask_style="random", mask_dtype=["bool", "int", "float"][len(cases) % 3],
                              seed=int(rng.integers(0, 2 ** 31)), N=10))
    nchunk = 4
    chunks = [cases[i::nchunk] for i in range(nchunk)]
    res = run_children("c06", "real_eval", [dict(cases=ch) for ch in chunks], workers=nchunk)
    out = []
    for k, ch in enumerate(chunks):
        for c, r in zip(ch, res[k]):
            out += oracle_case(c, r)
    best = {}
    for v in out:
        best.setdefault(v.signature, v)
    return list(best.values())


def replay(ctx, payload):
    if payload.get("kind") == "oracle-loss":
        lc = dict(loss=payload["loss"], seed=payload["seed"])
        rr = run_children("c06", "loss_level_eval", [dict(cases=[lc])])[0][0]
        return [Violation(f"C06:loss-level-{w}:{lc['loss']}", f"loss-level {w} replacement changed the density", payload)
                for w, big, val in rr["res"] if not (val == rr["base"])][:1]
    c = payload["case"]
    r = run_children("c06", "real_eval", [dict(cases=[c])])[0][0]
    return oracle_case(c, r)
