"""Shared render tie: real pysersic renderers vs the Lean render model (driver commands
`render`, `triple`, `psffft`, `conv`, `decomp`, `decompd`, `sigpsf`).

A *scene* is a plain dict:
  kind     'pixel' | 'fourier' | 'hybrid'
  N        image size (square)
  psf      2-D float array (stamp)
  os, num_os                     PixelRenderer options
  fs, fe, nsig, npr, interp, precision   Fourier/Hybrid options
  mode     'single' (render_source) | 'multi' (render_for_model)
  suffix   name suffix ('' allowed)
  types    list of profile types (one for 'single')
  params   dict name -> float (names carry '_<j>' and the suffix exactly as the code expects)

Import of jax happens only inside the child-process entry points.
"""
from __future__ import annotations

import numpy as np

from .common import f2h, h2f

PROFILE_PARAMS = dict(
    sersic=["xc", "yc", "flux", "r_eff", "n", "ellip", "theta"],
    doublesersic=["xc", "yc", "flux", "f_1", "r_eff_1", "n_1", "ellip_1", "r_eff_2", "n_2", "ellip_2", "theta"],
    sersic_exp=["xc", "yc", "flux", "f_1", "r_eff_1", "ellip_1", "r_eff_2", "n", "ellip_2", "theta"],
    sersic_pointsource=["xc", "yc", "flux", "f_ps", "r_eff", "n", "ellip", "theta"],
    pointsource=["xc", "yc", "flux"],
    exp=["xc", "yc", "flux", "r_eff", "ellip", "theta"],
    dev=["xc", "yc", "flux", "r_eff", "ellip", "theta"],
)
PROFILE_TYPES = list(PROFILE_PARAMS)
EXTENDED = [t for t in PROFILE_TYPES if t != "pointsource"]
N_KEYS = dict(sersic=["n"], doublesersic=["n_1", "n_2"], sersic_exp=["n"], sersic_pointsource=["n"], pointsource=[], exp=[], dev=[])
FIXED_N = dict(sersic_exp=[1.0], exp=[1.0], dev=[4.0])


# ----------------------------------------------------------------------------
# scene helpers
# ----------------------------------------------------------------------------

def default_scene(kind="hybrid", N=16, psf=None, **kw):
    if psf is None:
        psf = gauss_psf(5, 1.2)
    s = dict(kind=kind, N=N, psf=np.asarray(psf, float), os=min(6, N // 2), num_os=12, fs=1e-2, fe=15.0, nsig=15, npr=3,
             interp=True, precision=10, mode="single", suffix="", types=["sersic"], params={})
    s.update(kw)
    return s


def gauss_psf(s, sigma, s1=None, dx=0.0, dy=0.0, q=1.0, norm=True):
    s1 = s if s1 is None else s1
    yy, xx = np.mgrid[:s, :s1].astype(float)
    y0, x0 = (s - 1) / 2 + dy, (s1 - 1) / 2 + dx
    p = np.exp(-((xx - x0) ** 2 + ((yy - y0) / q) ** 2) / (2 * sigma ** 2))
    return p / p.sum() if norm else p


def asym_psf(rng, s, s1=None, sigma=1.3):
    """asymmetric, off-centre-peaked, positive stamp"""
    s1 = s if s1 is None else s1
    p = gauss_psf(s, sigma, s1, dx=float(rng.uniform(-0.8, 0.8)), dy=float(rng.uniform(-0.8, 0.8)), q=float(rng.uniform(0.5, 1.0)))
    p = p + 0.3 * gauss_psf(s, 0.6 * sigma, s1, dx=float(rng.uniform(-1.5, 1.5)), dy=float(rng.uniform(-1.5, 1.5)))
    p = p * (1 + 0.2 * rng.random(p.shape))
    return p / p.sum()


def smooth_asym_psf(rng, s, s1=None):
    """asymmetric, off-centre-peaked but smooth stamp that has decayed (≥ 3.2σ) at its edges"""
    s1 = s if s1 is None else s1
    if s * s1 == 1:
        return np.ones((1, 1))
    sig = max(0.45, min(s, s1) / 2 / float(rng.uniform(3.4, 4.5)))
    p = gauss_psf(s, sig, s1, dx=float(rng.uniform(-0.3, 0.3)) * sig, dy=float(rng.uniform(-0.3, 0.3)) * sig, q=float(rng.uniform(0.8, 1.0)))
    p = p + float(rng.uniform(0.1, 0.4)) * gauss_psf(s, 0.8 * sig, s1, dx=float(rng.uniform(-0.6, 0.6)) * sig, dy=float(rng.uniform(-0.6, 0.6)) * sig)
    return p / p.sum()


def needed_n(scene):
    """Sersic indices whose amplitude vectors the scene needs (as the code will see them)."""
    ns = []
    sfx = scene["suffix"]
    for j, t in enumerate(scene["types"]):
        for k in N_KEYS[t]:
            name = (k + sfx) if scene["mode"] == "single" else f"{k}_{j}{sfx}"
            ns.append(float(scene["params"][name]))
        ns += FIXED_N.get(t, [])
    out = []
    for n in ns:
        if n not in out:
            out.append(n)
    return out


def scene_line(scene, amps_tables, cmd="render"):
    """Protocol line for the Lean driver. amps_tables: list of (n, [amps]) for interp mode."""
    N = scene["N"]
    psf = np.asarray(scene["psf"], float)
    s0, s1 = psf.shape
    num_os = int(scene["num_os"])
    dx, w = np.polynomial.legendre.leggauss(num_os)
    toks = [cmd, scene["kind"], str(N), str(s0), str(s1)]
    toks += [f2h(x) for x in psf.ravel()]
    toks += [str(int(scene["os"])), str(num_os)]
    toks += [f2h(x / 2.0) for x in dx] + [f2h(x / 2.0) for x in w]
    toks += [f2h(scene["fs"]), f2h(scene["fe"]), str(int(scene["nsig"])), str(int(scene["npr"])),
             "interp" if scene["interp"] else "direct", str(int(scene["precision"]))]
    tabs = amps_tables if scene["interp"] else []
    toks.append(str(len(tabs)))
    for n, a in tabs:
        assert len(a) == scene["nsig"], (len(a), scene["nsig"])
        toks += [f2h(n)] + [f2h(x) for x in a]
    toks += [scene["mode"], scene["suffix"] if scene["suffix"] else "-", str(len(scene["types"]))] + list(scene["types"])
    toks.append(str(len(scene["params"])))
    for k, v in scene["params"].items():
        toks += [k, f2h(v)]
    return " ".join(toks)


def parse_floats(reply):
    if reply.startswith("bad-op"):
        raise ValueError(reply)
    return np.array([h2f(t) for t in reply.split(" ") if t], dtype=float)


def parse_image(reply, N):
    return parse_floats(reply).reshape(N, N)


def parse_fimg(toks, N):
    a = np.array([h2f(t) for t in toks], dtype=float).reshape(N, N // 2 + 1, 2)
    return a[..., 0] + 1j * a[..., 1]


def parse_triple(reply, N):
    if reply.startswith("bad-op"):
        raise ValueError(reply)
    toks = reply.split(" ")
    iF, ii, io = toks.index("F="), toks.index("int="), toks.index("obs=")
    F = parse_fimg([t for t in toks[iF + 1:ii] if t], N)
    it = np.array([h2f(t) for t in toks[ii + 1:io] if t]).reshape(N, N)
    ob = np.array([h2f(t) for t in toks[io + 1:] if t]).reshape(N, N)
    return F, it, ob


def cast32_scene(scene):
    s = dict(scene)
    s["psf"] = np.asarray(scene["psf"], np.float32).astype(float)
    s["params"] = {k: float(np.float32(v)) for k, v in scene["params"].items()}
    return s


# ----------------------------------------------------------------------------
# child-process side: the real renderers
# ----------------------------------------------------------------------------

_RCACHE = {}


def build_renderer(scene):
    """Real renderer for a scene (cached per configuration within a process)."""
    import jax.numpy as jnp
    import pysersic.rendering as RD
    import warnings
    psf = np.asarray(scene["psf"], float)
    key = (scene["kind"], scene["N"], psf.shape, psf.tobytes(), scene["os"], scene["num_os"], scene["fs"], scene["fe"],
           scene["nsig"], scene["npr"], scene["interp"], scene["precision"])
    if key in _RCACHE:
        return _RCACHE[key]
    N = scene["N"]
    jpsf = jnp.asarray(psf)
    with warnings.catch_warnings():
        warnings.simplefilter("ignore")
        if scene["kind"] == "pixel":
            R = RD.PixelRenderer((N, N), jpsf, os_pixel_size=int(scene["os"]), num_os=int(scene["num_os"]))
        elif scene["kind"] == "fourier":
            R = RD.FourierRenderer((N, N), jpsf, frac_start=scene["fs"], frac_end=scene["fe"], n_sigma=int(scene["nsig"]),
                                   precision=int(scene["precision"]), use_interp_amps=bool(scene["interp"]))
        else:
            R = RD.HybridRenderer((N, N), jpsf, frac_start=scene["fs"], frac_end=scene["fe"], n_sigma=int(scene["nsig"]),
                                  num_pixel_render=int(scene["npr"]), precision=int(scene["precision"]),
                                  use_interp_amps=bool(scene["interp"]))
    if len(_RCACHE) > 12:
        _RCACHE.clear()
    _RCACHE[key] = R
    return R


def real_scene(scene, jit=False, want_triple=False):
    """Run the real code on one scene. Returns dict(image=…, amps=[(n, [..])], error=None|str[, triple])."""
    import jax
    import jax.numpy as jnp
    import warnings
    from interpax import interp1d
    try:
        R = build_renderer(scene)
        params = {k: jnp.asarray(v) for k, v in scene["params"].items()}
        with warnings.catch_warnings():
            warnings.simplefilter("ignore")
            if scene["mode"] == "single":
                f = lambda p: R.render_source(p, scene["types"][0], suffix=scene["suffix"])  # noqa: E731
            else:
                f = lambda p: R.render_for_model(p, list(scene["types"]), scene["suffix"])  # noqa: E731
            img = (jax.jit(f) if jit else f)(params)
        out = dict(image=np.asarray(img, dtype=np.float64), error=None, amps=[])
        if scene["kind"] != "pixel" and scene["interp"]:
            for n in needed_n(scene):
                a = interp1d(jnp.asarray(n), R.n_ax, R.amps_n_ax, method="cubic2")
                out["amps"].append((float(n), [float(x) for x in np.asarray(a, dtype=np.float64)]))
        if want_triple:
            if scene["mode"] == "single":
                to_func = {k.replace(scene["suffix"], ""): v for k, v in params.items()}
                F, it, ob = R.profile_func_dict[scene["types"][0]](to_func)
            else:
                import pysersic.rendering as RD
                F = it = ob = 0
                for j, t in enumerate(scene["types"]):
                    d = {p: params[p + f"_{j:d}{scene['suffix']}"] for p in RD.base_profile_params[t]}
                    a, b, c = R.profile_func_dict[t](d)
                    F, it, ob = F + a, it + b, ob + c
            out["triple"] = (np.asarray(F, dtype=np.complex128) * np.ones(R.fft_shape), np.asarray(it, dtype=np.float64) * np.ones((scene["N"],) * 2),
                             np.asarray(ob, dtype=np.float64) * np.ones((scene["N"],) * 2))
        return out
    except Exception as e:  # reported to the parent, which decides what it means
        return dict(image=None, amps=[], error=f"{type(e).__name__}: {e}")


def real_scenes(payload):
    """child entry: payload = dict(scenes=[…], jit=bool, want_triple=bool)"""
    return [real_scene(s, jit=payload.get("jit", False), want_triple=payload.get("want_triple", False)) for s in payload["scenes"]]


def real_psffft(payload):
    """child entry: PSF_fft of real BaseRenderer-derived objects; payload = dict(cases=[(N, psf)])"""
    import jax.numpy as jnp
    import pysersic.rendering as RD
    out = []
    for N, psf in payload["cases"]:
        try:
            R = RD.PixelRenderer((N, N), jnp.asarray(np.asarray(psf, float)), os_pixel_size=1, num_os=1)
            out.append(np.asarray(R.PSF_fft, dtype=np.complex128))
        except Exception as e:
            out.append(f"{type(e).__name__}: {e}")
    return out


def real_conv(payload):
    """child entry: conv_img; payload = dict(cases=[(N, psf, img)])"""
    import jax.numpy as jnp
    import pysersic.rendering as RD
    out = []
    for N, psf, img in payload["cases"]:
        try:
            R = RD.PixelRenderer((N, N), jnp.asarray(np.asarray(psf, float)), os_pixel_size=1, num_os=1)
            out.append(np.asarray(R.conv_img(jnp.asarray(np.asarray(img, float))), dtype=np.float64))
        except Exception as e:
            out.append(f"{type(e).__name__}: {e}")
    return out


# ----------------------------------------------------------------------------
# generators
# ----------------------------------------------------------------------------

LATTICE = ("int", "half", "frac", "edge", "outside")


def gen_position(rng, N, style):
    if style == "int":
        return float(rng.integers(2, N - 2)), float(rng.integers(2, N - 2))
    if style == "half":
        return float(rng.integers(2, N - 2)) + 0.5, float(rng.integers(2, N - 2)) + 0.5
    if style == "edge":
        return float(rng.choice([0.0, N - 1.0])), float(rng.uniform(0, N - 1))
    if style == "outside":
        return float(rng.uniform(-6, -0.5)), float(rng.uniform(N, N + 6))
    return float(rng.uniform(1.5, N - 2.5)), float(rng.uniform(1.5, N - 2.5))


def gen_params(rng, ptype, N, pos_style="frac", n_range=(0.65, 8.0)):
    xc, yc = gen_position(rng, N, pos_style)
    p = dict(xc=xc, yc=yc, flux=float(rng.uniform(5, 500) * rng.choice([1, 1, 1, -1])))
    lo, hi = n_range
    rn = lambda: float(rng.uniform(lo, hi))  # noqa: E731
    rr = lambda: float(np.exp(rng.uniform(np.log(0.6), np.log(max(0.8, N / 6)))))  # noqa: E731
    re_ = lambda: float(rng.choice([0.0, rng.uniform(0, 0.9)]))  # noqa: E731
    if ptype in ("sersic", "sersic_pointsource"):
        p.update(r_eff=rr(), n=rn(), ellip=re_(), theta=float(rng.uniform(0, 2 * np.pi)))
        if ptype == "sersic_pointsource":
            p["f_ps"] = float(rng.choice([0.0, 1.0, rng.uniform(0, 1)]))
    elif ptype in ("exp", "dev"):
        p.update(r_eff=rr(), ellip=re_(), theta=float(rng.uniform(0, 2 * np.pi)))
    elif ptype == "doublesersic":
        p.update(f_1=float(rng.choice([0.0, 1.0, rng.uniform(0, 1)])), r_eff_1=rr(), n_1=rn(), ellip_1=re_(), r_eff_2=rr(), n_2=rn(),
                 ellip_2=re_(), theta=float(rng.uniform(0, 2 * np.pi)))
    elif ptype == "sersic_exp":
        p.update(f_1=float(rng.choice([0.0, 1.0, rng.uniform(0, 1)])), r_eff_1=rr(), n=rn(), ellip_1=re_(), r_eff_2=rr(), ellip_2=re_(),
                 theta=float(rng.uniform(0, 2 * np.pi)))
    return p


def with_names(params_list, types, mode, suffix):
    """Attach '_<j>' and suffix to the keys as the code expects."""
    if mode == "single":
        return {k + suffix: v for k, v in params_list[0].items()}
    out = {}
    for j, p in enumerate(params_list):
        for k, v in p.items():
            out[f"{k}_{j}{suffix}"] = v
    return out


def gen_scene(rng, kind, N, psf, types=None, mode=None, suffix=None, pos_styles=LATTICE, n_range=(0.65, 8.0), **opts):
    if mode is None:
        mode = "single" if rng.random() < 0.6 else "multi"
    if types is None:
        k = 1 if mode == "single" else int(rng.integers(1, 5))
        types = [str(rng.choice(PROFILE_TYPES)) for _ in range(k)]
    if suffix is None:
        suffix = str(rng.choice(["", "", "_a", "_7", "_F444W"]))
    plist = [gen_params(rng, t, N, str(rng.choice(pos_styles)), n_range) for t in types]
    sc = default_scene(kind=kind, N=N, psf=psf, mode=mode, suffix=suffix, types=list(types),
                       params=with_names(plist, types, mode, suffix))
    sc.update(opts)
    return sc


def scene_summary(s):
    return dict(kind=s["kind"], N=s["N"], psf=list(np.shape(s["psf"])), mode=s["mode"], suffix=s["suffix"], types=s["types"],
                os=s["os"], num_os=s["num_os"], nsig=s["nsig"], npr=s["npr"], interp=s["interp"])


def ser_scene(s):
    d = dict(s)
    d["psf"] = np.asarray(s["psf"], float).tolist()
    d["params"] = {k: float(v) for k, v in s["params"].items()}
    return d


def deser_scene(d):
    s = dict(d)
    s["psf"] = np.asarray(d["psf"], float)
    return s


def compare_images(real, model, tol_rel, what="image"):
    """max-abs comparison relative to the peak of the reference; returns None or a message"""
    if real is None:
        return f"{what}: real side produced nothing"
    if real.shape != model.shape:
        return f"{what}: shapes {real.shape} vs {model.shape}"
    nr, nm = np.isnan(real), np.isnan(model)
    if nr.any() or nm.any():
        if (nr != nm).any():
            return f"{what}: NaN patterns differ (real {int(nr.sum())}, model {int(nm.sum())})"
        real, model = np.where(nr, 0, real), np.where(nm, 0, model)
    peak = max(float(np.max(np.abs(real))), float(np.max(np.abs(model))), 1e-300)
    d = np.abs(real - model)
    if not np.all(d <= tol_rel * peak + 1e-12):
        i = np.unravel_index(int(np.argmax(d)), d.shape)
        return f"{what}: max |Δ| = {d[i]:.3e} at {tuple(int(x) for x in i)} (peak {peak:.3e}, tol {tol_rel:g}·peak): real {real[i]!r} model {model[i]!r}"
    return None


# ----------------------------------------------------------------------------
# the tie itself: x64 pass (pins the formula) + float32 pass (library default)
# ----------------------------------------------------------------------------

def chunked(xs, n):
    """n contiguous chunks (scenes of one renderer configuration stay in one child: renderer cache)"""
    n = max(1, min(n, len(xs)))
    k, m = divmod(len(xs), n)
    out, i = [], 0
    for j in range(n):
        step = k + (1 if j < m else 0)
        out.append(xs[i:i + step])
        i += step
    return out


def unchunk(chunks, total):
    out = [v for ch in chunks for v in ch]
    assert len(out) == total
    return out


def run_real(scenes, x64, workers=4, jit=False, want_triple=False):
    from .common import run_children
    # keep scenes with the same renderer configuration in the same child (renderer cache)
    chunks = chunked(scenes, workers)
    res = run_children("render_common", "real_scenes", [dict(scenes=ch, jit=jit, want_triple=want_triple) for ch in chunks],
                       x64=x64, workers=workers)
    return unchunk(res, len(scenes))


def render_tie(ctx, scenes, tol64=1e-9, tol32=2e-5, workers=None, jit32=False):
    """Model vs code on the same scenes. Returns (disagreements, stats)."""
    workers = workers or min(ctx.workers, 8)
    real64 = run_real(scenes, True, workers)
    sc32 = [cast32_scene(s) for s in scenes]
    real32 = run_real(sc32, False, workers, jit=jit32)
    # the renderer's amplitude table must have the number of components it was built with (a difference is a disagreement
    # between code and model, not a failure of this harness)
    for sc_list, reals in ((scenes, real64), (sc32, real32)):
        for sc, rr in zip(sc_list, reals):
            if rr["error"] is None and sc["interp"] and any(len(a) != sc["nsig"] for _, a in rr["amps"]):
                rr["error"] = (f"the renderer built with n_sigma={sc['nsig']} interpolates an amplitude table of "
                               f"{len(rr['amps'][0][1])} components")
    lines64 = [scene_line(s, r["amps"]) for s, r in zip(scenes, real64) if r["error"] is None]
    lines32 = [scene_line(s, r["amps"]) for s, r in zip(sc32, real32) if r["error"] is None]
    rep64 = iter(ctx.driver.ask(lines64))
    rep32 = iter(ctx.driver.ask(lines32))
    dis = []
    stats = dict(kinds={}, types={}, modes={}, sizes={}, psf_shapes={}, real_errors=0)
    for s, r64, s32, r32 in zip(scenes, real64, sc32, real32):
        for key, val in (("kinds", s["kind"]), ("modes", s["mode"]), ("sizes", str(s["N"])), ("psf_shapes", str(tuple(np.shape(s["psf"]))))):
            stats[key][val] = stats[key].get(val, 0) + 1
        for t in s["types"]:
            stats["types"][t] = stats["types"].get(t, 0) + 1
        diffs = []
        for tag, sc, rr, rep, tol in (("x64", s, r64, rep64, tol64), ("f32", s32, r32, rep32, tol32)):
            if rr["error"] is not None:
                stats["real_errors"] += 1
                diffs.append(f"{tag}: real code raised {rr['error']}")
                continue
            try:
                m = parse_image(next(rep), sc["N"])
            except ValueError as e:
                diffs.append(f"{tag}: model rejected the scene: {e}")
                continue
            d = compare_images(rr["image"], m, tol, what=f"{tag} image")
            if d:
                diffs.append(d)
        if diffs:
            dis.append(dict(scene=ser_scene(s), diffs=diffs[:3]))
    return dis, stats


def standard_configs(rng, tier, kinds=("pixel", "fourier", "hybrid"), sizes=None):
    """Renderer configurations (kind, N, psf, options) covering odd/even sizes and stamps."""
    sizes = sizes or ([(16, 5), (15, 4), (12, 12), (21, 7)] if tier == "quick" else
                      [(8, 3), (16, 5), (15, 4), (12, 12), (21, 7), (24, 9), (33, 8), (40, 15), (17, 1)])
    cfgs = []
    for i, (N, s) in enumerate(sizes):
        for kind in kinds:
            psf = asym_psf(rng, s) if s > 1 else np.ones((1, 1))
            opts = {}
            if kind == "pixel":
                opts = dict(os=int(rng.integers(0, N // 2 + 1)), num_os=int(rng.choice([1, 2, 3, 5, 8, 12])))
            elif kind == "hybrid":
                nsig = int(rng.choice([15, 15, 10, 20]))
                opts = dict(nsig=nsig, npr=int(rng.integers(0, nsig + 1)))
            elif kind == "fourier":
                opts = dict(nsig=int(rng.choice([15, 15, 12])))
            cfgs.append((kind, N, psf, opts))
    return cfgs


# ----------------------------------------------------------------------------
# independent float64 reference renderer (mathematical definition: exact b_n, pixel integration, spatial convolution)
# ----------------------------------------------------------------------------

def _sersic_exact(X, Y, xc, yc, flux, r_eff, n, ellip, theta):
    from scipy.special import gammaincinv, gamma
    bn = gammaincinv(2 * n, 0.5)
    q = 1 - ellip
    tr = theta + np.pi / 2          # position angle from +y towards −x
    xm = (X - xc) * np.cos(tr) + (Y - yc) * np.sin(tr)
    xn = -(X - xc) * np.sin(tr) + (Y - yc) * np.cos(tr)
    z = np.sqrt((xm / r_eff) ** 2 + (xn / (q * r_eff)) ** 2)
    Ie = flux * bn ** (2 * n) / (2 * np.pi * n * r_eff ** 2 * q * np.exp(bn) * gamma(2 * n))
    return Ie * np.exp(-bn * (z ** (1.0 / n) - 1))


_GL = {}


def _gl(k):
    if k not in _GL:
        x, w = np.polynomial.legendre.leggauss(k)
        _GL[k] = (x / 2, w / 2)
    return _GL[k]


def _cell_integral(f, x0, x1, y0, y1, xc, yc, depth):
    """∫∫ f over the cell; cells containing the cusp (xc, yc) are subdivided recursively"""
    inside = (x0 <= xc <= x1) and (y0 <= yc <= y1)
    if inside and depth > 0:
        tot = 0.0
        xs = np.linspace(x0, x1, 5)
        ys = np.linspace(y0, y1, 5)
        for i in range(4):
            for j in range(4):
                tot += _cell_integral(f, xs[i], xs[i + 1], ys[j], ys[j + 1], xc, yc, depth - 1)
        return tot
    g, w = _gl(12)
    X = (x0 + x1) / 2 + g[None, :] * (x1 - x0)
    Y = (y0 + y1) / 2 + g[:, None] * (y1 - y0)
    return float((f(X, Y) * (w[None, :] * w[:, None])).sum() * (x1 - x0) * (y1 - y0))


def reference_intrinsic(N, comp):
    """pixel-integrated analytic Sersic component (xc, yc, flux, r_eff, n, ellip, theta), float64"""
    xc, yc = comp["xc"], comp["yc"]
    f = lambda X, Y: _sersic_exact(X, Y, xc, yc, comp["flux"], comp["r_eff"], comp["n"], comp["ellip"], comp["theta"])  # noqa: E731
    g, w = _gl(8)
    r, c = np.mgrid[:N, :N].astype(float)
    img = np.zeros((N, N))
    for gi, wi in zip(g, w):
        for gj, wj in zip(g, w):
            img += wi * wj * f(c + gj, r + gi)
    # refine the pixels around the centre, where the profile is cuspy
    ci, cj = int(round(yc)), int(round(xc))
    for i in range(max(ci - 3, 0), min(ci + 4, N)):
        for j in range(max(cj - 3, 0), min(cj + 4, N)):
            img[i, j] = _cell_integral(f, j - 0.5, j + 0.5, i - 0.5, i + 0.5, xc, yc, 5)
    return img


def extended_components(ptype, p):
    """the Sersic components of an extended profile type as parameter dicts"""
    base = dict(xc=p["xc"], yc=p["yc"], theta=p["theta"])
    if ptype == "sersic":
        return [dict(base, flux=p["flux"], r_eff=p["r_eff"], n=p["n"], ellip=p["ellip"])]
    if ptype in ("exp", "dev"):
        return [dict(base, flux=p["flux"], r_eff=p["r_eff"], n=1.0 if ptype == "exp" else 4.0, ellip=p["ellip"])]
    if ptype == "doublesersic":
        return [dict(base, flux=p["flux"] * p["f_1"], r_eff=p["r_eff_1"], n=p["n_1"], ellip=p["ellip_1"]),
                dict(base, flux=p["flux"] * (1 - p["f_1"]), r_eff=p["r_eff_2"], n=p["n_2"], ellip=p["ellip_2"])]
    if ptype == "sersic_exp":
        return [dict(base, flux=p["flux"] * p["f_1"], r_eff=p["r_eff_1"], n=p["n"], ellip=p["ellip_1"]),
                dict(base, flux=p["flux"] * (1 - p["f_1"]), r_eff=p["r_eff_2"], n=1.0, ellip=p["ellip_2"])]
    raise ValueError(ptype)


def reference_image(N, psf, ptype, p):
    """independent reference: Σ components, pixel-integrated, convolved spatially with the stamp centred on its geometric centre.

    For an even stamp side s the geometric centre (s−1)/2 lies between two pixels: out(x) = Σ_j psf[j]·I(x − (j − (s−1)/2)).
    `convolve2d(mode='same')` puts the kernel origin at index s/2 − 1 for even s, i.e. half a pixel below the geometric
    centre, so along such an axis the intrinsic image is evaluated for a source displaced by −1/2 pixel (an exact,
    analytic shift of the pixel-integrated profile — no interpolation)."""
    from scipy.signal import convolve2d
    psf = np.asarray(psf, float)
    dy = -0.5 if (psf.shape[0] % 2 == 0) else 0.0
    dx = -0.5 if (psf.shape[1] % 2 == 0) else 0.0
    comps = [dict(c, xc=c["xc"] + dx, yc=c["yc"] + dy) for c in extended_components(ptype, p) if c["flux"] != 0]
    intr = sum(reference_intrinsic(N, c) for c in comps)
    if psf.shape == (1, 1):
        return intr * psf[0, 0]
    return convolve2d(intr, psf, mode="same", boundary="fill")


def weighted_moments(img, sigma_w, x0=None, y0=None, iters=12):
    """Gaussian-weighted centroid and second moments (adaptive centre): returns xc, yc, size² (trace), axis ratio, position angle
    of the major axis measured from +y towards −x"""
    N = img.shape[0]
    yy, xx = np.mgrid[:N, :N].astype(float)
    tot = img.sum()
    cx = (img * xx).sum() / tot if x0 is None else x0
    cy = (img * yy).sum() / tot if y0 is None else y0
    for _ in range(iters):
        w = np.exp(-((xx - cx) ** 2 + (yy - cy) ** 2) / (2 * sigma_w ** 2)) * img
        s = w.sum()
        cx, cy = (w * xx).sum() / s, (w * yy).sum() / s
    w = np.exp(-((xx - cx) ** 2 + (yy - cy) ** 2) / (2 * sigma_w ** 2)) * img
    s = w.sum()
    mxx = (w * (xx - cx) ** 2).sum() / s
    myy = (w * (yy - cy) ** 2).sum() / s
    mxy = (w * (xx - cx) * (yy - cy)).sum() / s
    tr = mxx + myy
    det = mxx * myy - mxy ** 2
    disc = np.sqrt(max((tr / 2) ** 2 - det, 0.0))
    l1, l2 = tr / 2 + disc, tr / 2 - disc
    ang_x = 0.5 * np.arctan2(2 * mxy, mxx - myy)          # major axis angle from +x towards +y
    pa = (ang_x - np.pi / 2) % np.pi                       # from +y towards −x:  u = (−sin θ, cos θ)
    return dict(xc=cx, yc=cy, size2=tr, q=float(np.sqrt(max(l2, 0) / l1)), pa=float(pa))
