"""C19 — posterior post-processing wraps only angles and drops only internal variables.

Tie: the real `PySersicResults._parse_injested_data` is run on an xarray-backed
stand-in for the inference-data container (the pinned arviz cannot run the
ingestion path end to end); for every variable the observed fate (wrapped /
dropped / kept as model image) is compared with the Lean model
`Results.fate` evaluated with the name tests translated from the source, and
wrapped values with the model's `wrap`.
Oracle: the property's criterion with the ground-truth kind of every generated
name (angle / plain / link variable / internal / model image).
"""
from __future__ import annotations

import math

import numpy as np

from .common import Violation, f2h, h2f

PROP = "C19"
LEAN_TARGETS = ["Props.C19", "driver"]
AUDIT_IMPORTS = ["Props.C19"]
NS = "Pysersic.Props.C19."
OBLIGATIONS = [NS + t for t in [
    "wrap_range", "wrap_congr", "wrap_of_mem", "user_param_fate", "at_wv_fate", "poly_coeff_fate",
    "bspl_w_fate", "internal_dropped", "model_fate", "no_purge_keeps_all", "table_theta", "table_clean",
]]
MIRRORED_FILES = ["pysersic/results.py"]
ASSUMPTIONS = [
    "the inference-data container is stood in for by an xarray Dataset wrapper exposing .posterior / ['posterior'] (arviz 1.x cannot run az.from_dict as pysersic calls it)",
    "np.remainder(x+π, π) is modelled over ℝ as x+π−π⌊(x+π)/π⌋; float rounding at multiples of π is observed only",
    "site names come from the grammar of names the fitters produce (C05/C15 tie that grammar to the fitters); suffix segments are assumed free of the trigger substrings",
]

PROFILE_PARAMS = {
    "sersic": ["xc", "yc", "flux", "r_eff", "n", "ellip", "theta"],
    "doublesersic": ["xc", "yc", "flux", "f_1", "r_eff_1", "n_1", "ellip_1", "r_eff_2", "n_2", "ellip_2", "theta"],
    "sersic_exp": ["xc", "yc", "flux", "f_1", "r_eff_1", "n", "ellip_1", "r_eff_2", "ellip_2", "theta"],
    "sersic_pointsource": ["xc", "yc", "flux", "f_ps", "r_eff", "n", "ellip", "theta"],
    "pointsource": ["xc", "yc", "flux"],
    "exp": ["xc", "yc", "flux", "r_eff", "ellip", "theta"],
    "dev": ["xc", "yc", "flux", "r_eff", "ellip", "theta"],
}
SKY = {"none": [], "flat": ["sky_back"], "tilted-plane": ["sky_back", "sky_x_sl", "sky_y_sl"]}
NUIS = [[], ["frac_rms_increase"], ["sys_rms_base", "sys_rms"], ["outlier_frac_base", "outlier_frac"],
        ["outlier_frac_base", "outlier_frac", "sys_rms_base", "sys_rms"], ["outlier_frac_base", "outlier_frac", "rms_frac"]]
BANDS = ["g", "r", "i", "z", "F444W", "F150W", "Band_0", "Band_1", "Band_2", "1", "2", "e", "y", "ps", "K_s", "u"]


def kind_of_param(p):
    return "angle" if p == "theta" else "plain"


# how the multi-band fitters name the sites of their link functions; refreshed from the real fitters' traces by `probe_link_names`
LINK_TMPL = dict(poly="{n}_poly_coeff", spline="bspl_w_{n}", model="model")


def probe_child(payload):
    """site names of real FitMultiBandPoly / FitMultiBandBSpline models with `theta` linked: the link-coefficient site is the one
    that is neither a per-band value, nor the saved `_at_wv` value, nor an internal `_base` / `_auto_loc` variable"""
    import jax
    import jax.numpy as jnp
    from numpyro import handlers
    import pysersic.multiband as MB
    from . import pyutil as U

    class _JNP:
        def __getattr__(self, name):
            return getattr(jnp, name)

        @staticmethod
        def clip(x, a_min=None, a_max=None, **kw):
            return jnp.clip(x, min=a_min, max=a_max)
    MB.jnp = _JNP()
    out = {}
    rng = np.random.default_rng(0)
    for kind in ("poly", "spline"):
        try:
            fitters = []
            for _ in range(3):
                data, rms, psf = U.make_images(rng, 10)
                prior = U.source_prior("sersic", sky_type="none", xc=5.0, yc=5.0, flux=60.0, r_eff=2.0)
                fitters.append(U.pysersic.FitSingle(data, rms, psf, prior, renderer=U.RD.PixelRenderer))
            common = dict(fitter_list=fitters, wavelengths=jnp.asarray([1.0, 2.0, 3.0]), linked_params=["theta"], const_params=["xc", "yc"],
                          band_names=["g", "r", "i"], wv_to_save=jnp.asarray([1.5]))
            top = MB.FitMultiBandPoly(poly_order=1, **common) if kind == "poly" else MB.FitMultiBandBSpline(N_knots=4, spline_k=2, **common)
            tr = handlers.trace(handlers.seed(top.build_model(), jax.random.PRNGKey(0))).get_trace()
            names = [k for k in tr if "theta" in k and k not in ("theta_g", "theta_r", "theta_i", "theta_at_wv")
                     and not k.endswith("_base") and "_auto_" not in k]
            out[kind] = names
            trm = handlers.trace(handlers.seed(top.build_model(return_model=True), jax.random.PRNGKey(0))).get_trace()
            out[kind + "_model_sites"] = sorted(k for k, v in trm.items() if "model" in k and v["type"] == "deterministic")
        except Exception as e:
            out[kind] = f"error {type(e).__name__}: {e}"
    return out


def probe_link_names():
    """Refresh LINK_TMPL from the real fitters; returns a note for the evidence."""
    from .common import run_children
    got = run_children("c19", "probe_child", [dict()], x64=False)[0]
    note = {}
    ms = got.pop("poly_model_sites", None)
    got.pop("spline_model_sites", None)
    if isinstance(ms, list) and ms:
        # one stacked site `model`, or one site per band (`model_g`, `model_r`, `model_i` for the probe's bands)
        LINK_TMPL["model"] = "model" if ms == ["model"] else ("model_{b}" if ms == ["model_g", "model_i", "model_r"] else LINK_TMPL["model"])
        note["model_sites"] = ms
    for kind, names in got.items():
        if isinstance(names, list) and len(names) == 1 and "theta" in names[0]:
            LINK_TMPL[kind] = names[0].replace("theta", "{n}")
            note[kind] = names[0]
        else:
            note[kind] = f"kept {LINK_TMPL[kind]} ({names})"
    return note


def gen_config(rng):
    """Return list of (name, kind, extra_dims)."""
    style = rng.choice(["single", "multi", "multiband-poly", "multiband-spline", "multiband-multi"])
    out = []
    sky = SKY[rng.choice(list(SKY))]
    nuis = NUIS[int(rng.integers(0, len(NUIS)))]
    with_base = rng.random() < 0.7
    with_auto = rng.random() < 0.3

    def add_param(name, kind, reparam=True):
        out.append((name, kind, ()))
        if reparam and with_base:
            out.append((name + "_base", "internal", ()))
        if with_auto:
            out.append((name + "_auto_loc", "internal", ()))

    if style == "single":
        ptype = rng.choice(list(PROFILE_PARAMS))
        sfx = rng.choice(["", "", "_a", "_7"])
        for p in PROFILE_PARAMS[ptype] + sky:
            add_param(p + sfx, kind_of_param(p))
        for q in nuis:
            out.append((q + sfx, "internal" if q.endswith("_base") else "plain", ()))
        out.append(("model" + sfx, "model", ("model_dim_0", "model_dim_1")))
    elif style == "multi":
        ns = int(rng.integers(1, 5))
        for i in range(ns):
            ptype = rng.choice(list(PROFILE_PARAMS))
            for p in PROFILE_PARAMS[ptype]:
                add_param(f"{p}_{i}", kind_of_param(p))
        for p in sky:
            add_param(p, "plain")
        for q in nuis:
            out.append((q, "internal" if q.endswith("_base") else "plain", ()))
        out.append(("model", "model", ("model_dim_0", "model_dim_1")))
    else:
        nb = int(rng.integers(2, 5))
        bands = list(rng.choice(BANDS, size=nb, replace=False))
        if style == "multiband-multi":
            ns = int(rng.integers(1, 4))
            params = []
            for i in range(ns):
                ptype = rng.choice(list(PROFILE_PARAMS))
                params += [(f"{p}_{i}", p) for p in PROFILE_PARAMS[ptype]]
            link = "poly" if rng.random() < 0.5 else "spline"
        else:
            ptype = rng.choice([t for t in PROFILE_PARAMS if t != "pointsource"])
            params = [(p, p) for p in PROFILE_PARAMS[ptype]]
            link = "poly" if style == "multiband-poly" else "spline"
        names = [n for n, _ in params]
        k = int(rng.integers(1, len(names) + 1))
        linked = set(rng.choice(names, size=k, replace=False))
        if "theta" in names and rng.random() < 0.7:
            linked.add("theta")
        rest = [n for n in names if n not in linked]
        const = set(rng.choice(rest, size=int(rng.integers(0, len(rest) + 1)), replace=False)) if rest else set()
        for n, base in params:
            kd = kind_of_param(base)
            if n in linked:
                if link == "poly":
                    pn = LINK_TMPL["poly"].format(n=n)
                    out.append((pn, "link", (f"{pn}_dim_0",)))
                else:
                    sn = LINK_TMPL["spline"].format(n=n)
                    out.append((sn, "link", (f"{sn}_dim_0",)))
                    if with_base:
                        out.append((f"{sn}_base", "internal", (f"{sn}_base_dim_0",)))
                out.append((f"{n}_at_wv", kd, (f"{n}_at_wv_dim_0",)))
                for b in bands:
                    out.append((f"{n}_{b}", kd, ()))
            elif n in const:
                add_param(n, kd)
            else:
                for b in bands:
                    add_param(f"{n}_{b}", kd)
        for b in bands:
            for p in sky:
                add_param(f"{p}_{b}", "plain")
            for q in nuis:
                out.append((f"{q}_{b}", "internal" if q.endswith("_base") else "plain", ()))
        if "{b}" in LINK_TMPL["model"]:
            for b in bands:
                mn = LINK_TMPL["model"].format(b=b)
                out.append((mn, "model", (f"{mn}_dim_0", f"{mn}_dim_1")))
        else:
            out.append(("model", "model", ("model_dim_0", "model_dim_1", "model_dim_2")))
    # unique names, random order
    seen, uniq = set(), []
    for t in out:
        if t[0] not in seen:
            seen.add(t[0])
            uniq.append(t)
    order = rng.permutation(len(uniq))
    return style, [uniq[i] for i in order]


def make_values(rng, nchain, ndraw, extra):
    shape = (nchain, ndraw) + tuple(3 for _ in extra)
    style = rng.integers(0, 5)
    if style == 4:
        # the edges of the reporting interval: values a rounding step away from a multiple of π, on either side
        edge = np.array([0.0, -0.0, -1e-17, -5e-324, -2.2e-16, 1e-17, -1e-300, math.pi, -math.pi, np.nextafter(math.pi, 0.0), np.nextafter(math.pi, 4.0),
                         np.nextafter(-math.pi, 0.0), 2 * math.pi, -2 * math.pi])
        v = rng.choice(edge, size=shape)
    elif style == 0:
        v = rng.uniform(-100, 100, size=shape)
    elif style == 1:
        v = rng.normal(0, 3, size=shape)
    elif style == 2:
        k = rng.integers(-30, 31, size=shape)
        v = k * math.pi + rng.choice([0.0, 1e-9, -1e-9, 0.5, -0.5], size=shape)
    else:
        v = rng.uniform(0, math.pi, size=shape)
    return v


class FakeIData:
    def __init__(self, ds):
        self.posterior = ds

    def __getitem__(self, k):
        if k != "posterior":
            raise KeyError(k)
        return self.posterior


def run_real(cfg, values, purge, save):
    import xarray as xr
    from pysersic.results import PySersicResults
    dv = {}
    for (name, kind, extra) in cfg:
        dv[name] = (("chain", "draw") + tuple(extra), values[name].copy())
    ds = xr.Dataset(dv)
    res = PySersicResults.__new__(PySersicResults)
    out = res._parse_injested_data(FakeIData(ds), purge_extra=purge, save_model=save)
    post = out.posterior
    fates = {}
    for (name, kind, extra) in cfg:
        present = name in post.data_vars
        newv = np.asarray(post[name].values) if present else None
        models = getattr(res, "models", None)
        is_model = models is not None and getattr(models, "name", None) == name
        fates[name] = dict(dropped=not present, values=newv, model=is_model,
                           model_values=(np.asarray(models.values) if is_model else None))
    leftover_dims = [d for d in ("model_dim_0", "model_dim_1") if d in post.dims]
    return fates, leftover_dims


def correspondence(ctx):
    rng = ctx.rng("corr")
    ncfg = 300 if ctx.tier == "quick" else 5000
    disagreements, violations = [], []
    stats = dict(styles={}, kinds={}, wrapped_vars=0, dropped_vars=0, model_vars=0, names=0, chains={}, purge={})
    stats["link_site_names_from_real_fitters"] = probe_link_names()
    distinct = set()
    samples = []
    evals = 0
    lines, meta = [], []
    wrap_lines, wrap_meta = [], []
    for ci in range(ncfg):
        style, cfg = gen_config(rng)
        nchain = int(rng.integers(1, 5))
        ndraw = int(rng.integers(1, 6))
        purge = bool(rng.random() < 0.85)
        save = bool(rng.random() < 0.85)
        values = {name: make_values(rng, nchain, ndraw, extra) for name, _, extra in cfg}
        try:
            fates, leftover = run_real(cfg, values, purge, save)
        except Exception as e:
            disagreements.append(dict(style=style, names=[c[0] for c in cfg], real=f"exception {type(e).__name__}: {e}"))
            continue
        stats["styles"][style] = stats["styles"].get(style, 0) + 1
        stats["chains"][nchain] = stats["chains"].get(nchain, 0) + 1
        stats["purge"][str(purge)] = stats["purge"].get(str(purge), 0) + 1
        if ci < 2:
            samples.append(dict(style=style, purge=purge, names=[f"{n}:{k}" for n, k, _ in cfg][:14]))
        for (name, kind, extra) in cfg:
            evals += 1
            stats["names"] += 1
            stats["kinds"][kind] = stats["kinds"].get(kind, 0) + 1
            f = fates[name]
            orig = values[name]
            wrapped = (not f["dropped"]) and not np.array_equal(f["values"], orig)
            # a wrapped variable whose values all happened to be in [0, π) is indistinguishable: re-derive
            in_range = bool(np.all((orig >= 0) & (orig < math.pi)))
            lines.append(f"rs {int(purge)} {int(save)} {name}")
            meta.append((style, name, kind, purge, save, f, orig, wrapped, in_range))
            distinct.add((name, purge, save))
            # oracle
            violations += oracle_var(style, name, kind, purge, save, f, orig)
        if purge and leftover:
            violations.append(Violation(f"C19:leftover-dims:{style}", f"model dimensions {leftover} left in the cleaned posterior ({style})",
                                        dict(kind="oracle-cfg", style=style)))
    model_out = ctx.driver.ask(lines)
    for ln, mo, (style, name, kind, purge, save, f, orig, wrapped, in_range) in zip(lines, model_out, meta):
        mf = dict(kv.split("=") for kv in mo.split())
        m_wrapped, m_dropped, m_model = mf["wrapped"] == "1", mf["dropped"] == "1", mf["model"] == "1"
        bad = []
        if m_dropped != f["dropped"]:
            bad.append(f"dropped model={m_dropped} real={f['dropped']}")
        if m_model != f["model"]:
            bad.append(f"kept-as-model model={m_model} real={f['model']}")
        if not f["dropped"]:
            if m_wrapped != wrapped and not (m_wrapped and in_range):
                bad.append(f"wrapped model={m_wrapped} real={wrapped}")
            if m_wrapped:
                stats["wrapped_vars"] += 1
                flat = orig.ravel()[:6]
                wrap_lines.append("wrap " + " ".join(f2h(x) for x in flat))
                wrap_meta.append((name, flat, f["values"].ravel()[:6]))
        else:
            stats["dropped_vars"] += 1
        stats["model_vars"] += int(f["model"])
        if bad:
            disagreements.append(dict(name=name, kind=kind, style=style, purge=purge, save=save, model=mo, real="; ".join(bad)))
    # wrapped values vs the model's wrap
    for (name, flat, realv), mo in zip(wrap_meta, ctx.driver.ask(wrap_lines)):
        mv = np.array([h2f(t) for t in mo.split()])
        d = np.abs(mv - realv)
        d = np.minimum(d, np.abs(d - math.pi))   # a value rounding onto the other end of [0, π)
        if np.any(d > 1e-12 * np.maximum(1.0, np.abs(flat))):
            disagreements.append(dict(name=name, kind="wrap-values", inputs=[float(x) for x in flat],
                                      model=[float(x) for x in mv], real=[float(x) for x in realv]))
    return dict(
        name="parse_injested_data_fates_vs_Pysersic.Results.fate",
        evaluations=evals, distinct_nontrivial=len(distinct),
        rule="seeded random fitter configurations (single / multi-source / multi-band poly & spline / multi-band multi-source) → site-name "
             "sets from the grammar, values in [-100,100] incl. near multiples of π, 1–4 chains, purge/save flags; "
             "distinct = distinct (variable name, purge, save); every variable counts as non-trivial",
        samples=samples, distribution=stats, disagreements=disagreements, violations=violations)


def oracle_var(style, name, kind, purge, save, f, orig):
    out = []

    def v(clause, msg):
        role = ("poly_coeff" if name.endswith("_poly_coeff") else "bspl_w" if name.startswith("bspl_w_") else
                "at_wv" if name.endswith("_at_wv") else "base" if name.endswith("_base") else "auto" if "_auto" in name else
                "model" if name.startswith("model") else "param")
        base = name.split("_")[0] if role in ("poly_coeff", "at_wv") else (name.split("_")[2] if role == "bspl_w" and len(name.split("_")) > 2 else name.split("_")[0])
        return Violation(f"C19:{clause}:{role}:{'theta' if 'theta' in name else 'other'}",
                         f"{clause}: variable '{name}' ({kind}, {style}, purge={purge}): {msg}",
                         dict(kind="oracle", name=name, var_kind=kind, purge=purge, save=save,
                              values=[float(x) for x in orig.ravel()[:8]]))
    if kind == "internal":
        if purge and not f["dropped"]:
            out.append(v("internal-kept", "internal variable not removed"))
        return out
    if kind == "model":
        if purge:
            if not f["dropped"]:
                out.append(v("model-kept-in-posterior", "model image left in the posterior"))
            if save and not (f["model"] and np.array_equal(f["model_values"], orig)):
                out.append(v("model-lost", "per-draw model images not preserved in .models"))
        return out
    # user-facing
    if f["dropped"]:
        out.append(v("dropped", "user-facing variable removed"))
        return out
    newv = f["values"]
    if kind == "angle":
        if not np.all((newv >= 0) & (newv < math.pi)):
            out.append(v("angle-range", f"angle not reported in [0, π): {newv.ravel()[:4]}"))
        k = (newv - orig) / math.pi
        if not np.all(np.abs(k - np.round(k)) < 1e-9 * np.maximum(1, np.abs(orig))):
            out.append(v("angle-congruence", "reported angle not congruent to the sample modulo π"))
    else:
        if not (np.array_equal(newv, orig) and newv.dtype == orig.dtype):
            out.append(v("not-bitwise", f"non-angle variable modified: {orig.ravel()[:3]} -> {newv.ravel()[:3]}"))
    return out


def oracle_search(ctx, hints):
    rng = ctx.rng("oracle")
    out = []
    for _ in range(400):
        style, cfg = gen_config(rng)
        values = {name: make_values(rng, 2, 3, extra) for name, _, extra in cfg}
        for purge, save in ((True, True), (False, True)):
            try:
                fates, _ = run_real(cfg, values, purge, save)
            except Exception as e:
                out.append(Violation(f"C19:exception:{type(e).__name__}", f"_parse_injested_data raised {e}", dict(kind="oracle-cfg", style=style)))
                continue
            for (name, kind, extra) in cfg:
                out += oracle_var(style, name, kind, purge, save, fates[name], values[name])
    best = {}
    for v in out:
        if v.signature not in best or len(v.replay.get("name", "")) < len(best[v.signature].replay.get("name", "")):
            best[v.signature] = v
    return list(best.values())


def replay(ctx, payload):
    if payload.get("kind") != "oracle":
        return oracle_search(ctx, [])
    name, kind = payload["name"], payload["var_kind"]
    extra = ("model_dim_0", "model_dim_1") if kind == "model" else ()
    rng = ctx.rng("replay")
    cfg = [(name, kind, extra), ("xc", "plain", ())]
    values = {n: make_values(rng, 2, 3, e) for n, _, e in cfg}
    fates, _ = run_real(cfg, values, payload["purge"], payload["save"])
    return oracle_var("replay", name, kind, payload["purge"], payload["save"], fates[name], values[name])
