"""C05 — the posterior density is prior × likelihood of (rendered sources + sky).

Theorems (Props/C05.lean): the joint log-density of the fitter model is the sum of one prior term per prior entry (unit-scale
bases), the loss's nuisance priors and the unmasked per-pixel likelihood terms; in user-facing units it is Σ log prior(x) +
log-likelihood up to the constant Σ log scale; latent sites = name_base for the prior entries + nuisance latents; one likelihood
site; the model image recorded; suffix stripping.
Tie: real handlers.trace of build_model() with substituted latents for random configurations (profile type or catalogue, sky,
loss, renderer, suffix, mask): site set (names, kinds) vs `sites`; per-entry base log-density and exposed value vs `baselp`;
per-pixel likelihood terms recomputed by the Lean loss model from the *real* model image vs the real observed-site log_prob;
total vs numpyro log_density.
Oracle: independent float64 recomputation with scipy.stats per latent site and per observed pixel (1e-4 abs + 1e-5 rel).
"""
from __future__ import annotations

import numpy as np

from . import c07
from .common import Violation, f2h, h2f, run_children

PROP = "C05"
LEAN_TARGETS = ["Props.C05", "driver"]
AUDIT_IMPORTS = ["Props.C05"]
NS = "Pysersic.Props.C05."
OBLIGATIONS = [NS + t for t in [
    "joint_is_sum", "joint_in_user_units", "likelihood_through_exposed", "exposed_names", "rms_is_sigma", "latent_sites",
    "one_likelihood_site", "model_site", "stripSuffix_empty", "multi_key_injective", "no_underscore_in_repr",
]] + ["Pysersic.Props.C11.prior_reparam_constant", "Pysersic.Props.C11.reparam_constant_jacobian"]
# translated source text proved equal to the model definitions this property's theorems are about
GEN_KERNELS = ["losses", "tilted_plane_sky_sample"]
MIRRORED_FILES = ["pysersic/pysersic.py", "pysersic/priors.py", "pysersic/loss.py", "pysersic/rendering.py"]
ASSUMPTIONS = [
    "numpyro handler semantics (reparam/TransformReparam, mask, substitute, trace, log_density) are modelled by the site list + sum of site log-densities and validated by this tie",
    "the rendered image is taken from the real renderer (the render layer has its own tie: C01–C04, C08–C10, C20)",
]
PTYPES = ["sersic", "doublesersic", "sersic_exp", "sersic_pointsource", "pointsource", "exp", "dev"]
SKY = ["none", "flat", "tilted-plane"]
RKINDS = ["pixel", "fourier", "hybrid"]


def gen_cases(rng, n):
    cases = []
    for k in range(n):
        multi = (k % 3 == 2)
        cases.append(dict(kind="multi" if multi else "single", types=[str(rng.choice(PTYPES)) for _ in range(int(rng.integers(1, 5)))] if multi else [PTYPES[k % 7]],
                          sky=SKY[(k // 2) % 3], loss=c07.LOSSES[k % 10], renderer=RKINDS[0 if k % 4 else int(rng.integers(1, 3))],
                          suffix=str(rng.choice(["", "_a", "_7"])), N=[10, 11, 12, 9][(k // 3) % 4] + 0 * int(rng.choice([10, 12])), mask=str(rng.choice(["none", "random", "half"])),
                          # every fifth single-source case replaces three auto priors by user-set ones through the public setters
                          # (a truncation bound at exactly 0, a plain Gaussian, a uniform)
                          custom=(k % 5 == 1 and not multi),
                          seed=int(rng.integers(0, 2 ** 31))))
    return cases


def describe(d):
    b = d.base_dist
    t = d.transforms[0]
    fam = type(b).__name__
    lo = hi = None
    if "Truncated" in fam:
        lo = None if getattr(b, "low", None) is None else float(b.low)
        hi = None if getattr(b, "high", None) is None else float(b.high)
        fam = "truncnormal"
    return dict(family=fam.lower(), loc=float(t.loc), scale=float(t.scale), low=lo, high=hi)


def real_eval(payload):
    import jax
    import jax.numpy as jnp
    from numpyro.infer.util import log_density
    from . import pyutil as U
    out = []
    for c in payload["cases"]:
        try:
            rng = np.random.default_rng(c["seed"])
            N, sfx = c["N"], c["suffix"]
            positive = c["loss"] == "cash_loss"
            data, rms, psf = U.make_images(rng, N, positive=positive)
            # physical flux units: the same scene in units where data, rms, fluxes and sky are ~1e-6
            unit = 1e-6 if (c["kind"] == "single" and c["loss"] == "gaussian_loss_w_sys" and c["seed"] % 2 == 0) else 1.0
            data, rms = data * unit, rms * unit
            if positive and c["seed"] % 2:
                # the Cash statistic needs a positive model, not positive data (background-subtracted counts): shift part of the image below 0
                data = data - 0.6 * float(np.median(data))
            mask = U.make_mask(rng, N, c["mask"], ["bool", "int", "float"][c["seed"] % 3])
            if c["loss"] in c07.SQUARES_RMS and (c["seed"] // 3) % 2 == 0:
                # noiseless pixels (rms exactly 0) are legitimate where a systematic term is added in quadrature: σ = σ_sys there
                ij = rng.integers(0, N, size=(3, 2))
                rms[ij[:, 0], ij[:, 1]] = 0.0
            sky = c["sky"] if not positive else "flat"
            Rcls = U.RENDERERS[c["renderer"]]
            loss = getattr(U.L, c["loss"])
            if c["kind"] == "single":
                prior = U.source_prior(c["types"][0], sky_type=sky, suffix=sfx, xc=N / 2 + 0.3, yc=N / 2 - 0.2, flux=80.0 * unit, r_eff=1.8,
                                       sky_guess=(3.0 if positive else 0.4) * unit)
                requests = {}
                if c.get("custom"):
                    prior.set_truncated_gaussian_prior("flux", 60.0, 45.0, low=0.0)
                    requests["flux" + sfx] = dict(family="truncnormal", loc=60.0, scale=45.0, low=(0.0 - 60.0) / 45.0, high=None)
                    prior.set_gaussian_prior("xc", N / 2 - 0.4, 0.7)
                    requests["xc" + sfx] = dict(family="normal", loc=N / 2 - 0.4, scale=0.7, low=None, high=None)
                    if "ellip" + sfx in prior.dist_dict:
                        prior.set_uniform_prior("ellip", 0.0, 0.6)
                        requests["ellip" + sfx] = dict(family="uniform", loc=0.0, scale=0.6, low=None, high=None)
                f = U.pysersic.FitSingle(data, rms, psf, prior, mask=mask, loss_func=loss, renderer=Rcls)
            else:
                requests = {}
                prior, _ = U.multi_prior(c["types"], N, rng, sky_type=sky, suffix=sfx)
                f = U.pysersic.FitMulti(data, rms, psf, prior, mask=mask, loss_func=loss, renderer=Rcls)
            model = f.build_model(return_model=True)
            lat, _ = U.sample_latents(model, seed=c["seed"] % 997)
            if positive:
                # keep the Cash model positive: a bright sky level
                for k in list(lat):
                    if k.startswith("sky_back") and k.endswith("_base"):
                        lat[k] = jnp.asarray(3.0)
            tr = U.trace_with(model, lat)
            sites = {}
            for name, s in tr.items():
                if s["type"] == "sample":
                    lp = np.asarray(s["fn"].log_prob(s["value"]), dtype=np.float64)
                    sites[name] = dict(kind="observed" if s["is_observed"] else "latent", logp=lp, value=np.asarray(s["value"], dtype=np.float64))
                elif s["type"] == "deterministic":
                    sites[name] = dict(kind="deterministic", value=np.asarray(s["value"], dtype=np.float64))
            entries = {k: describe(v) for k, v in prior.dist_dict.items()}
            entries.update({k: describe(v) for k, v in prior.sky_prior.dist_dict.items()})
            total = float(log_density(model, (), {}, lat)[0])
            # the real renderer on the exposed parameters (+ closed-form sky added by the oracle)
            params = {k: tr[k]["value"] for k in prior.dist_dict}
            if c["kind"] == "single":
                bare = f.renderer.render_source(params, c["types"][0], suffix=sfx)
            else:
                # independent of the catalogue path: every source rendered on its own through render_source, then summed
                # (rendering is additive over sources, Props.C08)
                import pysersic.rendering as RD
                bare = 0.0
                for j, t in enumerate(c["types"]):
                    pj = {p: params[f"{p}_{j}{sfx}"] for p in RD.base_profile_params[t]}
                    bare = bare + f.renderer.render_source(pj, t, suffix="")
            sky_sfx = sfx if c["kind"] == "single" else ""
            skyv = {k: float(tr[k + sky_sfx]["value"]) for k in ("sky_back", "sky_x_sl", "sky_y_sl") if k + sky_sfx in tr}
            out.append(dict(sites=sites, entries=entries, total=total, requests=requests, data=np.asarray(f.data, dtype=np.float64), rms=np.asarray(f.rms, dtype=np.float64),
                            good=np.asarray(f.mask), user_mask=None if mask is None else np.asarray(mask) != 0, bare=np.asarray(bare, dtype=np.float64),
                            skyv=skyv, sky=sky, lat={k: float(v) for k, v in lat.items() if np.ndim(v) == 0}))
        except Exception as e:
            import traceback
            out.append(dict(error=f"{type(e).__name__}: {e}", tb=traceback.format_exc()[-700:]))
    return out


def entry_tokens(name, e):
    lo = "-" if e["low"] is None else f2h(e["low"])
    hi = "-" if e["high"] is None else f2h(e["high"])
    return f"{name} {e['family']} {f2h(e['loc'])} {f2h(e['scale'])} {lo} {hi}"


def scipy_base_logpdf(e, z):
    from scipy import stats
    if e["family"] == "normal":
        return float(stats.norm.logpdf(z))
    if e["family"] == "uniform":
        return float(stats.uniform.logpdf(z))
    a = -np.inf if e["low"] is None else e["low"]
    b = np.inf if e["high"] is None else e["high"]
    return float(stats.truncnorm.logpdf(z, a, b))


def sky_np(sky, v, N):
    yy, xx = np.mgrid[:N, :N].astype(float)
    if sky == "none":
        return np.zeros((N, N))
    if sky == "flat":
        return np.full((N, N), v["sky_back"])
    return v["sky_back"] + (xx - N / 2) * v["sky_x_sl"] + (yy - N / 2) * v["sky_y_sl"]


def judge(ctx, c, r, x64):
    """returns (disagreement strings, violations) for one evaluated case"""
    tol_abs, tol_rel = (1e-9, 1e-9) if x64 else (1e-4, 1e-5)
    diffs, viol = [], []
    if "error" in r:
        return [f"real code raised {r['error']}"], []
    sfx, N = c["suffix"], c["N"]
    sites, ents = r["sites"], r["entries"]
    lk_name = [k for k, s in sites.items() if s["kind"] == "observed"]
    # --- model requests
    names = list(ents)
    l_sites = f"sites {c['loss']} {sfx or '-'} 1 {len(names)} " + " ".join(entry_tokens(n, ents[n]) for n in names)
    zs = {n: float(sites[n + "_base"]["value"]) for n in names if n + "_base" in sites}
    l_base = f"baselp {len(zs)} " + " ".join(entry_tokens(n, ents[n]) + " " + f2h(zs[n]) for n in zs)
    img = sites.get("model" + sfx, {}).get("value")
    lines = [l_sites, l_base]
    lc = None
    if img is not None and len(lk_name) == 1:
        nuis = dict(frac_rms_increase=0.0, sys_rms_base=0.0, outlier_frac_base=0.0, rms_frac=0.0)
        for k in nuis:
            if k + sfx in sites:
                nuis[k] = float(sites[k + sfx]["value"])
        good = r["good"].ravel()
        lc = dict(loss=c["loss"], m=img.ravel(), d=r["data"].ravel(), r=np.where(good, r["rms"].ravel(), 1.0), good=good, nuis=nuis, suffix=sfx)
        lines.append(c07.model_line(lc))
    rep = ctx.driver.ask(lines)
    # --- sites
    msites = dict(tok.rsplit(":", 1) for tok in rep[0].split(" ") if tok)
    rsites = {k: s["kind"] for k, s in sites.items()}
    if msites != rsites:
        diffs.append(f"sites differ: real−model {sorted(set(rsites.items()) - set(msites.items()))[:6]} model−real {sorted(set(msites.items()) - set(rsites.items()))[:6]}")
    # --- prior terms
    mb = {}
    for tok in rep[1].split(" "):
        if tok:
            n, v = tok.split("=")
            a, b = v.split(":")
            mb[n] = (h2f(a), h2f(b))
    for n, (lp, xv) in mb.items():
        rl = float(sites[n + "_base"]["logp"])
        if not abs(rl - lp) <= tol_abs + tol_rel * abs(lp):
            diffs.append(f"prior term of {n}: real {rl!r} model {lp!r}")
        rv = float(sites[n]["value"])
        if not abs(rv - xv) <= (1e-9 if x64 else 2e-6) * max(1.0, abs(xv)):
            diffs.append(f"exposed value of {n}: real {rv!r} model {xv!r}")
    # --- likelihood from the real model image
    if lc is not None:
        terms, mnuis, mdet, sname, _ = c07.parse_model(rep[2])
        rl = sites[lk_name[0]]["logp"].ravel()
        # the fitter stores data and rms in float32 even in 64-bit mode, and numpyro evaluates log(√2π·scale) in the dtype of scale:
        # the likelihood terms carry float32 rounding in both passes
        # (for the losses that add σ_sys = base·mean(rms): the float32 mean enters σ undiluted at pixels whose own rms is 0 — 5e-6)
        l_abs, l_rel = ((5e-6, 5e-6) if lc["loss"] in c07.SQUARES_RMS else (5e-7, 5e-7)) if x64 else (tol_abs, tol_rel)
        # float32 cancellation in (data − model)/σ where both are many σ large (scenes in small physical units with a model far from the
        # data): Δ(z²/2) ≈ |z|·ε₃₂·(|d| + |m|)/σ — allowed for on top, it matters only where that product is large
        with np.errstate(all="ignore"):
            dd, mm, rr = (np.asarray(lc[k], float).ravel() for k in ("d", "m", "r"))
            z = np.abs(dd - mm) / np.where(rr > 0, rr, 1.0)
            canc = 2.5e-7 * (np.abs(dd) + np.abs(mm)) / np.where(rr > 0, rr, 1.0) * (z + 1.0)
            canc = np.where(np.isfinite(canc) & (canc > 1e-6), canc, 0.0)
        bad = ~(np.abs(rl - terms) <= l_abs + l_rel * np.abs(terms) + canc) & ~(np.isnan(rl) & np.isnan(terms))
        if lk_name[0] != sname + sfx:
            diffs.append(f"likelihood site {lk_name[0]} vs model {sname + sfx}")
        elif bad.any():
            i = int(np.argmax(bad))
            diffs.append(f"likelihood term at pixel {i}: real {rl[i]!r} model {terms[i]!r} (good={bool(lc['good'][i])})")
        for k, v in mnuis.items():
            rv = float(sites[k + sfx]["logp"])
            if not abs(rv - v) <= tol_abs + tol_rel * abs(v):
                diffs.append(f"nuisance prior {k}: real {rv!r} model {v!r}")
        msum = float(sum(lp for lp, _ in mb.values()) + sum(mnuis.values()) + np.nansum(terms))
        if np.isfinite(r["total"]) and not abs(r["total"] - msum) <= (2e-6 if x64 else 2e-3) * max(1.0, abs(msum)):
            diffs.append(f"log_density {r['total']!r} vs model sum {msum!r}")
    # --- oracle (float32 run): independent recomputation per latent site and per pixel
    if not x64:
        def v(clause, msg):
            return Violation(f"C05:{clause}:{c['kind']}:{c['loss']}", f"{c['kind']} fitter {c['types']}, sky {c['sky']}, {c['loss']}, {c['renderer']}, suffix '{sfx}', mask {c['mask']}: {msg}",
                             dict(kind="oracle", case=c))
        import pysersic.rendering as RD
        # exactly the prior's parameters (+ nuisance) are latent
        want = set()
        if c["kind"] == "single":
            want |= {p + sfx for p in RD.base_profile_params[c["types"][0]]}
        else:
            for j, t in enumerate(c["types"]):
                want |= {f"{p}_{j}{sfx}" for p in RD.base_profile_params[t]}
        sky_sfx = sfx if c["kind"] == "single" else ""
        want |= {s + sky_sfx for s in dict(zip(SKY, [[], ["sky_back"], ["sky_back", "sky_x_sl", "sky_y_sl"]]))[r["sky"]]}
        nuis_names = {"gaussian_loss_w_frac": ["frac_rms_increase"], "gaussian_loss_w_sys": ["sys_rms_base"], "student_t_loss_free_sys": ["sys_rms_base"],
                      "gaussian_mixture": ["outlier_frac_base"], "gaussian_mixture_w_sys": ["outlier_frac_base", "sys_rms_base"],
                      "gaussian_mixture_w_frac": ["outlier_frac_base", "rms_frac"]}.get(c["loss"], [])
        latent = {k for k, s in sites.items() if s["kind"] == "latent"}
        exp_latent = {w + "_base" for w in want} | {n + sfx for n in nuis_names}
        if latent != exp_latent:
            viol.append(v("latents", f"latent sites {sorted(latent ^ exp_latent)} differ from the prior's parameters + the loss's nuisance parameters"))
        for n in names:
            if n + "_base" in sites:
                want = (r.get("requests") or {}).get(n)
                if want is not None:
                    # a prior the user set through the public helpers: judged against what was asked for, not what was installed
                    ref = scipy_base_logpdf(want, zs[n])
                    xv = want["loc"] + want["scale"] * zs[n]
                    if not abs(float(sites[n]["value"]) - xv) <= 2e-5 * max(1.0, abs(xv)):
                        viol.append(v("user-prior-value", f"user-set prior of {n}: exposed value {float(sites[n]['value']):.7g} ≠ loc + scale·base = {xv:.7g}"))
                        break
                else:
                    ref = scipy_base_logpdf(ents[n], zs[n])
                rl = float(sites[n + "_base"]["logp"])
                if not abs(rl - ref) <= 1e-4 + 1e-5 * abs(ref):
                    viol.append(v("prior-term", f"log prior of {n} = {rl:.7g}, scipy {ref:.7g}"))
                    break
        if img is not None and len(lk_name) == 1:
            exp_img = r["bare"] + sky_np(r["sky"], {k: r["skyv"].get(k, 0.0) for k in ("sky_back", "sky_x_sl", "sky_y_sl")}, N)
            sc = max(float(np.abs(exp_img).max()), 1e-30)
            if not np.abs(img - exp_img).max() <= 2e-5 * sc:
                viol.append(v("model-image", f"recorded model differs from render(exposed parameters) + sky by {np.abs(img - exp_img).max():.3e} (scale {sc:.3g})"))
            user_good = np.ones((N, N), bool) if r["user_mask"] is None else ~r["user_mask"]
            lc2 = dict(lc, m=exp_img.ravel(), good=user_good.ravel(), r=r["rms"].ravel())
            # the systematic scatter the *_sys losses add is sys_rms_base × mean(rms) of the pixels that are fitted:
            # recomputed from the user's rms map and mask, not read back from the trace
            if "sys_rms" + sfx in sites and "sys_rms_base" + sfx in sites:
                exp_sys = float(sites["sys_rms_base" + sfx]["value"]) * float(np.mean(r["rms"][user_good]))
                got_sys = float(sites["sys_rms" + sfx]["value"])
                if not abs(got_sys - exp_sys) <= 2e-5 * max(abs(exp_sys), 1e-30):
                    viol.append(v("sys-scatter", f"systematic scatter {got_sys:.7g} is not sys_rms_base × mean(rms over the unmasked pixels) = {exp_sys:.7g}: "
                                                 "pixels outside the fit enter the likelihood"))
            doc = c07.doc_logpdf(lc2, {k: dict(value=s["value"]) for k, s in sites.items() if s["kind"] == "deterministic"})
            if doc is not None:
                exp = np.where(user_good.ravel(), doc, 0.0)
                rl = sites[lk_name[0]]["logp"].ravel()
                ok = np.abs(rl - exp) <= 1e-4 + 1e-5 * np.abs(exp) + 3e-5 * np.abs(exp)      # + float32 image rounding propagated through the likelihood
                if not ok.all() and np.isfinite(exp).all():
                    i = int(np.argmin(ok))
                    viol.append(v("likelihood", f"per-pixel log-likelihood {rl[i]:.7g} differs from the documented density of (render + sky) {exp[i]:.7g} at pixel {i} "
                                                f"(unmasked={bool(user_good.ravel()[i])})"))
    return diffs, viol


def evaluate(ctx, cases):
    from . import render_common as RC
    w = min(ctx.workers, 6)
    chunks = RC.chunked(cases, w)
    r64 = RC.unchunk(run_children("c05", "real_eval", [dict(cases=ch) for ch in chunks], x64=True, workers=w), len(cases))
    r32 = RC.unchunk(run_children("c05", "real_eval", [dict(cases=ch) for ch in chunks], x64=False, workers=w), len(cases))
    dis, viol = [], []
    for c, a, b in zip(cases, r64, r32):
        d1, _ = judge(ctx, c, a, True)
        d2, v2 = judge(ctx, c, b, False)
        if d1 or d2:
            dis.append(dict(case=c, x64=d1[:3], f32=d2[:3], tb=a.get("tb") or b.get("tb")))
        viol += v2
    return dis, viol


def correspondence(ctx):
    rng = ctx.rng("corr")
    cases = gen_cases(rng, 40 if ctx.tier == "quick" else 800)
    dis, viol = evaluate(ctx, cases)
    stats = dict(single=sum(c["kind"] == "single" for c in cases), multi=sum(c["kind"] == "multi" for c in cases),
                 losses={l: sum(c["loss"] == l for c in cases) for l in c07.LOSSES}, renderers={k: sum(c["renderer"] == k for c in cases) for k in RKINDS},
                 sky={s: sum(c["sky"] == s for c in cases) for s in SKY}, masked=sum(c["mask"] != "none" for c in cases))
    return dict(name="build_model() traces vs Pysersic.Prob.{fitterSites, logPriorBase, lossTerms}", evaluations=2 * len(cases),
                distinct_nontrivial=len({(c['kind'], tuple(c['types']), c['sky'], c['loss'], c['renderer'], c['suffix']) for c in cases}),
                rule="seeded configurations over 7 profile types / catalogues of 1–4 sources × 3 skies × 10 losses × 3 renderers × suffixes × masks on 10–12 px images; "
                     "site set exact; prior terms, exposed values, per-pixel likelihood (from the real model image), nuisance priors and the total at 1e-9 (float64) "
                     "and 1e-4 + 1e-5 (float32)",
                samples=[{k: c[k] for k in ("kind", "types", "sky", "loss", "renderer", "suffix")} for c in cases[:3]], distribution=stats,
                disagreements=dis, violations=viol)


def oracle_search(ctx, hints):
    rng = ctx.rng("search")
    cases = [h["case"] for h in hints[:10] if isinstance(h.get("case"), dict) and "loss" in h["case"]] + gen_cases(rng, 60)
    return evaluate(ctx, cases)[1]


def replay(ctx, payload):
    return evaluate(ctx, [payload["case"]])[1]
