"""C15 — the multi-band model links parameters across bands as declared.

Theorems (Props/C15.lean): logistic restriction and spline convex combination stay in range; default ranges by the regenerated
substring rules hit exactly n / ellip / theta; relabelling appends `_band`, injective; site structure (shared constant latents,
independent unlinked latents per band, deterministic per-band values of linked parameters, one likelihood per band).
Tie: real FitMultiBandPoly / FitMultiBandBSpline (2–6 bands, single and multi-source band fitters, random partitions, orders 0–4,
adversarial band names): site list of build_model() vs `mbsites`; per-band values of linked parameters vs `polylink` / `dot`
given the real link latents; default ranges vs `mbrange`; relabelled keys vs `relabel` with identity of the distribution objects.
Oracle: linked values inside their physical range for coefficients up to ±50; constant parameters fed identically to every band;
joint log-density = Σ of the site log-densities (independent recomputation of the likelihood per band).
"""
from __future__ import annotations

import numpy as np

from .common import Violation, f2h, h2f, run_children

PROP = "C15"
LEAN_TARGETS = ["Props.C15", "driver"]
AUDIT_IMPORTS = ["Props.C15"]
NS = "Pysersic.Props.C15."
OBLIGATIONS = [NS + t for t in [
    "logistic_in_range", "logistic_strictly_inside", "polyLink_in_range", "spline_in_range", "repo_rules", "default_ranges",
    "default_ranges_multi", "rule_bounds", "relabel_append", "relabel_injective", "relabel_pairs_injective", "relabel_pairs_injective_general", "example_latents",
    "example2_latents", "example_likelihood_sites", "example_linked_values",
]]
# kernels whose translated source text (Gen/Kernels.lean) is proved equal to the model kernel this property's theorems are about
GEN_KERNELS = ["restrict_func"]
MIRRORED_FILES = ["pysersic/multiband.py", "pysersic/priors.py"]
ASSUMPTIONS = [
    "scipy B-spline design matrices enter as data; rows non-negative and summing to one is checked on the real matrices each run",
    "FitMultiBandBSpline.__init__ calls jnp.clip(a_min=, a_max=), removed in the pinned JAX: the harness shims jnp.clip inside pysersic.multiband so that the spline link is exercised through the real constructor",
    "linked_params_mean / _scale are estimated by the code from 200 prior samples (deterministic key); they enter the model as data read from the real object",
]
BANDS_POOL = ["g", "r", "i", "1", "2", "e", "y", "ps", "eff", "F444W", "Band_0", "z"]
SINGLE_PARAMS = ["xc", "yc", "flux", "r_eff", "n", "ellip", "theta"]


def gen_cases(rng, n):
    cases = []
    for k in range(n):
        nb = int(rng.integers(2, 7))
        bands = [str(b) for b in rng.choice(BANDS_POOL, nb, replace=False)]
        multi = (k % 4 == 3)
        base = [f"{p}_{j}" for j in range(2) for p in SINGLE_PARAMS] if multi else list(SINGLE_PARAMS)
        if multi:
            base = [p for p in base if not (p.startswith(("r_eff_1", "n_1", "ellip_1", "theta_1")))]      # source 1 is a point source
        perm = list(rng.permutation(base))
        nl = int(rng.integers(1, 4))
        nc = int(rng.integers(0, 3))
        # stratified: every fourth case declares a user range, alternately for a parameter that has a built-in default range
        # (n, ellip, theta) and for one that has none; the polynomial orders 0..4 are cycled through
        user_range = (k % 4 == 1)
        if user_range and (k // 4) % 2 == 0:
            ranged = [p for p in perm if p.split("_")[0] in ("n", "ellip", "theta")]
            if ranged:
                perm.remove(ranged[0])
                perm.insert(0, ranged[0])
        cases.append(dict(kind="bspline" if k % 3 == 2 else "poly", bands=bands, multi=multi, linked=[str(p) for p in perm[:nl]], const=[str(p) for p in perm[nl:nl + nc]],
                          order=int(k % 5),
                          # every other case: bands not given in order of wavelength
                          wavelengths=[float(w) for w in (np.sort(rng.uniform(0.4, 5.0, nb)) if k % 2 == 0 else rng.uniform(0.4, 5.0, nb))],
                          sky=["none", "flat", "tilted-plane"][k % 3], loss=str(rng.choice(["gaussian_loss", "gaussian_loss_w_sys", "student_t_loss"])),
                          # per-band masks: the last band masks pixels the others keep in "last-half"
                          masks=["none", "mixed", "last-half"][(k // 2) % 3],
                          user_range=user_range, big=float(rng.choice([1.0, 1.0, 50.0])), seed=int(rng.integers(0, 2 ** 31))))
        c = cases[-1]
        # bands need not share a loss function: where the case's loss has no nuisance sites, every other case gives the odd bands the other one
        if c["loss"] in ("gaussian_loss", "student_t_loss") and (k // 2) % 2 == 0:
            other = "student_t_loss" if c["loss"] == "gaussian_loss" else "gaussian_loss"
            c["losses"] = [c["loss"] if i % 2 == 0 else other for i in range(nb)]
        # strongly saturated links (|polynomial| ≈ 100): the linked value must still be a number inside its range
        if k % 6 == 4:
            c["all50"] = True          # every link coefficient at +50, the edge of the stated domain
    return cases


def real_eval(payload):
    import jax
    import jax.numpy as jnp
    from numpyro.infer.util import log_density
    import pysersic.multiband as MB
    from . import pyutil as U
    # shim for the pinned JAX: jnp.clip lost the a_min / a_max keywords
    class _JNP:
        def __getattr__(self, name):
            return getattr(jnp, name)

        @staticmethod
        def clip(x, a_min=None, a_max=None, **kw):
            return jnp.clip(x, min=a_min, max=a_max)
    MB.jnp = _JNP()
    out = []
    for c in payload["cases"]:
        try:
            pre = None
            rng = np.random.default_rng(c["seed"])
            N = 10
            fitters, before = [], []
            user_masks = []
            for ib, b in enumerate(c["bands"]):
                data, rms, psf = U.make_images(rng, N)
                loss = getattr(U.L, (c.get("losses") or [c["loss"]] * len(c["bands"]))[ib])
                mstyle = c.get("masks", "none")
                if mstyle == "mixed":
                    mask = U.make_mask(rng, N, ["none", "random", "half"][ib % 3])
                elif mstyle == "last-half":
                    mask = U.make_mask(rng, N, "half") if ib == len(c["bands"]) - 1 else (U.make_mask(rng, N, "random") if ib == 0 else None)
                else:
                    mask = None
                user_masks.append(mask)
                if c["multi"]:
                    cat = dict(x=[4.0, 6.5], y=[5.0, 3.5], flux=[50.0, 20.0], r=[1.5, 1.0], type=["sersic", "pointsource"])
                    kw = dict(sky_guess=0.3, sky_guess_err=0.1) if c["sky"] != "none" else {}
                    prior = U.PR.PySersicMultiPrior(cat, sky_type=c["sky"], **kw)
                    f = U.pysersic.FitMulti(data, rms, psf, prior, mask=mask, loss_func=loss, renderer=U.RD.PixelRenderer)
                else:
                    # every band comes with its own priors (also for parameters that will be declared constant)
                    prior = U.source_prior("sersic", sky_type=c["sky"], xc=N / 2 + 0.3 * ib, yc=N / 2 - 0.2 * ib, flux=float(rng.uniform(50, 100)),
                                           r_eff=float(rng.uniform(1.5, 2.5)), theta=0.3 + 0.2 * ib)
                    f = U.pysersic.FitSingle(data, rms, psf, prior, mask=mask, loss_func=loss, renderer=U.RD.PixelRenderer)
                fitters.append(f)
                before.append(dict(f.prior.dist_dict))
            # direct relabelling of each band's prior (kept even if the multi-band constructor raises)
            pre = []
            for b, f in zip(c["bands"], fitters):
                try:
                    pre.append(dict(band=b, before=list(f.prior.dist_dict), after=list(U.PR.update_prior_suffix(f.prior, "_" + b).dist_dict)))
                except Exception as e:
                    pre.append(dict(band=b, before=list(f.prior.dist_dict), after=None, error=f"{type(e).__name__}: {e}"))
            ur = {}
            if c["user_range"]:
                ur = {c["linked"][0]: [0.7, 3.3]}
            wv_save = jnp.asarray(np.linspace(min(c["wavelengths"]), max(c["wavelengths"]), 3))
            common = dict(fitter_list=fitters, wavelengths=jnp.asarray(c["wavelengths"]), linked_params=list(c["linked"]), const_params=list(c["const"]),
                          band_names=list(c["bands"]), linked_params_range=ur, wv_to_save=wv_save)
            if c["kind"] == "poly":
                top = MB.FitMultiBandPoly(poly_order=c["order"], **common)
            else:
                top = MB.FitMultiBandBSpline(N_knots=4, spline_k=2, **common)
            # relabelling: keys and object identity
            relabel = []
            for b, bf, f in zip(c["bands"], before, top.fitter_list):
                after = f.prior.dist_dict
                def desc(d):
                    t = d.transforms[0]
                    bd = d.base_dist
                    return (type(bd).__name__, float(t.loc), float(t.scale), str(getattr(bd, "low", None)), str(getattr(bd, "high", None)))
                # the fitter list is deep-copied by the constructor: compare parameters there, object identity on a direct call
                direct = U.PR.update_prior_suffix(fitters[c["bands"].index(b)].prior, "_" + b)
                orig_dd = fitters[c["bands"].index(b)].prior.dist_dict
                relabel.append(dict(band=b, keys_before=list(bf), keys_after=list(after),
                                    # (eqx.tree_at rebuilds the distribution pytrees, so "identical" is equality of family and parameters)
                                    same_objects=all(k + "_" + b in direct.dist_dict and desc(direct.dist_dict[k + "_" + b]) == desc(v) for k, v in orig_dd.items())
                                    and all(k + "_" + b in after and desc(after[k + "_" + b]) == desc(v) for k, v in bf.items())))
            model = top.build_model(return_model=True)
            lat, _ = U.sample_latents(model, seed=c["seed"] % 991)
            for k in list(lat):
                if k.endswith("_poly_coeff") or k.startswith("bspl_w_"):
                    lat[k] = lat[k] * c["big"] if k.endswith("_poly_coeff") else lat[k]
                    if c.get("all50") and k.endswith("_poly_coeff"):
                        lat[k] = jnp.full_like(lat[k], 50.0)
            tr = U.trace_with(model, lat)
            sites = {}
            for name, s in tr.items():
                if s["type"] == "sample":
                    lp = np.asarray(s["fn"].log_prob(s["value"]), dtype=np.float64)
                    sites[name] = dict(kind="observed" if s["is_observed"] else "latent", value=np.asarray(s["value"], dtype=np.float64),
                                       logp=float(np.sum(lp)))
                    if s["is_observed"]:
                        sites[name]["pix"] = lp
                elif s["type"] == "deterministic":
                    sites[name] = dict(kind="deterministic", value=np.asarray(s["value"], dtype=np.float64))
            total = float(log_density(model, (), {}, lat)[0])
            info = dict(sites=sites, total=total, relabel=relabel, ranges={k: [float(v[0]), float(v[1])] for k, v in top.linked_params_range.items()},
                        mean={k: float(v) for k, v in top.linked_params_mean.items()}, scale={k: float(v) for k, v in top.linked_params_scale.items()},
                        wv_normed=[float(x) for x in np.asarray(top.wv_normed)], unlinked=list(top.unlinked_params), param_names=list(top.param_names),
                        sky_params=[k[: -len("_" + c["bands"][0])] for k in top.fitter_list[0].prior.sky_prior.dist_dict])
            # per band: what the band's own renderer gives for the band's parameter values (sky added in closed form by the oracle),
            # and the band's own data / rms / mask as the user supplied them
            per_band = []
            for ib, (b, f) in enumerate(zip(c["bands"], top.fitter_list)):
                def val(pname, b=b):
                    for key in (f"{pname}_{b}", pname):
                        if key in tr and tr[key]["type"] in ("sample", "deterministic"):
                            return tr[key]["value"]
                    raise KeyError(pname)
                if c["multi"]:
                    pnames = list(top.param_names)
                    params = {pn: val(pn) for pn in pnames}
                    bare = f.renderer.render_for_model(params, f.prior.catalog["type"], suffix="")
                else:
                    params = {pn: val(pn) for pn in SINGLE_PARAMS}
                    bare = f.renderer.render_source(params, "sersic", suffix="")
                skyv = {}
                for sk in ("sky_back", "sky_x_sl", "sky_y_sl"):
                    try:
                        skyv[sk] = float(val(sk))
                    except KeyError:
                        pass
                um = user_masks[ib]
                per_band.append(dict(bare=np.asarray(bare, dtype=np.float64), skyv=skyv, data=np.asarray(fitters[ib].data, dtype=np.float64),
                                     rms=np.asarray(fitters[ib].rms, dtype=np.float64), user_mask=None if um is None else np.asarray(um) != 0))
            info["per_band"] = per_band
            info["model_stack"] = np.asarray(tr["model"]["value"], dtype=np.float64) if "model" in tr else None
            if c["kind"] == "bspline":
                info["dmat"] = np.asarray(top.dmat_bands, dtype=np.float64).tolist()
            # constant parameters: the object sampled once
            info["const_prior_is_band0"] = all(type(top.const_prior_dict[p]) is type(top.fitter_list[0].prior.dist_dict[p + "_" + c["bands"][0]]) for p in c["const"])
            def _desc(d):
                t = d.transforms[0]
                bd = d.base_dist
                return [type(bd).__name__, float(t.loc), float(t.scale), str(getattr(bd, "low", None)), str(getattr(bd, "high", None))]
            info["const_prior_desc"] = {p: _desc(top.const_prior_dict[p]) for p in c["const"]}
            info["band0_prior_desc"] = {p: _desc(before[0][p]) for p in c["const"] if p in before[0]}
            info["unlinked_prior_own_band"] = True
            info["relabel_direct"] = pre
            out.append(info)
        except Exception as e:
            import traceback
            out.append(dict(error=f"{type(e).__name__}: {e}", tb=traceback.format_exc()[-700:], relabel_direct=pre))
    return out


def judge(ctx, c, r, x64):
    diffs, viol = [], []
    def v(clause, msg):
        return Violation(f"C15:{clause}:{c['kind']}", f"{c['kind']} link, bands {c['bands']}, linked {c['linked']}, const {c['const']}, multi={c['multi']}: {msg}",
                         dict(kind="oracle", case=c))
    # relabelling is "append the band to every name": checked on the direct call, also when the constructor fails afterwards
    for rb in (r.get("relabel_direct") or []):
        want = [k + "_" + rb["band"] for k in rb["before"]]
        if rb["after"] is None:
            viol.append(v("relabel-raises", f"update_prior_suffix(prior, '_{rb['band']}') raised {rb.get('error')}"))
        elif sorted(rb["after"]) != sorted(want):
            odd = sorted(set(rb["after"]) ^ set(want))[:6]
            viol.append(v("relabel-append", f"band {rb['band']}: relabelled names are not <name>_{rb['band']} for every name (differences: {odd}); "
                                            "names no longer map back to exactly one (parameter, band)"))
    if "error" in r:
        if not x64:
            viol.append(v("raises", f"a valid multi-band configuration raised {r['error'][:160]}"))
        return [f"real code raised {r['error']}"], viol, r.get("tb")
    sites = r["sites"]
    loss_k = c["loss"]
    lst = lambda xs: f"{len(xs)} " + " ".join(xs) if xs else "0"  # noqa: E731
    lines = [f"mbsites {c['kind']} {lst(c['bands'])} {lst(c['linked'])} {lst(c['const'])} {lst(r['unlinked'])} {lst(r['sky_params'])} {loss_k} 1"]
    # link values
    link_reqs = []
    for p in c["linked"]:
        rg = r["ranges"].get(p)
        for i, b in enumerate(c["bands"]):
            if c["kind"] == "poly":
                co = sites[p + "_poly_coeff"]["value"].ravel()
                if i == 0 and len(co) != c["order"] + 1:
                    viol.append(v("poly-order", f"linked {p}: declared polynomial order {c['order']} but {len(co)} coefficients are sampled"))
                lines.append(f"polylink {len(co)} " + " ".join(f2h(x) for x in co) + f" {f2h(r['wv_normed'][i])} {'1' if rg else '0'} "
                             f"{f2h(rg[0] if rg else 0.0)} {f2h(rg[1] if rg else 0.0)} {f2h(r['mean'][p])} {f2h(r['scale'][p])}")
            else:
                w = sites["bspl_w_" + p]["value"].ravel()
                row = r["dmat"][i]
                lines.append(f"dot {len(row)} " + " ".join(f2h(x) for x in row) + " " + " ".join(f2h(x) for x in w))
            link_reqs.append((p, b))
    names_for_range = list(c["linked"])
    # a constant parameter is sampled once, from the FIRST band's prior (what the class documents and what the joint density is recomputed with)
    for p, dsc in (r.get("const_prior_desc") or {}).items():
        b0 = (r.get("band0_prior_desc") or {}).get(p)
        if b0 is not None and not (dsc[0] == b0[0] and abs(dsc[1] - b0[1]) <= 1e-6 * max(1, abs(b0[1])) and abs(dsc[2] - b0[2]) <= 1e-6 * max(1, abs(b0[2])) and dsc[3:] == b0[3:]):
            viol.append(v("const-prior", f"constant parameter {p} is given the prior {dsc}, the first band's prior for it is {b0}"))
    for p in names_for_range:
        lines.append(f"mbrange {p}")
    rl_reqs = []
    for rb in r["relabel"]:
        for k in rb["keys_before"]:
            lines.append(f"relabel - _{rb['band']} {k}")
            rl_reqs.append((rb, k))
    rep = ctx.driver.ask(lines)
    # sites
    msites = dict(tok.rsplit(":", 1) for tok in rep[0].split(" ") if tok)
    rsites = {k: s["kind"] for k, s in sites.items()}
    if msites != rsites:
        diffs.append(f"sites differ: real−model {sorted(set(rsites.items()) - set(msites.items()))[:6]} model−real {sorted(set(msites.items()) - set(rsites.items()))[:6]}")
    pos = 1
    tol = 1e-9 if x64 else 2e-5
    for (p, b) in link_reqs:
        mv = h2f(rep[pos])
        pos += 1
        rv = float(sites[f"{p}_{b}"]["value"])
        if not abs(rv - mv) <= tol * max(1.0, abs(mv)):
            diffs.append(f"value of linked {p} in band {b}: real {rv!r} model {mv!r}")
        # oracle: inside the range that applies — the user's where one was declared, else the physical one of n / ellip / theta
        if c["user_range"] and p == c["linked"][0]:
            rg = [0.7, 3.3]
        else:
            rg = {"n": [0.65, 8.0], "ellip": [0.0, 0.9], "theta": [0.0, 2 * np.pi]}.get(p.split("_")[0] if not p.startswith("r_eff") else "r_eff")
        if rg and not (rg[0] - 1e-6 * max(1, abs(rg[0])) <= rv <= rg[1] + 1e-6 * max(1, abs(rg[1]))):
            viol.append(v("range", f"linked {p} in band {b} = {rv} outside its range {rg}"))
    for p in names_for_range:
        rr = rep[pos]
        pos += 1
        real_rg = r["ranges"].get(p)
        if c["user_range"] and p == c["linked"][0]:
            if real_rg != [0.7, 3.3]:
                viol.append(v("user-range", f"user range for {p} not honoured: {real_rg}"))
            continue
        if rr == "none":
            if real_rg is not None:
                diffs.append(f"default range of {p}: real {real_rg} model none")
        else:
            _, lo, hi = rr.split(" ")
            if real_rg is None or abs(real_rg[0] - h2f(lo)) > 1e-12 or abs(real_rg[1] - h2f(hi)) > 1e-6:
                diffs.append(f"default range of {p}: real {real_rg} model [{h2f(lo)}, {h2f(hi)}]")
        # oracle: the property's own table
        base = p.split("_")[0] if not p.startswith("r_eff") else "r_eff"
        want = {"n": [0.65, 8.0], "ellip": [0.0, 0.9], "theta": [0.0, 2 * np.pi]}.get(base)
        if (want is None) != (real_rg is None) or (want and (abs(want[0] - real_rg[0]) > 1e-9 or abs(want[1] - real_rg[1]) > 1e-6)):
            viol.append(v("default-range", f"default range of {p} is {real_rg}, physical range {want}"))
    for (rb, k) in rl_reqs:
        mk = rep[pos]
        pos += 1
        if mk not in rb["keys_after"]:
            diffs.append(f"relabelled key of {k} in band {rb['band']}: model {mk} not among real keys")
    for rb in r["relabel"]:
        if len(set(rb["keys_after"])) != len(rb["keys_before"]):
            viol.append(v("relabel-bijection", f"band {rb['band']}: {len(rb['keys_before'])} keys became {len(set(rb['keys_after']))} distinct keys"))
        if not rb["same_objects"]:
            viol.append(v("relabel-objects", f"band {rb['band']}: relabelling changed a distribution object"))
    # oracle: structure of sharing
    for p in c["const"]:
        n_lat = [k for k, s in sites.items() if s["kind"] == "latent" and (k == p + "_base" or k == p)]
        per_band = [k for k in sites if any(k == f"{p}_{b}" or k == f"{p}_{b}_base" for b in c["bands"])]
        if len(n_lat) != 1 or per_band:
            viol.append(v("const-shared", f"constant parameter {p}: latent sites {n_lat}, per-band sites {per_band}"))
    for p in r["unlinked"]:
        for b in c["bands"]:
            if sites.get(f"{p}_{b}_base", {}).get("kind") != "latent":
                viol.append(v("unlinked-independent", f"unlinked parameter {p} has no independent latent in band {b}"))
                break
    # oracle: each band is rendered with its own parameters and sky, and judged against its own data, rms and mask
    if not x64 and r.get("per_band") is not None:
        from . import c07
        N = r["per_band"][0]["bare"].shape[-1]
        yy, xx = np.mgrid[:N, :N].astype(float)
        for ib, (b, pb) in enumerate(zip(c["bands"], r["per_band"])):
            sv = pb["skyv"]
            if c["sky"] == "none":
                sky = 0.0
            elif c["sky"] == "flat":
                sky = sv.get("sky_back", 0.0)
            else:
                sky = sv.get("sky_back", 0.0) + (xx - N / 2) * sv.get("sky_x_sl", 0.0) + (yy - N / 2) * sv.get("sky_y_sl", 0.0)
            exp_img = pb["bare"] + sky
            scale = max(float(np.abs(exp_img).max()), 1e-30)
            if r.get("model_stack") is not None:
                got = r["model_stack"][ib]
                if not np.abs(got - exp_img).max() <= 2e-5 * scale:
                    viol.append(v("band-image", f"band {b}: the band's model image differs from render(band parameters) + sky(band sky parameters) by "
                                                f"{np.abs(got - exp_img).max():.3e} (scale {scale:.3g}, sky {c['sky']})"))
                    break
            good = np.ones((N, N), bool) if pb["user_mask"] is None else ~pb["user_mask"]
            lname = "Loss_" + b
            if lname in sites and "pix" in sites[lname]:
                nuis = dict(frac_rms_increase=0.0, sys_rms_base=0.0, outlier_frac_base=0.0, rms_frac=0.0)
                det = {}
                loss_b = (c.get("losses") or [c["loss"]] * len(c["bands"]))[ib]
                if loss_b == "gaussian_loss_w_sys":
                    base = float(sites["sys_rms_base_" + b]["value"])
                    det["sys_rms_" + b] = dict(value=base * float(np.mean(pb["rms"][good])))
                lc = dict(loss=loss_b, m=exp_img.ravel(), d=pb["data"].ravel(), r=pb["rms"].ravel(), good=good.ravel(), nuis=nuis, suffix="_" + b)
                doc = c07.doc_logpdf(lc, det)
                exp = np.where(good.ravel(), doc, 0.0)
                got = sites[lname]["pix"].ravel()
                ok = np.abs(got - exp) <= 1e-4 + 4e-5 * np.abs(exp)
                if not ok.all() and np.isfinite(exp).all():
                    i = int(np.argmin(ok))
                    viol.append(v("band-likelihood", f"band {b}: per-pixel log-likelihood {got[i]:.7g} differs from the documented density of the band's own "
                                                     f"data/rms/mask {exp[i]:.7g} at pixel {i} (unmasked={bool(good.ravel()[i])}, masks {c.get('masks')})"))
                    break
    # oracle: the spline link is the declared B-spline (uniform knots padded by 10 % of the wavelength range) evaluated at each band's own wavelength
    if c["kind"] == "bspline" and "dmat" in r:
        from scipy.interpolate import make_interp_spline
        wl = np.asarray(c["wavelengths"], dtype=np.float32).astype(float)
        lo, hi = wl.min(), wl.max()
        pad = (hi - lo) / 10.0
        cls = make_interp_spline(x=np.linspace(lo - pad, hi + pad, num=4, endpoint=True), y=np.ones(4), k=2)
        want = cls.design_matrix(wl, cls.t, k=2).toarray()
        got = np.asarray(r["dmat"])
        if got.shape != want.shape or not np.abs(got - want).max() <= 2e-5:
            viol.append(v("spline-at-band-wavelength", f"design matrix row of a band is not the B-spline basis at that band's wavelength "
                                                       f"(max difference {np.abs(got - want).max() if got.shape == want.shape else 'shape'}; wavelengths {c['wavelengths']})"))
    lik = [k for k, s in sites.items() if s["kind"] == "observed"]
    if len(lik) != len(c["bands"]):
        viol.append(v("likelihood-sites", f"{len(lik)} likelihood sites for {len(c['bands'])} bands: {lik}"))
    ssum = sum(s["logp"] for s in sites.values() if s["kind"] in ("latent", "observed"))
    if np.isfinite(r["total"]) and not abs(ssum - r["total"]) <= (1e-7 if x64 else 2e-3) * max(1.0, abs(ssum)):
        viol.append(v("joint", f"log_density {r['total']} ≠ Σ site log-densities {ssum}"))
    if c["kind"] == "bspline":
        d = np.asarray(r["dmat"])
        if (d < -1e-12).any() or np.abs(d.sum(axis=1) - 1).max() > (1e-9 if x64 else 1e-6):
            diffs.append(f"design matrix rows are not convex weights (min {d.min()}, row sums {d.sum(axis=1)}): hypothesis of spline_in_range fails")
    return diffs, viol, None


def evaluate(ctx, cases):
    from . import render_common as RC
    w = min(ctx.workers, 6)
    chunks = RC.chunked(cases, w)
    r64 = RC.unchunk(run_children("c15", "real_eval", [dict(cases=ch) for ch in chunks], x64=True, workers=w), len(cases))
    r32 = RC.unchunk(run_children("c15", "real_eval", [dict(cases=ch) for ch in chunks], x64=False, workers=w), len(cases))
    dis, viol = [], []
    for c, a, b in zip(cases, r64, r32):
        d1, _, tb1 = judge(ctx, c, a, True)
        d2, v2, tb2 = judge(ctx, c, b, False)
        if d1 or d2:
            dis.append(dict(case=c, x64=d1[:3], f32=d2[:3], tb=tb1 or tb2))
        viol += v2
    return dis, viol


def correspondence(ctx):
    rng = ctx.rng("corr")
    cases = gen_cases(rng, 24 if ctx.tier == "quick" else 400)
    dis, viol = evaluate(ctx, cases)
    stats = dict(poly=sum(c["kind"] == "poly" for c in cases), bspline=sum(c["kind"] == "bspline" for c in cases), multi=sum(c["multi"] for c in cases),
                 bands={n: sum(len(c["bands"]) == n for c in cases) for n in range(2, 7)}, orders=sorted({c["order"] for c in cases}),
                 saturating=sum(c["big"] > 1 for c in cases), band_names=sorted({b for c in cases for b in c["bands"]}))
    return dict(name="FitMultiBandPoly / FitMultiBandBSpline build_model() vs Pysersic.MultiBand.{sites, polyLink, dot, defaultRule, nameChange}",
                evaluations=2 * len(cases), distinct_nontrivial=len({(c['kind'], len(c['bands']), tuple(c['linked']), tuple(c['const']), c['multi']) for c in cases}),
                rule="seeded (link kind, 2–6 bands drawn from names overlapping parameter fragments, single / multi-source band fitters, random linked/const/unlinked "
                     "partitions, polynomial orders 0–4, user ranges, coefficients ×50): site list exact, linked values 1e-9 (float64) / 2e-5 (float32), default ranges, "
                     "relabelled keys and object identity",
                samples=[{k: c[k] for k in ("kind", "bands", "linked", "const", "multi")} for c in cases[:3]], distribution=stats, disagreements=dis, violations=viol)


def oracle_search(ctx, hints):
    rng = ctx.rng("search")
    cases = [h["case"] for h in hints[:10] if isinstance(h.get("case"), dict) and "bands" in h["case"]] + gen_cases(rng, 36)
    return evaluate(ctx, cases)[1]


def replay(ctx, payload):
    return evaluate(ctx, [payload["case"]])[1]
