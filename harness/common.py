"""Shared plumbing for the pysersic verification checks.

Everything a check needs that is not specific to one property lives here:
seeding, the Lean build / audit, the line-protocol driver, evidence, replay and
known-finding files, and the verdict logic.
"""
from __future__ import annotations

import contextlib
import fcntl
import hashlib
import json
import os
import re
import struct
import subprocess
import sys
import time
from dataclasses import dataclass, field
from pathlib import Path
from typing import Any, Callable, Iterable

VERIF = Path(__file__).resolve().parent.parent
# development / parallel regression only: another Lean tree, another repo tree, another output directory
LEAN_DIR = Path(os.environ.get("VERIF_LEAN_DIR", str(VERIF / "lean")))
REPO = Path(os.environ.get("PYSERSIC_REPO", "/repo"))
DRIVER = LEAN_DIR / ".lake" / "build" / "bin" / "driver"
OUT_DIR = Path(os.environ.get("VERIF_OUT_DIR", str(VERIF)))
EVIDENCE_DIR = OUT_DIR / "evidence"
REPLAY_DIR = OUT_DIR / "replays"
KNOWN_FINDINGS = VERIF / "known_findings.json"
ALLOWED_AXIOMS = {"propext", "Classical.choice", "Quot.sound"}
FORBIDDEN_SRC = re.compile(
    r"\b(sorry|admit|native_decide|bv_decide|implemented_by|maxHeartbeats\s+0)\b|^\s*axiom\s|\bunsafe\s"
)

EXIT_OK, EXIT_VIOLATION, EXIT_INFRA = 0, 1, 2


class InfraError(RuntimeError):
    """Something about the machinery (not the property) failed: exit 2."""


def seed_from_env() -> int:
    try:
        return int(os.environ.get("VERIF_SEED", "0"))
    except ValueError:
        return 0


def rng_for(prop: str, seed: int, stream: str = ""):
    import numpy as np

    h = hashlib.sha256(f"{prop}/{seed}/{stream}".encode()).digest()
    return np.random.default_rng(int.from_bytes(h[:8], "big"))


# ----------------------------------------------------------------------------
# hex floats across the process boundary
# ----------------------------------------------------------------------------

def f2h(x: float) -> str:
    return struct.pack(">d", float(x)).hex()


def h2f(s: str) -> float:
    return struct.unpack(">d", bytes.fromhex(s))[0]


# ----------------------------------------------------------------------------
# Lean build, audit, driver
# ----------------------------------------------------------------------------

@contextlib.contextmanager
def lake_lock():
    LEAN_DIR.mkdir(exist_ok=True)
    lock = open(LEAN_DIR / ".lake.lock", "w")
    try:
        fcntl.flock(lock, fcntl.LOCK_EX)
        yield
    finally:
        fcntl.flock(lock, fcntl.LOCK_UN)
        lock.close()


@dataclass
class BuildResult:
    ok: bool
    log: str
    failed_modules: list[str]
    wall_s: float


def lake_build(targets: Iterable[str], timeout: int = 3600) -> BuildResult:
    """`lake build <targets>`; incremental, serialised across concurrent checks."""
    t0 = time.time()
    cmd = ["lake", "build", *targets]
    with lake_lock():
        try:
            p = subprocess.run(
                cmd, cwd=LEAN_DIR, capture_output=True, text=True, timeout=timeout
            )
        except subprocess.TimeoutExpired as e:
            raise InfraError(f"lake build timed out: {e}")
    log = p.stdout + p.stderr
    failed = re.findall(r"^✖ \[\d+/\d+\] (?:Building|Built) (\S+)", log, flags=re.M)
    failed += re.findall(r"^- (\S+)$", log, flags=re.M)
    return BuildResult(p.returncode == 0, log, sorted(set(failed)), time.time() - t0)


@dataclass
class AuditResult:
    ok: bool
    per_theorem: dict[str, list[str]]  # theorem -> axioms it depends on
    missing: list[str]
    bad_axioms: dict[str, list[str]]
    forbidden_hits: list[str]
    log: str
    cmd: str


def grep_forbidden(files: Iterable[Path]) -> list[str]:
    hits = []
    for f in files:
        in_block = 0
        for i, line in enumerate(f.read_text().splitlines(), 1):
            # strip block comments (possibly nested) and line comments
            out = []
            j = 0
            while j < len(line):
                if line.startswith("/-", j):
                    in_block += 1
                    j += 2
                elif line.startswith("-/", j) and in_block:
                    in_block -= 1
                    j += 2
                elif in_block:
                    j += 1
                elif line.startswith("--", j):
                    break
                else:
                    out.append(line[j])
                    j += 1
            code = "".join(out)
            if FORBIDDEN_SRC.search(code):
                hits.append(f"{f.relative_to(VERIF)}:{i}: {code.strip()}")
    return hits


def audit(prop: str, imports: list[str], theorems: list[str]) -> AuditResult:
    """`#print axioms` for every obligation; each must exist and use only the
    three standard axioms.  Also greps the Lean sources for escape hatches."""
    audit_dir = LEAN_DIR / ".lake" / "audit"
    audit_dir.mkdir(parents=True, exist_ok=True)
    src = audit_dir / f"Audit_{prop}.lean"
    body = "".join(f"import {m}\n" for m in imports)
    for t in theorems:
        body += f"#print axioms {t}\n"
    src.write_text(body)
    cmd = ["lake", "env", "lean", str(src)]
    p = subprocess.run(cmd, cwd=LEAN_DIR, capture_output=True, text=True, timeout=1800)
    log = p.stdout + p.stderr
    per: dict[str, list[str]] = {}
    # outputs: "'name' depends on axioms: [a, b]" or "'name' does not depend on any axioms"
    flat = re.sub(r"\s+", " ", log)
    for m in re.finditer(r"'([^']+)' depends on axioms: \[([^\]]*)\]", flat):
        per[m.group(1)] = [a.strip() for a in m.group(2).split(",") if a.strip()]
    for m in re.finditer(r"'([^']+)' does not depend on any axioms", flat):
        per[m.group(1)] = []
    missing = [t for t in theorems if t not in per]
    bad = {t: [a for a in ax if a not in ALLOWED_AXIOMS] for t, ax in per.items()}
    bad = {t: a for t, a in bad.items() if a}
    lean_files = [f for f in LEAN_DIR.rglob("*.lean") if ".lake" not in f.parts]
    hits = grep_forbidden(lean_files)
    ok = p.returncode == 0 and not missing and not bad and not hits
    return AuditResult(ok, per, missing, bad, hits, log, "cd lean && " + " ".join(cmd[:3]) + f" .lake/audit/Audit_{prop}.lean")


def leanchecker(modules: list[str]) -> tuple[bool, str, float]:
    """`lake env leanchecker <modules>`: the toolchain's independent re-checker of the compiled .olean files (thorough tier)."""
    t0 = time.time()
    with lake_lock():
        try:
            p = subprocess.run(["lake", "env", "leanchecker", *modules], cwd=LEAN_DIR, capture_output=True, text=True, timeout=3000)
        except subprocess.TimeoutExpired as e:
            raise InfraError(f"leanchecker timed out: {e}")
    return p.returncode == 0, p.stdout + p.stderr, time.time() - t0


class Driver:
    """Batch interface to the compiled Lean model (`lean/.lake/build/bin/driver`)."""

    def __init__(self):
        if not DRIVER.exists():
            raise InfraError(f"driver executable missing: {DRIVER} (run ./setup.sh)")

    def ask(self, lines: list[str], timeout: int = 1800) -> list[str]:
        if not lines:
            return []
        for ln in lines:
            if "\n" in ln:
                raise InfraError("newline inside a protocol line")
        p = subprocess.run(
            [str(DRIVER)], input="\n".join(lines) + "\n", capture_output=True, text=True,
            timeout=timeout,
        )
        if p.returncode != 0:
            raise InfraError(f"driver exited {p.returncode}: {p.stderr[-2000:]}")
        out = p.stdout.split("\n")
        if out and out[-1] == "":
            out.pop()
        if len(out) != len(lines):
            raise InfraError(f"driver returned {len(out)} lines for {len(lines)} requests")
        return out


def run_child(mod: str, func: str, payload, x64: bool = False, timeout: int = 3600):
    """Call harness.<mod>.<func>(payload) in a fresh interpreter; x64 switches JAX to float64."""
    import pickle
    env = dict(os.environ)
    env["JAX_ENABLE_X64"] = "1" if x64 else "0"
    env["PYTHONPATH"] = str(VERIF) + os.pathsep + (str(REPO) + os.pathsep if str(REPO) != "/repo" else "") + env.get("PYTHONPATH", "")
    env.setdefault("JAX_PLATFORMS", "cpu")
    env["PYTHONWARNINGS"] = "ignore"
    p = subprocess.run([sys.executable, "-m", "harness.child"], input=pickle.dumps((mod, func, payload)),
                       capture_output=True, cwd=VERIF, env=env, timeout=timeout)
    if p.returncode != 0:
        raise InfraError(f"child {mod}.{func} failed ({p.returncode}): {p.stderr.decode(errors='replace')[-3000:]}")
    return pickle.loads(p.stdout)


def run_children(mod: str, func: str, payloads: list, x64: bool = False, workers: int = 8, timeout: int = 3600):
    """Several children in parallel (one per payload chunk)."""
    from concurrent.futures import ThreadPoolExecutor
    if not payloads:
        return []
    with ThreadPoolExecutor(max_workers=max(1, min(workers, len(payloads)))) as ex:
        return list(ex.map(lambda pl: run_child(mod, func, pl, x64=x64, timeout=timeout), payloads))


# ----------------------------------------------------------------------------
# findings, replay, evidence
# ----------------------------------------------------------------------------

@dataclass
class Violation:
    """A concrete input on which the *property's own criterion* fails on the real code."""
    signature: str          # stable identifier of the failing input / call site / history
    what: str               # one-line human description
    replay: dict            # enough to re-run it


@dataclass
class Broken:
    """A tie or obligation that no longer checks (not by itself a violation)."""
    kind: str               # 'build' | 'audit' | 'side-condition' | 'correspondence'
    name: str               # theorem / correspondence name
    detail: str
    hints: list = field(default_factory=list)  # inputs on which model and code disagreed


def load_known_findings(prop: str) -> tuple[dict[str, dict], list[dict]]:
    if not KNOWN_FINDINGS.exists():
        return {}, []
    data = json.loads(KNOWN_FINDINGS.read_text())
    known = {e["signature"]: e for e in data.get("known", []) if e["property"] == prop}
    fixed = [e for e in data.get("fixed", []) if e["property"] == prop]
    return known, fixed


def write_replay(prop: str, seed: int, payload: dict) -> Path:
    REPLAY_DIR.mkdir(parents=True, exist_ok=True)
    h = hashlib.sha256(json.dumps(payload, sort_keys=True, default=str).encode()).hexdigest()[:10]
    path = REPLAY_DIR / f"{prop}-{h}.json"
    path.write_text(json.dumps(payload, indent=1, sort_keys=True, default=str))
    return path


def file_sha(path: Path) -> str:
    return hashlib.sha256(path.read_bytes()).hexdigest()


def write_evidence(prop: str, tier: str, seed: int, coverage: dict, wall_s: float,
                   violations: int, assumptions: list[str]) -> None:
    EVIDENCE_DIR.mkdir(parents=True, exist_ok=True)
    ev = {
        "property_id": prop,
        "tier": tier,
        "seed": int(seed),
        "level": "proof",
        "coverage": coverage,
        "assumptions": assumptions,
        "wall_s": round(float(wall_s), 2),
        "violations": int(violations),
    }
    (EVIDENCE_DIR / f"{prop}.json").write_text(json.dumps(ev, indent=1, default=str))


TRUSTED_BASE = [
    "Lean 4.33.0 kernel; Mathlib v4.33.0 where imported",
    "axioms: propext, Classical.choice, Quot.sound only (audited with #print axioms on every obligation each run); no native_decide, no bv_decide, no sorry/admit, no axioms of our own",
    "tools/extract.py: AST extraction of constants/tables from /repo into lean/PysersicModel/Gen/Consts.lean (cross-checked by the behavioural correspondence)",
    "tools/translate.py: translation of the straight-line scalar kernels of /repo into lean/PysersicModel/Gen/Kernels.lean (its reading of Python is validated each run by evaluating the translated definitions at Float against the real functions; a kernel it cannot read keeps the committed text)",
    "harness/*.py and the compiled driver's I/O (correspondence between the executable Lean model and the real code on identical inputs)",
    "theorems speak about ideal real/integer/string semantics of the model; IEEE rounding, XLA, numpyro handlers and third-party libraries are modelled, not verified (see DESIGN.md section 6)",
]
